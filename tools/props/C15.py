"""C15 — Redaction removes every targeted value and nothing else (DESIGN.md 5.C15)."""
import json

import vlib
from fam import kfltext as K

KNOWN_CLASSES = ("wildcard-before-hop", "hop-after-xml", "xml-indexed-leaf", "xml-repeated-unindexed")


def judge(ctx, case, out):
    """-> None | ('known', cls) | ('violation', clause, detail)"""
    bad = K.c15_oracle(case["tree"], case["specs"], out)
    if bad is None:
        return None
    classes = set()
    for sp in case["specs"]:
        classes |= K.classify_path(sp, case["tree"])
    listed = {f.get("class") for f in ctx.load_known()}
    for cls in KNOWN_CLASSES:
        if cls in classes and cls in listed:
            return ("known", cls)
    return ("violation", bad[0], bad[1])


def run_cases(ctx, cases):
    res, err = K.run_redact(ctx, [(c["query"], c["record"]) for c in cases])
    if res is None:
        ctx.broken.append("K_redact: harness failed: " + err[-300:])
        return None
    return res


def shrink(ctx, case, clause):
    """Smaller path set (then fewer top-level keys) that still violates the same clause."""
    def fails(c):
        r = run_cases(ctx, [c])
        if not r:
            return False
        j = judge(ctx, c, r[0])
        return j is not None and j[0] == "violation" and j[1] == clause
    cur = case
    changed = True
    while changed:
        changed = False
        if len(cur["specs"]) > 1:
            for i in range(len(cur["specs"])):
                specs = cur["specs"][:i] + cur["specs"][i + 1:]
                cand = dict(cur, specs=specs, forms=cur["forms"][:i] + cur["forms"][i + 1:],
                            query="redact(%s)" % ", ".join('"%s"' % K.render_path(s) for s in specs))
                if fails(cand):
                    cur, changed = cand, True
                    break
        if not changed and isinstance(cur["tree"], dict) and len(cur["tree"]) > 1:
            for k in list(cur["tree"]):
                tree = {kk: v for kk, v in cur["tree"].items() if kk != k}
                cand = dict(cur, tree=tree, record=json.dumps(K.render(tree), separators=(",", ":")))
                if fails(cand):
                    cur, changed = cand, True
                    break
    return cur


CORPUS = [
    # (query, record): witnesses of the repaired defects and of the rows of eval_test.go
    ('redact("a[*].b")', {"a": [{"b": "zq0001x"}, {"c": "zq0002x"}]}, [(("child", "a"), ("wild", "[*]"), ("child", "b"))]),
    ('redact("a.*.b")', {"a": {"x": {"b": "zq0001x"}, "y": {"c": "zq0002x"}, "z": 7000003}}, [(("child", "a"), ("wild", ".*"), ("child", "b"))]),
    ('redact("a..b")', {"a": [{"b": "zq0001x"}, {"c": {"b": {"b": "zq0002x"}}}], "b": "zq0003x"}, [(("child", "a"), ("desc",), ("child", "b"))]),
    ('redact("..a.b")', {"a": {"b": "zq0001x"}, "c": {"a": {"b": "zq0002x"}}}, [(("desc",), ("child", "a"), ("child", "b"))]),
    ('redact("a.b.xml().r.x")', {"a": {"b": K.Doc("xml", False, {"r": {"x": "zq0001x", "y": "zq0002x"}})}},
     [(("child", "a"), ("child", "b"), ("xml",), ("xchild", "r"), ("xchild", "x"))]),
    ('redact("a.b.xml().r.z")', {"a": {"b": K.Doc("xml", False, {"r": {"x": "zq0001x", "y": "zq0002x"}})}},
     [(("child", "a"), ("child", "b"), ("xml",), ("xchild", "r"), ("xchild", "z"))]),
    ('redact("model", "brand.name")', {"id": 7114905, "model": "zq0001x", "brand": {"name": "zq0002x"}, "year": 7002021},
     [(("child", "model"),), (("child", "brand"), ("child", "name"))]),
    ('redact("modelx", "..name")', {"id": 7114905, "model": "zq0001x", "brand": {"name": ["zq0002x", "zq0003x"]}},
     [(("child", "modelx"),), (("desc",), ("child", "name"))]),
    # an index counted from the end under several parents of different lengths
    ('redact("rows[*][-1]")', {"rows": [["zq0001x", "zq0002x", "zq0003x"], ["zq0004x", "zq0005x"], ["zq0006x", "zq0007x", "zq0008x", "zq0009x"]]},
     [(("child", "rows"), ("wild", "[*]"), ("nth", -1))]),
    ('redact("items[*].tags[-2]")', {"items": [{"tags": ["zq0001x", "zq0002x"]}, {"tags": ["zq0003x", "zq0004x", "zq0005x"]}, {"tags": ["zq0006x", "zq0007x", "zq0008x", "zq0009x"]}]},
     [(("child", "items"), ("wild", "[*]"), ("child", "tags"), ("nth", -2))]),
    ('redact("..tags[-1]")', {"a": {"tags": ["zq0001x", "zq0002x", "zq0003x"]}, "b": {"tags": ["zq0004x"]}, "c": [{"tags": ["zq0005x", "zq0006x"]}]},
     [(("desc",), ("child", "tags"), ("nth", -1))]),
    ('redact("rows[*][1]")', {"rows": [["zq0001x", "zq0002x", "zq0003x"], ["zq0004x", "zq0005x"], ["zq0006x"]]},
     [(("child", "rows"), ("wild", "[*]"), ("nth", 1))]),
    # a base64-wrapped document whose REDACTED value holds bytes that are no UTF-8 (the only place where such bytes can be:
    # untouched leaves with them come back as U+FFFD)
    ('redact("a.json().pw")', {"a": K.Doc("json", True, {"pw": "zq0001~L1~x", "u": "zq0002x"})}, [(("child", "a"), ("json",), ("child", "pw"))]),
    ('redact("a.json().t[*]", "zz")', {"a": K.Doc("json", True, {"t": ["zq0001~BIN~x", "zq0002~L1~x"], "u": "zq0003x"})},
     [(("child", "a"), ("json",), ("child", "t"), ("wild", "[*]")), (("child", "zz"),)]),
    ('redact("a.json().d.json().pw")', {"a": K.Doc("json", True, {"d": K.Doc("json", True, {"pw": "zq0001~L1~x", "k": "zq0002x"}), "u": "zq0003x"})},
     [(("child", "a"), ("json",), ("child", "d"), ("json",), ("child", "pw"))]),
]


def run(ctx):
    ctx.build_harness()
    if not ctx.harness_tagged:
        ctx.broken.append("harness: build with -tags verif failed")
        return ctx.finish(rule="(harness did not build)")
    ctx.translate()
    failed = ctx.coq_build()
    ctx.check_proofs()
    quick = ctx.tier == "quick"
    cases = []
    for q, tree, specs in CORPUS:
        cases.append({"tree": tree, "record": json.dumps(K.render(tree), separators=(",", ":")), "specs": list(specs),
                      "forms": ["corpus"] * len(specs), "query": q})
    cases += K.gen_c15(ctx, 600 if quick else 6000)
    replay_known(ctx)
    res = run_cases(ctx, cases)
    if res is None:
        return ctx.finish(rule="(harness failed)")
    first = {}
    known_witness = {}
    for c, o in zip(cases, res):
        den = sum(len(K.denote(sp, c["tree"])) for sp in c["specs"])
        for f in c["forms"]:
            d = ctx.cov["distribution"]
            d[f] = d.get(f, 0) + 1
        ctx.count_case(("redact", c["query"], c["record"]), den > 0)
        j = judge(ctx, c, o)
        if j is None:
            continue
        if j[0] == "known":
            known_witness.setdefault(j[1], c["query"])
            continue
        key = j[1]
        if key not in first or len(c["record"]) + len(c["query"]) < len(first[key][0]["record"]) + len(first[key][0]["query"]):
            first[key] = (c, o, j[2])
    for clause, (c, o, detail) in sorted(first.items()):
        c2 = shrink(ctx, c, clause)
        o2 = run_cases(ctx, [c2])[0]
        j2 = judge(ctx, c2, o2)
        ctx.violation({"kind": "redact", "clause": clause, "query": c2["query"], "record": c2["record"],
                       "paths": [K.render_path(s) for s in c2["specs"]],
                       "denoted": [[K.fmt_loc(l) for l in K.denote(s, c2["tree"])] for s in c2["specs"]],
                       "returned": o2.get("rec"), "truth": o2.get("truth"), "detail": j2[2] if j2 and j2[0] == "violation" else detail,
                       "specs": [list(map(list, s)) for s in c2["specs"]], "tree": tree_json(c2["tree"]),
                       "how": "vh-kfltext redact ; input line = {\"q\": query, \"r\": record}"})
    coq_ok = not ({"Base/Prelude.v", "KflText/Macro.v", "KflText/RJv.v", "KflText/Redact.v", "KflText/RJson.v"} & failed)
    if coq_ok:
        correspondence(ctx, cases, res, bool(first))
    mid = cases[len(cases) // 2]
    ctx.sample({"kind": "redact", "query": mid["query"], "record": mid["record"][:400], "returned": res[len(cases) // 2].get("rec", "")[:400]})
    ctx.cov["known_classes_seen"] = known_witness
    ctx.trusted += [
        "un-nesting of the returned record in Python (json, xml.etree, base64): nested documents are compared as parsed values, "
        "XML children of different tags order-insensitively (mxj re-renders them sorted)",
        "modelled, not verified: ojg jp Get on the parent path, oj parse/render, mxj NewMapXml/ValuesForPath/SetValueForPath/Xml, encoding/base64",
    ]
    return ctx.finish(
        level="proof",
        rule="records with a unique sentinel at every leaf and nested JSON / XML / base64 documents built by the generator; path sets of "
             "size 1..4 over plain / bracket-key / indexed / negative-index / wildcard / descent / json-hop / xml-hop / two-hop / "
             "non-existing / hop-on-a-non-document / overlapping forms, every argument order for sets of at most three; "
             "non-trivial = the paths denote at least one location; distinct = distinct (query, record)",
        assumptions=["records are JSON objects", "redact is reached through a query that evaluates to true",
                     "theorems: any list of arguments in any order (C15_several_paths, C15_several_arguments, *_any_order), json() hops with at most "
                     "one match in front of each hop (judged on the original record); xml() hops, pieces ending in a descent and a wildcard in "
                     "front of a hop (recorded finding) are covered by the oracle on the implementation only"])


def replay_known(ctx):
    """Replay the witnesses of the listed findings; say when one no longer reproduces."""
    for f in ctx.load_known():
        w = f.get("witness")
        if not isinstance(w, dict) or "tree" not in w:
            continue
        tree = tree_unjson(w["tree"])
        specs = [tuple(tuple(st) for st in s) for s in w["specs"]]
        case = {"tree": tree, "record": w["record"], "specs": specs, "forms": [], "query": w["query"]}
        r = run_cases(ctx, [case])
        if not r:
            continue
        bad = K.c15_oracle(tree, specs, r[0])
        classes = set().union(*[K.classify_path(sp, tree) for sp in specs])
        if bad and f.get("class") in classes:
            ctx.known_finding(f.get("id", f["class"]), "[%s: %s] %s" % (bad[0], bad[1], f.get("text", "")))
        else:
            ctx.note("known finding %s no longer reproduces on its witness" % f.get("id"))


def correspondence(ctx, cases, res, explained):
    """K: the Coq model (Redact.v with the concrete JSON / base64 instances of RJson.v) returns the
    record that the implementation returned, compared after canonical re-rendering of the nested
    documents."""
    sel = []
    for c, o in zip(cases, res):
        if o["panic"] or o["err"] or not K.model_comparable(c):
            continue
        try:
            got = K.canonical(json.loads(o["rec"]))
            rec = json.loads(c["record"])
        except Exception:
            continue
        if K.canonical(rec) != rec:
            continue
        sel.append((c, rec, got))
    limit = 400 if ctx.tier == "quick" else 6000
    if len(sel) > limit:
        sel = ctx.rng.sample(sel, limit)
    bad = []
    for k in range(0, len(sel), 500):
        chunk = sel[k:k + 500]
        terms = ["(%s,\n  [%s],\n  %s)" % (K.jv_term(rec), "; ".join(K.segs_term(sp) for sp in c["specs"]), K.jv_term(got)) for c, rec, got in chunk]
        src = (K.COQ_STR_HEAD + "Require Import V.Base.Prelude V.KflText.Macro V.KflText.RJv V.KflText.Redact V.KflText.RJson.\n" + K.COQ_STR_DEF +
               "Definition cases : list (jv * list (list seg) * jv) := [\n" + ";\n".join(terms) + "].\n"
               "Definition roundtrip (v : jv) := option_eqb jv_eqb (parse (render v)) (Some v) && option_eqb bytes_eqb (b64d (b64e (render v))) (Some (render v)) && option_eqb bytes_eqb (b64d (render v)) None.\n"
               "Definition chk (c : jv * list (list seg) * jv) := let '(r, args, out) := c in jv_eqb (redact_json r args) out && roundtrip r && roundtrip out.\n"
               "Definition M := Eval vm_compute in failing chk cases.\nPrint M.\n")
        rc, out = ctx.coq_run("redact_cases_%d" % k, src)
        idx = vlib.parse_coq_list_of_nat(out, "M")
        if rc != 0 or idx is None:
            ctx.broken.append("K_redact: coqc failed on the case file")
            ctx.log(out[-800:])
            return
        bad += [k + i for i in idx]
    ctx.cov["traces_validated_against_impl"] = len(sel)
    if bad and not explained:
        c, rec, got = sel[bad[0]]
        ctx.broken.append("K_redact: model and implementation differ on %s over %s (implementation: %s)" % (c["query"], c["record"], json.dumps(got)))


def tree_json(t):
    if isinstance(t, K.Doc):
        return {"__doc__": t.kind, "b64": t.b64, "decl": t.decl, "tree": tree_json(t.tree)}
    if isinstance(t, dict):
        return {k: tree_json(v) for k, v in t.items()}
    if isinstance(t, list):
        return [tree_json(v) for v in t]
    return t


def tree_unjson(t):
    if isinstance(t, dict) and "__doc__" in t:
        return K.Doc(t["__doc__"], t["b64"], tree_unjson(t["tree"]), t.get("decl", False))
    if isinstance(t, dict):
        return {k: tree_unjson(v) for k, v in t.items()}
    if isinstance(t, list):
        return [tree_unjson(v) for v in t]
    return t


def replay(ctx, path):
    r = json.load(open(path))
    ctx.build_harness()
    tree = tree_unjson(r["tree"])
    specs = [tuple(tuple(st) for st in s) for s in r["specs"]]
    case = {"tree": tree, "record": r["record"], "specs": specs, "forms": [], "query": r["query"]}
    out = run_cases(ctx, [case])[0]
    print("query:   ", r["query"])
    print("record:  ", r["record"])
    print("returned:", out.get("rec"), "truth:", out.get("truth"))
    for s in specs:
        print("path %s denotes %s" % (K.render_path(s), [K.fmt_loc(l) for l in K.denote(s, tree)]))
    bad = K.c15_oracle(tree, specs, out)
    print("verdict: ", bad or "property holds on this input")
    return 1 if bad else 0
