"""C14 — Filtering never alters a record (DESIGN.md 5.C14)."""
import json
import time

import vlib
from fam import kfl
from props import C13

import re
SURROGATE = re.compile(r'\\u[dD][89abAB][0-9a-fA-F]{2}')
EDGE_QUERIES = ['true', 'false', 'a', 'a == 1', 'a.* == 1', 'a..b', 'a[0]', 'a["b"]', 'a[*].b > 1', 'a.b.startsWith("x")', '!a and b or c',
                'a.json().b == 1', 'a.xml().r.b == "1"', '(a) or (b.c)', 'zz', 'a == r"^x"', 'limit(1) and a', 'a.b.c.d.e == nil',
                'datetime("10/19/2021, 6:29:02.000 PM") < a', 'a.json()..b', '-a < 0', 'a.undefinedHelper(1)']


# primaries the KFL grammar may accept although they are no JSONPath for the path library (or no path at all): the
# ones the grammar rejects only add error outcomes
ODD_PRIMARIES = ['a.', 'c.d.', 'a.(1)', 'a.*b', 'a[`x"y`]', 'a["x\\"]', 'a..', 'a.*.', 'a[*].', 'a.b.(1, 2)', 'zz.startsWith.("x")', 'a.[0]',
                 'a.b..', 'a.json().', 'a.xml().', 'a.json().(1)', 'a[`k`].', 'a["k"].', 'a[-1].', 'a.*[0].', 'a.b.*c', 'a.1b', 'a.$', 'a.@',
                 'a["k"]b', "a['k']", 'a.b["x`y"]', 'a..[0]', 'a...b', 'a.limit.', 'redactx.']
ODD_TEMPLATES = ['%s', '%s and b', 'b and %s', '%s or b', '!%s and b', '(%s) and b', '(b == %s) and b', '5 == %s and b', '%s == 1 and b',
                 '%s < 2 and b', 'b and (%s or c) and a', '%s and %s', '(%s and b) or (a and b)', 'a and (b and (c or %s))']
ODD_RECORDS = ['{"a":1,"b":2}', '{"a":{"b":[1,2],"k":"x"},"b":true,"c":[1]}', '{"a":"{\\"b\\":1}","b":"x","c":null}']


def run(ctx):
    ctx.build_harness()
    if not ctx.harness_tagged:
        ctx.broken.append("harness: build failed")
        return ctx.finish(rule="(harness did not build)")
    ctx.translate()
    failed = ctx.coq_build()
    ctx.check_proofs()
    coq_ok = not any(f.startswith("Kfl/") or f.startswith("Base/") for f in failed)
    rng = ctx.rng
    quick = ctx.tier == "quick"
    now_ms = int(time.time() * 1000)

    cases = []
    for q, r, _ in kfl.gen_special_cases(rng, now_ms):
        cases.append(("helper", kfl.render(q), kfl.json_of(r)))
    for _ in range(1200 if quick else 15000):
        q = kfl.gen_logical(rng)
        r = kfl.gen_record(rng, kfl.query_paths(q))
        cases.append(("random", kfl.render(q), kfl.json_of(r)))
    ill = [q for q in kfl.illtyped_queries(rng, ctx.tier) if "redact" not in q]
    for q in ill:
        for r in (rng.sample(C13.RECORDS4, 2) if quick else C13.RECORDS4):
            cases.append(("illtyped", q, r))
    for r in kfl.edge_records():
        for q in EDGE_QUERIES:
            cases.append(("edge-record", q, r))
    for x in ODD_PRIMARIES:
        for t in ODD_TEMPLATES:
            q = t.replace("%s", x)
            for r in (rng.sample(ODD_RECORDS, 2) if quick else ODD_RECORDS):
                cases.append(("odd-path", q, r))
    hops = [q for q in C13.HOP_QUERIES if "redact" not in q]
    for r in kfl.nested_doc_records(rng, 100 if quick else 1000):
        for q in rng.sample(hops, 5):
            cases.append(("nested-doc", q, r))

    t0 = time.time()
    res = kfl.run_cases(ctx, "eval", [[c[1], c[2]] for c in cases], extra=["-k"], timeout=1800)
    ctx.log("implementation: %d cases in %.1fs" % (len(cases), time.time() - t0))
    if len(res) != len(cases):
        ctx.broken.append("K_eval: harness answered %d of %d cases" % (len(res), len(cases)))
        return ctx.finish(rule="(harness failed)")

    stats = {}
    kitems, kidx = [], []
    for i, ((kind, q, r), o) in enumerate(zip(cases, res)):
        oc = o.get("outcome")
        if oc in ("panic", "crash", "timeout"):
            ctx.count_case((q, r), True, kind)
            ctx.violation({"kind": oc, "query": q, "record": r, "msg": o.get("msg", "")[:300], "how": "vh-kfl eval"})
            continue
        if oc == "error":
            stats["error"] = stats.get("error", 0) + 1
            ctx.count_case((q, r), False, kind + "-error")
            continue
        want = kfl.canon_json(r)
        got = kfl.canon_json(kfl.unhx(o["rec_out"]))
        ctx.count_case((q, r), True, kind)
        if want is None:
            stats["input-not-json"] = stats.get("input-not-json", 0) + 1
        elif got != want:
            cls = "oj-float-parse" if kfl.oj_misparses(r) else ("oj-surrogate-escape" if SURROGATE.search(r) else None)
            if cls and ctx.is_known(cls):
                stats["known:" + cls] = stats.get("known:" + cls, 0) + 1
            else:
                ctx.violation({"kind": "record-changed", "query": q, "record": r, "returned": kfl.unhx(o["rec_out"]),
                               "truth": o["truth"], "how": "vh-kfl eval"})
        else:
            stats["equal"] = stats.get("equal", 0) + 1
            key = "equal-matched" if o["truth"] else "equal-not-matched"
            stats[key] = stats.get(key, 0) + 1
        if i % 501 == 0:
            ctx.sample({"query": q, "record": r[:200], "returned": kfl.unhx(o["rec_out"])[:200], "truth": o["truth"]})
        it = kfl.k_item(o) if coq_ok else None
        if it is not None:
            kitems.append(it)
            kidx.append(i)
        if o.get("shape"):
            ctx.broken.append("K_ast: tree outside the modelled shape: %s on %r" % (o["shape"][:2], q))
    if coq_ok and kitems:
        kmax = 900 if quick else 8000
        if len(kitems) > kmax:
            sel = sorted(rng.sample(range(len(kitems)), kmax))
            kitems, kidx = [kitems[j] for j in sel], [kidx[j] for j in sel]
        t0 = time.time()
        codes = kfl.k_codes(ctx, "k14", kitems)
        if codes is None:
            ctx.broken.append("K_eval: coqc failed on the case file")
        else:
            ctx.cov["traces_validated_against_impl"] = len(codes)
            for code, i in zip(codes, kidx):
                if code & 32:
                    ctx.broken.append("K_shape: a tree from the real parser violates shape_expr (hypothesis of C13_no_panic)")
                if code & 64:
                    ctx.broken.append("K_prepared: a tree from the real Precompute violates prepared_expr (hypothesis of C14_record_unchanged)")
                if code & 1:
                    ctx.broken.append("K_eval: model and implementation differ on %r / %s" % (cases[i][1], cases[i][2]))
            ctx.log("correspondence: %d cases in %.1fs" % (len(codes), time.time() - t0))
    ctx.cov["oracle"] = stats
    for b in ctx.broken[:5]:
        ctx.log("broken:", b)
    ctx.trusted += [
        "own JSON comparer (tools/fam/kfl.py canon_json): sorted keys, integer literals exactly, every other number as the nearest float64",
        "oj.ParseString / oj.JSON (parse and serialise) are library code: a premise of the theorem, exercised on every case",
        "library oracles of the evaluator model supplied as tables computed by Go on every correspondence case",
    ]
    return ctx.finish(
        rule="redact-free queries: helper cases, seeded random grammar queries on records with planted paths, every helper x subject form x "
             "0..3 arguments (ill-typed included), hop queries on records embedding JSON / XML / base64 / garbage, and %d serialisation edge "
             "records (top-level arrays and scalars, empty containers, unicode escapes, 2^53, -0, exponent forms) x %d queries; the returned "
             "record is compared with the input as a JSON value; non-trivial = Eval returned" % (len(kfl.edge_records()), len(EDGE_QUERIES)),
        assumptions=["numbers are compared as float64 values (integer literals exactly)",
                     "oj.ParseString followed by oj.JSON preserves JSON values on the domain (finding oj-float-parse lists the exception)"])


def replay(ctx, path):
    r = json.load(open(path))
    ctx.build_harness()
    o = kfl.run_cases(ctx, "eval", [[r["query"], r["record"]]])[0]
    out = kfl.unhx(o.get("rec_out", ""))
    print("query:", r["query"], "record:", r["record"], "returned:", out, "outcome:", o.get("outcome"))
    if o.get("outcome") != "ok":
        return 1
    return 0 if kfl.canon_json(out) == kfl.canon_json(r["record"]) else 1
