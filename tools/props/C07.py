"""C07 — Redis commands and replies are reported exactly, binary-safe (DESIGN.md 5.C07)."""
import glob
import json
import os

import vlib
from fam import resp


def corpus_convs():
    """Witnesses of the repaired defects (run first) + minimised past failures in corpus/C07/."""
    P = {"cmd": [b"PING"], "reply": ["s", b"PONG"]}
    G = lambda v: {"cmd": [b"GET", b"k"], "reply": v}
    out = [
        ("two replies in one segment", [P, P], "whole"),
        ("reply split after the type byte", [P], "bytes"),
        ("line across a refill", [P, P, P], "two"),
        ("bulk value with CRLF", [G(["b", b"a\r\nb"]), P], "whole"),
        ("bulk value with lone CR and with the letter r", [{"cmd": [b"SET", b"k", b"a\rb r\nrn"], "reply": ["s", b"OK"]}, P], "whole"),
        ("empty last argument", [{"cmd": [b"RPUSH", b"k", b"v", b""], "reply": ["i", 2]}], "whole"),
        ("last argument ending in comma-space", [{"cmd": [b"RPUSH", b"k", b"v", b"a, "], "reply": ["i", 2]}], "whole"),
        ("error text above 0x7f", [G(["e", {"kind": "plain", "text": b"ERR \xe9\xff"}])], "whole"),
        ("redirection", [G(["e", {"kind": "moved", "slot": 3999, "host": b"127.0.0.1", "port": 6381}]),
                         G(["e", {"kind": "ask", "slot": 0, "host": b"[::1]", "port": 1}]), P], "whole"),
        ("integer extremes", [G(["i", resp.INT64_MIN]), G(["i", resp.INT64_MAX]), G(["i", 0]), G(["i", -1])], "whole"),
    ]
    for p in sorted(glob.glob(os.path.join(vlib.VERIF, "corpus", "C07", "*.json"))):
        try:
            r = json.load(open(p))
            out.append(("corpus:" + os.path.basename(p), resp.from_jsonable(r["conversation"]), "whole"))
        except Exception:
            pass
    return out


def gen_cases(ctx, tb):
    """(label, conversation, client chunks, client tail, server chunks, server tail, order)"""
    rng = ctx.rng
    quick = ctx.tier == "quick"
    out = []

    def add(label, conv, style=None, order=None):
        cb, sb, _, _ = resp.enc_conv(conv)
        order = order or rng.choice(["cs"] * 6 + ["sc"] + ["m:" + "".join(rng.choice("cs") for _ in range(rng.randint(2, 30)))])
        out.append((label, conv, resp.random_chunking(rng, cb, style), 0, resp.random_chunking(rng, sb, style), 0, order))
    for label, conv, style in corpus_convs():
        add("corpus", conv, style, "cs")
        add("corpus", conv, None, "cs")
    for f in known_witnesses():
        add("finding", f[1], "whole", "cs")
    # every command of the table
    for conv in resp.table_convs(rng, tb, every_arity=not quick):
        add("table", conv)
    # values: CR, LF, CRLF, all 256 bytes, empty, integers, errors, redirections; pipelining
    for _ in range(230 if quick else 6000):
        add("values", resp.gen_conv(rng, tb, None, True))
    # sizes crossing the 4 KiB bufio buffer and the 8 KiB refill buffer
    for _ in range(24 if quick else 400):
        add("sizes", resp.gen_conv(rng, tb, rng.randint(1, 4), True, big=True))
    # a long pipelined conversation whose total crosses 8 KiB several times with small tokens
    for _ in range(3 if quick else 40):
        add("pipeline", resp.gen_conv(rng, tb, rng.randint(150, 400), True), rng.choice(["whole", "8k", "page", "many"]))
    # legal reply shapes that are recorded findings, mixed into ordinary traffic
    for _ in range(120 if quick else 3000):
        add("finding", resp.gen_conv(rng, tb, None, False))
    return out


def known_witnesses():
    out = []
    p = os.path.join(vlib.VERIF, "known", "resp.json")
    try:
        for f in json.load(open(p)).get("findings", []):
            if f.get("property") == "C07":
                out.append((f, resp.from_jsonable(f["witness"]["conversation"])))
    except OSError:
        pass
    return out


def judge(ctx, tb, case, res, seen_classes):
    """Oracle on the implementation: the abstract conversation against the emitted items."""
    label, conv, cch, ct, sch, st, order = case
    items, classes, stops = resp.expect(conv, tb)
    exp = {"c": "eof", "s": "error" if stops else "eof", "items": items, "res": len(conv) - len(items)}
    if res is None:
        return "no result line (the harness process died)", exp
    obs_items = res["items"]
    if order.startswith("m:"):          # completion order depends on the merge; the pairs must not
        key = lambda it: repr(it)
        if sorted(obs_items, key=key) != sorted(items, key=key):
            return "items differ (as a multiset)", exp
    elif obs_items != items:
        k = next((i for i in range(min(len(items), len(obs_items))) if items[i] != obs_items[i]), min(len(items), len(obs_items)))
        return "item %d differs" % k, exp
    if (res["c"], res["s"], res["res"]) != (exp["c"], exp["s"], exp["res"]):
        return "outcome / residue differ: observed %s/%s/%d expected %s/%s/%d" % (
            res["c"], res["s"], res["res"], exp["c"], exp["s"], exp["res"]), exp
    for c in classes:
        seen_classes.setdefault(c, case)
    return None, exp


def shrink(ctx, tb, case):
    """Drop exchanges / simplify chunking while the oracle still fails."""
    label, conv, cch, ct, sch, st, order = case

    def fails(cv, whole):
        cb, sb, _, _ = resp.enc_conv(cv)
        c2 = [cb] if whole else cch
        s2 = ([sb] if sb else []) if whole else sch
        cs = (label, cv, c2, ct, s2, st, "cs" if whole else order)
        r = resp.run_cases(ctx, [resp.case_json(c2, s2, ct, st, cs[6])])[0]
        why, exp = judge(ctx, tb, cs, r, {})
        return (cs, r, why, exp) if why else None
    best = None
    cur = list(conv)
    f = fails(cur, True)
    if f:
        best = f
        changed = True
        while changed and len(cur) > 1:
            changed = False
            for i in range(len(cur)):
                cand = cur[:i] + cur[i + 1:]
                f = fails(cand, True)
                if f:
                    cur, best, changed = cand, f, True
                    break
    return best


def run(ctx):
    ctx.build_harness()
    if not ctx.harness_tagged:
        ctx.broken.append("harness: build with -tags verif failed")
        return ctx.finish(rule="(harness did not build)")
    ctx.translate()
    failed = ctx.coq_build()
    ctx.check_proofs()
    tb = resp.tables(ctx)
    cases = gen_cases(ctx, tb)
    results = resp.run_cases(ctx, [resp.case_json(c[2], c[4], c[3], c[5], c[6]) for c in cases])
    seen_classes, kcases, nviol, reported = {}, [], 0, set()
    for case, res in zip(cases, results):
        label, conv, cch, ct, sch, st, order = case
        nontrivial = len(conv) >= 2 or any(len(a) > 0 for a in conv[0]["cmd"][1:])
        ctx.count_case(("c07", tuple(cch), tuple(sch), order), nontrivial, label)
        why, exp = judge(ctx, tb, case, res, seen_classes)
        if why:
            nviol += 1
            if nviol <= 3:
                small = shrink(ctx, tb, case)
                if small:
                    case, res, why, exp = small
                    label, conv, cch, ct, sch, st, order = case
                sig = (tuple(cch), tuple(sch), order)
                if sig in reported:
                    continue
                reported.add(sig)
                ctx.violation(resp.replay_obj("conversation", cch, ct, sch, st, order, res, {
                    "why": why, "conversation": resp.to_jsonable(conv),
                    "expected": {"c": exp["c"], "s": exp["s"], "residue": exp["res"], "items": resp.show_items(exp["items"])}}))
        if res is not None and order == "cs":
            kcases.append((cch, ct, sch, st, res))
    used = {resp.ascii_upper(ex["cmd"][0]) for c in cases for ex in c[1]}
    ctx.cov["commands_of_table_exercised"] = "%d of %d" % (len(used & set(tb["commands"])), len(tb["commands"]))
    usedk = {ex["reply"][1] for c in cases for ex in c[1] if ex["reply"][0] == "s"}
    ctx.cov["keywords_of_table_exercised"] = "%d of %d" % (len(usedk & set(tb["keywords"])), len(tb["keywords"]))
    ctx.cov["exchanges"] = sum(len(c[1]) for c in cases)
    ctx.cov["largest_stream_bytes"] = max(sum(len(x) for x in c[2]) + sum(len(x) for x in c[4]) for c in cases)
    mid = cases[len(cases) // 3]
    ctx.sample({"kind": "conversation", "label": mid[0], "exchanges": len(mid[1]),
                "client": repr(b"".join(mid[2]))[:200], "server": repr(b"".join(mid[4]))[:200], "order": mid[6]})
    # recorded findings: each class that the generated traffic ran into must be listed
    for cls, case in sorted(seen_classes.items()):
        if not ctx.is_known(cls):
            cb, sb = b"".join(case[2]), b"".join(case[4])
            ctx.violation(resp.replay_obj("unlisted-finding-class", case[2], case[3], case[4], case[5], case[6], None, {
                "class": cls, "conversation": resp.to_jsonable(case[1]),
                "why": "a legal reply is not reported as sent and this class is not a recorded finding"}))
    for f, conv in known_witnesses():
        if f.get("class") not in seen_classes:
            ctx.note("recorded finding %s no longer reproduces" % f.get("id"))
    # a separate malformed stream for the correspondence only (no property of C07 speaks about it,
    # but the model must follow the code there too): corruptions of small conversations
    mal = []
    for _ in range(150 if ctx.tier == "quick" else 3000):
        cb, sb, _, _ = resp.enc_conv(resp.small_conv(ctx.rng, tb, ctx.rng.randint(1, 3), clean=ctx.rng.random() < 0.7))
        if ctx.rng.random() < 0.5:
            cb = resp.corrupt(ctx.rng, cb)
        else:
            sb = resp.corrupt(ctx.rng, sb)
        mal.append((resp.random_chunking(ctx.rng, cb), ctx.rng.choice([0, 1, 2]), resp.random_chunking(ctx.rng, sb), ctx.rng.choice([0, 1, 2])))
    for m, r in zip(mal, resp.run_cases(ctx, [resp.case_json(m[0], m[2], m[1], m[3]) for m in mal])):
        ctx.count_case(("c07-malformed", tuple(m[0]), tuple(m[2]), m[1], m[3]), True, "malformed (correspondence only)")
        if r is None or "panic" in (r["c"], r["s"]):
            ctx.violation(resp.replay_obj("crash", m[0], m[1], m[2], m[3], "cs", r))
        else:
            kcases.append((m[0], m[1], m[2], m[3], r))
    # correspondence model <-> implementation on the same cases
    if resp.model_available(ctx):
        bad = resp.model_check(ctx, "c07_cases", kcases, "resp_dissect")
        if bad and not nviol:
            k = kcases[bad[0]]
            ctx.broken.append("K_resp_dissect: model and implementation differ (case %d: client %r server %r)" % (
                bad[0], b"".join(k[0])[:120], b"".join(k[2])[:120]))
            ctx.log("model mismatches: %d of %d" % (len(bad), len(kcases)))
        # the Coq specification against the independent encoder / oracle (same conversations)
        small = [c[1] for c in cases if sum(len(x) for x in c[2]) + sum(len(x) for x in c[4]) < 1500][:300 if ctx.tier == "quick" else 4000]
        sbad = resp.spec_check(ctx, small, tb)
        if sbad:
            ctx.broken.append("K_resp_spec: RespSpec.v and the Python encoder/oracle differ on conversation %s" %
                              json.dumps(resp.to_jsonable(small[sbad[0]]))[:600])
    else:
        ctx.broken.append("K_resp_dissect: the RESP model does not compile")
    ctx.trusted += [
        "harness/cmd/vh-redis + harness/mock (chunked reader behind a real bufio.Reader, collector, real matcher and CounterPair)",
        "independent RESP2 encoder and report in tools/fam/resp.py; command / keyword tables read from the compiled package (verif accessor) and regenerated as coq/gen/RedisTables.v",
        "modelled, not verified: bufio.Reader.Read hands one underlying read of at most 8192 bytes to the refill buffer; "
        "strings.ToUpper as ASCII upper-casing (differs only for U+0131 / U+017F, whose upper case is ASCII); "
        "strconv.Atoi on the port / slot of a redirection; Go int as int64",
    ]
    return ctx.finish(
        rule="one case = one abstract conversation (independent encoder) x one segmentation of each direction x one run order; "
             "every command of the table appears (quick: one arity each, thorough: 0..4 arguments); values with CR, LF, CRLF, all 256 bytes, "
             "empty bulk, integers incl. int64 extremes, errors and MOVED/ASK redirections; sizes across 4 KiB and 8 KiB; "
             "non-trivial = at least two exchanges or a command with arguments",
        assumptions=["each direction is a well-formed RESP2 stream produced by the independent encoder (commands: arrays of bulk strings)",
                     "TcpReader delivers each direction in order; both halves share matcher and CounterPair",
                     "non-empty reply arrays, unknown status keywords, null replies and empty error lines are recorded findings (known/resp.json), not covered by C07_report"])


def replay(ctx, path):
    r = json.load(open(path))
    ctx.build_harness()
    out = resp.replay_case(ctx, r)
    if "conversation" in r and r.get("kind") == "conversation":
        tb = resp.tables(ctx)
        conv = resp.from_jsonable(r["conversation"])
        cch = [bytes.fromhex(x) for x in r["client_chunks"]]
        sch = [bytes.fromhex(x) for x in r["server_chunks"]]
        case = ("replay", conv, cch, r["client_tail"], sch, r["server_tail"], r["order"])
        res = resp.run_cases(ctx, [resp.case_json(cch, sch, r["client_tail"], r["server_tail"], r["order"])])[0]
        why, exp = judge(ctx, tb, case, res, {})
        print("verdict      :", why or "as expected")
        return 1 if why else 0
    return 0
