"""C12 — KFL evaluation returns the truth value the language defines (DESIGN.md 5.C12)."""
import base64
import json
import time

import vlib
from fam import kfl

# witnesses of the repaired defects and of the recorded findings: (query, record, expected truth)
CORPUS = [
    ('1234567 == 1234568', '{}', False),                        # D37
    ('a == 1234567', '{"a":1234567}', True),                    # D37
    ('a == 1000000', '{"a":1000000}', True),                    # D37
    ('a != 1000000', '{"a":1000000}', False),
    ('a.* == 1000000', '{"a":[1,1000000]}', True),
    ('a == b', '{"a":[1,2],"b":[1.0,2]}', True),
    ('a >= 1000000 and a <= 1000000', '{"a":1000000}', True),
    ('a[*] == 2', '{"a":[1,2]}', True),                         # D48
    ('a["*"] == 2', '{"a":{"*":2}}', True),
    ('-a > -5', '{"a":7}', False),                              # unary minus on integers
    ('!a', '{"a":"x"}', False),                                 # ! on non-booleans
    ('!5', '{}', False),
    ('a.json()[*] == 2', '{"a":"[1,2]"}', True),                # json() any-match
    ('a.contains("a")', '{}', False),                            # helpers on a missing subject
    ('a.startsWith("")', '{}', False),
    ('a.b.endsWith("e")', '{"a":1}', False),
    ('9007199254740993 == a', '{"a":9007199254740992}', True),  # both are the same float64
    ('a == 0', '{"a":-0.0}', True),
    ('(a == nil) or true', '{}', True),
    ('a == nil or true', '{}', False),
    ('true or a', '{}', True),
    ('1 < 2 < 3', '{}', False),
    ('3 > 2 > 1', '{}', True),
]
# witnesses of the recorded findings: (query, record, truth the language defines, class)
KNOWN_WITNESSES = [
    ('a["x"].b == 1 and c == 2', '{"a":{"x":{"b":1}},"c":2}', True, "select-tail-scope"),
    ('1 != a[0].b', '{"a":[{}]}', False, "select-tail-scope"),
    ('a == 1.14', '{"a":1.14}', True, "oj-float-parse"),
]


def classify(ctx, q, sem_obj, rec_text):
    """class tag of a disagreement between the reference semantics and the implementation"""
    if q is not None and (kfl.tail_not_last(q) or sem_obj.tail_missing):
        return "select-tail-scope"
    if kfl.oj_misparses(rec_text):
        return "oj-float-parse"
    return None


def check_num(ctx, coq_ok):
    """Num.v against Go: strconv.FormatFloat(x,'g',6,64), FormatInt and float64(int64) on boundary and random values"""
    import struct
    rng = ctx.rng
    floats = [0.0, -0.0, 0.1, 0.5, 1.0, 999999.0, 1000000.0, 1234567.0, 1234565.0, 1234575.0, 999999.5, 9999995.0, 0.0001, 0.00001,
              0.000012345651, 123456.5, 1e21, 1e22, 1e23, 5e-324, 2.2250738585072014e-308, 1.7976931348623157e308, 3.14, 2.675, 1e-7,
              9007199254740992.0, 9007199254740994.0, 100000.0, 99999.95, 0.99999949999, 0.9999995, 1.5e300, 4.35, 1e5, 1e6, 1e-4, 1e-5,
              float('inf'), float('-inf'), float('nan'), 123456.0, 1234560.0, 12345.678, -7.5, 0.30000000000000004, 1.1400000000000001]
    for k in range(-10, 25):
        floats += [10.0 ** k, 9.999995 * 10.0 ** k, 1.2345650 * 10.0 ** k, 1.2345649999 * 10.0 ** k, 5.0 * 10.0 ** k]
    n = 250 if ctx.tier == "quick" else 5000
    for _ in range(n):
        floats.append(struct.unpack(">d", struct.pack(">Q", rng.getrandbits(64)))[0])
        floats.append(rng.choice([1, -1]) * rng.random() * 10.0 ** rng.randint(-8, 12))
        floats.append(float(rng.randint(-2000000, 2000000)) / rng.choice([1, 2, 4, 8, 10, 100, 1000]))
    ints = [0, 1, -1, 7, 999999, 1000000, 1234567, 2 ** 53 - 1, 2 ** 53, 2 ** 53 + 1, 2 ** 53 + 2, 2 ** 53 + 3, -(2 ** 53) - 1, 2 ** 63 - 1,
            -(2 ** 63), 2 ** 62 + 1, 2 ** 54 + 2, 2 ** 54 + 6, 2 ** 60 + 2 ** 7, 2 ** 60 + 2 ** 7 + 1, 2 ** 60 + 3 * 2 ** 7, 4611686018427387904]
    for _ in range(n // 2):
        ints.append(rng.randint(-(2 ** 63), 2 ** 63 - 1))
        ints.append(rng.choice([1, -1]) * (2 ** rng.randint(53, 62) + rng.randint(-3000, 3000)))
    lines = [["f%016x" % struct.unpack(">Q", struct.pack(">d", f))[0]] for f in floats] + [["i%d" % i] for i in ints]
    res = kfl.run_cases(ctx, "num", lines)
    if len(res) != len(lines):
        ctx.broken.append("K_num: harness failed")
        return
    for l, o in zip(lines, res):
        ctx.count_case(("num", l[0]), True, "num")
    if not coq_ok:
        return
    fitems = ["(%s, %s)" % (o["coq"], vlib.coq_bytes(bytes.fromhex(o["g6"]))) for o in res[:len(floats)]]
    iitems = ["(%s, %s, %s)" % (vlib.coq_z(i), o["coq"], vlib.coq_bytes(bytes.fromhex(o["g6"]))) for i, o in zip(ints, res[len(floats):])]
    src = ("Require Import V.Base.Prelude V.Kfl.Num V.Kfl.Json.\nLocal Open Scope Z_scope.\n"
           "Definition fcases : list (fv * bytes) := [\n" + ";\n".join(fitems) + "].\n"
           "Definition icases : list (Z * fv * bytes) := [\n" + ";\n".join(iitems) + "].\n"
           "Definition MF := Eval vm_compute in failing (fun c => bytes_eqb (fmt_g6 (fst c)) (snd c)) fcases.\nPrint MF.\n"
           "Definition MI := Eval vm_compute in failing (fun c => let '(z, f, s) := c in fv_same (f_of_Z z) f && bytes_eqb (fmt_int z) s) icases.\nPrint MI.\n")
    rc, out = ctx.coq_run("knum", src, timeout=600)
    mf, mi = vlib.parse_coq_list_of_nat(out, "MF"), vlib.parse_coq_list_of_nat(out, "MI")
    if rc != 0 or mf is None or mi is None:
        ctx.broken.append("K_num: coqc failed on the case file")
        ctx.log(out[-800:])
        return
    ctx.cov["num_cases"] = {"floats": len(floats), "ints": len(ints)}
    for i in mf[:3]:
        ctx.broken.append("K_num: Num.fmt_g6 differs from strconv.FormatFloat(%r,'g',6,64) = %s" % (floats[i], bytes.fromhex(res[i]["g6"])))
    for i in mi[:3]:
        ctx.broken.append("K_num: Num.f_of_Z / fmt_int differs from Go on %d" % ints[i])


def run(ctx):
    ctx.build_harness()
    if not ctx.harness_tagged:
        ctx.broken.append("harness: build failed")
        return ctx.finish(rule="(harness did not build)")
    ctx.translate()
    failed = ctx.coq_build()
    ctx.check_proofs()
    coq_ok = not any(f.startswith("Kfl/") or f.startswith("Base/") for f in failed)
    rng = ctx.rng
    quick = ctx.tier == "quick"
    now_ms = int(time.time() * 1000)

    # ------------------------------------------------------------------ cases
    cases = []      # (kind, abstract query or None, query text, record text, expected truth or None, xml docs)
    for qt, rt, exp in CORPUS:
        cases.append(("corpus", None, qt, rt, exp, {}))
    witness_class = {}
    for qt, rt, exp, cls in KNOWN_WITNESSES:
        witness_class[(qt, rt)] = cls
        cases.append(("known-witness", None, qt, rt, exp, {}))
    small_q = kfl.small_queries()
    small_r = kfl.small_records()
    if quick:
        pairs = [(q, r) for q in small_q for r in small_r]
        pairs = rng.sample(pairs, 2500)
    else:
        pairs = [(q, r) for q in small_q for r in small_r]
    for q, r in pairs:
        cases.append(("small", q, kfl.render(q), kfl.json_of(r), None, {}))
    for q, r, docs in kfl.gen_special_cases(rng, now_ms):
        cases.append(("helper", q, kfl.render(q), kfl.json_of(r), None, docs))
    # two fields of the record against each other (no literal): every operator on pairs of boundary values, among them
    # distinct integers that are the same float64, integers against floats and numeric strings, arrays against scalars
    pv = [0, 1, -1, 7, 7.5, 1000000, 1234567, 1234568, 2 ** 53 - 1, 2 ** 53, 2 ** 53 + 1, 2 ** 53 + 2, -(2 ** 53), -(2 ** 53) - 1,
          2 ** 62, 2 ** 62 + 1, 2 ** 63 - 1, 2 ** 63 - 2, float(2 ** 53), 9007199254740994.0, 1e21, -0.0, "7", "1000000", "x", None, True,
          3.1415926, "3.14159", "3.1415926", 1234.5678, "1234.57", 1234567.5, "1.23457e+06", 0.000012345678, "1.23457e-05"]
    pa, pb = ('path', [('k', 'a')]), ('path', [('k', 'b')])
    ppairs = [(x, y) for x in pv for y in pv]
    for x, y in (rng.sample(ppairs, 160) if quick else ppairs):
        for op in ('==', '!=', '<', '<=', '>', '>='):
            node = ('Q' if op in ('==', '!=') else 'C', [pa, pb], [op])
            cases.append(("field-pair", node, kfl.render(node), kfl.json_of({"a": x, "b": y}), None, {}))
        node = ('Q', [pa, pb], [rng.choice(['==', '!='])])
        cases.append(("field-pair", node, kfl.render(node), kfl.json_of({"a": [x, 5], "b": y}), None, {}))
    # unary minus (once, twice) on record numbers of every kind, compared with their decimal texts: the operand keeps its
    # kind under the sign (an integer of seven or more digits has another text as a float)
    for n in (7, 1234567, -1234567, 12345678, 2 ** 31, 2 ** 53 + 1, 1000000, 999999, 1234.5678, 0.000012345678, 1e21, -0.0, 0):
        for pre in ('-', '--'):
            val = -n if pre == '-' else n
            texts = {("%d" % val) if isinstance(val, int) else ("%.6g" % val), "%.6g" % val, repr(val), str(int(val)) if float(val).is_integer() and abs(val) < 2 ** 63 else repr(val)}
            for t in sorted(texts):
                for op in ('==', '!='):
                    for rhs in (('str', t), ('re', "^" + t.replace("+", "[+]").replace(".", "[.]") + "$")):
                        node = ('Q', [('U', pre, pa), rhs], [op])
                        cases.append(("signed-number-text", node, kfl.render(node), kfl.json_of({"a": n}), None, {}))
    # both operands arrays (array-valued fields and wildcard matches), every operator, elements among them the strings
    # that parse as NaN and the infinities (an ordering is neither true nor refuted for NaN)
    av = [0, 1, 2, 3, 7.5, -1, 2 ** 53, 2 ** 53 + 1, "NaN", "nan", "inf", "-inf", "+Inf", "x", "7", None, True]
    wa, wb = ('path', [('k', 'a'), ('w',)]), ('path', [('k', 'b'), ('w',)])
    for _ in range(120 if quick else 3000):
        A = [rng.choice(av) for _ in range(rng.randint(0, 3))]
        B = [rng.choice(av) for _ in range(rng.randint(0, 3))]
        if rng.random() < 0.5:
            A[rng.randrange(len(A)) if A else 0:0] = [rng.choice(["NaN", "nan", "inf"])]
        for op in ('==', '!=', '<', '<=', '>', '>='):
            for l, r_ in ((pa, pb), (wa, wb)):
                node = ('Q' if op in ('==', '!=') else 'C', [l, r_], [op])
                cases.append(("array-pair", node, kfl.render(node), kfl.json_of({"a": A, "b": B}), None, {}))
    nrand = 1500 if quick else 20000
    for _ in range(nrand):
        q = kfl.gen_logical(rng)
        r = kfl.gen_record(rng, kfl.query_paths(q))
        cases.append(("random", q, kfl.render(q), kfl.json_of(r), None, {}))

    t0 = time.time()
    res = kfl.run_cases(ctx, "eval", [[c[2], c[3]] for c in cases], extra=["-k"], timeout=1200)
    ctx.log("implementation: %d cases in %.1fs" % (len(cases), time.time() - t0))
    if len(res) != len(cases):
        ctx.broken.append("K_eval: harness answered %d of %d cases" % (len(res), len(cases)))
        return ctx.finish(rule="(harness failed)")

    # ------------------------------------------------------------------ oracle on the implementation
    stats = {}
    kitems, kidx = [], []
    for i, (c, o) in enumerate(zip(cases, res)):
        kind, q, qt, rt, exp, docs = c
        outcome = o.get("outcome")
        if outcome in ("panic", "crash", "timeout"):
            ctx.count_case((qt, rt), True, kind)
            ctx.violation({"kind": "panic", "query": qt, "record": rt, "observed": outcome, "msg": o.get("msg", "")[:300],
                           "how": "vh-kfl eval"})
            continue
        if outcome == "error":
            stats["impl-error"] = stats.get("impl-error", 0) + 1
            ctx.count_case((qt, rt), False, kind + "-error")
            if kind in ("corpus", "helper", "small"):
                ctx.violation({"kind": "error-on-valid-query", "query": qt, "record": rt, "msg": o.get("msg", "")[:300]})
            continue
        rec = json.loads(rt)
        verdict, want, want_limit = "undefined", None, None
        sem_obj = kfl.Sem(rec, now_ms=now_ms, xml_docs=docs)
        if exp is not None:
            verdict, want = "defined", exp
        elif q is not None:
            try:
                want = sem_obj.truth(q)
                want_limit = sem_obj.limit
                verdict = "defined"
            except kfl.Undefined:
                pass
        ctx.count_case((qt, rt, o["truth"]), verdict == "defined", kind)
        stats[verdict] = stats.get(verdict, 0) + 1
        if verdict == "defined":
            bad = None
            if want != o["truth"]:
                bad = {"kind": "truth", "query": qt, "record": rt, "expected": want, "observed": o["truth"]}
            elif want_limit is not None and q is not None and "limit(" in qt and str(want_limit) != o["limit"]:
                bad = {"kind": "limit", "query": qt, "record": rt, "expected_limit": want_limit, "observed_limit": o["limit"]}
            if bad:
                cls = witness_class.get((qt, rt)) or classify(ctx, q, sem_obj, rt)
                if cls and ctx.is_known(cls):
                    stats["known:" + cls] = stats.get("known:" + cls, 0) + 1
                else:
                    bad["how"] = "vh-kfl eval"
                    ctx.violation(bad)
            elif (qt, rt) in witness_class:
                ctx.note("the witness of finding %s no longer reproduces: %s on %s" % (witness_class[(qt, rt)], qt, rt))
        if len(ctx.cov["samples"]) < 5 and verdict == "defined" and kind in ("random", "helper") and i % 97 == 0:
            ctx.sample({"query": qt, "record": rt, "truth": o["truth"], "limit": o["limit"]})
        # correspondence item
        if coq_ok and o.get("ast") and o.get("rec") and o.get("rec_ok") and o.get("tables") and not o.get("unsupported") \
                and not o.get("redact"):
            if o.get("shape"):
                ctx.broken.append("K_ast: the parser produced a tree outside the modelled shape: %s on %r" % (o["shape"][:2], qt))
                continue
            kitems.append("(%s, %s, %s, Some %s, %s%%N)" % (o["tables"], o["ast"], o["rec"], "true" if o["truth"] else "false", o["limit"]))
            kidx.append(i)
        if not o.get("snap_equal", True):
            ctx.violation({"kind": "ast-modified", "query": qt, "record": rt, "how": "vh-kfl eval -k"})

    # ------------------------------------------------------------------ correspondence
    sem_defined = 0
    if coq_ok and kitems:
        t0 = time.time()
        kmax = 1200 if quick else 8000
        if len(kitems) > kmax:
            sel = sorted(rng.sample(range(len(kitems)), kmax))
            kitems, kidx = [kitems[j] for j in sel], [kidx[j] for j in sel]
        codes = kfl.k_codes(ctx, "k12", kitems)
        if codes is None:
            ctx.broken.append("K_eval: coqc failed on the case file")
        else:
            ctx.cov["traces_validated_against_impl"] = len(codes)
            for code, i in zip(codes, kidx):
                kind, q, qt, rt, exp, docs = cases[i]
                if code & 16:
                    sem_defined += 1
                if code & 32:
                    ctx.broken.append("K_shape: a tree from the real parser violates shape_expr (hypothesis of C13_no_panic)")
                if code & 64:
                    ctx.broken.append("K_prepared: a tree from the real Precompute violates prepared_expr (hypothesis of C14_record_unchanged)")
                if code & 1:
                    ctx.broken.append("K_eval: model and implementation differ on %r / %s" % (qt, rt))
                if code & 2:
                    # the Coq specification disagrees with the implementation
                    sem_obj = kfl.Sem(json.loads(rt), now_ms=now_ms, xml_docs=docs)
                    try:
                        if q is not None:
                            sem_obj.truth(q)
                    except kfl.Undefined:
                        pass
                    cls = witness_class.get((qt, rt)) or classify(ctx, q, sem_obj, rt)
                    if not (cls and ctx.is_known(cls)):
                        ctx.violation({"kind": "truth-vs-coq-spec", "query": qt, "record": rt, "observed": res[i]["truth"],
                                       "expected": not res[i]["truth"],
                                       "how": "vh-kfl eval; KflSem.sem on the dumped tree"})
                if code & 4:
                    ctx.broken.append("K_limit: limit of the model differs from Precompute on %r" % qt)
                if code & 8:
                    ctx.broken.append("C12_limit instance fails on %r" % qt)
            ctx.log("correspondence: %d cases in %.1fs (%d with a defined Coq sem)" % (len(codes), time.time() - t0, sem_defined))
    # the Precompute model (surface syntax -> prepared tree) against Parse + Precompute on the same cases
    if coq_ok:
        t0 = time.time()
        idx = [i for i, c in enumerate(cases) if c[0] in ("helper", "random", "corpus", "known-witness")]
        idx = sorted(rng.sample(idx, min(len(idx), 500 if quick else 4000)))
        n, problems = kfl.check_precompute(ctx, [(cases[i][2], cases[i][3]) for i in idx], [res[i] for i in idx], now_ms * 1000000, name="kpre12")
        ctx.cov["precompute_traces_validated"] = n
        ctx.broken += problems[:5]
        ctx.log("precompute correspondence: %d cases in %.1fs, %d problems" % (n, time.time() - t0, len(problems)))
    # the recorded finding map-order: the truth of this query on this record is not a function of the input
    probe = kfl.run_cases(ctx, "eval", [['a.* == a[*]', '{"a":{"b":"xy","k":[1,2]}}']] * 24)
    if len({(o.get("outcome"), o.get("truth")) for o in probe}) > 1:
        ctx.is_known("map-order")
    else:
        ctx.note("the witness of finding map-order gave the same truth value on 24 evaluations")
    check_num(ctx, coq_ok)
    ctx.cov["oracle"] = stats
    ctx.cov["coq_sem_defined"] = sem_defined
    for b in ctx.broken[:5]:
        ctx.log("broken:", b)
    ctx.trusted += TRUSTED
    return ctx.finish(
        rule="queries: the corpus of repaired witnesses, every query x op y / x op y lop z over a small operand alphabet on records "
             "where a and b are absent or hold each JSON type and boundary numbers (sampled in the quick tier), helper cases with an "
             "answer known by construction (time helpers, datetime, json()/xml() hops plain and base64, limit, string helpers), and "
             "seeded random grammar queries on records in which each referenced path is planted or absent; non-trivial = the reference "
             "semantics defines a truth value; distinct = distinct (query, record, truth)",
        assumptions=ASSUMPTIONS)


TRUSTED = [
    "participle parser and jp.ParseString: their output (the prepared tree dumped by vh-kfl) is the model's input",
    "library oracles supplied to the model as tables computed by Go on every case: strconv.ParseFloat, regexp.MatchString, time.Parse, "
    "base64.StdEncoding, oj.ParseString, mxj.NewMapXml/ValuesForPath",
    "modelled, not verified: ojg jp.Get (JPath.v, compared on every case), strconv.FormatFloat('g',6) (Num.fmt_g6, compared on boundary values), "
    "float64(int64) rounding (Num.f_of_Z)",
    "reference semantics in Python (tools/fam/kfl.py Sem) written from the property text; Coq specification KflSem.v",
]
ASSUMPTIONS = [
    "the record has been parsed by oj.ParseString (its float parsing is not correctly rounded: finding oj-float-parse)",
    "object members are visited in key order by the model; Go map order is unspecified (order-dependent observables are not compared)",
]


def replay(ctx, path):
    r = json.load(open(path))
    ctx.build_harness()
    res = kfl.run_cases(ctx, "eval", [[r["query"], r["record"]]])
    o = res[0]
    print("query:", r["query"], "record:", r["record"])
    print("observed:", {k: o.get(k) for k in ("outcome", "truth", "limit", "msg")}, "expected:", r.get("expected", r.get("expected_limit")))
    if o.get("outcome") != "ok":
        return 1
    if "expected" in r:
        return 0 if o["truth"] == r["expected"] else 1
    if "expected_limit" in r:
        return 0 if o["limit"] == str(r["expected_limit"]) else 1
    return 1
