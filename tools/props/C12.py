"""C12 — KFL evaluation returns the truth value the language defines (DESIGN.md 5.C12)."""
import base64
import json
import time

import vlib
from fam import kfl

# witnesses of the repaired defects and of the recorded findings: (query, record, expected truth)
CORPUS = [
    ('1234567 == 1234568', '{}', False),                        # D37
    ('a == 1234567', '{"a":1234567}', True),                    # D37
    ('a == 1000000', '{"a":1000000}', True),                    # D37
    ('a != 1000000', '{"a":1000000}', False),
    ('a.* == 1000000', '{"a":[1,1000000]}', True),
    ('a == b', '{"a":[1,2],"b":[1.0,2]}', True),
    ('a >= 1000000 and a <= 1000000', '{"a":1000000}', True),
    ('a[*] == 2', '{"a":[1,2]}', True),                         # D48
    ('a["*"] == 2', '{"a":{"*":2}}', True),
    ('-a > -5', '{"a":7}', False),                              # unary minus on integers
    ('!a', '{"a":"x"}', False),                                 # ! on non-booleans
    ('!5', '{}', False),
    ('a.json()[*] == 2', '{"a":"[1,2]"}', True),                # json() any-match
    ('9007199254740993 == a', '{"a":9007199254740992}', True),  # both are the same float64
    ('a == 0', '{"a":-0.0}', True),
    ('(a == nil) or true', '{}', True),
    ('a == nil or true', '{}', False),
    ('true or a', '{}', True),
    ('1 < 2 < 3', '{}', False),
    ('3 > 2 > 1', '{}', True),
]


def gen_special_cases(rng, now_ms):
    """helper cases with an answer known by construction: time helpers, datetime, json()/xml() hops, limit"""
    out = []
    for name, unit in kfl.UNIT_MS.items():
        for n in (-5, 5, 0, 1):
            for delta in (-600000, 600000):
                for op in ('<=', '>=', '<', '>'):
                    q = ('C', [('path', [('k', 'a')]), ('call', [], name, [('U', '-', ('num', str(-n))) if n < 0 else ('num', str(n))])], [op])
                    out.append((q, {"a": now_ms + n * unit + delta}, {}))
    for delta in (-600000, 600000):
        for op in ('<=', '>='):
            out.append((('C', [('path', [('k', 'a')]), ('call', [], 'now', [])], [op]), {"a": now_ms + delta}, {}))
    base = 1634668142000                      # 10/19/2021, 6:29:02.000 PM UTC
    for d in (-1, 0, 1):
        for op in ('>', '>=', '<', '=='):
            node = ('Q' if op == '==' else 'C', [('path', [('k', 'a')]), ('call', [], 'datetime', [('str', '10/19/2021, 6:29:02.000 PM')])], [op])
            out.append((node, {"a": base + d}, {}))
    out.append((('call', [], 'datetime', [('str', 'not a date')]), {}, {}))
    docs = [{"b": 1, "c": {"d": [1, 2, {"k": "v"}]}, "k": [{"x": 1}, {"x": 2}]}, [1, 2, "x"], {"b": "x", "k": 1000000}, {}, 5]
    subs = [[('k', 'b')], [('k', 'c'), ('k', 'd')], [('i', 0)], [('b', 'b')], [('bw',)], [('d', 'x')], [('k', 'k'), ('w',), ('k', 'x')],
            [('k', 'c'), ('k', 'd'), ('w',)], [('k', 'zz')], [('k', 'k')]]
    lits = [('num', '1'), ('num', '2'), ('str', 'x'), ('num', '1000000'), ('str', 'v')]
    for doc in docs:
        for sub in subs:
            for b64 in (False, True):
                text = kfl.json_of(doc)
                if b64:
                    text = base64.b64encode(text.encode()).decode()
                lit = rng.choice(lits)
                op = rng.choice(['==', '==', '!=', '>', '<='])
                node = ('Q' if op in ('==', '!=') else 'C', [('hop', [('k', 'a')], 'json', sub), lit], [op])
                out.append((node, {"a": text, "b": 1}, {}))
    out.append((('Q', [('hop', [('k', 'a')], 'json', [('k', 'b')]), ('num', '1')], ['==']), {"a": "INVALID JSON"}, {}))
    out.append((('Q', [('hop', [('k', 'zz')], 'json', [('k', 'b')]), ('num', '1')], ['==']), {"a": "{}"}, {}))
    xml_specs = [("r", {}, None, [("b", {}, "1", []), ("c", {"x": "2"}, "t", [])]),
                 ("r", {}, None, [("b", {}, "u", []), ("b", {}, "v", [])]),
                 ("r", {"id": "7"}, "txt", [])]
    for spec in xml_specs:
        text = kfl.xml_render(spec)
        for sub in ([('k', 'r'), ('k', 'b')], [('k', 'r'), ('k', 'c')], [('k', 'r')], [('k', 'r'), ('k', 'zz')]):
            for b64 in (False, True):
                t = base64.b64encode(text.encode()).decode() if b64 else text
                for lit in ('1', 't', 'u', 'txt'):
                    node = ('Q', [('hop', [('k', 'a')], 'xml', sub), ('str', lit)], ['=='])
                    out.append((node, {"a": t}, {text: spec}))
    for n in ('100', '1', '0', '7'):
        for other in (('Q', [('path', [('k', 'a')]), ('num', '1')], ['==']), ('true',), ('false',)):
            lim = ('call', [], 'limit', [('num', n)])
            out.append((('L', [other, lim], ['and']), {"a": 1}, {}))
            out.append((('L', [lim, other], ['and']), {"a": 2}, {}))
            out.append((('L', [lim, ('call', [], 'limit', [('num', '9')])], ['or']), {"a": 2}, {}))
    for name in ('startsWith', 'endsWith', 'contains'):
        for subj in ("Chevrolet", 1000000, 1.5, True, None):
            for a in ("Chev", "let", "vro", "", "1e+06", "1", "true", "null", "x"):
                out.append((('call', [('k', 'a'), ('k', 'b')], name, [('str', a)]), {"a": {"b": subj}}, {}))
                out.append((('U', '!', ('call', [('k', 'a'), ('b', 'b')], name, [('str', a)])), {"a": {"b": subj}}, {}))
    return out


def classify(ctx, q, sem_obj, rec_text):
    """class tag of a disagreement between the reference semantics and the implementation"""
    if q is not None and (kfl.tail_not_last(q) or sem_obj.tail_missing):
        return "select-tail-scope"
    if oj_misparses(rec_text):
        return "oj-float-parse"
    return None


def oj_misparses(text):
    """does the record contain a number that ojg's parser (I + Frac/Div, then * Pow10) does not
    convert to the nearest float64"""
    import re
    for m in re.finditer(r'-?\d+(?:\.\d+)?(?:[eE][+-]?\d+)?', text):
        lit = m.group(0)
        if not any(c in lit for c in ".eE"):
            continue
        mm = re.match(r'(-?)(\d+)(?:\.(\d+))?(?:[eE]([+-]?\d+))?$', lit)
        neg, ip, fp, ex = mm.group(1), mm.group(2), mm.group(3) or "", int(mm.group(4) or 0)
        if len(ip) > 18 or len(fp) > 18:
            return True
        f = float(int(ip))
        if fp and int(fp) > 0:
            f += float(int(fp)) / float(10 ** len(fp))
        if ex:
            f = f * pow10(ex)
        if neg:
            f = -f
        if f != float(lit):
            return True
    return False


def pow10(n):
    """math.Pow10 of Go"""
    if 0 <= n <= 308:
        return float("1e%d" % (n // 32 * 32)) * float("1e%d" % (n % 32))
    if -323 <= n <= 0:
        return float("1e-%d" % (-n // 32 * 32)) / float("1e%d" % (-n % 32))
    return float('inf') if n > 0 else 0.0


CHK = """
Definition case_t := (tables * expr * jv * option bool * N)%type.
Definition code (c : case_t) : nat :=
  let '(t, e, r, obs, lim) := c in
  (if agrees t e r obs then 0 else 1) +
  (match sem (t_float t) (t_re t) (t_time t) (t_b64 t) (t_json t) (t_xml t) e r, obs with
   | Some b, Some b' => if Bool.eqb b b' then 0 else 2
   | Some _, None => 2
   | None, _ => 0
   end) +
  (if N.eqb (limit_model t e) lim || negb (limit_defined t e) then 0 else 4) +
  (if N.eqb (limit_model t e) (limit_spec t e) then 0 else 8) +
  (match sem (t_float t) (t_re t) (t_time t) (t_b64 t) (t_json t) (t_xml t) e r with Some _ => 16 | None => 0 end).
"""


def k_codes(ctx, name, items, chunk=100, timeout=900):
    return kfl.k_map(ctx, name, CHK, "code", items, chunk=chunk, timeout=timeout)


def run(ctx):
    ctx.build_harness()
    if not ctx.harness_tagged:
        ctx.broken.append("harness: build failed")
        return ctx.finish(rule="(harness did not build)")
    ctx.translate()
    failed = ctx.coq_build()
    ctx.check_proofs()
    coq_ok = not any(f.startswith("Kfl/") or f.startswith("Base/") for f in failed)
    rng = ctx.rng
    quick = ctx.tier == "quick"
    now_ms = int(time.time() * 1000)

    # ------------------------------------------------------------------ cases
    cases = []      # (kind, abstract query or None, query text, record text, expected truth or None, xml docs)
    for qt, rt, exp in CORPUS:
        cases.append(("corpus", None, qt, rt, exp, {}))
    small_q = kfl.small_queries()
    small_r = kfl.small_records()
    if quick:
        pairs = [(q, r) for q in small_q for r in small_r]
        pairs = rng.sample(pairs, 2500)
    else:
        pairs = [(q, r) for q in small_q for r in small_r]
    for q, r in pairs:
        cases.append(("small", q, kfl.render(q), kfl.json_of(r), None, {}))
    for q, r, docs in gen_special_cases(rng, now_ms):
        cases.append(("helper", q, kfl.render(q), kfl.json_of(r), None, docs))
    nrand = 1500 if quick else 20000
    for _ in range(nrand):
        q = kfl.gen_logical(rng)
        r = kfl.gen_record(rng, kfl.query_paths(q))
        cases.append(("random", q, kfl.render(q), kfl.json_of(r), None, {}))

    t0 = time.time()
    res = kfl.run_cases(ctx, "eval", [[c[2], c[3]] for c in cases], extra=["-k"], timeout=1200)
    ctx.log("implementation: %d cases in %.1fs" % (len(cases), time.time() - t0))
    if len(res) != len(cases):
        ctx.broken.append("K_eval: harness answered %d of %d cases" % (len(res), len(cases)))
        return ctx.finish(rule="(harness failed)")

    # ------------------------------------------------------------------ oracle on the implementation
    stats = {}
    kitems, kidx = [], []
    for i, (c, o) in enumerate(zip(cases, res)):
        kind, q, qt, rt, exp, docs = c
        outcome = o.get("outcome")
        if outcome in ("panic", "crash", "timeout"):
            ctx.count_case((qt, rt), True, kind)
            ctx.violation({"kind": "panic", "query": qt, "record": rt, "observed": outcome, "msg": o.get("msg", "")[:300],
                           "how": "vh-kfl eval"})
            continue
        if outcome == "error":
            stats["impl-error"] = stats.get("impl-error", 0) + 1
            ctx.count_case((qt, rt), False, kind + "-error")
            if kind in ("corpus", "helper", "small"):
                ctx.violation({"kind": "error-on-valid-query", "query": qt, "record": rt, "msg": o.get("msg", "")[:300]})
            continue
        rec = json.loads(rt)
        verdict, want, want_limit = "undefined", None, None
        sem_obj = kfl.Sem(rec, now_ms=now_ms, xml_docs=docs)
        if exp is not None:
            verdict, want = "defined", exp
        elif q is not None:
            try:
                want = sem_obj.truth(q)
                want_limit = sem_obj.limit
                verdict = "defined"
            except kfl.Undefined:
                pass
        ctx.count_case((qt, rt, o["truth"]), verdict == "defined", kind)
        stats[verdict] = stats.get(verdict, 0) + 1
        if verdict == "defined":
            bad = None
            if want != o["truth"]:
                bad = {"kind": "truth", "query": qt, "record": rt, "expected": want, "observed": o["truth"]}
            elif want_limit is not None and q is not None and "limit(" in qt and str(want_limit) != o["limit"]:
                bad = {"kind": "limit", "query": qt, "record": rt, "expected_limit": want_limit, "observed_limit": o["limit"]}
            if bad:
                cls = classify(ctx, q, sem_obj, rt)
                if cls and ctx.is_known(cls):
                    stats["known:" + cls] = stats.get("known:" + cls, 0) + 1
                else:
                    bad["how"] = "vh-kfl eval"
                    ctx.violation(bad)
        if len(ctx.cov["samples"]) < 5 and verdict == "defined" and kind in ("random", "helper") and i % 97 == 0:
            ctx.sample({"query": qt, "record": rt, "truth": o["truth"], "limit": o["limit"]})
        # correspondence item
        if coq_ok and o.get("ast") and o.get("rec") and o.get("rec_ok") and o.get("tables") and not o.get("unsupported") \
                and not o.get("redact"):
            if o.get("shape"):
                ctx.broken.append("K_ast: the parser produced a tree outside the modelled shape: %s on %r" % (o["shape"][:2], qt))
                continue
            kitems.append("(%s, %s, %s, Some %s, %s%%N)" % (o["tables"], o["ast"], o["rec"], "true" if o["truth"] else "false", o["limit"]))
            kidx.append(i)
        if not o.get("snap_equal", True):
            ctx.violation({"kind": "ast-modified", "query": qt, "record": rt, "how": "vh-kfl eval -k"})

    # ------------------------------------------------------------------ correspondence
    sem_defined = 0
    if coq_ok and kitems:
        t0 = time.time()
        kmax = 1200 if quick else 8000
        if len(kitems) > kmax:
            sel = sorted(rng.sample(range(len(kitems)), kmax))
            kitems, kidx = [kitems[j] for j in sel], [kidx[j] for j in sel]
        codes = k_codes(ctx, "k12", kitems)
        if codes is None:
            ctx.broken.append("K_eval: coqc failed on the case file")
        else:
            ctx.cov["traces_validated_against_impl"] = len(codes)
            for code, i in zip(codes, kidx):
                kind, q, qt, rt, exp, docs = cases[i]
                if code & 16:
                    sem_defined += 1
                if code & 1:
                    ctx.broken.append("K_eval: model and implementation differ on %r / %s" % (qt, rt))
                if code & 2:
                    # the Coq specification disagrees with the implementation
                    sem_obj = kfl.Sem(json.loads(rt), now_ms=now_ms, xml_docs=docs)
                    try:
                        if q is not None:
                            sem_obj.truth(q)
                    except kfl.Undefined:
                        pass
                    cls = classify(ctx, q, sem_obj, rt)
                    if not (cls and ctx.is_known(cls)):
                        ctx.violation({"kind": "truth-vs-coq-spec", "query": qt, "record": rt, "observed": res[i]["truth"],
                                       "how": "vh-kfl eval; KflSem.sem on the dumped tree"})
                if code & 4:
                    ctx.broken.append("K_limit: limit of the model differs from Precompute on %r" % qt)
                if code & 8:
                    ctx.broken.append("C12_limit instance fails on %r" % qt)
            ctx.log("correspondence: %d cases in %.1fs (%d with a defined Coq sem)" % (len(codes), time.time() - t0, sem_defined))
    ctx.cov["oracle"] = stats
    ctx.cov["coq_sem_defined"] = sem_defined
    for b in ctx.broken[:5]:
        ctx.log("broken:", b)
    ctx.trusted += TRUSTED
    return ctx.finish(
        rule="queries: the corpus of repaired witnesses, every query x op y / x op y lop z over a small operand alphabet on records "
             "where a and b are absent or hold each JSON type and boundary numbers (sampled in the quick tier), helper cases with an "
             "answer known by construction (time helpers, datetime, json()/xml() hops plain and base64, limit, string helpers), and "
             "seeded random grammar queries on records in which each referenced path is planted or absent; non-trivial = the reference "
             "semantics defines a truth value; distinct = distinct (query, record, truth)",
        assumptions=ASSUMPTIONS)


TRUSTED = [
    "participle parser and jp.ParseString: their output (the prepared tree dumped by vh-kfl) is the model's input",
    "library oracles supplied to the model as tables computed by Go on every case: strconv.ParseFloat, regexp.MatchString, time.Parse, "
    "base64.StdEncoding, oj.ParseString, mxj.NewMapXml/ValuesForPath",
    "modelled, not verified: ojg jp.Get (JPath.v, compared on every case), strconv.FormatFloat('g',6) (Num.fmt_g6, compared on boundary values), "
    "float64(int64) rounding (Num.f_of_Z)",
    "reference semantics in Python (tools/fam/kfl.py Sem) written from the property text; Coq specification KflSem.v",
]
ASSUMPTIONS = [
    "the record has been parsed by oj.ParseString (its float parsing is not correctly rounded: finding oj-float-parse)",
    "object members are visited in key order by the model; Go map order is unspecified (order-dependent observables are not compared)",
]


def replay(ctx, path):
    r = json.load(open(path))
    ctx.build_harness()
    res = kfl.run_cases(ctx, "eval", [[r["query"], r["record"]]])
    o = res[0]
    print("query:", r["query"], "record:", r["record"])
    print("observed:", {k: o.get(k) for k in ("outcome", "truth", "limit", "msg")}, "expected:", r.get("expected", r.get("expected_limit")))
    if o.get("outcome") != "ok":
        return 1
    if "expected" in r:
        return 0 if o["truth"] == r["expected"] else 1
    if "expected_limit" in r:
        return 0 if o["limit"] == str(r["expected_limit"]) else 1
    return 1
