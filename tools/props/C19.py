"""C19 — Emitting assigns unique item identities and counts exactly (DESIGN.md 5.C19)."""
import json

import vlib
from vlib import coq_list


def model_schedule(steps, names):
    """scheduler trace -> model schedule (one thread id per atom)."""
    site = {n: "start" for n in names}
    sc = []
    for s in steps:
        w = s["Worker"]
        i = names.index(w)
        prev, new = site[w], s["Site"]
        if s["Blocked"]:
            continue
        if prev in ("start", "emit.call"):
            k = 3 if new == "emit.index" else (1 if new.startswith("blocked:") else 6)
        elif prev.startswith("blocked:"):
            k = 2 if new == "emit.index" else 5
        elif prev == "emit.index":
            k = 3
        else:
            k = 0
        sc += [i] * k
        site[w] = new if new else "done"
    return sc


def parse_obs(obs):
    d = dict(kv.split("=") for kv in obs.split())
    idx = [int(x) for x in d["idx"].split(",") if x]
    return int(d["n"]), idx, int(d["matched"]), int(d["count"])


def check_sched(ctx, coq_ok):
    cfgs = [(2, 1), (2, 2), (3, 1)] if ctx.tier == "quick" else [(2, 1), (2, 2), (3, 1), (2, 3), (3, 2), (4, 1)]
    for nt, per in cfgs:
        rc, out = ctx.vh("vh-api", ["emit-sched", str(nt), str(per), "60000"], timeout=1500)
        lines = [json.loads(l) for l in out.split("\n") if l.startswith("{")]
        if rc != 0 or not lines or "runs" not in lines[-1]:
            ctx.broken.append("K_emit: scheduler run failed for %s" % ((nt, per),))
            ctx.log(out[-600:])
            continue
        summary, runs = lines[-1], lines[:-1]
        if not summary["complete"]:
            ctx.note("emit-sched %s not exhaustive (%d runs)" % ((nt, per), summary["runs"]))
        names = ["e%d" % i for i in range(nt)]
        terms = []
        N = nt * per
        for r in runs:
            if r.get("err"):
                ctx.violation({"kind": "emit-schedule", "config": [nt, per], "error": r["err"],
                               "schedule": [s["Worker"] for s in r["steps"]], "how": "vh-api emit-sched %d %d" % (nt, per)})
                continue
            n, idx, matched, count = parse_obs(r["obs"])
            sc = model_schedule(r["steps"], names)
            ctx.count_case(("emit", nt, per, tuple(sc)), True, "emit-schedule")
            if not (n == N and sorted(idx) == list(range(N)) and matched == N and count == N):
                ctx.violation({"kind": "emit-schedule", "config": [nt, per],
                               "schedule": [s["Worker"] + "@" + s["Site"] for s in r["steps"]],
                               "observed": r["obs"], "expected": "n=%d distinct indices 0..%d matched=%d" % (N, N - 1, N),
                               "how": "vh-api emit-sched %d %d" % (nt, per)})
            terms.append("(%s, %s, %s, %d%%Z)" % (coq_list(["%d" % per] * nt), coq_list([str(x) for x in sc]),
                                                 coq_list(["%d%%Z" % x for x in idx]), matched))
        ctx.sample({"kind": "emit-schedule", "config": [nt, per],
                    "schedule": [s["Worker"] + "@" + s["Site"] for s in runs[len(runs) // 2]["steps"]],
                    "obs": runs[len(runs) // 2]["obs"]})
        if coq_ok:
            for k in range(0, len(terms), 1500):
                src = ("Require Import V.Base.Prelude V.Api.Emit.\n"
                       "Definition cases : list (list nat * list nat * list Z * Z) := [\n" + ";\n".join(terms[k:k + 1500]) + "].\n"
                       "Definition chk (c : list nat * list nat * list Z * Z) := let '(ns, sc, idxs, m) := c in\n"
                       "  let s := eexec true (einit 0 0 ns) sc in efinished s && list_eqb Z.eqb (rev (out s)) idxs && Z.eqb (matched s) m.\n"
                       "Definition M := Eval vm_compute in failing chk cases.\nPrint M.\n")
                rc, out = ctx.coq_run("emit_cases_%d_%d_%d" % (nt, per, k), src)
                idxs = vlib.parse_coq_list_of_nat(out, "M")
                if rc != 0 or idxs is None:
                    ctx.broken.append("K_emit: coqc failed on the case file")
                    ctx.log(out[-600:])
                elif idxs:
                    ctx.broken.append("K_emit: model and implementation differ on schedule #%d of config %s" % (k + idxs[0], (nt, per)))
            ctx.cov["traces_validated_against_impl"] = ctx.cov.get("traces_validated_against_impl", 0) + len(terms)


def check_stress(ctx):
    g, per = (8, 30000) if ctx.tier == "quick" else (16, 300000)
    for rep in range(2 if ctx.tier == "quick" else 5):
        rc, out = ctx.vh("vh-api", ["emit-stress", str(g), str(per)], timeout=600)
        try:
            o = json.loads(out.strip().split("\n")[-1])
        except Exception:
            ctx.broken.append("emit-stress failed: " + out[-300:])
            return
        ctx.count_case(("emit-stress", g, per, rep), True, "emit-stress")
        ctx.cov["stress"] = o
        N = g * per
        if not (o["delivered"] == N and o["distinct"] == N and o["duplicates"] == 0 and o["matched"] == N and o["count"] == N):
            ctx.violation({"kind": "emit-stress", "args": [g, per], "observed": o, "how": "vh-api emit-stress %d %d" % (g, per)})
            return


def check_fresh(ctx, more=False):
    """the first Emit calls of a fresh Emitting under contention (whatever Emit sets up lazily)"""
    trials = (8000 if ctx.tier == "quick" else 100000) * (5 if more else 1)
    for g in (2, 3):
        rc, out = ctx.vh("vh-api", ["emit-fresh", str(trials), str(g)], timeout=900)
        try:
            o = json.loads(out.strip().split("\n")[-1])
        except Exception:
            ctx.broken.append("emit-fresh failed: " + out[-300:])
            return
        ctx.count_case(("emit-fresh", trials, g), True, "emit-fresh")
        ctx.cov.setdefault("fresh_emitters", {})[str(g)] = o
        if o["bad"]:
            ctx.violation({"kind": "emit-fresh", "args": [trials, g], "observed": o,
                           "explanation": "a fresh Emitting whose first Emit calls overlap: every trial must deliver one item per goroutine with the indices 0..g-1",
                           "how": "vh-api emit-fresh %d %d" % (trials, g)})
            return


def check_from(ctx):
    """Emit on statistics whose counter already stands near a power of two (a process that has run for long)"""
    starts = [0, 7, 2 ** 31 - 2, 2 ** 31 - 1, 2 ** 32 - 3, 2 ** 32 - 2, 2 ** 32 - 1, 2 ** 32, 2 ** 40 + 2 ** 32 - 1, 2 ** 53 - 1, 2 ** 63 - 2, 2 ** 63 - 1,
              2 ** 64 - 2 ** 32 - 1, 2 ** 64 - 5]
    rc, out = ctx.vh("vh-api", ["emit-from", "3"] + [str(x) for x in starts], timeout=300)
    try:
        o = json.loads(out.strip().split("\n")[-1])
    except Exception:
        ctx.broken.append("emit-from failed: " + out[-300:])
        return
    for r in o["rows"]:
        ctx.count_case(("emit-from", r["start"]), True, "emit-from")
    if o["bad"]:
        ctx.violation({"kind": "emit-from", "observed": [r for r in o["rows"] if r["end"] != r["want"] or not r["indices_ok"]],
                       "explanation": "three Emit calls on statistics whose matched-pairs counter stands at `start`: the counter must stand at start + 3 afterwards",
                       "how": "vh-api emit-from 3 " + " ".join(str(x) for x in starts)})


def check_closed(ctx):
    """a stream that reports itself closed while its halves still emit, a small output channel, a late consumer"""
    trials = 300 if ctx.tier == "quick" else 6000
    for cap in (0, 1, 4):
        rc, out = ctx.vh("vh-api", ["emit-closed", str(trials), "2", "6", str(cap)], timeout=900)
        try:
            o = json.loads(out.strip().split("\n")[-1])
        except Exception:
            ctx.broken.append("emit-closed failed: " + out[-300:])
            return
        ctx.count_case(("emit-closed", trials, cap), True, "emit-closed")
        ctx.cov.setdefault("closed_stream", {})[str(cap)] = o
        if o["bad"]:
            ctx.violation({"kind": "emit-closed", "args": [trials, 2, 6, cap], "observed": o,
                           "explanation": "the stream reports itself closed after its first item while two goroutines still emit into a channel of this "
                                          "capacity whose consumer starts late: every emitted item must arrive, with the indices 0..N-1",
                           "how": "vh-api emit-closed %d 2 6 %d" % (trials, cap)})
            return


def check_multi(ctx):
    """several streams sharing one AppStats, with a concurrent statistics dump"""
    ns, g, per, nd = (6, 2, 8000, 300) if ctx.tier == "quick" else (8, 2, 100000, 3000)
    for rep in range(2 if ctx.tier == "quick" else 4):
        rc, out = ctx.vh("vh-api", ["emit-multi", str(ns), str(g), str(per), str(nd)], timeout=900)
        try:
            o = json.loads(out.strip().split("\n")[-1])
        except Exception:
            ctx.broken.append("emit-multi failed: " + out[-300:])
            return
        ctx.count_case(("emit-multi", ns, g, per, nd, rep), True, "emit-multi")
        ctx.cov["multi_stream"] = o
        if not (o["matched"] == o["expected"] and o["streams_exact"] == o["streams"]):
            ctx.violation({"kind": "emit-multi", "args": [ns, g, per, nd], "observed": o,
                           "explanation": "several streams sharing one AppStats: matched pairs (dumps + residue) must equal the number of emits and every stream must have N distinct indices",
                           "how": "vh-api emit-multi %d %d %d %d" % (ns, g, per, nd)})
            return


def run(ctx):
    ctx.build_harness()
    if not ctx.harness_tagged:
        ctx.broken.append("harness: build with -tags verif failed")
        return ctx.finish(rule="(harness did not build)")
    ctx.translate()
    failed = ctx.coq_build()
    ctx.check_proofs()
    base_ok = not ({"Base/Prelude.v", "Api/Emit.v"} & failed)
    check_sched(ctx, base_ok)
    check_stress(ctx)
    check_multi(ctx)
    check_fresh(ctx, more="Api/EmitTie.v" in failed)
    check_closed(ctx)
    check_from(ctx)
    if "Api/EmitTie.v" in failed and not ctx.violations:
        # the source's Emit is no longer the atom sequence the theorem is about: show the model's
        # witness when the lock is simply gone (with statements the translator does not know, the
        # broken tie is reported as such)
        src = open(vlib.COQ + "/gen/EmitSrc.v").read()
        if ("ELock" not in src or "EUnlock" not in src) and "EUnknown" not in src:
            ctx.violation({"kind": "model-schedule", "gen": src,
                           "schedule_thread_ids": [0, 0, 0, 1, 1, 1, 0, 0, 0, 1, 1, 1],
                           "explanation": "Emit as found in the source takes no lock around GetIndex/IncrementItemCount; in the model "
                                          "(theorem C19_nolock_refuted) this schedule of two emitters gives both items the same index"})
    ctx.trusted += [
        "translator vh-translate/emit.go (go/ast: statement sequence of (*Emitting).Emit)",
        "deterministic scheduler harness/sched + yield hooks emit.lock / emit.index (build tag verif)",
        "assumption: the TcpStream implementation's GetIndex and IncrementItemCount are individually atomic (harness mock uses sync/atomic); sync.Mutex and channel send are linearizable",
    ]
    return ctx.finish(
        rule="every schedule of the real Emit under the deterministic scheduler for the listed (emitters x emits) configurations "
             "(distinct = distinct model schedule, all non-trivial: at least two emitters), plus free-running stress runs, several streams on one AppStats "
             "and the first Emit calls of fresh emitters released together",
        assumptions=["both goroutines of a stream share one api.Emitting", "TcpStream.GetIndex/IncrementItemCount individually atomic"])


def replay(ctx, path):
    """Re-run the recorded case on the implementation built from the current tree."""
    r = json.load(open(path))
    ctx.build_harness()
    print(json.dumps({k: v for k, v in r.items() if k not in ("observed", "first_bad", "gen")}, indent=1)[:2500])
    how = r.get("how", "")
    sched_names = [x.split("@")[0] for x in r.get("schedule", [])] if isinstance(r.get("schedule"), list) else []
    if r.get("kind") == "progress":
        rc, out = ctx.vh("vh-api", ["progress"], inp=" ".join(r["ops"]) + "\n")
        got = [int(x) for x in out.split("\n")[0].split()]
        print("observed now:", got, "expected:", r.get("expected"))
        return 0 if got == r.get("expected") else 1
    if how.startswith("vh-match conc") and sched_names:
        args = how.split()[1:]
        args[2] = "prefix=" + ",".join(sched_names)
        rc, out = ctx.vh("vh-match", args, timeout=600)
        print("observed now:", out[-1500:])
        return 0
    if how.startswith("vh-api") and sched_names:
        args = how.split()[1:]
        rc, out = ctx.vh("vh-api", args, timeout=600, env={"VH_PREFIX": ",".join(sched_names)})
        print("observed now:", out[-1500:])
        return 0
    if how.startswith("vh-") :
        args = how.split()
        rc, out = ctx.vh(args[0], args[1:], timeout=1800)
        print("observed now:", out[-1500:])
        return 0
    if "| work/bin/vh-match seq" in how:
        line = how.split("'")[1]
        rc, out = ctx.vh("vh-match", ["seq"], inp=line + "\n")
        print("observed now:", out[-1500:])
    return 0
