"""C13 — No query text and no record content can crash KFL (DESIGN.md 5.C13)."""
import json
import time

import vlib
from fam import kfl
from fam import kfltext

ENTRY_POINTS = ["Validate", "ExpandMacros", "Parse", "Precompute", "EvalAfterPrecompute", "EvalParsedOnly", "PrepareQuery", "Eval", "Apply"]

# witnesses of the repaired defects (all must return a result or an error now)
CORPUS = [
    ('a.json("x")', '{"a":"{}"}'), ('now(1)', '{}'), ('a.xml().r.b', '{"a":"<r><b x=\\"1\\"><c>1</c></b></r>"}'),
    ('a.xml().r == "1"', '{"a":"<r><b x=\\"2\\">1</b></r>"}'), ('a.xml()[0]', '{"a":"<r><b x=\\"2\\">1</b></r>"}'),
    ('a.(1)', '{"a":1}'), ('a.b.(1)', '{"a":1}'), ('seconds(1, 2) > 3', '{}'), ('a.xml(1, 2)', '{"a":"<r/>"}'),
    ("(" * 100000 + "a" + ")" * 100000, '{"a":1}'),
    ('redact("a.xml().doc.b.item")', '{"a":"<doc><b>x</b><b><item>y</item></b></doc>"}'),
]
RECORDS4 = ['{"a":{"b":"xy","k":[1,2]},"b":"{\\"c\\":1}","c":[{"k":1},"s",null]}',
            '{"a":"<r><b x=\\"2\\">1</b><b><c>2</c></b></r>","b":"eyJjIjoxfQ==","c":1.5}',
            '{}', '[1,"a",{"a":null}]']
HOP_QUERIES = ['a.json().b', 'a.json().b.c == 1', 'a.json()[0]', 'a.json()["k"]', 'a.json()..k', 'a.json()[*]', 'a.xml().r.b',
               'a.xml().r', 'a.xml().r.b[1]', 'a.k.json().b', 'a.k.xml().r.b == "1"', 'a[0].json().b', 'a.*.json().b', 'b.json().c.json().d',
               'redact("a.json().b")', 'redact("a.xml().r.b")', 'redact("a", "b.json()..k", "c.xml().r")', 'a.json().b.startsWith("x")',
               'a.startsWith("<") or b.contains("{") and !c.endsWith("=")', 'a == r"^<" or b == r"[{]"']


def run(ctx):
    ctx.build_harness()
    if not ctx.harness_tagged:
        ctx.broken.append("harness: build failed")
        return ctx.finish(rule="(harness did not build)")
    ctx.translate()
    failed = ctx.coq_build()
    ctx.check_proofs()
    coq_ok = not any(f.startswith("Kfl/") or f.startswith("Base/") for f in failed)
    rng = ctx.rng
    quick = ctx.tier == "quick"

    cases = []     # (kind, query bytes/str, record bytes/str)
    for q, r in CORPUS:
        cases.append(("corpus", q, r))
    ill = kfl.illtyped_queries(rng, ctx.tier)
    for q in ill:
        for r in RECORDS4:
            cases.append(("illtyped", q, r))
    nested = kfl.nested_doc_records(rng, 150 if quick else 1500)
    for r in nested:
        for q in rng.sample(HOP_QUERIES, 6 if quick else len(HOP_QUERIES)):
            cases.append(("nested-doc", q, r))
    ngarb = 2000 if quick else 50000
    for g in kfl.garbage_strings(rng, ngarb):
        cases.append(("garbage-query", g, rng.choice(RECORDS4)))
    for g in kfl.garbage_strings(rng, ngarb):
        cases.append(("garbage-record", rng.choice(['a', 'a.json().b', 'true', 'a.xml().r == "1"', 'redact("a")', 'a.* == 1 and b..c']), g))
    # redaction paths over structured records (the C15 generator: plain, bracket, wildcard, descent, negative and
    # out-of-range indices alone and behind wildcards, hops into nested documents, missing paths, several arguments)
    for c in kfltext.gen_c15(ctx, 300 if quick else 3000):
        cases.append(("redact-path", c["query"], c["record"]))
    # regular expressions: nested and overlapping quantifiers (linear for RE2, exponential for a backtracking engine) and the
    # constructs RE2 rejects (look-around, backreferences, atomic and possessive groups), against long near-miss strings
    pats = [r"^(a+)+$", r"^(a|a)*$", r"^(a|aa)+$", r"(x+x+)+y", r"^(/?[a-z]+)+$", r"^(?!/health)(/?[a-z]+)+$", r"^(?=a)(a+)+$", r"(a+)\1+$",
            r"^(?>a+)+b", r"^(a++)+$", r"^(?<=x)(a*)*$", r"(?i)^(A+)+$", r"^([a-z]+)*\d$", r"^(\w+\s?)+$", r"^(.*a){12}$"]
    subjects = ['{"a":"' + "a" * 48 + '?x=1"}', '{"a":"/' + "ab" * 30 + '!"}', '{"a":"' + "x" * 40 + '"}', '{"a":"' + "word " * 12 + '!"}',
                '{"a":{"b":"' + "a" * 60 + 'B"}}']
    for pat in pats:
        for rec in subjects:
            for q in ('a == r"%s"' % pat, 'r"%s" != a' % pat, 'a.b == r"%s"' % pat):
                cases.append(("regex", q, rec))
    # redaction paths in the whole JSONPath syntax the path library accepts (slices with every sign of start, end and step,
    # unions, filters, root and current-node markers) behind wildcards and descents, over arrays of different lengths
    def jp_soup():
        segs = []
        for _ in range(rng.randint(1, 4)):
            r = rng.random()
            if r < 0.3:
                segs.append("." + rng.choice(["a", "b", "c", "k", "rows", "items"]))
            elif r < 0.4:
                segs.append(rng.choice(["[*]", ".*", "..", "..a", "..k"]))
            elif r < 0.7:
                v = lambda: rng.choice(["", "0", "1", "2", "3", "5", "-1", "-2", "-5"])
                segs.append("[%s:%s%s]" % (v(), v(), rng.choice(["", ":1", ":2", ":-1", ":-2", ":0", ":"])))
            elif r < 0.8:
                segs.append(rng.choice(["[0,2]", "[1,-1]", "['a','b']", "[0,'a']", "[-1,-3]"]))
            elif r < 0.9:
                segs.append(rng.choice(["[?(@.k > 1)]", "[?(@.a == 'x')]", "[?(@ > 2)]", "[?(@.b)]", "[?(1)]"]))
            else:
                segs.append("[%d]" % rng.randint(-4, 4))
        p_ = "".join(segs).lstrip(".")
        return rng.choice(["", "", "$.", "@."]) + (p_ if p_ else "a")
    shaped = ['{"a":[[1,2,3,4],[5,6],[],[7]],"b":{"k":[{"k":1},{"k":2,"a":"x"}],"a":[1,2,3]},"rows":[[1],[2,3,4,5,6]],"items":[{"a":[1,2]},{"a":[]}],"c":"x","k":3}',
              '{"a":{"a":[1,2,3],"b":[4]},"b":[[[1,2],[3]],[[4,5,6]]],"k":[1,2,3,4,5],"rows":[],"items":[1,"x",null,[1,2,3],{"k":[9,8,7]}]}']
    # ... and systematically: a slice with every sign combination below a selector with several parents
    vals = ["", "0", "1", "2", "3", "5", "-1", "-3"]
    combos = [(b, w, st, en, sp) for b in ("a", "rows", "b", "items[*].a", "..a", "..k", "b.k") for w in ("[*]", ".*", "")
              for st in vals for en in vals for sp in ("", ":1", ":2", ":-1", ":-2")]
    for b, w, st, en, sp in (rng.sample(combos, 600) if quick else combos):
        for rec in shaped:
            cases.append(("jsonpath-soup", 'redact("%s%s[%s:%s%s]")' % (b, w, st, en, sp), rec))
    for _ in range(400 if quick else 6000):
        pth = jp_soup()
        cases.append(("jsonpath-soup", rng.choice(['redact("%s")', 'redact("%s") and a', 'redact("c", "%s", "k")']) % pth, rng.choice(shaped)))
    # pumping: one lexical atom repeated a few dozen times behind each kind of opening (inside a literal that holds a macro
    # name, behind an unterminated quote, outside literals): short texts on which anything polynomial answers at once and a
    # backtracking matcher or parser with two ways to read the atom does not answer at all
    pump_pre = ['a == "', 'a == "http ', '"http', 'http "', "a == 'http", 'a == r"http', 'a == "\\"http ', '"', '', 'a == "C:\\http']
    pump_atoms = ['\\\\', '\\"', "\\'", '\\n', '\\', '"', "'", '""', 'a', ' ', '(', ')', '.', 'http ', '/*', '*/', '!', 'a.', '[0]', '-', 'r"',
                  '\\\\\\"', '\\d', 'http', '"http"', "\\\\http"]
    pump_suf = ['"', '', '" and b', "'", 'index.html"']
    pumped = [pre + atom * n + suf for pre in pump_pre for atom in pump_atoms for suf in pump_suf for n in (40, 64)]
    pumped = rng.sample(pumped, 900) if quick else pumped
    # (each case that does not answer costs the harness its per-case time limit: when several of a first sample do not,
    # the sample is reported and the rest is not run)
    probe = pumped[::max(1, len(pumped) // 60)]
    stuck = sum(1 for o in kfl.run_cases(ctx, "entry", [[q, '{"a":"x"}'] for q in probe], timeout=3000) if o.get("outcome") == "timeout")
    for q in (probe if stuck >= 3 else pumped):
        cases.append(("pumped-query", q, '{"a":"x"}'))
    cases.append(("pumped-query", 'request.headers["X-Path"] == "C:\\\\http' + "\\\\d" * 30 + '\\\\index.html"', '{"a":"x"}'))
    depth = 100000          # beyond what the Go stack (1 GB) carries if the parser recursed that deep
    for i, form in enumerate(kfl.DEEP_FORMS):
        d = min(depth, 20000) if i == 6 else depth          # the long dotted path is quadratic in the parser
        cases.append(("deep-query", form(d), '{"a":1}'))
        cases.append(("deep-query", form(999), '{"a":{"b":[{"b":[1]}]}}'))
    # the same nesting behind every kind of literal and comment that could hide it from a hand-written depth check: a quote
    # inside a character literal, a raw string, an escaped quote, comments
    for pre in ("'\"' == ", "`\"` == ", '"\\"" == ', "'\\'' == ", '/* " */ ', '// "\n', "'(' == ", 'r"\\"" == ', "'\"' == '\"' or "):
        cases.append(("deep-query", pre + "(" * depth + "a" + ")" * depth, '{"a":1}'))
        cases.append(("deep-query", pre + "(" * 1500 + "a" + ")" * 1500 + " or b == '\"'", '{"a":1}'))
    for rec in ("[" * depth + "]" * depth, '{"a":' * depth + "1" + "}" * depth, '{"a":"' + "[" * depth + "]" * depth + '"}',
                '{"a":"' + "<r>" * min(depth, 5000) + "</r>" * min(depth, 5000) + '"}'):
        for q in ('a', 'a.json()[0]', 'a.xml().r.r', 'a..a', 'redact("..a")'):
            cases.append(("deep-record", q, rec))

    t0 = time.time()
    res = kfl.run_cases(ctx, "entry", [[c[1], c[2]] for c in cases], timeout=3000)
    ctx.log("entry points: %d cases in %.1fs" % (len(cases), time.time() - t0))
    if len(res) != len(cases):
        ctx.broken.append("K_entry: harness answered %d of %d cases" % (len(res), len(cases)))
        return ctx.finish(rule="(harness failed)")

    counts = {}
    for c, o in zip(cases, res):
        kind, q, r = c
        qs = q if isinstance(q, str) else q.decode("latin-1")
        rs = r if isinstance(r, str) else r.decode("latin-1")
        bad = None
        if o.get("outcome") in ("crash", "timeout"):
            bad = {"kind": o["outcome"], "msg": o.get("msg", "")[-400:]}
        else:
            for ep in ENTRY_POINTS:
                v = o.get(ep)
                if v is None:
                    continue
                cls = "panic" if v.startswith("panic") else v
                counts[(ep, cls)] = counts.get((ep, cls), 0) + 1
                if cls == "panic" and bad is None:
                    bad = {"kind": "panic", "entry_point": ep, "msg": v[:300]}
        reached_eval = o.get("Eval") == "ok"
        ctx.count_case((kind, qs[:200], rs[:200], len(qs), len(rs)), reached_eval, kind)
        if bad:
            bad.update({"query_hex": kfl.hx(q), "record_hex": kfl.hx(r), "query": qs[:300], "record": rs[:300], "how": "vh-kfl entry"})
            ctx.violation(bad)
    ctx.cov["entry_points"] = {"%s:%s" % k: v for k, v in sorted(counts.items())}
    ctx.sample({"query": ill[len(ill) // 2], "record": RECORDS4[0], "outcomes": res[len(CORPUS) + 4 * (len(ill) // 2)]})
    ctx.sample({"query": HOP_QUERIES[0], "record": nested[0][:200]})

    # ------------------------------------------------------------------ correspondence on the queries that prepare
    if coq_ok:
        kc = [(q, r) for kind, q, r in cases if kind in ("illtyped", "nested-doc", "corpus") and len(q) < 2000 and len(r) < 2000]
        kc = rng.sample(kc, min(len(kc), 700 if quick else 6000))
        t0 = time.time()
        kres = kfl.run_cases(ctx, "eval", [[q, r] for q, r in kc], extra=["-k"], timeout=1200)
        items, idx = [], []
        skipped = {}
        for i, o in enumerate(kres):
            if o.get("shape"):
                ctx.broken.append("K_ast: the parser produced a tree outside the modelled shape: %s on %r" % (o["shape"][:2], kc[i][0]))
            it = kfl.k_item(o)
            if it is None:
                why = "error" if o.get("outcome") == "error" else ("redact" if o.get("redact") else ("unsupported-path" if o.get("unsupported") else "other"))
                skipped[why] = skipped.get(why, 0) + 1
                continue
            items.append(it)
            idx.append(i)
        codes = kfl.k_codes(ctx, "k13", items) if items else []
        if codes is None:
            ctx.broken.append("K_eval: coqc failed on the case file")
        else:
            ctx.cov["traces_validated_against_impl"] = len(codes)
            ctx.cov["correspondence_skipped"] = skipped
            for code, i in zip(codes, idx):
                if code & 32:
                    ctx.broken.append("K_shape: a tree from the real parser violates shape_expr (hypothesis of C13_no_panic)")
                if code & 64:
                    ctx.broken.append("K_prepared: a tree from the real Precompute violates prepared_expr (hypothesis of C14_record_unchanged)")
                if code & 1:
                    ctx.broken.append("K_eval: model and implementation differ on %r / %s" % kc[i])
                if code & 4:
                    ctx.broken.append("K_limit: limit of the model differs from Precompute on %r" % (kc[i][0],))
            ctx.log("correspondence: %d cases in %.1fs, skipped %s" % (len(codes), time.time() - t0, skipped))
        # the Precompute model against Parse + Precompute
        t0 = time.time()
        sub = list(range(len(kc)))
        if len(sub) > (400 if quick else 3000):
            sub = sorted(rng.sample(sub, 400 if quick else 3000))
        n, problems = kfl.check_precompute(ctx, [kc[i] for i in sub], [kres[i] for i in sub], int(time.time() * 1e9))
        ctx.cov["precompute_traces_validated"] = n
        ctx.broken += problems[:5]
        ctx.log("precompute correspondence: %d cases in %.1fs, %d problems" % (n, time.time() - t0, len(problems)))
    for b in ctx.broken[:5]:
        ctx.log("broken:", b)
    ctx.trusted += [
        "participle, regexp2 (ExpandMacros), ojg, mxj, encoding/base64, regexp: exercised, not modelled (exploration level for these stages)",
        "library oracles of the evaluator model supplied as tables computed by Go on every correspondence case",
        "recover() in the harness plus one process per batch: a fatal runtime error is observed as a missing answer",
    ]
    return ctx.finish(
        rule="every helper (and an undefined one) x 8 subject forms x 0..3 arguments drawn from 20 argument kinds, chained json()/xml() and "
             "selector forms, each on 4 records; seeded random byte strings and token soups as query and as record; records whose string "
             "fields embed JSON / XML / base64 / garbage under hop queries; nesting depth %d for 12 recursive query forms and 4 record forms; "
             "every entry point (Validate, ExpandMacros, Parse, Precompute, PrepareQuery, Eval, Apply, plus Eval on a tree whose Precompute "
             "failed or was skipped) under recover(); non-trivial = Eval was reached and returned" % depth,
        assumptions=["stack depth beyond the nesting limit of Parse (1000) is outside the model",
                     "third-party libraries (participle, regexp2, ojg, mxj) are exercised by the generated inputs only"])


def replay(ctx, path):
    r = json.load(open(path))
    ctx.build_harness()
    import binascii
    q, rec = binascii.unhexlify(r["query_hex"]), binascii.unhexlify(r["record_hex"])
    o = kfl.run_cases(ctx, "entry", [[q, rec]], timeout=600)[0]
    print("query:", r.get("query"), "record:", r.get("record"))
    print("observed:", o)
    bad = o.get("outcome") in ("crash", "timeout") or any(isinstance(v, str) and v.startswith("panic") for v in o.values())
    return 1 if bad else 0
