"""C11 — Every emitted item survives the analyse/summarise/represent stages (DESIGN.md 5.C11)."""
import json

import os

from fam import aggregate as A
from fam import dns
from fam import stages


def dns_share(ctx):
    dns.c11(ctx)
    dns.correspondence(ctx, "Shape/Dns.v" not in ctx.coq_failed and "Base/Prelude.v" not in ctx.coq_failed)


def run(ctx):
    import fam
    fam.dnsshare = type("M", (), {"c11": staticmethod(dns_share)})
    import sys
    sys.modules["fam.dnsshare"] = fam.dnsshare
    fam.stagestie = type("M", (), {"c11": staticmethod(stages.c11)})
    sys.modules["fam.stagestie"] = fam.stagestie
    # the stage harness dumps the maps Summarize / Represent receive; the static part's tie runs last
    os.environ["VERIF_STAGE_DUMP"] = "1"
    ctx.c11_items = []
    A.FAMILIES = ["resp", "amqp", "kafka", "http", "dnsshare", "stagestie"]
    return A.run_shared(
        ctx, "c11", None,
        rule="every item emitted by the real Dissect of the four stream dissectors for the families' generated conversations "
             "(well-formed with every field type and null/empty/absent variants, other API versions, corrupted streams that still emit) and generated DNS entries "
             "(every record type in every section, pairs of types, absent/null/empty sections), each through json.Marshal -> Unmarshal -> Analyze -> Marshal -> Unmarshal -> Summarize / Represent with recover; "
             "the representation must be a JSON object whose request/response parts are lists of table|body sections with parseable table data; time within a linear budget; "
             "DNS: model (Shape/Dns.v) vs implementation on well-formed and deviating entries; "
             "redis/amqp/kafka/http/dns static part: Summarize/Represent translated from the source into access programs, request/response shapes derived by reflection from the emitted Go values, "
             "the checker accepts every program for every alternative (Properties/C11_static.v); tie: every emitted item's stage inputs conform to an alternative and the model gives the observed outcome, "
             "single-point deviations of emitted items and of shape witnesses give the same outcome and panic site in model and implementation",
        assumptions=["DNS entries have the shape the worker builds: at least one question; every record carries all string fields and a numeric ttl"],
        trusted=["harness/stage and the families' stage modes (recover around every stage, form check of the representation)",
                 "modelled, not verified: encoding/json (dynamic types after unmarshalling); "
                 "Analyze of redis/amqp/kafka/http is not translated (its effect on the maps is observed on probe items, for http encoded by rule, when the shapes are derived); "
                 "the dns entry shape is written down by rule (entries are built outside this repository)"])


def replay(ctx, path):
    r = json.load(open(path))
    print(json.dumps(r, indent=1)[:4000])
    return 0
