"""C04 — HTTP/2 and gRPC streams are reassembled and reported exactly (DESIGN.md 5.C04)."""
import copy
import json
import os

import vlib
from fam import http as H

MODEL_FILES = {"Base/Prelude.v", "Http/HBytes.v", "Http/H2Asm.v", "Http/HttpLoop.v", "Http/H1Glue.v", "Http/HttpK.v"}


# ------------------------------------------------------------------------------------ cases
def rle_body(rng, n):
    """A body of n bytes made of long runs (one byte value per run), cheap to write as a Coq term."""
    out = bytearray()
    while len(out) < n:
        k = min(n - len(out), rng.choice([16384, 16384, 65536, 100000, 1000]))
        out += bytes([rng.randrange(256)]) * k
    return bytes(out)


def upgrade_exchange(rng):
    return {"method": "GET", "target": "/up/" + H.rand_token(rng), "proto": "1.1",
            "reqHeaders": [["Host", "h.example"], ["Connection", "Upgrade, HTTP2-Settings"], ["Upgrade", "h2c"],
                           ["HTTP2-Settings", "AAMAAABkAARAAAAAAAIAAAAA"], ["X-Rq", "1"]],
            "reqBody": "", "reqFraming": "none", "reqFramePos": 0,
            "status": 101, "reason": "Switching Protocols", "respProto": "1.1",
            "respHeaders": [["Connection", "Upgrade"], ["Upgrade", "h2c"], ["X-Rs", "1"]],
            "respBody": "", "respFraming": "none", "respFramePos": 0}


def plain_exchange(rng, n):
    """an ordinary keep-alive HTTP/1.1 exchange that precedes the upgrade request on the same connection"""
    return {"method": "GET", "target": "/pre%d/%s" % (n, H.rand_token(rng)), "proto": "1.1", "reqHeaders": [["Host", "h.example"], ["X-Pre", str(n)]],
            "reqBody": "", "reqFraming": "none", "reqFramePos": 0,
            "status": rng.choice([200, 204, 404]), "reason": "R", "respProto": "1.1",
            "respHeaders": [["Content-Length", "0"], ["X-Pre", str(n)]], "respBody": "", "respFraming": "cl", "respFramePos": 0}


def gen_cases(ctx):
    rng = ctx.rng
    quick = ctx.tier == "quick"
    out = []   # (case, meta)

    def add(streams, kind, **kw):
        case = H.build_h2_case(rng, streams, **kw)
        case["bodylimit"] = -1
        case["wantoracle"] = True
        out.append((case, {"kind": kind, "streams": streams, "mode": kw.get("mode", "prior")}))

    # corpus first: witnesses of the repaired / recorded defects
    cdir = os.path.join(vlib.VERIF, "corpus", "C04")
    if os.path.isdir(cdir):
        for f in sorted(os.listdir(cdir)):
            c = json.load(open(os.path.join(cdir, f)))
            out.append((c["case"], unjson_meta(c["meta"])))
    st = H.gen_stream(rng, 0, force="grpc-req-only")
    add([st], "witness-grpc-request-half-only", others=False)
    st = H.gen_stream(rng, 0, force="grpc-status-only")
    add([st], "witness-grpc-status-on-first-half", others=False, order="sc")

    n = 110 if quick else 1500
    for i in range(n):
        k = rng.choice([1, 1, 2, 2, 3, 4, 6])
        streams = [H.gen_stream(rng, j) for j in range(k)]
        add(streams, "random", order=rng.choice(["cs", "cs", "sc"]))
    # bodies around the 1 MiB cap
    sizes = [H.CAP - 1, H.CAP, H.CAP + 1, H.CAP + 200000] if quick else [H.CAP - 1, H.CAP, H.CAP + 1, H.CAP + 17, 2 * H.CAP + 5, H.CAP + 200000]
    for sz in sizes:
        for side in (("req",) if quick and sz != H.CAP + 1 else ("req", "resp")):
            st = H.gen_stream(rng, 0, body_sizes=[10], force=rng.choice(["plain", "grpc"]))
            st["req"] = [f for f in st["req"] if f[0] != ":method"] + [(":method", "POST")]
            st["req"].sort(key=lambda f: not f[0].startswith(":"))
            st["req_body" if side == "req" else "resp_body"] = rle_body(rng, sz)
            if side == "resp":
                st["req_body"] = b"xy"
            other = H.gen_stream(rng, 1, body_sizes=[0, 5, 3000])
            add([st, other], "cap-%d-%s" % (sz - H.CAP, side), order="cs")
    # streams that never complete: no item, request stays in the matcher
    for i in range(12 if quick else 100):
        k = rng.choice([2, 3])
        streams = [H.gen_stream(rng, j, body_sizes=[0, 3, 100, 5000]) for j in range(k)]
        victim = rng.choice(streams)
        how = rng.choice(["no-response", "response-unfinished", "request-unfinished", "rst"])
        rst = None
        if how == "no-response":
            victim["resp_present"] = False
        elif how == "response-unfinished":
            victim["resp_done"] = False
        elif how == "request-unfinished":
            victim["req_done"] = False
        else:
            victim["resp_done"] = False
            rst = [("s", victim)]
        victim["how"] = how
        add(streams, "incomplete-" + how, rst=rst)
    # RST_STREAM on a stream whose message on that half is complete (a client cancelling a half-closed stream, a server
    # resetting after its full response): the exchange is complete and is reported, nothing stays in the matcher
    for i in range(10 if quick else 120):
        streams = [H.gen_stream(rng, j, body_sizes=[0, 3, 100]) for j in range(rng.choice([1, 2, 3]))]
        vict = rng.sample(streams, rng.randint(1, len(streams)))
        add(streams, "rst-after-complete", rst=[(rng.choice("cs"), st) for st in vict], order=["cs", "sc"][i % 2])
    # h2c upgrade: the HTTP/1 request becomes stream 1
    for i in range(10 if quick else 80):
        k = rng.choice([1, 2, 3])
        streams = [H.gen_stream(rng, j, body_sizes=[0, 3, 100, 5000]) for j in range(k)]
        up = upgrade_exchange(rng)
        s1 = H.gen_stream(rng, 99, body_sizes=[0, 7, 300], force=rng.choice(["plain", "grpc-status-only"]))
        s1["upgraded"] = True
        # i = 0: witness of the repaired defect (response on stream 1 registered before the upgrade request)
        case = H.build_h2_case(rng, streams, mode="h2c", upgrade=up, order="sc" if i == 0 else rng.choice(["cs", "cs", "sc"]))
        # the response to the upgraded request travels on stream 1 of the server half
        s1["sid"] = 1
        resp_ops = H.frames_of(rng, s1, "s", 1)
        pos = 1
        for op in resp_ops:
            pos = rng.randint(pos, len(case["h2"]["server"]))
            case["h2"]["server"].insert(pos, op)
            pos += 1
        case["bodylimit"] = -1
        case["wantoracle"] = True
        # the upgrade is not always the first request of its connection
        pre = [plain_exchange(rng, n) for n in range(rng.choice([0, 0, 1, 2, 3]) if i != 1 else 2)]
        if pre:
            case["h2"]["pre"] = pre
        out.append((case, {"kind": "h2c", "streams": streams, "mode": "h2c", "upgrade": up, "s1": s1, "pre": pre}))
    if not quick:
        # every interleaving of up to 3 streams x up to 3 frames per half
        import itertools
        for k in (2, 3):
            streams = [H.gen_stream(rng, j, body_sizes=[5], force="plain") for j in range(k)]
            for st in streams:
                st["req_body"] = b"abcde"
                st["req"] = [f for f in st["req"] if f[0] != ":method"]
                st["req"].insert(0, (":method", "POST"))
                st["resp_tr"] = [("x-t", "1")]
                st["req_tr"] = None
            for j, st in enumerate(streams):
                st["sid"] = 1 + 2 * j
            lists = [H.frames_of(rng, st, "c", st["sid"]) for st in streams]
            tags = [i for i, l in enumerate(lists) for _ in l]
            seen = set(itertools.permutations(tags))
            for perm in sorted(seen)[:400]:
                ptr = [0] * k
                cops = []
                for t in perm:
                    cops.append(lists[t][ptr[t]])
                    ptr[t] += 1
                sl = [H.frames_of(rng, st, "s", st["sid"]) for st in streams]
                sops = H.interleave(rng, sl)
                case = {"kind": "h2", "h2": {"mode": "prior", "client": [{"t": "settings"}] + cops, "server": [{"t": "settings"}] + sops},
                        "bodylimit": -1, "wantoracle": True}
                out.append((case, {"kind": "all-interleavings", "streams": copy.deepcopy(streams), "mode": "prior"}))
    for i, (c, m) in enumerate(out):
        c["id"] = i
    return out


# ------------------------------------------------------------------------------------ oracle
def expectations(meta):
    """Expected items and residue keys of a script, from the abstract streams alone."""
    exps, residue = [], []
    for st in meta["streams"]:
        present = st.get("resp_present", True)
        req_ok = st["req_done"]
        resp_ok = present and st["resp_done"]
        if req_ok and resp_ok:
            e = H.expected_h2_item(st)
            e["kind"] = st["kind"]
            exps.append(e)
        elif req_ok or resp_ok:
            residue.append(H.h1_residue_key(st["sid"], "HTTP2"))
    return exps, sorted(residue)


def check_upgrade_items(meta, views):
    """h2c: the upgrade exchange (HTTP/1.1 item, status 101) and stream 1 (the HTTP/1 request
    answered on stream 1).  Returns (problems, remaining views)."""
    problems = []
    up, s1 = meta["upgrade"], meta["s1"]
    rest = list(views)
    h1 = [v for v in rest if not v.get("unreadable") and v["req_ver"] == "HTTP/1.1" and v["res_ver"] == "HTTP/1.1"]
    ups = [v for v in h1 if v["status"] == 101]
    if len(ups) != 1 or ups[0]["method"] != "GET" or ups[0]["url"] != up["target"] or ups[0]["abbr"] != "HTTP":
        problems.append("upgrade-exchange-item")
    pre = meta.get("pre") or []
    got_pre = sorted((v["method"], v["url"], v["status"]) for v in h1 if v["status"] != 101)
    if got_pre != sorted((e["method"], e["target"], e["status"]) for e in pre):
        problems.append("exchanges-before-the-upgrade")
    for v in h1:
        rest.remove(v)
    mixed = [v for v in rest if not v.get("unreadable") and v["req_ver"] == "HTTP/1.1" and v["res_ver"] == "HTTP/2.0"]
    if len(mixed) != 1:
        problems.append("upgraded-stream-item-count")
    else:
        v = mixed[0]
        e = H.expected_h2_item(s1)
        d = []
        if v["abbr"] != ("gRPC" if s1["grpc"] else "HTTP/2"):
            d.append("classification")
        if v["status"] != e["status"] or v["method"] != "GET" or v["url"] != up["target"]:
            d.append("fields")
        if H.strip_cl(v["res_headers"]) != H.strip_cl(e["res_headers"]):
            d.append("res-headers")
        if v["res_body"] != e["res_body"]:
            d.append("res-body")
        if ["Upgrade", "h2c"] not in v["req_headers"]:
            d.append("req-headers")
        problems += ["upgraded-stream-" + x for x in d]
        rest.remove(v)
    return problems, rest


def evaluate(case, meta, r):
    """All deviations of one run from the property: list of (class-or-None, description)."""
    devs = []
    if "items" not in r:
        return [(None, "harness: " + json.dumps(r)[:300])]
    for side in ("c", "s"):
        if r[side]["outcome"] != "ok":
            devs.append((None, "half %s outcome %s %s" % (side, r[side]["outcome"], r[side].get("site", ""))))
    views = [H.h2_item_view(it) for it in r["items"]]
    exps, residue = expectations(meta)
    if meta["mode"] == "h2c":
        probs, views = check_upgrade_items(meta, views)
        devs += [(None, p) for p in probs]
    pairs, missing, extra = H.match_items(exps, views, H.diff_h2_item)
    for e, v, d in pairs:
        if d:
            devs.append((H.classify_h2(d, e), "stream %d (%s): %s" % (e["idx"], e["kind"], ",".join(d))))
    if missing:
        devs.append((None, "no item for %d completed stream(s)" % len(missing)))
    if extra:
        devs.append((None, "%d item(s) that no completed stream accounts for" % len(extra)))
    obs_res = sorted(r["residue"] or [])
    if obs_res != residue:
        devs.append((None, "matcher residue %s, expected %s" % (obs_res, residue)))
    return devs


def shrink(ctx, case, meta):
    """Try each stream alone (same framing choices)."""
    if meta.get("mode") == "h2c" or len(meta["streams"]) < 2:
        return case, meta
    for st in meta["streams"]:
        sid = st["sid"]
        c2 = copy.deepcopy(case)
        for side in ("client", "server"):
            c2["h2"][side] = [op for op in c2["h2"][side] if op.get("sid", 0) in (0, sid) or op["t"] in ("settings", "settings_ack", "ping", "tablesize")]
        m2 = dict(meta, streams=[st])
        r = H.run_cases(ctx, [c2])[c2["id"]]
        if any(cls is None for cls, _ in evaluate(c2, m2, r)):
            return c2, m2
    return case, meta


def jsonable_meta(meta):
    def conv(o):
        if isinstance(o, (bytes, bytearray)):
            return {"__bytes__": H.b64(o)} if len(o) < 4096 else {"__rle__": [[p[0], H.b64(p[1])] if p[0] == "lit" else list(p) for p in H.pieces_of(bytes(o))]}
        if isinstance(o, dict):
            return {k: conv(v) for k, v in o.items()}
        if isinstance(o, (list, tuple)):
            return [conv(v) for v in o]
        return o
    return conv(meta)


def unjson_meta(meta):
    def conv(o):
        if isinstance(o, dict):
            if "__bytes__" in o:
                return H.unb64(o["__bytes__"])
            if "__rle__" in o:
                return b"".join(H.unb64(p[1]) if p[0] == "lit" else bytes([p[1]]) * p[2] for p in o["__rle__"])
            return {k: conv(v) for k, v in o.items()}
        if isinstance(o, list):
            return [conv(v) for v in o]
        return o
    m = conv(meta)
    for st in m.get("streams", []) + ([m["s1"]] if "s1" in m else []):
        for f in ("req", "resp", "req_tr", "resp_tr"):
            if st.get(f) is not None:
                st[f] = [tuple(x) for x in st[f]]
    return m


def two_size_updates(case):
    """Two HPACK dynamic-table-size updates at the start of one header block (legal: RFC 7541 4.2
    allows the minimum and the final size) on a half whose dynamic table is not empty."""
    h2 = case.get("h2") or {}
    for side in ("client", "server"):
        pending, seen_headers = 0, False
        for op in h2.get(side) or []:
            if op.get("t") == "tablesize":
                pending += 1
            elif op.get("t") == "headers":
                if pending >= 2 and seen_headers:
                    return True
                pending, seen_headers = 0, True
    return False


def run(ctx):
    ctx.build_harness()
    if not ctx.harness_tagged:
        ctx.broken.append("harness: build with -tags verif failed")
        return ctx.finish(rule="(harness did not build)")
    ctx.translate()
    failed = ctx.coq_build()
    ctx.check_proofs()
    model_ok = not (MODEL_FILES & failed)

    cases = gen_cases(ctx)
    results = H.run_cases(ctx, [c for c, _ in cases], batch=12)
    terms, term_idx = [], []
    nviol = 0
    kinds_failed = {}
    for case, meta in cases:
        r = results.get(case["id"], {})
        devs = evaluate(case, meta, r)
        streams = meta["streams"]
        nontrivial = len(streams) >= 2 or any(len(st["req_body"]) + len(st["resp_body"]) > 0 for st in streams)
        ctx.count_case(("h2", json.dumps(case, sort_keys=True)), nontrivial, meta["kind"].split("-")[0] if meta["kind"].startswith("cap") else meta["kind"])
        new = [d for cls, d in devs if cls is None or not ctx.is_known(cls)]
        if new and two_size_updates(case) and ctx.is_known("h2-hpack-two-size-updates"):
            new = []        # the pinned hpack decoder rejects a legal header block (recorded finding)
        if new and nviol < 3:
            c2, m2 = shrink(ctx, case, meta)
            r2 = H.run_cases(ctx, [c2])[c2["id"]]
            d2 = evaluate(c2, m2, r2)
            ctx.violation({"kind": "h2-script", "case": c2, "meta": jsonable_meta(m2), "deviations": [d for _, d in d2] or new,
                           "how": "vh-http run (case on stdin); items compared with the abstract streams"})
            nviol += 1
        if new:
            kinds_failed[meta["kind"]] = kinds_failed.get(meta["kind"], 0) + 1
        if model_ok and "oc" in r:
            t = H.cq_conn_case(case, r)
            if t is not None:
                terms.append(t)
                term_idx.append(case["id"])
    mid = cases[len(cases) // 2]
    ctx.sample({"kind": mid[1]["kind"], "streams": len(mid[1]["streams"]), "client_frames": len(mid[0]["h2"]["client"]),
                "server_frames": len(mid[0]["h2"]["server"]), "items": len(results.get(mid[0]["id"], {}).get("items", []))})
    big = [c for c, m in cases if m["kind"].startswith("cap")]
    if big:
        ctx.sample({"kind": "cap", "case_ids": [c["id"] for c in big][:8]})
    if kinds_failed:
        ctx.note("deviating cases by kind: %s" % kinds_failed)

    # correspondence: model (HttpLoop + H2Asm + matcher) on the library results vs the real Dissect
    if model_ok and terms:
        limit = 3000000 if ctx.tier == "quick" else 60000000
        capids = {c["id"] for c, m in cases if m["kind"].startswith("cap")}
        order = sorted(range(len(terms)), key=lambda i: len(terms[i]))
        small, total = [], 0
        for i in order:
            if term_idx[i] not in capids and len(terms[i]) < 150000 and total + len(terms[i]) <= limit:
                small.append((terms[i], term_idx[i]))
                total += len(terms[i])
        large = [(t, i) for t, i in zip(terms, term_idx) if i in capids]
        ctx.log("implementation runs and oracle done; %d model cases (%d chars) + %d cap cases" % (len(small), total, len(large)))
        bad = H.run_conn_cases_in_coq(ctx, "h2_cases", [t for t, _ in small])
        ctx.log("small model cases done")
        badl = H.run_conn_cases_in_coq(ctx, "h2_big", [t for t, _ in large], budget=1) if large else []
        if bad is None or badl is None:
            ctx.broken.append("K_h2: coqc failed on a case file")
        else:
            ids = [small[i][1] for i in bad] + [large[i][1] for i in badl]
            ctx.cov["traces_validated_against_impl"] = len(small) + len(large)
            if ids and not nviol:
                ctx.broken.append("K_h2: model and implementation differ on case ids %s (work/C04)" % ids[:5])
            elif ids:
                ctx.note("K_h2 mismatches on %d cases (explained by the violation above or independent)" % len(ids))
    elif not model_ok:
        ctx.broken.append("K_h2: model files do not compile")

    ctx.trusted += [
        "library as oracle: golang.org/x/net/http2 Framer + hpack (encoder side in the harness, decoder side in the harness and in the dissector), net/http ReadRequest/ReadResponse, bufio",
        "modelled, not verified: martian/har header listing (Content-Length from the stored body) in HttpK.har_headers; encoding/base64 modelled exactly in HBytes.b64enc (compared on every emitted HTTP/2 body)",
        "harness mock TcpReader/TcpStream/Emitter; server half TcpID mirrors the client half",
    ]
    return ctx.finish(
        rule="HTTP/2 scripts of 1..6 abstract streams encoded with x/net Framer+hpack (random interleavings, CONTINUATION splits, padding, priority, "
             "never-indexed fields, table size updates, non-message frames), both half orders; bodies at 2^20-1, 2^20, 2^20+1 and above; "
             "incomplete / reset streams; h2c upgrade; non-trivial = two or more streams or a non-empty body",
        assumptions=["the two halves of a connection share matcher and counters, TcpIDs are mirror images",
                     "Framer.ReadFrame / hpack decode the frames the peer's Framer / hpack.Encoder wrote (library contract)"])


def replay(ctx, path):
    r = json.load(open(path))
    ctx.build_harness()
    if "case" not in r:
        print("nothing to replay on the implementation:", r.get("obligation"))
        return 1
    case, meta = r["case"], unjson_meta(r["meta"])
    res = H.run_cases(ctx, [case])[case["id"]]
    devs = evaluate(case, meta, res)
    for cls, d in devs:
        print("deviation:", d, "(known class %s)" % cls if cls else "")
    print("items:", len(res.get("items", [])), "residue:", res.get("residue"))
    return 1 if any(cls is None for cls, _ in devs) else 0
