"""C06 — Kafka requests and responses are decoded exactly and stay in frame (DESIGN.md 5.C06)."""
import json
import os
import re

import vlib
from fam import kafka as K


def layouts_check(ctx):
    """The Python twin of KafkaCompat.divs over the schemas printed by the harness: every divergence
    between the dissector's layout and the wire format must be a recorded finding."""
    rows = K.schemas(ctx)
    unlisted, names = [], []
    ncompat = 0
    for (api, ver, dirn), r in sorted(rows.items()):
        ds = K.divergences(r["spec"], r["impl"])
        ctx.count_case(("layout", api, ver, dirn), True, "layout-compat" if not ds else "layout-divergent")
        if not ds:
            ncompat += 1
        for path, kind in ds:
            if K.known_layout(r["name"], ver, dirn, path) is None:
                unlisted.append((r["name"], ver, dirn, path, kind, r["implT"]))
        for sp, ip in K.name_mismatches(r["spec"], r["impl"]):
            names.append((r["name"], ver, dirn, sp, ip, r["implT"]))
    ctx.cov["layouts"] = {"grid": len(rows), "compatible": ncompat, "divergent": len(rows) - ncompat}
    return unlisted, names


def known_coq_list():
    """known/kafka.json rendered as the Coq list that KafkaKnown.v must contain."""
    out = []
    for f in K.known_entries().get("findings", []):
        if f.get("property") != "C06" or not f.get("class", "").startswith("layout:"):
            continue
        w = f["witness"]
        if w.get("kind") == "opaque":
            continue            # seen from the encoder side only (no schema path)
        api = {"Produce": 0, "Fetch": 1, "ListOffsets": 2, "Metadata": 3, "ApiVersions": 18, "CreateTopics": 19, "DeleteTopics": 20}[w["api"]]
        out.append('(%d, %d, %d, %s, "%s"%%string)' % (api, min(w["versions"]), max(w["versions"]),
                                                    "true" if w["direction"] == "response" else "false", w["first_diverging_field"]))
    return out


def check_known_file(ctx):
    p = os.path.join(vlib.COQ, "Kafka", "KafkaKnown.v")
    try:
        txt = open(p).read()
    except OSError:
        ctx.broken.append("coq/Kafka/KafkaKnown.v is missing")
        return
    have = set(re.findall(r'\((\d+), (\d+), (\d+), (true|false), "([^"]*)"%string\)', txt))
    want = set(re.findall(r'\((\d+), (\d+), (\d+), (true|false), "([^"]*)"%string\)', "\n".join(known_coq_list())))
    if have != want:
        ctx.broken.append("coq/Kafka/KafkaKnown.v and known/kafka.json list different divergences: only in Coq %r, only in json %r" % (
            sorted(have - want)[:3], sorted(want - have)[:3]))


def replay_flexible_witnesses(ctx):
    for f in K.known_entries().get("findings", []):
        w = f.get("witness", {})
        if f.get("property") == "C06" and "client_hex" in w:
            r = K.run(ctx, [K.case(w["client_hex"], w["server_hex"])])[0]
            ctx.count_case(("flexible-witness", f["id"]), True, "known-witness")
            ok = False
            if r and len(r["items"]) == 1:
                got = {n: bytes.fromhex(v["s"]).decode("latin1") for n, v in r["items"][0]["req"]["f"] if isinstance(v, dict) and "s" in v}
                ok = all(got.get(k) == v for k, v in w["expected"].items())
            if not ok:
                ctx.is_known(f["class"])
            else:
                ctx.note("known finding %s no longer reproduces" % f["id"])


def run(ctx):
    ctx.build_harness()
    if not ctx.harness_tagged:
        ctx.broken.append("harness: build with -tags verif failed")
        return ctx.finish(rule="(harness did not build)")
    ctx.translate()
    failed = ctx.coq_build()
    ctx.check_proofs()
    model_ok = not ({"Base/Prelude.v", "Kafka/KafkaTy.v", "Kafka/KafkaModel.v", "Kafka/KafkaCheck.v", "gen/KafkaSchemas.v"} & failed)
    quick = ctx.tier == "quick"
    rng = vlib.random.Random(ctx.seed * 101 + 6)

    # ---- conversations from the independent encoder through the real dissector
    convs = K.gen(ctx)
    # a message of exactly the largest size the dissector takes, and one byte less (bytes after the decoded layout are skipped)
    convs = convs + K.padded_variants(convs)
    cases = [K.conv_case(c) for c in convs]
    origin = list(range(len(convs)))
    # the same conversations under other segmentations (a few pieces, single bytes)
    for i, c in enumerate(convs):
        if i % (4 if quick else 1) == 0:
            nc, ns = len(c["client"]) // 2, len(c["server"]) // 2
            cc = sorted(rng.sample(range(1, nc), min(5, nc - 1))) if nc > 1 else []
            sc = sorted(rng.sample(range(1, ns), min(5, ns - 1))) if ns > 1 else []
            cases.append(K.conv_case(c, cc=cc, sc=sc))
            origin.append(i)
    res = K.run(ctx, cases)
    nviol = 0
    seen_known = {}
    for c, r, i in zip(cases, res, origin):
        conv = convs[i]
        fails = K.check_conversation(ctx, conv, r, "vh-kafka run")
        nontrivial = any(e["supported"] and not e["sentinel"] for e in conv["exch"])
        ctx.count_case(("conv", conv["name"], tuple(c["cc"]), tuple(c["sc"])), nontrivial, "conversation-" + conv["kind"])
        for f in fails:
            if f["class"] is not None and ctx.is_known(f["class"]):
                seen_known[f["class"]] = seen_known.get(f["class"], 0) + 1
                continue
            if nviol < 4:
                rp = f["replay"]
                rp["conversation"] = conv
                rp["cc"], rp["sc"] = c["cc"], c["sc"]
                ctx.violation(rp)
            nviol += 1
    ctx.cov["known_divergences_seen"] = seen_known
    mid = convs[len(convs) // 2]
    ctx.sample({"kind": "conversation", "name": mid["name"], "client": mid["client"][:160], "server": mid["server"][:160],
                "exchanges": [(e["name"], e["ver"], e["corr"]) for e in mid["exch"]]})

    # ---- layout tables (translation validation, second implementation of the comparison)
    unlisted, names = layouts_check(ctx)
    for api, ver, dirn, sp, ip, implT in names[:4]:
        conv = next((c for c in convs if c["name"] == "%s-v%d-0" % (api, ver)), None)
        ctx.violation({"kind": "layout-names", "api": api, "ver": ver, "dir": dirn, "wire_field": sp, "reported_as": ip, "impl_struct": implT,
                       "what": "%s v%d %s: the value of %s is reported under the name %s" % (api, ver, dirn, sp, ip),
                       "client": conv["client"] if conv else None, "server": conv["server"] if conv else None,
                       "how": "vh-kafka schemas (field names at aligned wire positions); run the conversation to see the value under the wrong name"})
    for u in unlisted[:5]:
        ctx.broken.append("layout: %s v%d %s diverges from the wire format at %s (%s, struct %s) and is not a recorded finding" % u)
    check_known_file(ctx)
    replay_flexible_witnesses(ctx)

    # ---- correspondence of the model with the real decoder: the conversations and mutations of them
    if model_ok:
        nk = [i for i in range(len(convs)) if convs[i]["kind"] != "padded"]      # (a megabyte of padding is not handed to Coq)
        kcases, kres = [cases[i] for i in nk], [res[i] for i in nk]
        muts = []
        pool = [c for c in convs if len(c["client"]) + len(c["server"]) < 3000 and c["kind"] != "padded"]
        for conv in rng.sample(pool, min(len(pool), 40 if quick else 200)):
            muts += K.corruptions(rng, conv, 4)
            fields = K.length_fields(conv)
            for f in rng.sample(fields, min(len(fields), 3)):
                v = rng.choice(K.boundary_values(f[4]))
                c, s = K.substitute(conv, f, v)
                muts.append(K.case(c, s, tail=rng.choice([0, 1, 2])))
            k = rng.randrange(len(conv["client"]) // 2 + 1)
            muts.append(K.case(conv["client"][:2 * k], conv["server"], tail=rng.choice([0, 1, 2])))
        mres = K.run(ctx, muts)
        for c, r in zip(muts, mres):
            ctx.count_case(("mutated", c["c"], c["s"], c["tail"]), bool(r and r["items"]), "mutated-message")
            if K.abnormal(r):
                ctx.violation(K.raw_replay(c, "kafka Dissect did not return normally on a mutated conversation", "vh-kafka run"))
        K.report_K(ctx, "c06", kcases + muts, kres + mres)
        if "Kafka/KafkaSpecEnc.v" not in failed and "gen/KafkaSpecSchemas.v" not in failed:
            K.spec_encoder_tie(ctx, [c for c in convs if c["kind"] != "padded"])
    else:
        ctx.broken.append("K_kafka: the model does not build; correspondence not run")

    ctx.trusted += [
        "translator vh-translate/kafka.go + harness/kty (reflect over the dissector's payload structs as decode.go's decodeFuncOf walks them; layout selection observed on the version grid -32768,-1..15,32767 for api keys 0..127 and assumed constant between grid points)",
        "github.com/segmentio/kafka-go/protocol v0.4.38 (struct tags = wire format description; WriteRequest/WriteResponse = independent encoder); record batches: uncompressed magic-2 only",
        "modelled, not verified: bufio.Reader + io.ReadFull/Discard over a chunked reader = flat byte string + end-of-stream kind; client half then server half, one matcher keyed by correlation id",
        "KafkaCheck.v blob parser (cases handed to Coq as 7-byte words); a parsing error shows as a failed correspondence",
    ]
    return ctx.finish(
        rule="conversations of the segmentio encoder: every supported API at every version of the encoder's range x {exactly-one-element arrays, small, wide values incl. null arrays/strings, keys/values/headers of 0..300 bytes around 63/64/127/128}, each followed by a sentinel ApiVersions exchange; mixed conversations with several requests in flight, unsupported APIs interleaved, responses reordered; a sample re-run under random segmentations; distinct = distinct (conversation, segmentation); "
             "non-trivial = contains a non-sentinel exchange of a supported API. Layout grid: 96 (api, version, direction) entries compared field by field. Correspondence: all conversations + byte corruptions, boundary values in length fields, prefixes.",
        assumptions=["the two halves of a connection are dissected client half first (requests are registered before their responses are read); D7 otherwise",
                     "record sets: uncompressed; Produce >= v3 / Fetch >= v4 carry magic-2 batches"])


def replay(ctx, path):
    r = json.load(open(path))
    ctx.build_harness()
    if r.get("kind") == "conversation":
        conv = r["conversation"]
        res = K.run(ctx, [K.conv_case(conv, cc=r.get("cc", []), sc=r.get("sc", []))])[0]
        fails = [f for f in K.check_conversation(ctx, conv, res, "replay") if f["class"] is None or not K.known_entries()]
        print("what failed:", r.get("what"))
        for f in fails[:5]:
            print("still failing:", f["replay"]["what"], "(known)" if f["class"] else "")
        unexplained = [f for f in fails if f["class"] is None]
        return 1 if unexplained else 0
    if r.get("kind") == "layout-names":
        rows = K.schemas(ctx)
        row = rows.get(({"Produce": 0, "Fetch": 1, "ListOffsets": 2, "Metadata": 3, "ApiVersions": 18, "CreateTopics": 19, "DeleteTopics": 20}[r["api"]], r["ver"], r["dir"]))
        bad = K.name_mismatches(row["spec"], row["impl"]) if row else []
        print("what failed:", r["what"]); print("name mismatches now:", bad)
        return 1 if bad else 0
    if r.get("kind") == "raw":
        res = K.replay_raw(ctx, r)
        return 1 if K.abnormal(res) else 0
    print(json.dumps(r, indent=1)[:3000])
    return 0
