"""C03 — HTTP/1.x exchanges are reported exactly as they were on the wire (DESIGN.md 5.C03)."""
import copy
import json
import os

import vlib
from fam import http as H

MODEL_FILES = {"Base/Prelude.v", "Http/HBytes.v", "Http/H2Asm.v", "Http/HttpLoop.v", "Http/H1Glue.v", "Http/HttpK.v"}
SMALL = [0, 1, 2, 3, 10, 100, 1000, 2000]


# ------------------------------------------------------------------------------------ cases
def gen_cases(ctx):
    rng = ctx.rng
    quick = ctx.tier == "quick"
    out = []

    def add(ex, kind, **kw):
        case = {"kind": "h1", "h1": ex, "bodylimit": 1, "wantoracle": True}
        case.update(kw)
        out.append((case, {"kind": kind, "exchanges": ex}))

    cdir = os.path.join(vlib.VERIF, "corpus", "C03")
    if os.path.isdir(cdir):
        for f in sorted(os.listdir(cdir)):
            c = json.load(open(os.path.join(cdir, f)))
            out.append((c["case"], c["meta"]))
    # witness of the repaired defect: chunked request body
    e = H.gen_exchange(rng, 1, sizes=[3])
    e.update({"method": "POST", "proto": "1.1", "reqBody": H.b64(b"abc"), "reqFraming": "chunked", "reqChunks": []})   # chunked needs HTTP/1.1
    e["reqHeaders"] = [h for h in e["reqHeaders"] if h[0].lower() != "content-type"]
    add([e], "witness-chunked-request")

    # the smallest legal requests: no header field at all, one exchange on the connection, so that
    # the whole client half is shorter than anything the dissector peeks for (HTTP/2 preface = 24 bytes)
    for method, target, proto in [("GET", "/", "1.0"), ("HEAD", "/", "1.0"), ("GET", "/ab", "1.0"), ("GET", "/abcde", "1.0"),
                                  ("GET", "/abcdef", "1.0"), ("OPTIONS", "*", "1.0"), ("GET", "/", "1.1")]:
        for first in ("c", "s"):
            e = H.gen_exchange(rng, 1, last=True, sizes=[0, 3])
            e.update({"method": method, "target": target, "proto": proto, "reqHeaders": [], "reqBody": H.b64(b""), "reqFraming": "none",
                      "reqChunks": [], "reqFramePos": 0})
            if method == "HEAD":
                e.update({"respBody": H.b64(b""), "respFraming": "none"})
            add([e], "minimal-request", first=first)

    n = 300 if quick else 5000
    for i in range(n):
        k = rng.choice([1, 1, 2, 3, 4, 5, 8])
        ex = [H.gen_exchange(rng, j + 1, last=(j == k - 1)) for j in range(k)]
        kw = {}
        r = rng.random()
        if r < 0.25:
            kw["first"] = "s"
        if rng.random() < 0.3:
            kw["ccuts"] = sorted(rng.sample(range(1, 30000), rng.randint(1, 6)))
            kw["scuts"] = sorted(rng.sample(range(1, 30000), rng.randint(1, 6)))
        add(ex, "random", **kw)
    # every order in which the two halves can get to their k-th message (message-aligned reads)
    m = 60 if quick else 600
    for i in range(m):
        k = rng.choice([2, 3, 4, 5])
        ex = [H.gen_exchange(rng, j + 1, sizes=SMALL) for j in range(k)]
        for e in ex:
            if e["respFraming"] == "close":
                e["respFraming"] = "cl"
        unanswered = rng.choice([0, 0, 1, 2])
        for e in ex[k - unanswered:] if unanswered else []:
            e["noResp"] = True
        letters = ["c"] * k + ["s"] * (k - unanswered)
        rng.shuffle(letters)
        add(ex, "merge", ccuts=[-2], scuts=[-2], sched="".join(letters))
    if not quick:
        import itertools
        ex = [H.gen_exchange(rng, j + 1, sizes=SMALL) for j in range(4)]
        for e in ex:
            if e["respFraming"] == "close":
                e["respFraming"] = "cl"
        for perm in sorted(set(itertools.permutations("cccc" + "ssss"))):
            add(copy.deepcopy(ex), "merge-exhaustive", ccuts=[-2], scuts=[-2], sched="".join(perm))
    for i, (c, _) in enumerate(out):
        c["id"] = i
    return out


def history(case, meta):
    """The order in which the messages are registered under the case's schedule (message-aligned
    reads): list of ('c', k) / ('s', k)."""
    ex = meta["exchanges"]
    nc = len([e for e in ex if not e.get("noReq")])
    ns = len([e for e in ex if not e.get("noResp")])
    hist, ic, isv = [], 0, 0
    for ch in case.get("sched", ""):
        if ch == "c" and ic < nc:
            ic += 1
            hist.append(("c", ic))
        elif ch == "s" and isv < ns:
            isv += 1
            hist.append(("s", isv))
    while ic < nc:
        ic += 1
        hist.append(("c", ic))
    while isv < ns:
        isv += 1
        hist.append(("s", isv))
    return hist


# ------------------------------------------------------------------------------------ oracle
def evaluate(case, meta, r):
    devs = []
    if "items" not in r:
        return [(None, "harness: " + json.dumps(r)[:300])]
    for side in ("c", "s"):
        if r[side]["outcome"] != "ok":
            devs.append((None, "half %s outcome %s %s" % (side, r[side]["outcome"], r[side].get("site", ""))))
    ex = meta["exchanges"]
    exps = [H.expected_h1_item(e, k + 1) for k, e in enumerate(ex) if not e.get("noResp") and not e.get("noReq")]
    residue = sorted(H.h1_residue_key(k + 1) for k, e in enumerate(ex) if e.get("noResp") or e.get("noReq"))
    views = [H.h1_item_view(it) for it in r["items"]]
    pairs, missing, extra = H.match_items(exps, views, H.diff_h1_item)
    for e, v, d in pairs:
        if d:
            devs.append((H.classify_h1(d, e), "exchange %d: %s" % (e["k"], ",".join(d))))
    if missing:
        devs.append((None, "no item for exchange(s) %s" % [e["k"] for e in missing]))
    if extra:
        devs.append((None, "%d item(s) that no exchange accounts for" % len(extra)))
    if sorted(r["residue"] or []) != residue:
        devs.append((None, "matcher residue %s, expected %s" % (sorted(r["residue"] or []), residue)))
    # stages of every item
    for it in r["items"]:
        if it.get("stage") != "ok":
            devs.append((None, "item stage " + str(it.get("stage"))))
    return devs


# ------------------------------------------------------------------------------------ probes (recorded findings)
def raw_case(c, s, **kw):
    d = {"kind": "raw", "c": H.b64(c), "s": H.b64(s), "bodylimit": 1}
    d.update(kw)
    return d


def probes():
    """Conversations outside what the two independent half readers can report; each has a
    classifier computed from the observed items."""
    req = lambda m, p, extra=b"": b"%s %s HTTP/1.1\r\nHost: h\r\n%s\r\n" % (m, p, extra)
    ok = lambda body, extra=b"": b"HTTP/1.1 200 OK\r\nContent-Length: %d\r\n%s\r\n%s" % (len(body), extra, body)
    out = []
    # HEAD: the response carries Content-Length but no body
    out.append(("h1-head-response", raw_case(req(b"HEAD", b"/a") + req(b"GET", b"/b"),
                                             b"HTTP/1.1 200 OK\r\nContent-Length: 5\r\n\r\n" + ok(b"hello")),
                lambda v: len(v) == 2 and [x["url"] for x in v] == ["/a", "/b"] and v[1]["res_body"] == H.body_key(b"hello")))
    # interim 100 Continue response
    out.append(("h1-interim-response", raw_case(req(b"POST", b"/a", b"Expect: 100-continue\r\nContent-Length: 2\r\n") + b"hi" + req(b"GET", b"/b"),
                                                b"HTTP/1.1 100 Continue\r\n\r\n" + ok(b"one") + ok(b"two")),
                lambda v: len(v) == 2 and [x["status"] for x in v] == [200, 200] and v[1]["res_body"] == H.body_key(b"two")))
    # h2c upgrade asked for and not granted: the connection stays HTTP/1.1
    out.append(("h1-h2c-upgrade-refused", raw_case(req(b"GET", b"/a", b"Connection: Upgrade, HTTP2-Settings\r\nUpgrade: h2c\r\nHTTP2-Settings: AAMAAABkAAQAAP__\r\n") + req(b"GET", b"/b"),
                                                   ok(b"one") + ok(b"two")),
                lambda v: len(v) == 2 and [x["url"] for x in v] == ["/a", "/b"]))
    # Connection: close on a response
    out.append(("h1-response-connection-close", raw_case(req(b"GET", b"/a"), ok(b"bye", b"Connection: close\r\n")),
                lambda v: len(v) == 1 and ["Connection", "close"] in v[0]["res_headers"]))
    return out


def run_probes(ctx):
    ps = probes()
    cases = [c for _, c, _ in ps]
    for i, c in enumerate(cases):
        c["id"] = 100000 + i
    res = H.run_cases(ctx, cases)
    for (cls, case, holds) in ps:
        r = res[case["id"]]
        views = [H.h1_item_view(it) for it in r.get("items", [])]
        ok = False
        try:
            ok = "items" in r and holds(views) and r["c"]["outcome"] == "ok" and r["s"]["outcome"] == "ok"
        except Exception:
            ok = False
        ctx.count_case(("probe", cls), True, "probe")
        if ok:
            ctx.note("recorded finding %s no longer reproduces" % cls)
        elif not ctx.is_known(cls):
            ctx.violation({"kind": "h1-probe", "class": cls, "case": case,
                           "observed": [{k: v.get(k) for k in ("method", "url", "status", "res_headers", "res_body")} for v in views],
                           "residue": r.get("residue"), "how": "vh-http run"})


# ------------------------------------------------------------------------------------ correspondence
def glue_terms(r):
    """Coq terms tying the sort and the Analyze maps of every item to H1Glue."""
    B = H.cq_bytes

    def nvl(l):
        return H.cq_list(["(%s, %s)" % (B(n.encode()), B(v.encode())) for n, v in l])
    sorted_lists, merged, maps, segs = [], [], [], []
    for it in r["items"]:
        if it.get("req") is None or it.get("an") is None:
            continue
        req, res, an = it["req"], it["res"], it["an"]
        for l in (req["headers"], req["query"], res["headers"], res["cookies"], req.get("params") or []):
            sorted_lists.append(nvl(l))
        for rep, m in ((req["headers"], an["reqHeaders"]), (res["headers"], an["resHeaders"]),
                       (req["cookies"], an["reqCookies"]), (res["cookies"], an["resCookies"])):
            ml = sorted(((k.encode(), v.encode()) for k, v in (m or {}).items()))
            merged.append("(%s, %s)" % (nvl(rep), H.cq_list(["(%s, %s)" % (B(k), B(v)) for k, v in ml])))
        q = sorted(((k.encode(), v) for k, v in (an["query"] or {}).items()))
        maps.append("(%s, %s)" % (nvl(req["query"]), H.cq_list(
            ["(%s, %s)" % (B(k), "JStr " + B(v.encode()) if isinstance(v, str) else "JArr " + H.cq_list([B(x.encode()) for x in v])) for k, v in q])))
        if isinstance(an.get("path"), str):
            segs.append("(%s, %s)" % (B(an["path"].encode()), H.cq_list([B(x.encode()) for x in (an["segs"] or [])])))
    return sorted_lists, merged, maps, segs


def history_term(case, meta, r):
    hist = history(case, meta)
    evs = H.cq_list(["%s (mkPayload false %d [] 0%%Z [] [])" % ("HReq" if s == "c" else "HResp", k) for s, k in hist])
    pairs = []
    for it in r["items"]:
        if it.get("req") is None:
            return None
        pairs.append("(%d, %d)" % (H.hdr_tag(it["req"]["headers"]), H.hdr_tag(it["res"]["headers"])))
    return "(%s, %s, %s)" % (evs, H.cq_list(pairs), H.cq_residue(r["residue"]))


def run_glue_in_coq(ctx, name, defs):
    """defs: list of (type, checker, terms). Returns {checker: failing indices} or None."""
    src = ("Require Import V.Base.Prelude V.Http.HBytes V.Http.H2Asm V.Http.HttpLoop V.Http.H1Glue V.Http.HttpK.\n"
           "Local Open Scope N_scope.\n")
    for i, (ty, chk, terms) in enumerate(defs):
        src += "Definition cases%d : list (%s) := [\n%s].\n" % (i, ty, ";\n".join(terms))
        src += "Definition M%d := Eval vm_compute in failing (%s) cases%d.\nPrint M%d.\n" % (i, chk, i, i)
    rc, out = ctx.coq_run(name, src, timeout=900)
    res = {}
    for i, (ty, chk, terms) in enumerate(defs):
        idx = vlib.parse_coq_list_of_nat(out, "M%d" % i)
        if rc != 0 or idx is None:
            ctx.log("coqc failed on %s: %s" % (name, out[-800:]))
            return None
        res[i] = idx
    return res


def run(ctx):
    ctx.build_harness()
    if not ctx.harness_tagged:
        ctx.broken.append("harness: build with -tags verif failed")
        return ctx.finish(rule="(harness did not build)")
    ctx.translate()
    failed = ctx.coq_build()
    ctx.check_proofs()
    model_ok = not (MODEL_FILES & failed)

    cases = gen_cases(ctx)
    results = H.run_cases(ctx, [c for c, _ in cases], batch=25)
    nviol = 0
    sl, mg, mp, sg, hs, conn = [], [], [], [], [], []
    for case, meta in cases:
        r = results.get(case["id"], {})
        devs = evaluate(case, meta, r)
        ex = meta["exchanges"]
        ctx.count_case(("h1", json.dumps(case, sort_keys=True)), len(ex) >= 2 or any(e["reqBody"] or e["respBody"] for e in ex), meta["kind"])
        new = [d for cls, d in devs if cls is None or not ctx.is_known(cls)]
        if new and nviol < 3:
            c2, m2, d2 = shrink(ctx, case, meta)
            ctx.violation({"kind": "h1-conversation", "case": c2, "meta": m2, "deviations": d2,
                           "how": "vh-http run (case on stdin); items compared with the abstract exchanges"})
            nviol += 1
        if model_ok and "items" in r:
            a, b, c, d = glue_terms(r)
            sl += a
            mg += b
            mp += c
            sg += d
            if meta["kind"].startswith("merge"):
                t = history_term(case, meta, r)
                if t:
                    hs.append(t)
            if "oc" in r and not case.get("sched") and len(conn) < (80 if ctx.tier == "quick" else 1000) and r["nc"] + r["ns"] < 6000:
                t = H.cq_conn_case(case, r)
                if t:
                    conn.append(t)
    mid = cases[len(cases) // 2]
    ctx.sample({"kind": mid[1]["kind"], "exchanges": len(mid[1]["exchanges"]),
                "first": {k: mid[1]["exchanges"][0][k] for k in ("method", "target", "proto", "reqFraming", "status", "respFraming")},
                "items": len(results.get(mid[0]["id"], {}).get("items", []))})
    run_probes(ctx)

    if model_ok:
        jobs = []
        specs = [("sort", "list nv", "chk_sorted_perm", sl, 3000),
                 ("merged", "list nv * list (bytes * bytes)", "fun c => chk_merged (fst c) (snd c)", mg, 1500),
                 ("qmap", "list nv * list (bytes * jval)", "fun c => chk_map (fst c) (snd c)", mp, 3000),
                 ("segs", "bytes * list bytes", "fun c => chk_segments (fst c) (snd c)", sg, 3000)]
        for nm, ty, chk, terms, k in specs:
            for i in range(0, len(terms), k):
                jobs.append(("h1_%s_%d" % (nm, i), [(ty, chk, terms[i:i + k])]))
        jobs.append(("h1_history", [("list h1ev * list (N * N) * list mkey", "fun c => let '(e, p, r) := c in chk_h1_history e p r", hs)]))
        import concurrent.futures
        with concurrent.futures.ThreadPoolExecutor(max_workers=10) as exr:
            outs = list(exr.map(lambda j: run_glue_in_coq(ctx, j[0], j[1]), jobs))
        badc = H.run_conn_cases_in_coq(ctx, "h1_conn", conn) if conn else []
        for (nm, defs), res in zip(jobs, outs):
            if res is None:
                ctx.broken.append("K_h1: coqc failed on " + nm)
                continue
            for i, idx in res.items():
                if idx and not nviol:
                    ctx.broken.append("K_%s: model and implementation differ on case #%d (work/C03/%s.v)" % (nm.rsplit("_", 1)[0], idx[0], nm))
        if badc is None:
            ctx.broken.append("K_h1_loop: coqc failed")
        elif badc and not nviol:
            ctx.broken.append("K_h1_loop: model and implementation differ on connection case #%d (work/C03)" % badc[0])
        ctx.cov["traces_validated_against_impl"] = len(sl) + len(mg) + len(mp) + len(sg) + len(hs) + len(conn)
    else:
        ctx.broken.append("K_h1: model files do not compile")

    ctx.trusted += [
        "library as oracle: net/http ReadRequest/ReadResponse, martian/har conversion (incl. body decoding), url.Parse, encoding/json",
        "own HTTP/1 encoder of the harness (harness/cmd/vh-http/enc.go) and the expected report computed in tools/fam/http.py from the abstract exchange",
        "harness mock TcpReader/TcpStream/Emitter; gated reads for the merge cases (one message per read)",
    ]
    return ctx.finish(
        rule="HTTP/1.0 and 1.1 conversations of 1..8 exchanges from the abstract model (methods, origin- and absolute-form targets with escapes and repeated "
             "query keys, repeated / mixed-case header names, cookies, Content-Length / chunked / close-delimited bodies of 0..20000 bytes across 4 KiB, pipelining), "
             "both half orders, random chunkings, and message-aligned merges of the two halves; non-trivial = two or more exchanges or a body",
        assumptions=["the two halves of a connection share matcher and counters, TcpIDs are mirror images",
                     "requests and responses are answered in order on one connection (HTTP/1.x pipelining semantics)"])


def shrink(ctx, case, meta):
    ex = meta["exchanges"]
    best = (case, meta)
    if not case.get("sched"):
        for k in range(len(ex)):
            c2 = copy.deepcopy(case)
            e = copy.deepcopy(ex[k])
            for hs, tag in ((e["reqHeaders"], "X-Rq"), (e["respHeaders"], "X-Rs")):
                for h in hs:
                    if h[0] == tag:
                        h[1] = "1"
            if e["respFraming"] == "close" and k != len(ex) - 1:
                continue
            c2["h1"] = [e]
            c2.pop("ccuts", None)
            c2.pop("scuts", None)
            m2 = {"kind": meta["kind"], "exchanges": [e]}
            r = H.run_cases(ctx, [c2])[c2["id"]]
            if any(cls is None for cls, _ in evaluate(c2, m2, r)):
                best = (c2, m2)
                break
    r = H.run_cases(ctx, [best[0]])[best[0]["id"]]
    return best[0], best[1], [d for _, d in evaluate(best[0], best[1], r)]


def replay(ctx, path):
    r = json.load(open(path))
    ctx.build_harness()
    if "case" not in r:
        print("nothing to replay on the implementation:", r.get("obligation"))
        return 1
    case = r["case"]
    res = H.run_cases(ctx, [case])[case["id"]]
    if r.get("kind") == "h1-probe":
        for cls, c, holds in probes():
            if cls == r["class"]:
                views = [H.h1_item_view(it) for it in res.get("items", [])]
                okv = holds(views)
                print("probe", cls, "holds" if okv else "fails", [(v["method"], v["url"], v["status"]) for v in views], res.get("residue"))
                return 0 if okv else 1
    devs = evaluate(case, r["meta"], res)
    for cls, d in devs:
        print("deviation:", d, "(known class %s)" % cls if cls else "")
    print("items:", len(res.get("items", [])), "residue:", res.get("residue"))
    return 1 if any(cls is None for cls, _ in devs) else 0
