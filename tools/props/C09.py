"""C09 — Requests are paired with the responses that answer them, once (DESIGN.md 5.C09)."""
import json

import vlib
from vlib import coq_list
from fam import match as M

PROTOS = ["redis", "http"]


def gen_histories(ctx):
    cases = []
    quick = ctx.tier == "quick"
    # single connection: every merge, answered and unanswered
    shapes = [(1, 1), (2, 2), (2, 1), (1, 2), (3, 3), (3, 1), (0, 2)] if quick else \
        [(1, 1), (2, 2), (2, 1), (1, 2), (3, 3), (3, 1), (1, 3), (0, 2), (2, 0), (4, 4), (4, 2)]
    for nreq, nresp in shapes:
        for h in M.merges(M.conversation([(1, nreq, nresp)])):
            cases.append(h)
    # two connections sharing the matcher
    # connections 2/3 share the client address, 2/4 the client port (see vh-match newWorld)
    two = [((2, 1, 1), (3, 1, 1)), ((2, 2, 1), (4, 1, 2))] if quick else \
        [((2, 1, 1), (3, 1, 1)), ((2, 2, 1), (4, 1, 2)), ((2, 2, 2), (3, 2, 2)), ((1, 1, 1), (2, 1, 1))]
    for spec in two:
        ms = list(M.merges(M.conversation(list(spec))))
        if len(ms) > 1000:
            ms = ctx.rng.sample(ms, 1000)
        cases += ms
    # long sampled histories, several connections
    for _ in range(40 if quick else 600):
        spec = [(c, ctx.rng.randint(0, 6), ctx.rng.randint(0, 6)) for c in ctx.rng.sample([1, 2, 3, 4], ctx.rng.randint(1, 3))]
        seqs = M.conversation(spec)
        h = []
        seqs = [list(s) for s in seqs if s]
        while seqs:
            s = ctx.rng.choice(seqs)
            h.append(s.pop(0))
            seqs = [x for x in seqs if x]
        if h:
            cases.append(h)
    return cases


def check_keyed(ctx, coq_ok):
    """HTTP/2 (stream id), Kafka (correlation id) and AMQP (channel + method family; one exchange per channel): responses in any order."""
    for proto in ("http2", "kafka", "amqp"):
        hists = M.keyed_histories(ctx.rng, proto, ctx.tier == "quick")
        rc, out = ctx.vh("vh-match", ["seq"], inp="\n".join(M.keyed_line(proto, h) for h in hists) + "\n", timeout=1200)
        lines = [l for l in out.split("\n") if l.startswith("{")]
        if rc != 0 or len(lines) != len(hists):
            ctx.broken.append("K_keyed[%s]: harness failed rc=%d (%d/%d results)" % (proto, rc, len(lines), len(hists)))
            ctx.log(out[-600:])
            continue
        terms, reported = [], 0
        for h, l in zip(hists, lines):
            r = json.loads(l)
            exp_items, exp_res = M.keyed_expected(h)
            got_items = [(i["conn"], i["req"], i["resp"]) for i in r["items"] or []]
            got_res = M.parse_residue(proto, r["residue"])
            ctx.count_case((proto, tuple(h)), len(exp_items) >= 1 and len(h) >= 3, proto)
            ok = (set(got_items) == exp_items and len(got_items) == len(set(got_items)) and got_res == exp_res
                  and all(i["oriented"] for i in r["items"] or []) and not r.get("panic"))
            if not ok and reported < 3:
                reported += 1
                ctx.violation({"kind": "keyed-history", "protocol": proto, "history": ["%d:%s:%d:%d" % e for e in h],
                               "observed": r, "expected_items": sorted(exp_items), "expected_residue": sorted(exp_res),
                               "how": "echo '%s' | work/bin/vh-match seq" % M.keyed_line(proto, h)})
            terms.append("(%s, %s, %s)" % (M.coq_kev(h), M.coq_items(r["items"] or []), M.coq_residue(got_res)))
        ctx.sample({"protocol": proto, "history": ["%d:%s:%d:%d" % e for e in hists[len(hists) // 2]],
                    "result": json.loads(lines[len(hists) // 2])})
        if coq_ok:
            bad = []
            for k in range(0, len(terms), 1200):
                src = ("Require Import V.Base.Prelude V.Match.Matcher V.Match.MatcherConc.\n"
                       "Definition cases : list (list kev * list item * list (nat * nat * bool * nat)) := [\n" + ";\n".join(terms[k:k + 1200]) + "].\n"
                       "Definition chk (c : list kev * list item * list (nat * nat * bool * nat)) := let '(h, its, res) := c in\n"
                       "  let st := krun h in list_eqb item_eqb (snd st) its && list_eqb quad_eqb (residue (fst st) [1;2;3;4] 12) res.\n"
                       "Definition M := Eval vm_compute in failing chk cases.\nPrint M.\n")
                rc, out = ctx.coq_run("keyed_%s_%d" % (proto, k), src)
                idx = vlib.parse_coq_list_of_nat(out, "M")
                if rc != 0 or idx is None:
                    ctx.broken.append("K_keyed[%s]: coqc failed on the case file" % proto)
                    ctx.log(out[-600:])
                    break
                bad += [k + i for i in idx]
            ctx.cov["traces_validated_against_impl"] = ctx.cov.get("traces_validated_against_impl", 0) + len(terms)
            if bad and not ctx.violations:
                ctx.broken.append("K_keyed[%s]: model and implementation differ on history %s" % (proto, M.keyed_line(proto, hists[bad[0]])))
    # recorded finding: a Kafka response that is dissected before its request is dropped after the
    # matcher's polling limit and the server side stops
    for f in ctx.load_known():
        if f.get("class") == "kafka-response-before-request" and isinstance(f.get("witness"), str):
            rc, out = ctx.vh("vh-match", ["seq"], inp=f["witness"] + "\n")
            try:
                r = json.loads([l for l in out.split("\n") if l.startswith("{")][0])
            except Exception:
                continue
            if not r["items"]:
                ctx.known_finding(f["id"], f["text"])
            else:
                ctx.note("known finding %s no longer reproduces" % f["id"])


def check_amqp_conversations(ctx):
    """AMQP pairing by channel and method family on full conversations of the AMQP family's
    independent encoder (many channels interleaved, content-bearing and unreported methods in
    between), dissected in both half orders and in conversation order: every item joins a request
    with its answer, no message in two items, nothing answered left in the matcher (the family's
    report; recorded design limitations of C05 are skipped, not judged here)."""
    try:
        from fam import amqp as AQ
    except Exception as ex:
        ctx.note("AMQP family not available: %s" % ex)
        return
    rng = ctx.rng
    n = 40 if ctx.tier == "quick" else 600
    convs = [AQ.gen_normal(rng) for _ in range(n)]
    lines, meta = [], []
    for i, conv in enumerate(convs):
        for mode in ("cs", "sc", "conv"):
            lines.append(AQ.conv_case("m%d%s" % (i, mode), conv, mode, rng))
            meta.append((conv, mode))
    rc, res, raw = AQ.vh(ctx, "run", lines)
    if rc != 0 or len(res) != len(lines):
        ctx.broken.append("K_amqp_conv: harness answered %d of %d cases" % (len(res), len(lines)))
        return
    reported = 0
    for line, (conv, mode), out in zip(lines, meta, res):
        verdict, classes, detail = AQ.judge(conv, mode, out)
        ctx.count_case(("amqp-conv", line), len(out["items"]) >= 2, "amqp-conversation")
        if verdict == "violation" and reported < 3:
            reported += 1
            ctx.violation({"kind": "amqp-conversation", "order": mode, "why": detail, "case": json.loads(line),
                           "items": AQ.describe_items(AQ.observed_items(out))[:8], "how": "echo '<case>' | work/bin/vh-amqp run"})
    ctx.sample({"kind": "amqp-conversation", "order": meta[1][1], "items": len(res[1]["items"])})


def check_h2c_upgrades(ctx):
    """HTTP/1.1 connections that change to HTTP/2 in the middle (h2c upgrade after 0..3 ordinary exchanges, answered on
    stream 1, more streams afterwards), dissected client half first and server half first: the ordinary exchanges pair
    k-th with k-th, the upgrade request pairs with the 101 AND (as stream 1) with the HTTP/2 answer, every later stream by
    its id; nothing answered stays in the matcher (the oracle of the HTTP/2 family, C04)."""
    try:
        from fam import http as H
        from props import C04
    except Exception as ex:
        ctx.note("HTTP family not available: %s" % ex)
        return
    cases = [(c, m) for c, m in C04.gen_cases(ctx) if m.get("mode") == "h2c" or m.get("kind") == "rst-after-complete"]
    runs = []
    for c, m in cases:
        for first in ("c", "s"):
            cc = json.loads(json.dumps(c))
            cc["first"] = first
            cc.pop("sched", None)
            cc["id"] = len(runs)
            runs.append((cc, m))
    res = H.run_cases(ctx, [c for c, _ in runs])
    reported = 0
    for c, m in runs:
        r = res.get(c["id"])
        if r is None:
            ctx.broken.append("K_h2c: harness did not answer case %d" % c["id"])
            return
        if C04.two_size_updates(c):
            # two dynamic-table size updates at the start of one header block: the pinned hpack decoder rejects the block, so
            # the message is not received at all (finding h2-hpack-two-size-updates, recorded and printed under C04)
            continue
        # pairing only: how exactly a paired stream's fields are reported is property C04's business
        devs = [d for d in C04.evaluate(c, m, r) if not d[1].startswith("stream ")]
        ctx.count_case(("h2c-upgrade", json.dumps(c, sort_keys=True)[:3000]), True,
                       "h2c-upgrade-%d-before" % len(m.get("pre") or []) if m.get("mode") == "h2c" else "h2-" + m.get("kind", "?"))
        if devs and reported < 2:
            reported += 1
            ctx.violation({"kind": "h2c-upgrade" if m.get("mode") == "h2c" else "h2-" + m.get("kind", "?"), "first_half": c["first"],
                           "exchanges_before_upgrade": len(m.get("pre") or []),
                           "why": [d[1] for d in devs][:6], "case": c, "how": "vh-http run (case on stdin)"})


def run(ctx):
    ctx.build_harness()
    if not ctx.harness_tagged:
        ctx.broken.append("harness: build with -tags verif failed")
        return ctx.finish(rule="(harness did not build)")
    ctx.translate()
    failed = ctx.coq_build()
    ctx.check_proofs()
    coq_ok = not ({"Base/Prelude.v", "Match/Matcher.v", "Match/MatcherConc.v"} & failed)
    hists = gen_histories(ctx)
    for proto in PROTOS:
        inp = "\n".join(M.hist_line(proto, h) for h in hists) + "\n"
        rc, out = ctx.vh("vh-match", ["seq"], inp=inp, timeout=1200)
        lines = [l for l in out.split("\n") if l.startswith("{")]
        if rc != 0 or len(lines) != len(hists):
            ctx.broken.append("K_seq[%s]: harness failed rc=%d (%d/%d results)" % (proto, rc, len(lines), len(hists)))
            ctx.log(out[-600:])
            continue
        terms = []
        reported = 0
        for h, l in zip(hists, lines):
            r = json.loads(l)
            exp_items, exp_res = M.expected_items(h)
            got_items = [(i["conn"], i["req"], i["resp"]) for i in r["items"] or []]
            got_res = M.parse_residue(proto, r["residue"])
            nontrivial = len(exp_items) >= 1 and len(h) >= 3
            ctx.count_case((proto, tuple(h)), nontrivial, proto)
            ok = (set(got_items) == exp_items and len(got_items) == len(set(got_items)) and got_res == exp_res
                  and all(i["oriented"] for i in r["items"] or []) and not r.get("panic"))
            # item indices distinct per connection stream
            idx = {}
            for i in r["items"] or []:
                idx.setdefault(i["conn"], []).append(i["index"])
            ok = ok and all(len(v) == len(set(v)) for v in idx.values())
            if not ok and reported < 3:
                reported += 1
                ctx.violation({"kind": "history", "protocol": proto, "history": ["%d:%s:%d" % e for e in h],
                               "observed": r, "expected_items": sorted(exp_items), "expected_residue": sorted(exp_res),
                               "how": "echo '%s' | work/bin/vh-match seq" % M.hist_line(proto, h)})
            terms.append("(%s, %s, %s)" % (M.coq_hev(h), M.coq_items(r["items"] or []), M.coq_residue(got_res)))
        mid = len(hists) // 3
        ctx.sample({"protocol": proto, "history": ["%d:%s:%d" % e for e in hists[mid]], "result": json.loads(lines[mid])})
        if coq_ok:
            bad = []
            for k in range(0, len(terms), 1200):
                src = ("Require Import V.Base.Prelude V.Match.Matcher V.Match.MatcherConc.\n"
                       "Definition cases : list (list hev * list item * list (nat * nat * bool * nat)) := [\n" + ";\n".join(terms[k:k + 1200]) + "].\n"
                       "Definition chk (c : list hev * list item * list (nat * nat * bool * nat)) := let '(h, its, res) := c in\n"
                       "  let st := snd (hrun h) in list_eqb item_eqb (snd st) its && list_eqb quad_eqb (residue (fst st) [1;2;3;4] 8) res.\n"
                       "Definition M := Eval vm_compute in failing chk cases.\nPrint M.\n")
                rc, out = ctx.coq_run("seq_%s_%d" % (proto, k), src)
                idx = vlib.parse_coq_list_of_nat(out, "M")
                if rc != 0 or idx is None:
                    ctx.broken.append("K_seq[%s]: coqc failed on the case file" % proto)
                    ctx.log(out[-600:])
                    break
                bad += [k + i for i in idx]
            ctx.cov["traces_validated_against_impl"] = ctx.cov.get("traces_validated_against_impl", 0) + len(terms)
            if bad and not ctx.violations:
                ctx.broken.append("K_seq[%s]: model and implementation differ on history %s" % (proto, M.hist_line(proto, hists[bad[0]])))
    check_keyed(ctx, coq_ok)
    check_amqp_conversations(ctx)
    check_h2c_upgrades(ctx)
    ctx.trusted += [
        "translator vh-translate/idents.go (go/ast: Sprintf keys of the handlers and readers)",
        "gated-reader harness vh-match (one message per read; a side has handled a message when it asks for input again)",
        "modelled, not verified: sync.Map operations linearizable; Sprintf idents injective for the '_'-free address components used (several connections exercised)",
        "HTTP/2, Kafka and AMQP correlation are covered by theorem C09_keyed; their Dissect-level correspondence runs live in the protocol families",
    ]
    return ctx.finish(
        rule="arrival histories: every order-preserving merge of the client and server message sequences for the listed small conversations "
             "(one connection: up to 3x3 quick / 4x4 thorough exchanges incl. unanswered and early responses; two connections sharing the matcher) plus seeded long ones on 1-3 connections; "
             "run on the real redis and http Dissect through gated readers; AMQP family conversations in three half orders; HTTP/1.1 connections upgraded to "
             "h2c after 0..3 ordinary exchanges in both half orders; non-trivial = at least one answered pair and three messages",
        assumptions=["each direction of a connection is dissected by one goroutine", "sync.Map linearizable"])


def replay(ctx, path):
    r = json.load(open(path))
    ctx.build_harness()
    line = r["protocol"] + "|" + " ".join(r["history"])
    rc, out = ctx.vh("vh-match", ["seq"], inp=line + "\n")
    print(line)
    print(out)
    return 0
