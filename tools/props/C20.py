"""C20 — Byte and event accounting neither loses nor double-counts (DESIGN.md 5.C20)."""
import itertools
import json

import vlib
from vlib import coq_z, coq_list


def spec_currents(ops):
    """The property's own oracle: bytes fed since the previous reading (or reset)."""
    acc, outs = 0, []
    for o in ops:
        if o[0] == "F":
            acc += int(o[1:])
        elif o == "C":
            outs.append(acc)
            acc = 0
        else:
            acc = 0
    return outs


def coq_ops(ops):
    return coq_list(["Feed %s" % coq_z(int(o[1:])) if o[0] == "F" else ("Current" if o == "C" else "Reset") for o in ops])


def gen_progress_cases(ctx):
    alphabet = ["F0", "F1", "F7", "F4096", "C", "R"]
    cases = []
    # corpus first: the witness of the repaired defect
    cases.append(["F10", "C", "F5", "C", "F5", "C", "F7", "C"])
    maxlen = 4 if ctx.tier == "quick" else 6
    for n in range(1, maxlen + 1):
        for t in itertools.product(alphabet, repeat=n):
            cases.append(list(t))
    nrand = 400 if ctx.tier == "quick" else 5000
    for _ in range(nrand):
        n = ctx.rng.randint(5, 40)
        ops = []
        for _ in range(n):
            r = ctx.rng.random()
            if r < 0.5:
                ops.append("F%d" % ctx.rng.choice([0, 1, 2, 7, 100, 4095, 4096, 4097, 65536, ctx.rng.randint(0, 1 << 20)]))
            elif r < 0.93:
                ops.append("C")
            else:
                ops.append("R")
        cases.append(ops)
    return cases


def check_progress(ctx, coq_ok):
    cases = gen_progress_cases(ctx)
    rc, out = ctx.vh("vh-api", ["progress"], inp="\n".join(" ".join(c) for c in cases) + "\n")
    lines = out.split("\n")
    if rc != 0 or len(lines) < len(cases):
        ctx.broken.append("K_progress: harness failed rc=%d" % rc)
        return
    impl = [[int(x) for x in l.split()] for l in lines[:len(cases)]]
    # oracle on the implementation
    bad = None
    for c, o in zip(cases, impl):
        nontrivial = c.count("C") >= 2 and any(x[0] == "F" and x != "F0" for x in c)
        ctx.count_case(("progress", tuple(c)), nontrivial, "progress")
        if o != spec_currents(c) and bad is None:
            bad = (c, o)
    ctx.sample({"kind": "progress", "ops": " ".join(cases[len(cases) // 2]), "currents": impl[len(cases) // 2]})
    if bad:
        c, o = shrink_progress(ctx, bad[0])
        ctx.violation({"kind": "progress", "ops": c, "observed": o, "expected": spec_currents(c),
                       "how": "vh-api progress"})
    # correspondence model <-> implementation
    if coq_ok:
        terms = ["(%s, %s)" % (coq_ops(c), coq_list([coq_z(x) for x in o])) for c, o in zip(cases, impl)]
        bad_idx = []
        for k in range(0, len(terms), 1500):
            src = ("Require Import V.Base.Prelude V.Api.Progress V.Api.ProgressSpec.\nLocal Open Scope Z_scope.\n"
                   "Definition cases : list (list pop * list Z) := [\n" + ";\n".join(terms[k:k + 1500]) + "].\n"
                   "Definition chk (c : list pop * list Z) := list_eqb Z.eqb (currents (fst c)) (snd c) && list_eqb Z.eqb (spec_currents (fst c)) (snd c).\n"
                   "Definition M := Eval vm_compute in failing chk cases.\nPrint M.\n")
            rc, out = ctx.coq_run("progress_cases_%d" % k, src)
            idx = vlib.parse_coq_list_of_nat(out, "M")
            if rc != 0 or idx is None:
                ctx.broken.append("K_progress: coqc failed on the case file")
                ctx.log(out[-600:])
                return
            bad_idx += [k + i for i in idx]
        ctx.cov["traces_validated_against_impl"] = ctx.cov.get("traces_validated_against_impl", 0) + len(cases)
        if bad_idx and not bad:
            ctx.broken.append("K_progress: model and implementation differ on ops %s" % " ".join(cases[bad_idx[0]]))


def shrink_progress(ctx, ops):
    def fails(c):
        rc, out = ctx.vh("vh-api", ["progress"], inp=" ".join(c) + "\n")
        o = [int(x) for x in out.split("\n")[0].split()]
        return o != spec_currents(c), o
    cur = list(ops)
    changed = True
    while changed:
        changed = False
        for i in range(len(cur)):
            cand = cur[:i] + cur[i + 1:]
            if cand and fails(cand)[0]:
                cur = cand
                changed = True
                break
    return cur, fails(cur)[1]


def reset_len():
    import re
    m = re.search(r"reset_src\s*:[^=]*:=\s*\[(.*?)\]", open(vlib.COQ + "/gen/StatsSrc.v").read())
    body = m.group(1).strip() if m else ""
    return (len(body.split(";")) if body else 0) + 1   # + ARet


def model_schedule_stats(steps, nt):
    """Map a scheduler trace to the model's schedule (thread ids, one per atom)."""
    sc = []
    dump_step = 0
    for s in steps:
        if s["Blocked"]:
            continue
        w = s["Worker"]
        if w.startswith("inc"):
            sc.append(int(w[3:]))
        else:
            if dump_step >= 1 and dump_step % 8 == 7:   # the 7th reset of each DumpStats is MatchedPairs
                sc += [nt] * reset_len()
            dump_step += 1
    return sc


def check_stats(ctx, coq_ok):
    cfgs = [(1, 2, 1), (2, 1, 1)] if ctx.tier == "quick" else [(1, 2, 1), (2, 1, 1), (2, 2, 1), (1, 2, 2), (3, 1, 1)]
    for nt, per, nd in cfgs:
        rc, out = ctx.vh("vh-api", ["stats-sched", str(nt), str(per), str(nd)], timeout=1200)
        lines = [json.loads(l) for l in out.split("\n") if l.startswith("{")]
        if rc != 0 or not lines or "runs" not in lines[-1]:
            ctx.broken.append("K_stats: scheduler run failed (%d %d %d)" % (nt, per, nd))
            ctx.log(out[-800:])
            continue
        summary, runs = lines[-1], lines[:-1]
        if not summary["complete"]:
            ctx.note("stats-sched %s not exhaustive (%d runs)" % ((nt, per, nd), summary["runs"]))
        terms = []
        for r in runs:
            if r.get("err"):
                ctx.broken.append("K_stats: scheduler error " + r["err"])
                continue
            d, res = r["obs"].split()
            dumps = [int(x) for x in d.split("=")[1].split(",") if x]
            residue = int(res.split("=")[1])
            sc = model_schedule_stats(r["steps"], nt)
            ctx.count_case(("stats", nt, per, nd, tuple(sc)), True, "stats-schedule")
            if sum(dumps) + residue != nt * per:
                ctx.violation({"kind": "stats-schedule", "config": [nt, per, nd],
                               "schedule": [s["Worker"] for s in r["steps"]], "dumps": dumps, "residue": residue,
                               "expected_total": nt * per, "how": "vh-api stats-sched"})
            progs = coq_list(["incs %s" % coq_list(["1%N"] * per)] * nt + ["dumps reset_src %d" % nd])
            terms.append("(%s, %s, (%d, %d)%%N)" % (progs, coq_list([str(x) for x in sc]), sum(dumps), residue))
        ctx.sample({"kind": "stats-schedule", "config": [nt, per, nd],
                    "schedule": [s["Worker"] for s in runs[len(runs) // 2]["steps"]], "obs": runs[len(runs) // 2]["obs"]})
        if coq_ok and terms:
            src = ("Require Import V.Base.Prelude V.Api.Stats V.gen.StatsSrc.\n"
                   "Definition cases : list (list (list atom) * list nat * (N * N)) := [\n" + ";\n".join(terms) + "].\n"
                   "Definition chk (c : list (list atom) * list nat * (N * N)) := let '(progs, sc, (d, r)) := c in\n"
                   "  let s := exec (init progs) sc in N.eqb (dumped s) d && N.eqb (ctr s) r && finished s.\n"
                   "Definition M := Eval vm_compute in failing chk cases.\nPrint M.\n")
            rc, out = ctx.coq_run("stats_cases_%d_%d_%d" % (nt, per, nd), src)
            idx = vlib.parse_coq_list_of_nat(out, "M")
            if rc != 0 or idx is None:
                ctx.broken.append("K_stats: coqc failed on the case file")
                ctx.log(out[-600:])
            elif idx:
                ctx.broken.append("K_stats: model and implementation differ on schedule #%d of config %s" % (idx[0], (nt, per, nd)))
            ctx.cov["traces_validated_against_impl"] = ctx.cov.get("traces_validated_against_impl", 0) + len(terms)
    # every counter, not only the matched pairs: one goroutine increments all of them in bursts, one dumps
    for per, nd in ((1, 1), (2, 1), (2, 2)):
        rc, out = ctx.vh("vh-api", ["stats-sched-all", str(per), str(nd)], timeout=1200)
        lines = [json.loads(l) for l in out.split("\n") if l.startswith("{")]
        if rc != 0 or not lines or "runs" not in lines[-1]:
            ctx.broken.append("K_stats: scheduler run (all counters) failed (%d %d)" % (per, nd))
            ctx.log(out[-800:])
            continue
        reported = 0
        for r in lines[:-1]:
            ctx.count_case(("stats-all", per, nd, tuple(s_["Worker"] for s_ in r["steps"])), True, "stats-schedule-all-counters")
            if (r.get("err") or not r["obs"].startswith("ok ")) and reported < 2:
                reported += 1
                ctx.violation({"kind": "stats-schedule-all", "config": [per, nd], "schedule": [s_["Worker"] + "@" + s_["Site"] for s_ in r["steps"]],
                               "observed": r.get("err") or r["obs"],
                               "explanation": "one goroutine calls every Inc* method and UpdateProcessedBytes in bursts, another dumps: for every counter a dump resets, dumps + residue must equal the increments",
                               "how": "vh-api stats-sched-all %d %d" % (per, nd)})
        if lines[:-1]:
            ctx.cov.setdefault("counters_checked", lines[0]["obs"][3:] if lines[0]["obs"].startswith("ok ") else "")
    # free-running stress (support): conservation under real goroutines
    g, per, nd = (8, 40000, 400) if ctx.tier == "quick" else (16, 400000, 4000)
    rc, out = ctx.vh("vh-api", ["stats-stress", str(g), str(per), str(nd)], timeout=600)
    try:
        o = json.loads(out.strip().split("\n")[-1])
    except Exception:
        ctx.broken.append("stats-stress failed: " + out[-300:])
        return
    ctx.count_case(("stats-stress", g, per, nd), True, "stats-stress")
    ctx.cov["stress"] = o
    if not (o["matched"] == o["packets"] == o["bytes3"] == o["expected"]):
        ctx.violation({"kind": "stats-stress", "args": [g, per, nd], "observed": o,
                       "how": "vh-api stats-stress %d %d %d" % (g, per, nd)})


def check_capture_sizes(ctx):
    """The capture sizes reported for successive messages add up to the bytes consumed: real
    redis and http Dissect, every message ends up in an item or in the matcher residue."""
    from fam import match as M
    hists = []
    for nreq, nresp in [(1, 1), (2, 2), (3, 2), (2, 3), (4, 4)]:
        ms = list(M.merges(M.conversation([(1, nreq, nresp)])))
        hists += ms if len(ms) <= 40 else ctx.rng.sample(ms, 40)
    for _ in range(30 if ctx.tier == "quick" else 400):
        spec = [(c, ctx.rng.randint(0, 8), ctx.rng.randint(0, 8)) for c in range(1, ctx.rng.randint(2, 4))]
        seqs = [list(x) for x in M.conversation(spec) if x]
        h = []
        while seqs:
            x = ctx.rng.choice(seqs)
            h.append(x.pop(0))
            seqs = [y for y in seqs if y]
        if h:
            hists.append(h)
    runs = [("redis", hists, M.hist_line), ("http", hists, M.hist_line)]
    khists = M.keyed_histories(ctx.rng, "amqp", True)[:120]
    # amqphb: a heartbeat frame in front of every second message of a half (its bytes belong to the next message's size)
    runs += [("amqp", khists, M.keyed_line), ("amqphb", khists, M.keyed_line), ("http2", khists, M.keyed_line)]
    # (kafka is not part of this: its capture size is the size field the message declares, not a reading of the progress counter)
    for proto, hists, liner in runs:
        rc, out = ctx.vh("vh-match", ["seq"], inp="\n".join(liner(proto, h) for h in hists) + "\n", timeout=900)
        lines = [l for l in out.split("\n") if l.startswith("{")]
        if rc != 0 or len(lines) != len(hists):
            ctx.broken.append("capture-size run failed for %s" % proto)
            continue
        reported = 0
        for h, l in zip(hists, lines):
            r = json.loads(l)
            dirs = {}
            for ev in h:
                dirs[ev[2]] = "%d:%s" % (ev[0], ev[1])
            total = {}
            for it in r["items"] or []:
                total[dirs.get(it["req"])] = total.get(dirs.get(it["req"]), 0) + it["reqsize"]
                total[dirs.get(it["resp"])] = total.get(dirs.get(it["resp"]), 0) + it["respsize"]
            for x in r["residue"] or []:
                total[dirs.get(x["pid"])] = total.get(dirs.get(x["pid"]), 0) + x["size"]
            ctx.count_case(("capture", proto, tuple(h)), len(h) >= 3, "capture-size")
            if {k: v for k, v in total.items() if v} != {k: v for k, v in (r.get("fed") or {}).items() if v} and reported < 2:
                reported += 1
                ctx.violation({"kind": "capture-size", "protocol": proto, "history": [":".join(map(str, e)) for e in h],
                               "fed_bytes": r.get("fed"), "sum_of_capture_sizes": total,
                               "how": "echo '%s' | work/bin/vh-match seq" % liner(proto, h)})
        ctx.sample({"kind": "capture-size", "protocol": proto, "history": [":".join(map(str, e)) for e in hists[3]],
                    "fed": json.loads(lines[3]).get("fed")})


def check_capture_sizes_http(ctx):
    """Byte accounting over the HTTP family's conversations (HTTP/1 with pipelining and all body
    framings, HTTP/2 scripts, h2c upgrades): for each half, the capture sizes of all its messages
    (items and matcher residue) plus what is still unread in its progress counter equal the bytes
    delivered."""
    try:
        import importlib
        from fam import http as H
        C03 = importlib.import_module("props.C03")
        C04 = importlib.import_module("props.C04")
    except Exception as ex:
        ctx.note("HTTP family not available for the byte accounting: %s" % ex)
        return
    saved = ctx.rng
    ctx.rng = vlib.random.Random(ctx.seed * 7 + 20)
    try:
        cases = [c for c, m in C03.gen_cases(ctx) if m["kind"] in ("random", "minimal-request", "witness-chunked-request")][: (120 if ctx.tier == "quick" else 1500)]
        # interim responses (100 Continue, 102, 103 Early Hints) in front of the final one: whatever the pairing does with
        # them (recorded finding of C03), their bytes belong to some message of the half
        for i in range(12 if ctx.tier == "quick" else 150):
            ex = [H.gen_exchange(ctx.rng, j + 1, last=False, sizes=[0, 3, 100]) for j in range(ctx.rng.choice([1, 2, 3]))]
            for e in ctx.rng.sample(ex, ctx.rng.randint(1, len(ex))):
                e["interim"] = ctx.rng.choice([[100], [103], [102, 103], [100, 100]])
            cases.append({"kind": "h1", "h1": ex})
        h2 = [(c, m) for c, m in C04.gen_cases(ctx) if not m["kind"].startswith("cap")]
        cases += [c for c, m in h2 if m.get("mode") == "h2c"][: (30 if ctx.tier == "quick" else 300)]
        cases += [c for c, m in h2 if m.get("mode") != "h2c"][: (70 if ctx.tier == "quick" else 800)]
    finally:
        ctx.rng = saved
    for i, c in enumerate(cases):
        c["id"] = i
        c["bodylimit"] = 1
        c.pop("wantoracle", None)
    res = H.run_cases(ctx, cases, batch=40)
    reported = 0
    for c in cases:
        r = res.get(c["id"]) or {}
        cap = r.get("cap")
        if not cap or r.get("timeout") or r.get("c", {}).get("outcome") != "ok" or r.get("s", {}).get("outcome") != "ok":
            continue
        ctx.count_case(("capture-http", json.dumps(c, sort_keys=True)[:2000]), len(r.get("items") or []) >= 1, "capture-size-" + c.get("kind", "?") + ("-h2c" if (c.get("h2") or {}).get("mode") == "h2c" else ""))
        if (cap[0] + cap[2] != r["nc"] or cap[1] + cap[3] != r["ns"]) and reported < 2:
            reported += 1
            ctx.violation({"kind": "capture-size-http", "case": c, "client": {"delivered": r["nc"], "request_capture_sizes": cap[0], "unread_in_progress": cap[2]},
                           "server": {"delivered": r["ns"], "response_capture_sizes": cap[1], "unread_in_progress": cap[3]},
                           "how": "vh-http run (case on stdin)"})


def search_model_counterexample(ctx):
    """The source-derived reset/inc programs no longer satisfy the theorem's side conditions:
    search the regenerated model for a schedule that loses or double-counts an event."""
    src = ("Require Import V.Base.Prelude V.Api.Stats V.gen.StatsSrc.\nLocal Open Scope N_scope.\n"
           "Definition P1 := [nth 3 inc_src []; dumps reset_src 1].\n"
           "Definition P2 := [nth 3 inc_src []; nth 3 inc_src []; dumps reset_src 1].\n"
           "Definition X1 := Eval vm_compute in hd [] (counterexamples P1).\nPrint X1.\n"
           "Definition X2 := Eval vm_compute in hd [] (counterexamples P2).\nPrint X2.\n")
    rc, out = ctx.coq_run("stats_search", src, timeout=300)
    for name in ("X1", "X2"):
        sc = vlib.parse_coq_list_of_nat(out, name)
        if sc:
            return {"kind": "model-schedule", "programs": name, "schedule_thread_ids": sc,
                    "explanation": "in the model regenerated from stats_tracker.go this interleaving of one "
                                   "increment thread (ids 0..) with a dump (last id) violates added = dumped + residue"}
    return None


def run(ctx):
    ctx.build_harness()
    if not ctx.harness_tagged:
        ctx.broken.append("harness: build with -tags verif failed")
        return ctx.finish(rule="(harness did not build)")
    ctx.translate()
    failed = ctx.coq_build()
    ctx.check_proofs()
    base_ok = not ({"Base/Prelude.v", "Api/Progress.v", "Api/ProgressSpec.v", "Api/Stats.v", "gen/StatsSrc.v"} & failed)
    check_progress(ctx, base_ok)
    check_stats(ctx, base_ok)
    check_capture_sizes(ctx)
    check_capture_sizes_http(ctx)
    if "Api/StatsTie.v" in failed and base_ok:
        cx = search_model_counterexample(ctx)
        if cx:
            # try to reproduce on the implementation by stress
            for _ in range(5):
                rc, out = ctx.vh("vh-api", ["stats-stress", "16", "200000", "20000"], timeout=600)
                try:
                    o = json.loads(out.strip().split("\n")[-1])
                except Exception:
                    break
                if not (o["matched"] == o["packets"] == o["bytes3"] == o["expected"]):
                    cx["reproduced_on_implementation"] = o
                    break
            cx["gen"] = open(vlib.COQ + "/gen/StatsSrc.v").read()
            ctx.violation(cx)
    ctx.trusted += [
        "translator vh-translate/stats.go (go/ast: sync/atomic calls of resetUint64, Inc*/Update*, DumpStats field list)",
        "deterministic scheduler harness/sched + yield hooks (build tag verif); sync/atomic operations are atomic and sequentially consistent",
        "modelled, not verified: Go int as Z, uint64 counters as N (no wrap)",
    ]
    return ctx.finish(
        rule="progress: every op sequence over {F0,F1,F7,F4096,C,R} up to length %d plus seeded random longer ones, non-trivial = at least two readings and a non-zero feed; "
             "stats: every schedule of the real AppStats code under the deterministic scheduler for the listed configurations (distinct = distinct model schedule), plus one free-running stress run"
             % (4 if ctx.tier == "quick" else 6),
        assumptions=["TcpReader implementations call Feed with the number of bytes delivered",
                     "sync/atomic operations are linearizable"])


def replay(ctx, path):
    """Re-run the recorded case on the implementation built from the current tree."""
    r = json.load(open(path))
    ctx.build_harness()
    print(json.dumps({k: v for k, v in r.items() if k not in ("observed", "first_bad", "gen")}, indent=1)[:2500])
    how = r.get("how", "")
    sched_names = [x.split("@")[0] for x in r.get("schedule", [])] if isinstance(r.get("schedule"), list) else []
    if r.get("kind") == "progress":
        rc, out = ctx.vh("vh-api", ["progress"], inp=" ".join(r["ops"]) + "\n")
        got = [int(x) for x in out.split("\n")[0].split()]
        print("observed now:", got, "expected:", r.get("expected"))
        return 0 if got == r.get("expected") else 1
    if how.startswith("vh-match conc") and sched_names:
        args = how.split()[1:]
        args[2] = "prefix=" + ",".join(sched_names)
        rc, out = ctx.vh("vh-match", args, timeout=600)
        print("observed now:", out[-1500:])
        return 0
    if how.startswith("vh-api") and sched_names:
        args = how.split()[1:]
        rc, out = ctx.vh("vh-api", args, timeout=600, env={"VH_PREFIX": ",".join(sched_names)})
        print("observed now:", out[-1500:])
        return 0
    if how.startswith("vh-") :
        args = how.split()
        rc, out = ctx.vh(args[0], args[1:], timeout=1800)
        print("observed now:", out[-1500:])
        return 0
    if "| work/bin/vh-match seq" in how:
        line = how.split("'")[1]
        rc, out = ctx.vh("vh-match", ["seq"], inp=line + "\n")
        print("observed now:", out[-1500:])
    return 0
