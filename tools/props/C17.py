"""C17 — Macro expansion is a deterministic, literal-preserving rewrite (DESIGN.md 5.C17)."""
import json

import vlib
from fam import kfltext as K

FAMILY_FILES = {"Base/Prelude.v", "KflText/Macro.v", "gen/Macros.v"}


def table_term(table):
    return "[" + ";\n ".join("(%s, %s)" % (K.coq_bytes(n), K.coq_bytes(d)) for n, d in table) + "]"


def oracle(ctx, stream, q, o, table, tname, blanked_ok=False):
    """The property evaluated on the implementation's observable, independent of the Coq model.
    Returns None or (class, detail)."""
    if o["panic"] or o["err"]:
        return ("expansion-error", "ExpandMacros panicked or returned an error")
    if len(o["outs"]) != 1:
        return ("nondeterministic", "%d distinct results over the repetitions / insertion orders" % len(o["outs"]))
    got = o["outs"][0]
    if o["re"] != [got]:
        return ("not-idempotent", "expanding the result again gave %r" % (o["re"],))
    if stream == "malformed":
        return None
    want = K.ref_expand(q, table)
    if got != want:
        if K.has_raw_or_char(q) and blanked_ok:
            # the failure disappears when the raw-string / char literals are taken out of the text
            return ("raw-or-char-literal", "a raw-string or char literal was not treated as a literal")
        return (K.diff_kind(q, got, table), "expected %r" % want)
    if stream == "gram" and tname == "real" and not o["valid"]:
        return ("expansion-breaks-valid-query", "a grammatical query no longer validates after expansion")
    return None


def check_table(ctx, texts, raw_table, tname, coq_ok, reps, shuffles):
    table = dict(raw_table)
    # companions of the texts with raw-string / char literals: the same text without those literals
    comp = {}
    for _, q in texts:
        if K.has_raw_or_char(q):
            comp.setdefault(K.blank_raw_char(q), None)
    # the process has used another table with the same names before (every definition different): the expansion is a
    # function of the query and the table as it is now
    pre = [(n, 'earlier.%s == "%s"' % (n.strip("_") or "m", n)) for n, _ in raw_table]
    res, err = K.run_expand(ctx, [q for _, q in texts] + list(comp), reps, shuffles, table=None if tname == "real" else raw_table, tag=tname, pre=pre)
    if res is None:
        ctx.broken.append("K_expand(%s): harness failed: %s" % (tname, err[-300:]))
        return
    for b, o in zip(list(comp), res[len(texts):]):
        comp[b] = oracle(ctx, "wf" if K.well_lexed(b) else "malformed", b, o, table, "x") is None and K.well_lexed(b)
    res = res[:len(texts)]
    first_bad = {}
    known_seen = {}
    for (stream, q), o in zip(texts, res):
        has_macro = any(k == "run" and t in table for k, t in K.lex(q, False))
        ctx.count_case(("expand", tname, q), has_macro, tname + ":" + stream)
        bad = oracle(ctx, stream, q, o, table, tname, comp.get(K.blank_raw_char(q), False) if K.has_raw_or_char(q) else False)
        if bad is None:
            continue
        cls, detail = bad
        if ctx.is_known(cls):
            known_seen.setdefault(cls, q)
            continue
        if cls not in first_bad or len(q) < len(first_bad[cls][0]):
            first_bad[cls] = (q, o, detail)
    for cls, (q, o, detail) in sorted(first_bad.items()):
        q2, o2 = shrink(ctx, q, cls, raw_table, tname, reps, shuffles)
        ctx.violation({"kind": "expand", "class": cls, "table": tname, "macros": raw_table if tname != "real" else "extensions",
                       "query": q2, "observed": o2["outs"], "re_expanded": o2["re"], "expected": K.ref_expand(q2, table),
                       "detail": detail, "reps": reps, "shuffles": shuffles,
                       "how": "vh-kfltext expand %d %d <seed> ; input line = JSON string of the query" % (reps, shuffles)})
    mid = len(texts) // 3
    ctx.sample({"kind": "expand", "table": tname, "stream": texts[mid][0], "query": texts[mid][1], "result": res[mid]["outs"]})
    # ---- correspondence: the Coq model computes the same text (two table orders)
    if not coq_ok:
        return
    explained = bool(first_bad)
    cases = [(q, o["outs"][0]) for (s, q), o in zip(texts, res) if len(o["outs"]) == 1 and not o["panic"] and not o["err"]]
    bad_idx = []
    for k in range(0, len(cases), 1200):
        chunk = cases[k:k + 1200]
        tab = "table_of raw_macros" if tname == "real" else "table_of %s" % table_term(raw_table)
        src = (K.COQ_STR_HEAD + "Require Import V.Base.Prelude V.KflText.Macro V.gen.Macros.\n" + K.COQ_STR_DEF +
               "Definition T : list macro := %s.\n"
               "Definition tok := Eval vm_compute in table_ok T.\nPrint tok.\n"
               "Definition cases : list (bytes * bytes) := [\n%s].\n"
               "Definition chk (c : bytes * bytes) := bytes_eqb (expand_macros T (fst c)) (snd c) && bytes_eqb (expand_macros (rev T) (fst c)) (snd c).\n"
               "Definition M := Eval vm_compute in failing chk cases.\nPrint M.\n"
               % (tab, ";\n".join("(%s, %s)" % (K.coq_str(q), K.coq_str(o)) for q, o in chunk)))
        rc, out = ctx.coq_run("expand_cases_%s_%d" % (tname, k), src)
        idx = vlib.parse_coq_list_of_nat(out, "M")
        if rc != 0 or idx is None:
            ctx.broken.append("K_expand(%s): coqc failed on the case file" % tname)
            ctx.log(out[-600:])
            return
        if "tok = true" not in out:
            ctx.broken.append("table_ok(%s): the macro table no longer satisfies the side conditions of the C17 theorems" % tname)
        bad_idx += [k + i for i in idx]
    ctx.cov["traces_validated_against_impl"] = ctx.cov.get("traces_validated_against_impl", 0) + len(cases)
    if bad_idx and not explained:
        q, o = cases[bad_idx[0]]
        ctx.broken.append("K_expand(%s): model and implementation differ on %r (implementation: %r)" % (tname, q, o))


def shrink(ctx, q, cls, raw_table, tname, reps, shuffles):
    table = dict(raw_table)

    def fails(c):
        res, _ = K.run_expand(ctx, [c, K.blank_raw_char(c)], reps, shuffles, table=None if tname == "real" else raw_table, tag=tname + "_shrink")
        if not res:
            return False, None
        stream = "wf" if K.well_lexed(c) else "malformed"
        bl = K.blank_raw_char(c)
        blanked_ok = K.well_lexed(bl) and oracle(ctx, "wf", bl, res[1], table, "x") is None
        b = oracle(ctx, stream, c, res[0], table, "x", blanked_ok)
        return (b is not None and b[0] == cls), res[0]

    cur = q
    ok, o = fails(cur)
    if not ok:
        return q, o or {"outs": [], "re": []}
    changed = True
    while changed and len(cur) > 1:
        changed = False
        toks = [t for _, t in K.lex(cur)]
        for i in range(len(toks)):
            cand = "".join(toks[:i] + toks[i + 1:])
            f, oo = fails(cand)
            if cand and f:
                cur, o, changed = cand, oo, True
                break
    return cur, o


def replay_known(ctx, real):
    """Replay the witnesses of the listed findings; say when one no longer reproduces."""
    table = dict(real)
    for f in ctx.load_known():
        w = f.get("witness")
        if not isinstance(w, dict) or "query" not in w:
            continue
        res, _ = K.run_expand(ctx, [w["query"], K.blank_raw_char(w["query"])], 20, 3, tag="known")
        if not res:
            continue
        bad = oracle(ctx, "wf", w["query"], res[0], table, "real", oracle(ctx, "wf", K.blank_raw_char(w["query"]), res[1], table, "real") is None)
        if bad and bad[0] == f.get("class"):
            ctx.known_finding(f.get("id", f["class"]), f.get("text", ""))
        else:
            ctx.note("known finding %s no longer reproduces on its witness" % f.get("id"))


def run(ctx):
    ctx.build_harness()
    if not ctx.harness_tagged:
        ctx.broken.append("harness: build with -tags verif failed")
        return ctx.finish(rule="(harness did not build)")
    ctx.translate()
    failed = ctx.coq_build()
    ctx.check_proofs()
    coq_ok = not (FAMILY_FILES & failed)
    real, built = K.load_macros(ctx)
    if {n: "(" + d + ")" for n, d in real} != built:
        ctx.broken.append("macro table: kfl's table differs from Dissector.Macros() of the extensions")
    names = [n for n, _ in real]
    quick = ctx.tier == "quick"
    texts = K.gen_c17(ctx, names, 1000 if quick else 15000, dict(real))
    reps, shuffles = (4, 7) if quick else (6, 15)
    replay_known(ctx, real)
    check_table(ctx, texts, real, "real", coq_ok, reps, shuffles)
    ext = K.extended_table(real)
    ext_names = [n for n, _ in ext]
    texts2 = [(s, q) for s, q in K.gen_c17(ctx, ext_names, 300 if quick else 5000, dict(ext)) if s != "gram"]
    if quick:
        texts2 = ctx.rng.sample(texts2, 500)
    check_table(ctx, texts2, ext, "extended", coq_ok, 3 if quick else 6, 5 if quick else 15)
    # user-defined macros (kfl.AddMacro) whose definitions carry string literals with escaped quotes (odd and even counts) and a
    # backslash: the theorems assume definitions without backslashes (table_ok), so this table is judged by the reference
    # expansion and the idempotence / order oracles on the implementation only
    esc = list(ext) + [("sized", 'request.headers["Size"] == "7\\" tablet"'), ("quoted", 'a.b == "say \\"http\\" twice"'),
                       ("bs", 'a.path == "c:\\\\dir"')]
    texts3 = [(s_, q) for s_, q in K.gen_c17(ctx, [n for n, _ in esc], 150 if quick else 3000, dict(esc)) if s_ != "gram" and "\\" not in q]
    texts3 += [("wf", t) for t in ("http and sized", "sized and http", "http and quoted and redis", "quoted or http", "h and bs and ht and sized",
                                   "sized", "(http) and (sized) and (amqp)", 'http and a == "sized" and sized')]
    check_table(ctx, texts3, esc, "escaped-definitions", False, 3 if quick else 6, 5 if quick else 15)
    ctx.trusted += [
        "translator vh-translate/macros.go (Dissector.Macros() of every registered extension -> gen/Macros.v)",
        "modelled, not verified: regexp2 (the one pattern family is modelled as a scanner, compared with the real ExpandMacros on every generated text); "
        "\\w on non-ASCII runes (bytes >= 0x80 are word characters in the model; generated texts use ASCII and letters)",
        "Go map iteration order: reached through re-randomised range loops and re-insertion in shuffled order (verif hook VerifResetMacros)",
    ]
    return ctx.finish(
        rule="texts assembled from macro names, identifiers containing them (prefix/infix/suffix/dotted), double-quoted literals with and "
             "without escaped quotes, raw/char literals, operators, brackets, whitespace variants, letters outside ASCII; every text expanded "
             "%d times under %d insertion orders of the table; non-trivial = contains at least one standalone macro name outside raw/char "
             "literals; distinct = distinct (table, text)" % (reps, shuffles + 1),
        assumptions=["query texts are valid UTF-8", "macro names are identifiers and definitions contain no backslash or dollar sign (checked on the generated table by table_ok)"])


def replay(ctx, path):
    r = json.load(open(path))
    ctx.build_harness()
    real, _ = K.load_macros(ctx)
    raw = real if r.get("table", "real") == "real" else [tuple(x) for x in r["macros"]]
    res, err = K.run_expand(ctx, [r["query"], K.blank_raw_char(r["query"])], r.get("reps", 25), r.get("shuffles", 7), table=None if r.get("table", "real") == "real" else raw, tag="replay")
    if not res:
        print(err)
        return 1
    want = K.ref_expand(r["query"], dict(raw))
    print("query:    %r" % r["query"])
    print("observed: %r" % res[0]["outs"])
    print("again:    %r" % res[0]["re"])
    print("expected: %r" % want)
    bl = K.blank_raw_char(r["query"])
    bad = oracle(ctx, "wf" if K.well_lexed(r["query"]) else "malformed", r["query"], res[0], dict(raw), "x",
                 K.well_lexed(bl) and oracle(ctx, "wf", bl, res[1], dict(raw), "x") is None)
    print("verdict:", bad or "property holds on this input")
    return 1 if bad and bad[0] != "raw-or-char-literal" else 0
