"""C16 — Click-to-filter queries and protocol macros are true of their own entries (DESIGN.md 5.C16)."""
import json

import vlib
from vlib import coq_list
from fam import aggregate as A

FAMS = ["amqp", "kafka", "http", "resp", "dns"]


def coq_str(s):
    return '"' + s.replace('"', '""') + '"'


def run(ctx):
    ctx.build_harness()
    if not ctx.harness_tagged:
        ctx.broken.append("harness: build with -tags verif failed")
        return ctx.finish(rule="(harness did not build)")
    ctx.translate()
    failed = ctx.coq_build()
    ctx.check_proofs()
    ctx.c16_stash = []
    import importlib
    import os
    os.environ["VERIF_KEEP_ENTRY"] = "1"
    for fam in FAMS:
        try:
            mod = importlib.import_module("fam." + fam)
            fn = mod.c11
        except ModuleNotFoundError as ex:
            ctx.note("family %s is not part of this revision (%s)" % (fam, ex))
            continue
        except Exception as ex:
            ctx.broken.append("C16: family %s provides no items (%s)" % (fam, ex))
            continue
        n0 = len(ctx.c16_stash)
        try:
            A.collect_c16(ctx, fn)
        except Exception as ex:
            ctx.broken.append("C16: family %s item generation failed: %s" % (fam, ex))
        ctx.log("%s: %d entries" % (fam, len(ctx.c16_stash) - n0))
    # ---- oracle on the implementation: own queries true, macro truth table
    reported = {}
    macro_rows = {}
    nq = 0
    for fam, r, replay in ctx.c16_stash:
        if r.get("panic", "").startswith("kfl"):
            ctx.violation({"kind": "c16-kfl-panic", "family": fam, "panic": r["panic"], "replay": replay})
            continue
        if r.get("panic") or r.get("problems"):
            continue        # the entry did not get through the stages: C11 reports that
        qs = r.get("queries") or []
        key = (fam, r.get("protocol"), r.get("method"), tuple(q["which"] for q in qs))
        ctx.count_case(("c16", fam, r.get("protocol"), r.get("method"), r.get("summary")), bool(qs), "c16-" + fam)
        for q in qs:
            nq += 1
            if q["valid"] and q["truth"]:
                continue
            uv = A.unsafe_value(r.get("entry_json"), q["query"])
            if (uv is True or (uv is None and A.unsafe_query(q["query"]))) and ctx.is_known("c16-unsafe-string"):
                continue
            k = (fam, q["which"], r.get("method"))
            if reported.get(k, 0) < 1 and sum(reported.values()) < 5:
                reported[k] = 1
                ctx.violation({"kind": "c16-query", "family": fam, "protocol": r.get("protocol"), "method": r.get("method"),
                               "which": q["which"], "query": q["query"], "valid": q["valid"], "truth": q["truth"], "err": q.get("err"),
                               "replay": replay})
        for m in r.get("macros") or []:
            macro_rows.setdefault((r.get("protocol"), r.get("macro")), {})[m["macro"]] = m["truth"]
            if m["truth"] != m["expected"]:
                k = ("macro", m["macro"], r.get("protocol"))
                if reported.get(k, 0) < 1 and sum(reported.values()) < 5:
                    reported[k] = 1
                    ctx.violation({"kind": "c16-macro", "family": fam, "protocol": r.get("protocol"), "entry_macro": r.get("macro"),
                                   "macro": m["macro"], "truth": m["truth"], "expected": m["expected"], "replay": replay})
    ctx.cov["queries_evaluated"] = nq
    ctx.cov["protocol_variants_seen"] = sorted("%s (macro %s)" % k for k in macro_rows)
    # every protocol variant of the generated table should have been produced by some family
    try:
        import re
        gen = open(vlib.COQ + "/gen/MacroTable.v").read()
        table = set(re.findall(r'pv_name := "([^"]*)"; pv_version := "([^"]*)"; pv_abbr := "([^"]*)"', gen))
        seen = {tuple((k[0].split("/", 2) + ["", ""])[:3]) for k in macro_rows}
        missing = sorted(table - seen)
        ctx.cov["protocol_variants_not_produced"] = ["/".join(m) for m in missing]
        if missing:
            ctx.note("no generated entry of protocol variant(s) %s: their macro rows are covered by the table theorem only" % missing)
    except OSError:
        pass
    for fam, r, replay in ctx.c16_stash[:: max(1, len(ctx.c16_stash) // 4)][:4]:
        ctx.sample({"family": fam, "protocol": r.get("protocol"), "method": r.get("method"), "queries": r.get("queries")})
    # ---- correspondence: the fragment evaluator of Shape/MacroFrag.v against the real kfl.Apply
    if not ({"Shape/MacroFrag.v", "gen/MacroTable.v"} & failed) and macro_rows:
        terms = []
        for (proto, macro), row in sorted(macro_rows.items()):
            name, version, abbr = (proto.split("/", 2) + ["", ""])[:3]
            v = "{| pv_name := %s; pv_version := %s; pv_abbr := %s; pv_macro := %s |}" % (coq_str(name), coq_str(version), coq_str(abbr), coq_str(macro))
            for m, t in sorted(row.items()):
                terms.append("(%s, %s, %s)" % (v, coq_str(m), "true" if t else "false"))
        src = ("From Coq Require Import List Bool String.\nImport ListNotations.\nRequire Import V.Base.Prelude V.Shape.MacroFrag V.gen.MacroTable.\nLocal Open Scope string_scope.\n"
               "Definition cases : list (pvariant * string * bool) := [\n" + ";\n".join(terms) + "].\n"
               "Definition chk (c : pvariant * string * bool) := let '(v, m, t) := c in\n"
               "  existsb (pvariant_eqb v) variants_src &&\n"
               "  match find (fun x => String.eqb (fst x) m) macros_src with Some x => match feval v (snd x) with Some b => Bool.eqb b t | None => false end | None => false end.\n"
               "Definition M := Eval vm_compute in failing chk cases.\nPrint M.\n")
        rc, out = ctx.coq_run("macro_cases", src)
        idx = vlib.parse_coq_list_of_nat(out, "M")
        if rc != 0 or idx is None:
            ctx.broken.append("K_macros: coqc failed on the case file")
            ctx.log(out[-600:])
        elif idx and not ctx.violations:
            ctx.broken.append("K_macros: the macro fragment model and kfl.Apply differ (or an entry's protocol variant is not in the generated table): case %s" % terms[idx[0]])
        ctx.cov["traces_validated_against_impl"] = len(terms)
    os.environ.pop("VERIF_KEEP_ENTRY", None)
    # ---- correspondence for the query clause: the prepared tree of every own query is a click query in the sense of
    # Kfl/KflClick.v (hypothesis of C16_click_query_eval), all its clauses hold on the entry, and the evaluator model
    # agrees with kfl.Eval on that (query, entry)
    if not any(f.startswith("Kfl/") for f in failed):
        from fam import kfl
        pool = {}
        for fam, r, replay in ctx.c16_stash:
            ej = r.get("entry_json")
            if not ej or len(ej) > 6000:
                continue
            for q in r.get("queries") or []:
                if q["valid"] and q["truth"] and not A.unsafe_query(q["query"]):
                    key = (fam, r.get("protocol"), r.get("method"), q["which"])
                    pool.setdefault(key, []).append((q["query"], ej))
        pairs = []
        for key in sorted(pool, key=str):
            pairs += ctx.rng.sample(pool[key], min(len(pool[key]), 3 if ctx.tier == "quick" else 25))
        if len(pairs) > (260 if ctx.tier == "quick" else 5000):
            pairs = ctx.rng.sample(pairs, 260 if ctx.tier == "quick" else 5000)
        kres = kfl.run_cases(ctx, "eval", [[q, e] for q, e in pairs], extra=["-k"], timeout=1200) if pairs else []
        items, idx = [], []
        for i, o in enumerate(kres):
            it = kfl.k_item(o)
            if it is not None:
                items.append(it)
                idx.append(i)
        defs = ("Require Import V.Kfl.KflClick.\n"
                "Definition case_t := (tables * expr * jv * option bool * N)%type.\n"
                "Definition code (c : case_t) : nat := let '(t, e, r, obs, lim) := c in\n"
                "  match click_clauses e with\n"
                "  | Some cs => (if forallb (clause_holds (t_float t) (t_re t) r) cs then 0 else 2) + (if agrees t e r obs then 0 else 1)\n"
                "  | None => 4\n  end.\n")
        codes = kfl.k_map(ctx, "click", defs, "code", items) if items else []
        if codes is None:
            ctx.broken.append("K_click: coqc failed on the case file")
        else:
            ctx.cov["click_queries_validated"] = len(codes)
            ctx.cov["traces_validated_against_impl"] = ctx.cov.get("traces_validated_against_impl", 0) + len(codes)
            for code, i in zip(codes, idx):
                if code and not ctx.violations:
                    what = ("its prepared tree is not a click query (hypothesis of C16_click_query_eval)" if code & 4 else
                            "a clause does not hold in the model although kfl.Apply answered true" if code & 2 else "model and kfl.Eval differ")
                    ctx.broken.append("K_click: %s: %s on %s" % (what, pairs[i][0], pairs[i][1][:300]))
                    break
        ctx.log("click queries: %d of %d (query, entry) pairs evaluated in Coq" % (len(items), len(pairs)))
    ctx.trusted += [
        "translator vh-translate/macrotable.go (api.Protocol literals by go/ast; Dissector.Macros() parsed by the real kfl.Parse into the comparison fragment)",
        "translator vh-translate/templates.go (go/ast data flow inside the Summarize functions: template clause path vs the path the interpolated value was read from)",
        "harness/stage: the entry's own queries and every macro are evaluated by the real kfl.Apply on the entry's JSON",
        "the query clause is proved in the evaluator model of property C12 (Kfl/KflEval.v, Kfl/KflClick.v) over prepared trees; lexing/parsing of the query text is "
        "not modelled: the trees of the real queries are dumped by vh-kfl and recognised in Coq on every run",
    ]
    return ctx.finish(
        rule="every entry produced by the AMQP, Kafka, HTTP/1-2-gRPC, Redis families' item generators and generated DNS entries, pushed through Analyze/Summarize; "
             "its method/summary/status queries validated and applied to the entry itself and every registered macro applied to it; distinct = distinct (family, protocol variant, method, summary)",
        assumptions=["values interpolated into queries contain no double quote, backslash or control character (KFL has no escape processing: recorded finding)"])


def replay(ctx, path):
    r = json.load(open(path))
    print(json.dumps(r, indent=1)[:4000])
    return 0
