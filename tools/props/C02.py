"""C02 — shared by the four stream dissectors; each family runs its share (tools/fam/<family>.py)."""
import json

from fam import aggregate as A

TEXT = {
    "C01": ("c01", "for each of the four stream dissectors, both directions: well-formed conversations of the family's independent encoder, every prefix of a sample of them (cut at every byte), single- and multi-byte corruptions, token-biased random strings; "
                   "a panic (recovered or fatal in a child process) is a violation; for a cut conversation the emitted items must equal the report of its complete prefix; model-vs-implementation correspondence on the same inputs where the family provides it"),
    "C02": ("c02", "for each of the four stream dissectors: well-formed conversations in which every length/count/size field is replaced by the boundary values (0, 1, remaining-1, remaining, remaining+1, 65535, 65536, cap, cap+1, INT32_MAX, -1, UINT32_MAX) x three end-of-stream kinds (clean, error once, error forever); "
                   "run in a child process under a memory limit; budget alloc <= 64*n + 96 MiB, cpu <= 2us*n + 0.5 s including the later stages; exceeding the budget, a timeout or a killed child is a violation"),
    "C08": ("c08", "for each of the four stream dissectors: the same bytes of both directions delivered whole, in every two-piece split (sampled conversations), in random multi-piece splits and as single bytes must give identical items and outcome class (capture sizes excluded: they depend on read-ahead by design); model compared per segmentation where the family provides it"),
}


def run(ctx):
    entry, rule = TEXT["C02"]
    return A.run_shared(
        ctx, entry, None, rule=rule,
        assumptions=["the TcpReader delivers each read as a non-empty chunk or an error (harness mock)", "library code (net/http, x/net/http2, hpack, martian/har, bufio) is exercised, not modelled"],
        trusted=["families' harness binaries (vh-redis, vh-amqp, vh-kafka, vh-http) driving the real Dissect inside recover() / child processes",
                 "modelled, not verified: bufio.Reader + io.ReadFull / binary.Read / Peek / Discard semantics over chunked input"])


def replay(ctx, path):
    r = json.load(open(path))
    print(json.dumps(r, indent=1)[:4000])
    return 0
