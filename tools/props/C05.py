"""C05 — AMQP 0-9-1 methods and content are reported exactly (DESIGN.md 5.C05)."""
import json
import os
import sys

sys.path.insert(0, os.path.join(os.path.dirname(os.path.abspath(__file__)), "..", "fam"))
import amqp as A  # noqa: E402
import vlib  # noqa: E402

CLASS_TEXT = {
    "amqp-handshake-self-paired": "connection start / tune are reported at once with an empty response; start-ok / tune-ok are never reported and stay in the matcher",
    "amqp-ident-collision": "two events of one direction on the same channel+class+method family drop each other",
    "amqp-body-cap": "a content header announcing more than 512 body bytes is dropped",
    "amqp-body-per-frame": "one item per body frame; a zero-length body is never reported",
    "amqp-content-state-per-half": "pending method / content state is kept per half connection, not per channel",
    "amqp-server-initiated-request": "a request sent by the server is reported as the response of its own reply",
    "amqp-timestamp-clamped": "a timestamp outside the years 0..9999 is replaced by the zero time",
}


def gen_convs(ctx):
    rng = ctx.rng
    quick = ctx.tier == "quick"
    convs = []
    cdir = os.path.join(vlib.VERIF, "corpus", "C05")
    sweep = A.gen_method_sweep(rng)
    convs += sweep
    convs += A.gen_props_sweep(rng, exhaustive=not quick)
    n = 150 if quick else 3000
    for i in range(n):
        c = A.gen_normal(rng)
        convs.append(A.interleave_other_half(rng, c) if i % 3 == 0 else c)
    for f in A.FEATURES:
        for _ in range(2 if quick else 20):
            convs.append(A.gen_feature(rng, f))
    return convs


def oracle(ctx, convs, normal_ids):
    rng = ctx.rng
    lines, meta = [], []
    for i, c in enumerate(convs):
        for m in A.MODES:
            lines.append(A.conv_case("c%d%s" % (i, m), c, m, rng, cuts=rng.random() < 0.5))
            meta.append((c, m))
    rc, res, raw = A.vh(ctx, "run", lines)
    if rc != 0 or len(res) != len(lines):
        ctx.broken.append("oracle: vh-amqp run failed rc=%d (%d of %d results)" % (rc, len(res), len(lines)))
        ctx.log(raw[-1500:])
        return []
    reported = 0
    seen_known = set()
    for (c, m), line, out in zip(meta, lines, res):
        v, fs, why = A.judge(c, m, out)
        if v == "ok" and not fs and m == "cs" and A.in_coq_normal_form(c):
            normal_ids.add(out["id"])      # in normal form: also checked against the Coq specification's report
        nontrivial = len(out["items"]) > 0
        ctx.count_case(("conv", line), nontrivial, "conv-" + c.note.split(":")[0])
        if v == "known":
            for cls in sorted(fs):
                if cls not in seen_known:
                    if ctx.is_known(cls):
                        seen_known.add(cls)
                    else:
                        v, why = "violation", "finding class %s is triggered but not listed" % cls
        if v == "violation" and reported < 3:
            reported += 1
            ctx.violation({"kind": "amqp-report", "note": c.note, "mode": m, "conversation": c.brief(), "case": json.loads(line), "why": why,
                           "observed": A.describe_items(A.observed_items(out)), "residue": out["residue"],
                           "exact_report": A.describe_items(A.ideal_report(c, m)),
                           "design_report": A.describe_items(A.design_report(c, m)[0]),
                           "how": "python3 tools/check.py C05 --replay <this file>"})
    mid = len(lines) // 3
    ctx.sample({"kind": "conversation", "frames": meta[mid][0].brief()[:300], "mode": meta[mid][1], "items": len(res[mid]["items"])})
    return list(zip(lines, res))


def run(ctx):
    ctx.build_harness()
    if not ctx.harness_tagged:
        ctx.broken.append("harness: build with -tags verif failed")
        return ctx.finish(rule="(harness did not build)")
    ctx.translate()
    failed = ctx.coq_build()
    ctx.check_proofs()
    model_ok = not ({"Base/Prelude.v", "Amqp/AmqpTypes.v", "Amqp/AmqpModel.v", "Amqp/AmqpEq.v"} & failed)
    # corpus first (minimised past failures / witnesses of the repaired defects), then generated
    pairs = []
    corpus = os.path.join(vlib.VERIF, "corpus", "C05", "cases.jsonl")
    if os.path.exists(corpus):
        clines = [l.strip() for l in open(corpus) if l.strip()]
        rc, res, raw = A.vh(ctx, "stage", clines)
        for line, out in zip(clines, res):
            ctx.count_case(("corpus", line), True, "corpus")
            bad = [h for h in ("c", "s") if out[h]["out"] not in ("eof", "error")] or [i for i in out["items"] if i.get("stage")]
            if bad or json.loads(line).get("expect_ci") and any(i["ci"] != json.loads(line)["expect_ci"] for i in out["items"]):
                ctx.violation({"kind": "amqp-corpus", "case": json.loads(line), "observed": {"c": out["c"], "s": out["s"],
                               "items": [[i["rqm"], i["rsm"], i["ci"], i.get("stage", "")] for i in out["items"]]},
                               "why": "a witness of a repaired defect fails again", "how": "echo '<case>' | work/bin/vh-amqp stage"})
            pairs.append((line, out))
        if len(res) != len(clines):
            ctx.violation({"kind": "amqp-corpus-crash", "case": json.loads(clines[len(res)]), "output_tail": raw[-800:],
                           "why": "the process died on a witness of a repaired defect"})
    normal_ids = set()
    pairs += oracle(ctx, gen_convs(ctx), normal_ids)
    mal = A.c01(ctx)
    # correspondence: small cases first, malformed ones included
    if model_ok:
        kpairs = sorted(mal, key=lambda p: len(p[0]))[:700 if ctx.tier == "quick" else 20000] + \
            sorted(pairs, key=lambda p: (len(p[0]) // 600, hash(p[0])))
        bad, n = A.k_check(ctx, "k_cases", kpairs, budget=2200000 if ctx.tier == "quick" else 40000000, normal_ids=normal_ids)
        ctx.cov["normal_form_conversations_checked_against_spec_report"] = len(normal_ids)
        ctx.cov["traces_validated_against_impl"] = n
        if bad is None:
            ctx.broken.append("K_amqp: coqc failed on the case file")
        elif bad and not any(not ni for _, ni in ctx.violations):
            line, out = kpairs[bad[0]]
            ctx.broken.append("K_amqp: model and implementation differ on %d cases, first: %s" % (len(bad), line[:400]))
            ctx.violation({"kind": "amqp-model-mismatch", "case": json.loads(line), "observed": {"c": out["c"], "s": out["s"],
                           "items": [[i["by"], i["rqm"], i["rsm"]] for i in out["items"]], "residue": out["residue"]},
                           "why": "the Coq model of the dissector (AmqpModel.v, about which the theorems are proved) computes another result "
                                  "for this input than the implementation", "how": "echo '<case>' | work/bin/vh-amqp run"})
        sb = getattr(ctx, "amqp_spec_mismatches", [])
        if sb:
            line, out = kpairs[sb[0]]
            ctx.broken.append("S_amqp: on %d normal-form conversations the Coq specification (AmqpSpec.normal / spec_report) and the model "
                              "disagree although the implementation matches the exact report, first: %s" % (len(sb), line[:400]))
    else:
        ctx.broken.append("K_amqp: the model does not compile")
    ctx.trusted += [
        "harness vh-amqp + mock TcpReader (chunked reader, tails), canonical rendering of Go values by reflection",
        "tools/fam/amqp.py: independent AMQP 0-9-1 encoder (written from the specification), abstract conversation semantics (exact report and design report), classifier",
        "modelled, not verified: bufio.Reader + io.ReadFull / io.CopyN over the reader as a flat byte list with a tail kind; sync.Map as an association list; "
        "time.Unix(sec).Year() range test as two integer comparisons; Go maps as key-sorted last-wins lists",
    ]
    keep_replays(ctx)
    return ctx.finish(
        rule="one case = one conversation under one processing order (client half first, server half first, conversation order) and chunking; "
             "non-trivial = at least one item emitted; conversations: every class/method of the specification with empty and maximal arguments and "
             "every bit combination, property-flag subsets (all 2^14 in thorough), seeded random multi-channel conversations, one family per recorded "
             "finding class; plus prefixes / corruptions / token-biased random streams for the model correspondence",
        assumptions=["both halves of a connection share one matcher; the server half's TcpID has the server as source",
                     "io.ReadFull / io.CopyN on a bufio.Reader depend only on the concatenation of the reads (exercised by the chunked runs)"])


def keep_replays(ctx):
    """vlib.Ctx removes replays/C05-*.json whenever a check starts - also when it is started
    with --replay.  Keep a copy where that does not reach so that the printed path can be
    replayed."""
    import glob
    import shutil
    keep = os.path.join(vlib.VERIF, "replays", ".keep")
    os.makedirs(keep, exist_ok=True)
    for f in glob.glob(os.path.join(vlib.VERIF, "replays", ctx.prop + "-*.json")):
        shutil.copy(f, keep)


def replay(ctx, path):
    if not os.path.exists(path):
        path = os.path.join(vlib.VERIF, "replays", ".keep", os.path.basename(path))
    r = json.load(open(path))
    ctx.build_harness()
    case = r.get("case")
    if not case:
        print(json.dumps(r, indent=1)[:3000])
        return 0
    mode = "cost" if r.get("kind", "").startswith("amqp-c02") else ("stage" if r.get("kind", "").startswith(("amqp-c11", "amqp-corpus")) else "run")
    rc, res, raw = A.vh(ctx, mode, [json.dumps(case)], extra=("-mem", "1536") if mode == "cost" else ())
    print("why:", r.get("why"))
    print(raw[-3000:])
    if rc != 0 or not res:
        return 1
    out = res[0]
    if out["c"]["out"] not in ("eof", "error") or out["s"]["out"] not in ("eof", "error") or any(i.get("stage") for i in out["items"]):
        print("replay: still failing (outcome / stage)")
        return 1
    if r.get("kind") == "amqp-report":
        obs = [dict(d, by=None) for d in A.describe_items(A.observed_items(out))]
        want = [[dict(d, by=None) for d in r.get(k, [])] for k in ("exact_report", "design_report")]
        key = lambda l: sorted(json.dumps(d, sort_keys=True) for d in l)
        same = key(obs) == key(want[0]) or key(obs) == key(want[1])
        print("replay: items %s the report recorded for this conversation" % ("equal" if same else "still differ from"))
        return 0 if same else 1
    return 0
