"""C18 — A prepared query can be reused and shared between goroutines (DESIGN.md 5.C18)."""
import json
import os
import time

import vlib
from fam import kfl
from props import C13

REDACT_QUERIES = ['redact("a")', 'a == 1 and redact("b", "c.k")', 'redact("a.json().b")', 'redact("..k")', 'redact("c[*].k") and a',
                  'redact("a.xml().r.b")', 'redact("b") and b == "[REDACTED]"', 'redact("a", "b") or true', 'false and redact("a")',
                  '(redact("a.b")) and a.b == 1', 'a.redact("b")', 'redact("zz")', 'redact("a.k[0]")', 'limit(3) and redact("c")']
EXTRA_QUERIES = ['a.undefinedHelper(1) or true', 'limit(10) and a', 'now() > a', 'a <= seconds(5)', 'a.b.startsWith("x")', 'a == r"^x"',
                 'a.* == 1', 'a[*].k == 1', 'a..k == 1', 'a[0] == 1', 'a["k"] == 1', 'a.json().b == 1', 'a.xml().r.b == "1"',
                 'b.json()..c > 0', 'datetime("10/19/2021, 6:29:02.000 PM") > a', '!(a) and -b < 0', 'a == nil', '', 'true',
                 # helper names in another case (undefined helpers as the language stands)
                 'a.startswith("x")', 'a.STARTSWITH("x") or true', 'a.Contains("x") or b', 'b.JSON().c == 1', 'Limit(3) and a', 'NOW() > a',
                 'a.b.EndsWith("y") and a', 'a.Xml().r.b == "1"', 'Redact("a") and a', 'a <= Seconds(5)',
                 'a.* == a[*]']          # witness of the recorded finding map-order (on the record whose a is an object)


# documents for the xml() hop: plain, attributes, repeated elements, blank-padded text and indentation (what a
# whitespace-trimming parser changes), the xml: attributes that steer parsers, declarations, CDATA, namespaces
XML_DOCS = ['<r><b>1</b></r>', '<r><b x="2">1</b></r>', '<r><b>1</b><b>2</b></r>', '<r><b> 1 </b></r>', '<r>\n  <b> 1 </b>\n  <c>x y</c>\n</r>',
            '<r xml:space="preserve"><b> 1 </b></r>', '<r xml:space="preserve">\n  <b>1</b>\n</r>', '<r xml:space="default"><b>1 </b></r>',
            '<r xml:lang="en"><b>1</b></r>', '<?xml version="1.0" encoding="UTF-8"?><r><b>1</b></r>', '<r><b><![CDATA[ 1 ]]></b></r>',
            '<a:r xmlns:a="u"><a:b>1</a:b></a:r>', '<r><b><c>1</c></b></r>', '<r><b/></r>', '<r> t <b>1</b> u </r>', '<r><b>\t1\n</b></r>']
XML_QUERIES = ['redact("a.xml().r.b")', 'a.xml().r.b == "1" and redact("a.xml().r.b")', 'a.xml().r.b == "1"', 'a.xml().r.b == " 1 "',
               'redact("a.xml().r")', 'redact("b.xml().r.b", "a.xml().r.b")', 'a.xml().r.b == "1" or b.xml().r.b == "1"',
               'a.xml().r.c == "x y" and redact("a.xml().r.c")']


def deep_canon(text):
    """canonical form of a record in which the documents nested in string fields (JSON, or base64 of JSON: what a redaction
    through .json() parses and re-encodes, with the members of its objects in Go's map order) are canonical as well"""
    import base64

    def walk(v):
        if isinstance(v, dict):
            return {k: walk(x) for k, x in v.items()}
        if isinstance(v, list):
            return [walk(x) for x in v]
        if isinstance(v, str) and len(v) >= 2:
            t = v
            wrapped = False
            if not t.lstrip().startswith(("{", "[")):
                try:
                    t = base64.b64decode(v, validate=True).decode("utf-8")
                    wrapped = True
                except Exception:
                    return v
            if t.lstrip().startswith(("{", "[")):
                try:
                    return {"\u0000nested-document": walk(json.loads(t)), "\u0000base64": wrapped}
                except (ValueError, RecursionError):
                    return v
        return v
    try:
        return json.dumps(walk(json.loads(text)), sort_keys=True)
    except (ValueError, RecursionError):
        return None


def same(a, b):
    if a["c"] != b["c"] or a["t"] != b["t"]:
        return False
    if a["r"] == b["r"]:
        return True
    ca, cb = kfl.canon_json(kfl.unhx(a["r"])), kfl.canon_json(kfl.unhx(b["r"]))
    if ca is not None and ca == cb:
        return True
    da, db = deep_canon(kfl.unhx(a["r"])), deep_canon(kfl.unhx(b["r"]))
    return da is not None and da == db


def nondeterministic(ctx, query, records, times=96):
    """is the answer of a FRESH evaluation already not a function of (query, record)? (Go map order)"""
    res = kfl.run_cases(ctx, "eval", [[query, r] for r in records for _ in range(times)])
    for i in range(len(records)):
        seen = {(o.get("outcome"), o.get("truth")) for o in res[i * times:(i + 1) * times]}
        if len(seen) > 1:
            return True
    return False


def build_race(ctx):
    """the harness with the race detector (support: data races are outside the model)"""
    out = os.path.join(vlib.BIN, "vh-kfl-race")
    env = vlib.env_with_go()
    env["CGO_ENABLED"] = "1"
    modargs = []
    alt = os.path.join(vlib.HARNESS, "go.alt.mod")
    if os.path.realpath(vlib.REPO) != "/repo" and os.path.exists(alt):
        modargs = ["-modfile=" + alt]
    with vlib.Lock("build"):
        rc, text = vlib.sh(["go", "build", "-race"] + modargs + ["-tags", "verif", "-o", out, "./cmd/vh-kfl/"], cwd=vlib.HARNESS, env=env, timeout=900)
    if rc != 0:
        ctx.note("race build not available: " + text[-200:].replace("\n", " "))
        return None
    return out


def run(ctx):
    ctx.build_harness()
    if not ctx.harness_tagged:
        ctx.broken.append("harness: build failed")
        return ctx.finish(rule="(harness did not build)")
    ctx.translate()
    failed = ctx.coq_build()
    ctx.check_proofs()
    coq_ok = not any(f.startswith("Kfl/") or f.startswith("Base/") for f in failed)
    rng = ctx.rng
    quick = ctx.tier == "quick"
    now_ms = int(time.time() * 1000)

    # prepared queries: every helper and selector form of the C12 grammar, redact, ill-typed ones
    queries = {}
    for q, r, _ in kfl.gen_special_cases(rng, now_ms):
        queries.setdefault(kfl.render(q), (q, r))
    special = list(queries.items())
    rng.shuffle(special)
    chosen = [(t, [kfl.json_of(r)], kfl.query_paths(q)) for t, (q, r) in special[:(90 if quick else 700)]]
    for _ in range(70 if quick else 1500):
        q = kfl.gen_logical(rng)
        chosen.append((kfl.render(q), [], kfl.query_paths(q)))
    for t in REDACT_QUERIES + EXTRA_QUERIES:
        chosen.append((t, [], [[('k', 'a')], [('k', 'b')], [('k', 'c'), ('k', 'k')]]))
    xml_lines = []
    for t in XML_QUERIES:
        for _ in range(3 if quick else 20):
            xml_lines.append([t] + [json.dumps({"a": rng.choice(XML_DOCS), "b": rng.choice(XML_DOCS), "c": rng.randint(0, 9)}) for _ in range(8)])
    # a nested JSON document that is filtered on and then redacted (selector and redaction through the same hop), over
    # records that carry the SAME embedded text several times in a row and in different records
    jdocs = ['{"b":"s1","k":1}', '{"b":"s2","k":2}', '{"b":"s1","c":{"d":7}}', '{"c":{"d":7},"b":"s3"}', 'eyJiIjoiczEiLCJrIjoxfQ==', '{"b":"s1","k":1}']
    jqueries = ['(a.json().b == "s1") and redact("a.json().b")', 'a.json().b == "s1" and redact("a.json().b")',
                '(a.json().c.d == 7) and redact("a.json().c")', '(a.json().b == "s1") and (b.json().b == "s1") and redact("a.json().b", "b.json().b")',
                '(a.json().k == 1) and redact("a.json().k") and (a.json().k == 1)', 'redact("a.json().b") and (a.json().b == "s1")']
    for t in jqueries:
        for _ in range(3 if quick else 20):
            docs = [rng.choice(jdocs) for _ in range(8)]
            if rng.random() < 0.7:
                docs[1] = docs[0]
                docs[5] = docs[4]
            xml_lines.append([t] + [json.dumps({"a": d, "b": rng.choice(jdocs), "c": rng.randint(0, 3)}) for d in docs])
    # the same member name in different spellings from one record to the next (HTTP/1 records carry Content-Type, HTTP/2
    # records content-type; ETag, DNT, X-Request-ID are neither canonical nor lower case): a lookup that misses on one
    # record must not change what the prepared query looks for on the next
    hnames = ["ETag", "DNT", "X-Request-ID", "WWW-Authenticate", "Content-Type", "content-type", "x-b3-traceid"]
    for hn in hnames:
        key = hn if hn.replace("_", "").isalnum() else None
        sel = ("a.headers.%s" % hn) if key else ('a.headers["%s"]' % hn)
        for t in ('%s == "v"' % sel, '(%s == "v") and redact("a.headers")' % sel, '%s.startsWith("v") or b' % sel):
            recs = []
            for _ in range(8):
                sp = rng.choice([hn, hn.lower(), hn.upper(), "-".join(w.capitalize() for w in hn.split("-")), None, None])
                recs.append(json.dumps({"a": {"headers": ({sp: "v"} if sp else {"other": "v"})}, "b": rng.random() < 0.5}))
            xml_lines.append([t] + recs)
    ill = kfl.illtyped_queries(rng, "quick")
    for t in rng.sample(ill, 30 if quick else 600):
        chosen.append((t, [], [[('k', 'a')]]))
    nested = kfl.nested_doc_records(rng, 40)
    lines = []
    for t, recs, paths in chosen:
        recs = list(recs)
        recs.append("{}")                                          # collapses
        recs.append(C13.RECORDS4[0])
        recs.append(rng.choice(nested))
        while len(recs) < 8:
            recs.append(kfl.json_of(kfl.gen_record(rng, paths)))   # matching and failing records
        lines.append([t] + recs[:8])
    lines += xml_lines

    t0 = time.time()
    res = kfl.run_cases(ctx, "reuse", lines, timeout=1800)
    ctx.log("reuse: %d prepared queries x 8 records x 6 orders + 8 goroutines in %.1fs" % (len(lines), time.time() - t0))
    if len(res) != len(lines):
        ctx.broken.append("K_reuse: harness answered %d of %d cases" % (len(res), len(lines)))
        return ctx.finish(rule="(harness failed)")
    stats = {"prepared": 0, "not-prepared": 0, "shared_evals": 0, "concurrent_evals": 0, "redacting": 0, "collapsing": 0}
    for l, o in zip(lines, res):
        qt = l[0]
        if o.get("outcome") in ("panic", "crash", "timeout"):
            ctx.count_case(tuple(l), True, "reuse")
            ctx.violation({"kind": o["outcome"], "query": qt, "records": l[1:], "msg": o.get("msg", "")[-300:], "how": "vh-kfl reuse"})
            continue
        if o.get("outcome") != "ok":
            stats["not-prepared"] += 1
            ctx.count_case(tuple(l), False, "reuse-unprepared")
            continue
        stats["prepared"] += 1
        fresh = o["fresh"]
        if any(f["c"] == "ok" and kfl.canon_json(kfl.unhx(f["r"])) != kfl.canon_json(rec) for f, rec in zip(fresh, l[1:])):
            stats["redacting"] += 1
        bad = None
        for order, obs, snap in zip(o["orders"], o["shared"], o["snap_equal"]):
            stats["shared_evals"] += len(order)
            if not snap:
                bad = {"kind": "ast-modified", "order": order}
            for pos, (i, ob) in enumerate(zip(order, obs)):
                ctx.count_case((qt, l[1 + i], ob["c"], ob["t"], tuple(order[:pos])), ob["c"] == "ok", "shared-eval")
                if not same(ob, fresh[i]) and bad is None:
                    bad = {"kind": "history-dependence", "order": order, "position": pos, "shared": ob, "fresh": fresh[i]}
        stats["concurrent_evals"] += o["concurrent_evals"]
        if o["concurrent_mismatches"] and bad is None:
            bad = {"kind": "concurrent-mismatch", "mismatches": o["concurrent_mismatches"]}
        if not o["concurrent_snap_equal"] and bad is None:
            bad = {"kind": "ast-modified-concurrently"}
        if bad:
            if bad["kind"] in ("history-dependence", "concurrent-mismatch") and nondeterministic(ctx, qt, l[1:]) and ctx.is_known("map-order"):
                stats["known:map-order"] = stats.get("known:map-order", 0) + 1
                continue
            bad.update({"query": qt, "records": l[1:], "how": "vh-kfl reuse"})
            ctx.violation(bad)
    ctx.sample({"query": lines[0][0], "records": lines[0][1:3], "fresh": res[0].get("fresh", [])[:2]})
    ctx.sample({"query": lines[-40][0], "records": lines[-40][1:3], "fresh": res[-40].get("fresh", [])[:2]})

    # cold start: the goroutines are the first evaluations of each prepared query in a new process (the references are
    # computed afterwards), so that whatever an evaluation sets up on first use is set up by several goroutines at once
    cres = kfl.run_cases(ctx, "reusecold", lines, timeout=1800)
    for l, o in zip(lines, cres):
        ctx.count_case(("cold",) + tuple(l), o.get("outcome") == "ok", "reuse-cold")
        if o.get("outcome") in ("panic", "crash", "timeout"):
            ctx.violation({"kind": "cold-" + o["outcome"], "query": l[0], "records": l[1:], "msg": o.get("msg", "")[-600:], "how": "vh-kfl reusecold"})
            break
        if o.get("outcome") == "ok" and (o["concurrent_mismatches"] or not o["concurrent_snap_equal"]):
            if nondeterministic(ctx, l[0], l[1:]) and ctx.is_known("map-order"):
                continue
            ctx.violation({"kind": "cold-concurrent-mismatch", "query": l[0], "records": l[1:], "mismatches": o["concurrent_mismatches"],
                           "tree_unchanged": o["concurrent_snap_equal"], "how": "vh-kfl reusecold"})
            break

    # race detector (support)
    race = build_race(ctx)
    if race:
        sub0 = rng.sample(lines, min(len(lines), 150 if quick else 1000)) + rng.sample(xml_lines, min(len(xml_lines), 12 if quick else 80))
        enc0 = "\n".join("\t".join(kfl.hx(f) for f in l) for l in sub0) + "\n"
        rc0, out0 = vlib.sh([race, "reusecold"], inp=enc0.encode(), timeout=1200, env=vlib.env_with_go(), cwd=ctx.work)
        n0 = out0.count("WARNING: DATA RACE")
        ctx.cov["race_detector_cold"] = {"queries": len(sub0), "reports": n0, "exit": rc0}
        if n0 or rc0 not in (0,):
            i = out0.find("WARNING: DATA RACE")
            ctx.violation({"kind": "data-race", "report": out0[i:i + 1500] if i >= 0 else out0[-800:], "queries": [l[0] for l in sub0][:20],
                           "how": "vh-kfl-race reusecold"})
        sub = rng.sample(lines, min(len(lines), 60 if quick else 400)) + rng.sample(xml_lines, min(len(xml_lines), 12 if quick else 80))
        enc = "\n".join("\t".join(kfl.hx(f) for f in l) for l in sub) + "\n"
        rc, out = vlib.sh([race, "reuse"], inp=enc.encode(), timeout=1200, env=vlib.env_with_go(), cwd=ctx.work)
        nrace = out.count("WARNING: DATA RACE")
        ctx.cov["race_detector"] = {"queries": len(sub), "reports": nrace, "exit": rc}
        if nrace or rc not in (0,):
            i = out.find("WARNING: DATA RACE")
            ctx.violation({"kind": "data-race", "report": out[i:i + 1500] if i >= 0 else out[-800:], "queries": [l[0] for l in sub][:20],
                           "how": "vh-kfl-race reuse"})

    # correspondence: the model is a function of (tree, record); its value on each pair equals the shared evaluation
    if coq_ok:
        pairs = []
        for l, o in zip(lines, res):
            if o.get("outcome") == "ok":
                for i in range(0, 8, 3):
                    pairs.append((l[0], l[1 + i]))
        pairs = rng.sample(pairs, min(len(pairs), 400 if quick else 4000))
        kres = kfl.run_cases(ctx, "eval", [[q, r] for q, r in pairs], extra=["-k"], timeout=1200)
        items, idx = [], []
        for i, o in enumerate(kres):
            it = kfl.k_item(o)
            if it is not None:
                items.append(it)
                idx.append(i)
            if o.get("outcome") == "ok" and not o.get("snap_equal", True):
                ctx.violation({"kind": "ast-modified", "query": pairs[i][0], "record": pairs[i][1], "how": "vh-kfl eval -k"})
        codes = kfl.k_codes(ctx, "k18", items) if items else []
        if codes is None:
            ctx.broken.append("K_eval: coqc failed on the case file")
        else:
            ctx.cov["traces_validated_against_impl"] = len(codes)
            for code, i in zip(codes, idx):
                if code & 32:
                    ctx.broken.append("K_shape: a tree from the real parser violates shape_expr (hypothesis of C13_no_panic)")
                if code & 64:
                    ctx.broken.append("K_prepared: a tree from the real Precompute violates prepared_expr (hypothesis of C14_record_unchanged)")
                if code & 1:
                    ctx.broken.append("K_eval: model and implementation differ on %r / %s" % pairs[i])
    ctx.cov["oracle"] = stats
    for b in ctx.broken[:5]:
        ctx.log("broken:", b)
    ctx.trusted += [
        "deep reflect dump of the prepared tree (every field, jp fragments, regexp source, parameter times) as the AST snapshot",
        "Go race detector (support only): data-race freedom itself is outside the model",
        "library oracles of the evaluator model supplied as tables computed by Go on every correspondence case",
    ]
    return ctx.finish(
        rule="prepared queries from the C12 helper cases (every helper, time helper, hop and selector form), random grammar queries, redact "
             "queries, ill-typed helper calls; each on 8 records (its own matching record, {} which collapses, records embedding nested "
             "documents, random records with the referenced paths planted or absent) in 6 orders (identity, reverse, two rotations, "
             "evens-then-odds, every record twice) against a fresh PrepareQuery per record, the tree snapshot compared after every order; "
             "8 goroutines x 25 rounds on the shared tree; the same under the race detector for a sample; distinct = distinct (query, record, "
             "outcome, evaluation prefix)",
        assumptions=["sequentially consistent interleavings only in the theorem; races by the race detector",
                     "time helpers: a fresh PrepareQuery reads the clock again, records are generated with a margin of ten minutes"])


def replay(ctx, path):
    r = json.load(open(path))
    ctx.build_harness()
    if "records" not in r:
        return 0
    o = kfl.run_cases(ctx, "reuse", [[r["query"]] + r["records"]])[0]
    print("query:", r["query"])
    bad = False
    if o.get("outcome") == "ok":
        for order, obs, snap in zip(o["orders"], o["shared"], o["snap_equal"]):
            for i, ob in zip(order, obs):
                if not same(ob, o["fresh"][i]):
                    print("order", order, "record", i, "shared", ob, "fresh", o["fresh"][i])
                    bad = True
            bad = bad or not snap
        bad = bad or o["concurrent_mismatches"] > 0 or not o["concurrent_snap_equal"]
    else:
        bad = o.get("outcome") in ("panic", "crash", "timeout")
    print("observed:", "violated" if bad else "holds")
    return 1 if bad else 0
