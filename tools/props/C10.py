"""C10 — Pairing is independent of goroutine interleaving (DESIGN.md 5.C10)."""
import json

import vlib
from vlib import coq_list, coq_bool
from fam import match as M

PROTOS = ["redis", "http", "http2", "kafka", "amqp"]


def site_class(site):
    if site == "":
        return 4
    if site.endswith(".counter"):
        return 1
    if site.endswith(".store"):
        return 2
    if site in ("emit.index", "blocked:emit.lock"):
        return 3
    if site.startswith("blocked:") and site.endswith(".lock"):
        return 1
    if site.endswith(".poll"):
        return 1
    return 9


def model_trace(steps, names):
    """scheduler trace -> list of (thread, target class, moved?) for msync."""
    prev = {n: "start" for n in names}
    tr = []
    for s in steps:
        w, new = s["Worker"], s["Site"]
        i = names.index(w)
        p = prev[w]
        moved = True
        if s["Blocked"]:
            moved = False
        elif new.startswith("blocked:") and site_class(new) == site_class(p) and p != "start":
            moved = False      # ran into a held lock without completing an atom
        elif new.endswith(".poll") and p.endswith(".poll"):
            moved = False      # polled again
        elif p == "blocked:emit.lock" and new == "emit.index":
            moved = False      # acquired the emitter's lock: inside the model's MEmit atom
        tr.append((i, site_class(new), moved))
        prev[w] = new
    return tr


def configs(ctx):
    quick = ctx.tier == "quick"
    cs = [[(1, "c", [10]), (1, "s", [20])],
          [(1, "c", [10, 11]), (1, "s", [20])],
          [(1, "c", [10, 11]), (1, "s", [20, 21])],
          [(1, "c", [10, 11, 12]), (1, "s", [20, 21, 22])]]
    if not quick:
        cs += [[(1, "c", [10]), (1, "s", [20]), (2, "c", [30]), (2, "s", [40])],
               [(1, "c", [10, 11, 12, 13]), (1, "s", [20, 21, 22])]]
    return cs


def run(ctx):
    ctx.build_harness()
    if not ctx.harness_tagged:
        ctx.broken.append("harness: build with -tags verif failed")
        return ctx.finish(rule="(harness did not build)")
    ctx.translate()
    failed = ctx.coq_build()
    ctx.check_proofs()
    coq_ok = not ({"Base/Prelude.v", "Match/Matcher.v", "Match/MatcherConc.v"} & failed)
    max_runs = 4000 if ctx.tier == "quick" else 12000
    for proto in PROTOS:
        for cfg in configs(ctx):
            args = ["conc", proto, str(max_runs)] + ["%d:%s:%s" % (c, d, ",".join(map(str, ps))) for c, d, ps in cfg]
            rc, out = ctx.vh("vh-match", args, timeout=2400)
            lines = [json.loads(l) for l in out.split("\n") if l.startswith("{")]
            if rc != 0 or not lines or "runs" not in lines[-1]:
                ctx.broken.append("K_conc[%s]: scheduler run failed for %s" % (proto, cfg))
                ctx.log(out[-600:])
                continue
            summary, runs = lines[-1], lines[:-1]
            if not summary["complete"]:
                ctx.note("%s %s: %d schedules explored, not exhaustive" % (proto, cfg, summary["runs"]))
            names = ["t%d" % i for i in range(len(cfg))]
            history = [(c, d, p) for c, d, ps in cfg for p in ps]   # the sequential run
            exp_items, exp_res = M.expected_items(history)
            terms, reported = [], 0
            ref_digests = None
            for r in runs:
                if r.get("err"):
                    ctx.violation({"kind": "schedule", "protocol": proto, "config": cfg, "error": r["err"],
                                   "schedule": [s["Worker"] + "@" + s["Site"] for s in r["steps"]], "how": "vh-match " + " ".join(args)})
                    continue
                res = r["res"]
                got = [(i["conn"], i["req"], i["resp"]) for i in res["items"] or []]
                got_res = M.parse_residue(proto, res["residue"])
                if proto in ("http2", "kafka", "amqp"):     # stream / correlation / channel id 2j+1 of the j-th message <-> counter j+1
                    got_res = {(c, (k + 1) // 2, d, p) for c, k, d, p in got_res}
                tr = model_trace(r["steps"], names)
                ctx.count_case((proto, str(cfg), tuple(tr)), True, proto)
                idx = {}
                for i in res["items"] or []:
                    idx.setdefault(i["conn"], []).append(i["index"])
                ok = (set(got) == exp_items and len(got) == len(set(got)) and got_res == exp_res
                      and all(i["oriented"] for i in res["items"] or [])
                      and all(sorted(v) == list(range(len(v))) for v in idx.values())
                      and not any(e.startswith("panic") for e in res["ends"]))
                # what every pair reports about its two messages is the same in every schedule (a message handed over
                # before it is complete would show here)
                dg = sorted((i["conn"], i["req"], i["resp"], i.get("digest", "")) for i in res["items"] or [])
                if ref_digests is None:
                    ref_digests = dg
                elif dg != ref_digests and ok:
                    ok = False
                if not ok and reported < 3:
                    reported += 1
                    ctx.violation({"kind": "schedule", "protocol": proto, "config": cfg,
                                   "schedule": [s["Worker"] + "@" + s["Site"] for s in r["steps"]],
                                   "observed": res, "expected_items": sorted(exp_items), "expected_residue": sorted(exp_res),
                                   "how": "vh-match " + " ".join(args)})
                cfg_t = coq_list(["(%d, %s, %s)" % (c, coq_bool(d == "c"), coq_list([str(p) for p in ps])) for c, d, ps in cfg])
                terms.append("(%s, %s, %s, %s)" % (cfg_t, coq_list(["(%d, %d, %s)" % (i, c, coq_bool(m)) for i, c, m in tr]),
                                                  M.coq_items(res["items"] or []), M.coq_residue(got_res)))
            if runs:
                mid = runs[len(runs) // 2]
                ctx.sample({"protocol": proto, "config": cfg, "schedule": [s["Worker"] + "@" + s["Site"] for s in mid["steps"]],
                            "items": (mid.get("res") or {}).get("items")})
            if coq_ok and terms:
                bad = []
                for k in range(0, len(terms), 800):
                    src = ("Require Import V.Base.Prelude V.Match.Matcher V.Match.MatcherConc.\n"
                           "Definition cases : list (cfg * list (nat * nat * bool) * list item * list (nat * nat * bool * nat)) := [\n"
                           + ";\n".join(terms[k:k + 800]) + "].\n"
                           "Definition chk (c : cfg * list (nat * nat * bool) * list item * list (nat * nat * bool * nat)) := let '(cf, tr, its, res) := c in\n"
                           "  let s := msync true %s (minit cf) tr in mfinished s && list_eqb item_eqb (emitted s) its && list_eqb quad_eqb (residue (mm s) [1;2;3;4] 8) res.\n"
                           "Definition M := Eval vm_compute in failing chk cases.\nPrint M.\n") % ("false" if proto == "kafka" else "true")
                    rc, out = ctx.coq_run("conc_%s_%d_%d" % (proto, len(terms), k), src)
                    idxs = vlib.parse_coq_list_of_nat(out, "M")
                    if rc != 0 or idxs is None:
                        ctx.broken.append("K_conc[%s]: coqc failed on the case file" % proto)
                        ctx.log(out[-600:])
                        break
                    bad += [k + i for i in idxs]
                ctx.cov["traces_validated_against_impl"] = ctx.cov.get("traces_validated_against_impl", 0) + len(terms)
                if bad and not ctx.violations:
                    ctx.broken.append("K_conc[%s]: model and implementation differ on schedule #%d of %s" % (proto, bad[0], cfg))
    # a conversation whose halves change protocol: the first request of the connection asks for h2c, the server declines.
    # No abstract pairing is expected here (the client half gives up after the upgrade request); the property itself is
    # the oracle: every schedule gives the result of the first one.
    xs = [("httphead", c) for c in configs(ctx)[1:4]] + [("httpup", c) for c in configs(ctx)[1:]] + [("redissub", c) for c in configs(ctx)[:4]] + [("kafkadesc", c) for c in configs(ctx)[1:4]]
    # every message in two segments, every Read a scheduling point (a half can run while the other half's message is only partly there)
    xs += [(p + "+rd", c) for p in ("kafka", "redis", "http", "amqp", "http2", "kafkaslack") for c in configs(ctx)[:2]]
    for xproto, cfg in xs:
        args = ["conc", xproto, str(max_runs)] + ["%d:%s:%s" % (c, d, ",".join(map(str, ps))) for c, d, ps in cfg]
        rc, out = ctx.vh("vh-match", args, timeout=2400)
        lines = [json.loads(l) for l in out.split("\n") if l.startswith("{")]
        if rc != 0 or not lines or "runs" not in lines[-1]:
            ctx.broken.append("K_conc[%s]: scheduler run failed for %s" % (xproto, cfg))
            continue
        ref, reported = None, 0
        for r in lines[:-1]:
            if r.get("err"):
                ctx.violation({"kind": "schedule", "protocol": xproto, "config": cfg, "error": r["err"],
                               "schedule": [s["Worker"] + "@" + s["Site"] for s in r["steps"]], "how": "vh-match " + " ".join(args)})
                continue
            res = r["res"]
            key = (sorted((i["conn"], i["req"], i["resp"], i["oriented"], i.get("digest", "")) for i in res["items"] or []),
                   sorted((x["conn"], x["key"], x["isreq"], x["pid"]) for x in res["residue"] or []), res["ends"])
            ctx.count_case((xproto, str(cfg), tuple(s["Worker"] + "@" + s["Site"] for s in r["steps"])), True, xproto)
            if ref is None:
                ref = (key, r)
            elif key != ref[0] and reported < 2:
                reported += 1
                ctx.violation({"kind": "schedule", "protocol": xproto, "config": cfg,
                               "schedule": [s["Worker"] + "@" + s["Site"] for s in r["steps"]], "observed": res,
                               "reference_schedule": [s["Worker"] + "@" + s["Site"] for s in ref[1]["steps"]], "reference": ref[1]["res"],
                               "how": "vh-match " + " ".join(args)})
    # free-running stress (support; also the search when the source tie breaks and the yield
    # points are gone)
    iters = 3000 if ctx.tier == "quick" else 40000
    if "Match/MatcherTie.v" in failed:
        iters *= 10
    for proto in ("redis", "http", "http2", "amqp"):
        rc, out = ctx.vh("vh-match", ["stress", proto, str(iters), "3"], timeout=1800)
        try:
            o = json.loads(out.strip().split("\n")[-1])
        except Exception:
            ctx.broken.append("stress[%s] failed: %s" % (proto, out[-300:]))
            continue
        ctx.count_case(("stress", proto, iters), True, "stress")
        ctx.cov.setdefault("stress", {})[proto] = {"iterations": o["iterations"], "bad": o["bad"]}
        if o["bad"]:
            ctx.violation({"kind": "stress", "protocol": proto, "iterations": iters, "bad_runs": o["bad"], "first_bad": o["first_bad"],
                           "how": "vh-match stress %s %d 3" % (proto, iters)})
    ctx.trusted += [
        "translator vh-translate/matchers.go (go/ast: order of registerLock and sync.Map operations in the six register functions)",
        "deterministic scheduler harness/sched + verif yield hooks (counter, register lock/store, emit lock/index); between two yield points a goroutine runs alone",
        "the lock-granular machine (look-up and store as separate atoms under registerLock) is the proved one (C10_items_lock_granular) and the one the real schedules are replayed in",
        "modelled, not verified: sync.Map and sync.Mutex linearizable; partial w.r.t. the Go memory model (sequentially consistent interleavings of the hooked steps only); Kafka's polling matcher and the AMQP matcher share the http/redis register code shape (AMQP) or are request-store/response-poll (Kafka) and are exercised in their families",
    ]
    return ctx.finish(
        rule="every schedule of the yield points of the real redis and http Dissect of both directions under the deterministic scheduler for the listed conversations "
             "(1x1, 2x1, 2x2, 3x3 exchanges; thorough adds two connections and 4x3, capped at max_runs schedules per configuration); distinct = distinct model trace; "
             "plus an HTTP/1.1 connection whose first request asks for h2c and is declined, and a Redis connection with SUBSCRIBE / PSUBSCRIBE commands "
             "and their acknowledgement arrays, a Kafka connection whose correlation ids decrease (every schedule against the first)",
        assumptions=["one goroutine per direction per connection", "sync.Map / sync.Mutex linearizable"],
        extra={"max_runs_per_config": max_runs})


def replay(ctx, path):
    """Re-run the recorded case on the implementation built from the current tree."""
    r = json.load(open(path))
    ctx.build_harness()
    print(json.dumps({k: v for k, v in r.items() if k not in ("observed", "first_bad", "gen")}, indent=1)[:2500])
    how = r.get("how", "")
    sched_names = [x.split("@")[0] for x in r.get("schedule", [])] if isinstance(r.get("schedule"), list) else []
    if r.get("kind") == "progress":
        rc, out = ctx.vh("vh-api", ["progress"], inp=" ".join(r["ops"]) + "\n")
        got = [int(x) for x in out.split("\n")[0].split()]
        print("observed now:", got, "expected:", r.get("expected"))
        return 0 if got == r.get("expected") else 1
    if how.startswith("vh-match conc") and sched_names:
        args = how.split()[1:]
        args[2] = "prefix=" + ",".join(sched_names)
        rc, out = ctx.vh("vh-match", args, timeout=600)
        print("observed now:", out[-1500:])
        return 0
    if how.startswith("vh-api") and sched_names:
        args = how.split()[1:]
        rc, out = ctx.vh("vh-api", args, timeout=600, env={"VH_PREFIX": ",".join(sched_names)})
        print("observed now:", out[-1500:])
        return 0
    if how.startswith("vh-") :
        args = how.split()
        rc, out = ctx.vh(args[0], args[1:], timeout=1800)
        print("observed now:", out[-1500:])
        return 0
    if "| work/bin/vh-match seq" in how:
        line = how.split("'")[1]
        rc, out = ctx.vh("vh-match", ["seq"], inp=line + "\n")
        print("observed now:", out[-1500:])
    return 0
