#!/usr/bin/env python3
"""MANIFEST.setup_cmd: build everything from files on disk (offline): harness, gen/*.v, Coq project."""
import os
import sys

sys.path.insert(0, os.path.dirname(os.path.abspath(__file__)))
import vlib

ctx = vlib.Ctx("setup", "quick", 0)
if ctx.build_harness() is None:
    print("harness build failed")
    sys.exit(1)
ctx.translate()
failed = ctx.coq_build()
if failed:
    print("coq files that do not build:", sorted(failed))
    sys.exit(1)
print("setup ok")
