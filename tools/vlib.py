#!/usr/bin/env python3
"""Shared machinery of every check (DESIGN.md section 2.1).

A property module (tools/props/Cxx.py) defines run(ctx) and uses the helpers of
Ctx: build the harness from /repo's working tree, regenerate gen/*.v, build the
Coq project, evaluate the model on cases inside Coq, report violations, replay
known findings and write the evidence file.
"""
import fcntl
import glob
import hashlib
import json
import os
import random
import re
import shutil
import subprocess
import sys
import time

VERIF = os.path.dirname(os.path.dirname(os.path.abspath(__file__)))
REPO = os.environ.get("VERIF_REPO", "/repo")
COQ = os.path.join(VERIF, "coq")
HARNESS = os.path.join(VERIF, "harness")
WORK = os.path.join(VERIF, "work")
BIN = os.path.join(WORK, "bin")

GOENV = {
    "GOFLAGS": "-mod=mod",
    "GOPROXY": "off",
    "GOSUMDB": "off",
    "GOTOOLCHAIN": "local",
    "CGO_ENABLED": "0",
}

FORBIDDEN = re.compile(
    r"\b(Admitted|admit|Axiom|Axioms|Parameter|Parameters|Conjecture|Conjectures|"
    r"Hypothesis|Hypotheses|Variable|Variables|Admit Obligations)\b|Unset Guard|"
    r"bypass_check|type-in-type|impredicative-set|Unset Universe|Unset Positivity|native_compute"
)

# std-lib axioms that may appear under Print Assumptions (none expected; listed so a
# proof that pulls one in is reported in the trusted base instead of failing the run)
STDLIB_AXIOMS = {
    "functional_extensionality_dep", "Eqdep.Eq_rect_eq.eq_rect_eq", "JMeq_eq",
    "classic", "proof_irrelevance", "propositional_extensionality",
}


def env_with_go():
    e = dict(os.environ)
    e.update(GOENV)
    return e


class Lock:
    def __init__(self, name):
        os.makedirs(WORK, exist_ok=True)
        self.path = os.path.join(VERIF, "." + name + ".lock")

    def __enter__(self):
        self.f = open(self.path, "w")
        fcntl.flock(self.f, fcntl.LOCK_EX)
        return self

    def __exit__(self, *a):
        fcntl.flock(self.f, fcntl.LOCK_UN)
        self.f.close()


def sh(cmd, timeout=600, cwd=None, env=None, inp=None, merge_stderr=True, mem_kb=None):
    """Run a command; returns (rc, stdout+stderr). rc=124 on timeout.  mem_kb: address-space limit of the child."""
    pre = None
    if mem_kb:
        import resource

        def pre():
            resource.setrlimit(resource.RLIMIT_AS, (mem_kb * 1024, mem_kb * 1024))
    try:
        p = subprocess.run(cmd, cwd=cwd, env=env, input=inp, stdout=subprocess.PIPE,
                           stderr=subprocess.STDOUT if merge_stderr else subprocess.DEVNULL, timeout=timeout,
                           shell=isinstance(cmd, str), preexec_fn=pre)
        return p.returncode, p.stdout.decode("utf-8", "replace")
    except subprocess.TimeoutExpired as ex:
        out = ex.stdout.decode("utf-8", "replace") if ex.stdout else ""
        return 124, out + "\n[timeout after %ss]" % timeout


COQ_CASE_FILE_LIMIT = 24 * 1024 * 1024
COQ_RUN_MEM_KB = 20 * 1024 * 1024


def write_if_changed(path, text):
    try:
        if open(path).read() == text:
            return False
    except OSError:
        pass
    os.makedirs(os.path.dirname(path), exist_ok=True)
    with open(path, "w") as f:
        f.write(text)
    return True


# --------------------------------------------------------------------------- Coq term printers
def coq_z(n):
    return "(%d)%%Z" % n


def coq_n(n):
    return "%d%%N" % n


def coq_bool(b):
    return "true" if b else "false"


def coq_list(xs):
    return "[" + "; ".join(xs) + "]"


def coq_bytes(bs):
    return "[" + ";".join('"%03d"' % b for b in bs) + "]%byte" if False else \
        "(bs [" + ";".join(str(b) for b in bs) + "]%N)"


def coq_string(s):
    """Coq string literal for text without non-ASCII (caller's duty)."""
    return '"' + s.replace('"', '""') + '"'


class Violation(Exception):
    pass


class Ctx:
    def __init__(self, prop, tier, seed, keep_replays=False):
        self.prop = prop
        self.tier = tier
        self.seed = seed
        self.rng = random.Random(seed)
        self.t0 = time.time()
        self.work = os.path.join(WORK, prop)
        shutil.rmtree(self.work, ignore_errors=True)
        os.makedirs(self.work, exist_ok=True)
        os.makedirs(os.path.join(VERIF, "evidence"), exist_ok=True)
        os.makedirs(os.path.join(VERIF, "replays"), exist_ok=True)
        if not keep_replays:
            for old in glob.glob(os.path.join(VERIF, "replays", prop + "-*.json")):
                os.remove(old)
        self.violations = []          # list of (replay_path, no_input)
        self.known_lines = []
        self.notes = []
        self.cov = {"evaluations": 0, "samples": [], "distribution": {}}
        self.nontrivial = set()
        self.obligations = []         # (name, ok)
        self.assumptions_text = {}
        self.trusted = []
        self.broken = []              # names of obligations / correspondences that no longer check

    # ------------------------------------------------------------------ logging
    def log(self, *a):
        print("[%s %6.1fs]" % (self.prop, time.time() - self.t0), *a, flush=True)

    def note(self, s):
        self.notes.append(s)
        self.log("note:", s)

    # ------------------------------------------------------------------ step 1: harness
    def build_harness(self):
        """go build -tags verif of every harness command against /repo's working tree."""
        with Lock("build"):
            os.makedirs(BIN, exist_ok=True)
            # keep go.sum in step with /repo's (module graph of the replaced module)
            try:
                rs = open(os.path.join(REPO, "go.sum")).read()
                hs_path = os.path.join(HARNESS, "go.sum")
                hs = open(hs_path).read() if os.path.exists(hs_path) else ""
                missing = [l for l in rs.splitlines() if l and l not in hs]
                if missing:
                    with open(hs_path, "a") as f:
                        f.write("\n".join(missing) + "\n")
            except OSError:
                pass
            t = time.time()
            modargs = []
            if os.path.realpath(REPO) != "/repo":
                # a scratch copy of the repository (VERIF_REPO): same module file, other replace target
                alt = os.path.join(HARNESS, "go.alt.mod")
                write_if_changed(alt, open(os.path.join(HARNESS, "go.mod")).read().replace("=> /repo", "=> " + os.path.realpath(REPO)))
                shutil.copyfile(os.path.join(HARNESS, "go.sum"), os.path.join(HARNESS, "go.alt.sum"))
                modargs = ["-modfile=" + alt]
            rc, out = sh(["go", "build"] + modargs + ["-tags", "verif", "-o", BIN + "/", "./cmd/..."],
                         cwd=HARNESS, env=env_with_go(), timeout=900)
            self.harness_tagged = True
            if rc != 0:
                self.log("tagged harness build failed:\n" + out[-3000:])
                self.harness_tagged = False
                self.harness_error = out[-3000:]
                return None
            self.log("harness built in %.1fs" % (time.time() - t))
        return BIN

    def vh(self, prog, args, inp=None, timeout=600, env=None, merge_stderr=True):
        e = env_with_go()
        if env:
            e.update(env)
        if isinstance(inp, str):
            inp = inp.encode()
        return sh([os.path.join(BIN, prog)] + list(args), timeout=timeout, env=e, inp=inp,
                  cwd=self.work, merge_stderr=merge_stderr)

    # ------------------------------------------------------------------ step 2: translators
    def translate(self):
        """Regenerate coq/gen/*.v from the source (content-compared)."""
        gen = os.path.join(COQ, "gen")
        os.makedirs(gen, exist_ok=True)
        prog = os.path.join(BIN, "vh-translate")
        if not os.path.exists(prog):
            return {}
        with Lock("build"):
            tmp = os.path.join(WORK, "gen.tmp." + self.prop)
            shutil.rmtree(tmp, ignore_errors=True)
            os.makedirs(tmp)
            rc, out = sh([prog, "-repo", REPO, "-out", tmp], env=env_with_go(), timeout=300)
            if rc != 0:
                self.log("translator failed:\n" + out[-2000:])
                self.broken.append("translator: vh-translate exit %d" % rc)
                return {}
            changed = {}
            for f in sorted(os.listdir(tmp)):
                changed[f] = write_if_changed(os.path.join(gen, f), open(os.path.join(tmp, f)).read())
            shutil.rmtree(tmp, ignore_errors=True)
            return changed

    # ------------------------------------------------------------------ step 3: Coq
    def coq_build(self, timeout=3000):
        """Full .vo build of the project (make -k). Returns set of .v files that failed."""
        with Lock("build"):
            files = sorted(
                os.path.relpath(p, COQ)
                for p in glob.glob(os.path.join(COQ, "**", "*.v"), recursive=True)
            )
            proj = "-R . V\n-arg -w -arg -notation-overridden,-deprecated-hint-without-locality,-deprecated-instance-without-locality\n" + "\n".join(files) + "\n"
            changed = write_if_changed(os.path.join(COQ, "_CoqProject"), proj)
            if changed or not os.path.exists(os.path.join(COQ, "Makefile.coq")):
                rc, out = sh(["coq_makefile", "-f", "_CoqProject", "-o", "Makefile.coq"], cwd=COQ)
                if rc != 0:
                    raise RuntimeError("coq_makefile failed: " + out)
            t = time.time()
            rc, out = sh(["make", "-f", "Makefile.coq", "-k", "-j16"], cwd=COQ, timeout=timeout)
            self.coq_log = out
            failed = set()
            for m in re.finditer(r"\*\*\* \[[^\]]*?:\s*(\S+?)\.vo\] Error", out):
                failed.add(m.group(1) + ".v")
            for m in re.finditer(r'^File "\./(\S+?\.v)", line \d+, characters[^\n]*\n(?:.*\n)*?Error', out, re.M):
                failed.add(m.group(1))
            for f in files:
                if not os.path.exists(os.path.join(COQ, f[:-2] + ".vo")):
                    failed.add(f)
            self.coq_files = files
            if failed:
                # dependents of a failed file are not rebuilt by make -k: they are unchecked too
                deps = self._dep_graph()
                changed_ = True
                while changed_:
                    changed_ = False
                    for f in files:
                        if f not in failed and any(d in failed for d in deps.get(f, [])):
                            failed.add(f)
                            changed_ = True
                for f in failed:
                    for ext in (".vo", ".glob", ".vos", ".vok"):
                        try:
                            os.remove(os.path.join(COQ, f[:-2] + ext))
                        except OSError:
                            pass
            self.coq_failed = failed
            self.log("coq build rc=%d in %.1fs (%d files, %d failed)" % (rc, time.time() - t, len(files), len(failed)))
            if failed:
                self.log(out[-3000:])
        return failed

    def _dep_graph(self):
        rc, out = sh(["coqdep", "-R", ".", "V"] + self.coq_files, cwd=COQ)
        deps = {}
        for line in out.splitlines():
            m = re.match(r"^(\S+)\.vo\s.*?:\s*(.*)$", line)
            if not m:
                continue
            tgt = m.group(1) + ".v"
            ds = [d[:-3] + ".v" for d in m.group(2).split() if d.endswith(".vo")]
            deps[tgt] = ds
        return deps

    def coq_deps(self, vfile):
        """Transitive project-local dependencies of a .v file (relative paths)."""
        deps = self._dep_graph()
        seen, todo = set(), [vfile]
        while todo:
            f = todo.pop()
            if f in seen:
                continue
            seen.add(f)
            todo += deps.get(f, [])
        return sorted(seen)

    def hygiene(self, files):
        bad = []
        for f in files:
            txt = open(os.path.join(COQ, f)).read()
            txt = re.sub(r"\(\*.*?\*\)", "", txt, flags=re.S)
            in_section = 0
            for i, line in enumerate(txt.splitlines(), 1):
                if re.match(r"\s*Section\b", line):
                    in_section += 1
                if re.match(r"\s*End\b", line) and in_section:
                    in_section -= 1
                m = FORBIDDEN.search(line)
                if m:
                    w = m.group(0)
                    if w in ("Variable", "Variables", "Hypothesis", "Hypotheses") and in_section:
                        continue
                    bad.append("%s:%d: %s" % (f, i, w))
        return bad

    def check_proofs(self, propfile=None):
        """Obligations of this property: every lemma/theorem in Properties/Cxx.v and the files it
        depends on. Discharged when the .vo exists (full build, Qed checked by the kernel).
        Also collects Print Assumptions for each theorem of the property file."""
        propfile = propfile or "Properties/%s.v" % self.prop
        files = self.coq_deps(propfile)
        stmt = re.compile(r"^\s*(?:Local\s+|Global\s+|#\[[^\]]*\]\s*)*(Theorem|Lemma|Corollary|Example|Fact|Proposition|Remark)\s+([A-Za-z0-9_']+)", re.M)
        total, done = 0, 0
        for f in files:
            names = stmt.findall(open(os.path.join(COQ, f)).read())
            ok = f not in self.coq_failed
            total += len(names)
            if ok:
                done += len(names)
            else:
                self.broken.append("coq: %s does not compile" % f)
            for _, n in names:
                self.obligations.append((f + ":" + n, ok))
        bad = self.hygiene(files)
        if bad:
            self.broken.append("hygiene: " + "; ".join(bad[:10]))
        # Print Assumptions of the property theorems (Properties/Cxx.v and its per-family parts Cxx_*.v)
        parts = [propfile] + sorted(f for f in self.coq_files
                                    if f.startswith(propfile[:-2] + "_") and f.endswith(".v"))
        for pf in parts:
            if pf in self.coq_failed:
                continue
            thms = [n for _, n in stmt.findall(open(os.path.join(COQ, pf)).read())]
            if not thms:
                continue
            mod = "V." + pf[:-2].replace("/", ".")
            src = "Require Import %s.\n" % mod + "".join(
                'Print Assumptions %s.\n' % t for t in thms)
            rc, out = self.coq_run("assumptions_" + os.path.basename(pf)[:-2], src)
            if rc != 0:
                self.broken.append("coq: Print Assumptions failed for %s" % pf)
            chunks = re.split(r"(?=Closed under the global context|Axioms:)", out)
            chunks = [c.strip() for c in chunks if c.strip()]
            for t, c in zip(thms, chunks):
                self.assumptions_text[t] = " ".join(c.split())
                if not c.startswith("Closed under the global context"):
                    axs = re.findall(r"^([A-Za-z0-9_.']+)\s*:", c, re.M)
                    for a in axs:
                        if a.split(".")[-1] not in {x.split(".")[-1] for x in STDLIB_AXIOMS}:
                            self.broken.append("axiom: %s depends on %s" % (t, a))
            if len(chunks) != len(thms):
                self.broken.append("coq: Print Assumptions gave %d answers for %d theorems in %s" % (len(chunks), len(thms), pf))
        self.proof_files = files
        if self.tier == "thorough" and not self.coq_failed:
            self.coqchk(parts)
        return total, done

    def coqchk(self, parts):
        """Independent re-check of the compiled property files and everything they depend on
        (thorough tier): coqchk must accept them and report no axioms."""
        mods = ["V." + pf[:-2].replace("/", ".") for pf in parts]
        t = time.time()
        rc, out = sh(["coqchk", "-silent", "-o", "-R", ".", "V"] + mods, cwd=COQ, timeout=7200)
        ax = re.search(r"\* Axioms:\s*(.*?)\n\s*\n", out, re.S)
        axioms = " ".join(ax.group(1).split()) if ax else "?"
        self.trusted.append("coqchk -o on %s: exit %d, axioms: %s (%.0fs)" % (" ".join(mods), rc, axioms, time.time() - t))
        if rc != 0 or axioms != "<none>":
            self.broken.append("coqchk: exit %d, axioms %s" % (rc, axioms))

    def coq_run(self, name, text, timeout=900):
        """Compile a generated .v file in the work directory against the built project."""
        path = os.path.join(self.work, name + ".v")
        with open(path, "w") as f:
            f.write(text)
        if len(text) > COQ_CASE_FILE_LIMIT:
            # an observed output far beyond anything the unchanged tree produces (a mutated tree can emit
            # gigabytes): not evaluated; the caller reports the correspondence as not established
            return 97, "[case file of %d bytes exceeds the limit of %d: not evaluated]" % (len(text), COQ_CASE_FILE_LIMIT)
        return sh(["coqc", "-R", COQ, "V", "-w", "-notation-overridden", path], cwd=self.work, timeout=timeout, mem_kb=COQ_RUN_MEM_KB)

    # ------------------------------------------------------------------ cases / coverage
    def count_case(self, key, nontrivial=True, kind=None):
        self.cov["evaluations"] += 1
        if nontrivial:
            self.nontrivial.add(hashlib.sha1(repr(key).encode()).hexdigest())
        if kind is not None:
            d = self.cov["distribution"]
            d[kind] = d.get(kind, 0) + 1

    def sample(self, s):
        if len(self.cov["samples"]) < 6:
            self.cov["samples"].append(s)

    # ------------------------------------------------------------------ findings / violations
    def load_known(self):
        p = os.path.join(VERIF, "known_findings.json")
        try:
            kf = json.load(open(p))
        except OSError:
            kf = {"findings": [], "fixed": []}
        fs = list(kf.get("findings", []))
        for extra in sorted(glob.glob(os.path.join(VERIF, "known", "*.json"))):
            fs += json.load(open(extra)).get("findings", [])
        return [f for f in fs if f.get("property") == self.prop]

    def is_known(self, cls):
        """Is a failure of class `cls` (a short tag computed by the property's classifier) listed?"""
        for f in self.load_known():
            if f.get("class") == cls:
                self.known_finding(f.get("id", cls), f.get("text", ""))
                return True
        return False

    def known_finding(self, tag, text):
        line = "KNOWN-FINDING: property=%s %s %s" % (self.prop, tag, text)
        if line not in self.known_lines:
            self.known_lines.append(line)
            print(line, flush=True)

    def violation(self, replay, no_input=False, tag=None):
        """Record a violation; replay is a JSON-able object."""
        body = json.dumps(replay, sort_keys=True, default=str)
        h = hashlib.sha1(body.encode()).hexdigest()[:12]
        rel = "replays/%s-%s.json" % (self.prop, h)
        replay = dict(replay)
        replay.setdefault("property", self.prop)
        replay.setdefault("seed", self.seed)
        replay.setdefault("tier", self.tier)
        if len(self.violations) < 20:
            with open(os.path.join(VERIF, rel), "w") as f:
                json.dump(replay, f, indent=1, sort_keys=True, default=str)
        if len(self.violations) < 5:
            line = "VIOLATION property=%s replay=%s" % (self.prop, rel)
            if no_input:
                line += " no-failing-input-found"
            print(line, flush=True)
        self.violations.append((rel, no_input))

    # ------------------------------------------------------------------ finish
    def finish(self, level="proof", checker_cmd=None, rule="", assumptions=None, extra=None):
        # obligations that no longer check and for which no failing input was reported
        if self.broken and not any(not ni for _, ni in self.violations):
            self.violation({"obligation": self.broken,
                            "explanation": "a proof obligation or the model/implementation correspondence "
                                           "no longer checks and the search found no failing input"},
                           no_input=True)
        total = len(self.obligations)
        done = sum(1 for _, ok in self.obligations if ok)
        cov = dict(self.cov)
        cov["distinct_nontrivial"] = len(self.nontrivial)
        cov["rule"] = rule
        cov["obligations"] = total
        cov["discharged"] = done
        cov["checker_cmd"] = checker_cmd or "make -C coq -f Makefile.coq -k -j16 (full .vo build, coqc 8.16.1); coqc of Print Assumptions for every theorem of Properties/%s.v" % self.prop
        tb = ["Coq 8.16.1 kernel (coqc full .vo build) and its vm_compute bytecode VM; no native_compute",
              "Print Assumptions: " + "; ".join("%s: %s" % kv for kv in sorted(self.assumptions_text.items()))]
        cov["trusted_base"] = tb + self.trusted
        cov["known_findings_replayed"] = self.known_lines
        cov["notes"] = self.notes
        cov["broken_obligations"] = self.broken
        if extra:
            cov.update(extra)
        if not cov["samples"]:
            cov["samples"] = ["(no case was generated)"]
        ev = {
            "property_id": self.prop, "tier": self.tier, "seed": self.seed, "level": level,
            "coverage": cov, "assumptions": assumptions or [], "wall_s": round(time.time() - self.t0, 2),
            "violations": len(self.violations),
        }
        with open(os.path.join(VERIF, "evidence", self.prop + ".json"), "w") as f:
            json.dump(ev, f, indent=1, sort_keys=True, default=str)
        self.log("done: %d evaluations, %d obligations (%d discharged), %d violations, %.1fs" % (
            cov["evaluations"], total, done, len(self.violations), time.time() - self.t0))
        return 1 if self.violations else 0


def parse_coq_list_of_nat(out, name):
    """Find '<name> = [a; b; c]' in coqc output printed by Print/Eval and return the ints."""
    m = re.search(re.escape(name) + r"\s*=\s*\[(.*?)\]", out, re.S)
    if not m:
        return None
    body = m.group(1).strip()
    if not body:
        return []
    return [int(re.sub(r"%\w+", "", x).strip(" ()")) for x in body.split(";")]
