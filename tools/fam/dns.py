"""DNS entries (C11, C16): the DNS dissector has no stream side in this library — its items are
built by the caller — so entries are generated in the shape its Analyze/Summarize/Represent read:
request {opCode, questions[{name,type,class}]}, response {code, answers|authorities|additionals:
null or lists of records with name,type,class,ttl and one string field per record type}."""
import json

RTYPES = ["A", "AAAA", "NS", "CNAME", "PTR", "TXT", "SOA", "SRV", "MX", "OPT", "URI"]
FIELD_OF = {"A": "ip", "AAAA": "ip", "NS": "ns", "CNAME": "cname", "PTR": "ptr", "TXT": "txts", "SOA": "soa",
            "SRV": "srv", "MX": "mx", "OPT": "opt", "URI": "uri"}
STRFIELDS = ["ip", "ns", "cname", "ptr", "txts", "soa", "srv", "mx", "opt", "uri"]
OPCODES = ["Query", "Inverse Query", "Status", "Notify", "Update"]
CODES = ["No Error", "Non-Existent Domain", "Server Failure", "Format Error", "Query Refused"]
NAMES = ["example.com", "a.b.c.example.org", "xn--bcher-kva.example", "host with space.local", "büro.example", "_sip._tcp.example.com",
         "q\"uote.example", "back\\slash.example", "", "1234567.example", "very-" * 40 + "long.example"]


def record(rng, rtype, name=None):
    r = {"name": name if name is not None else rng.choice(NAMES), "type": rtype, "class": rng.choice(["IN", "CH", "ANY"]),
         "ttl": rng.choice([0, 1, 60, 300, 86400, 2147483647])}
    for f in STRFIELDS:
        r[f] = ""
    r[FIELD_OF[rtype]] = rng.choice(["10.1.2.3", "2001:db8::1", "ns1.example.com", "v=spf1 -all", "some text with spaces",
                                     "10 mail.example.com", "0 5 5060 sip.example.com", "x"])
    return r


def entries(rng, quick):
    out = []
    # every record type alone, in each section; every pair of types in the answers
    for t in RTYPES:
        for section in ("answers", "authorities", "additionals"):
            resp = {"code": "No Error", "answers": None, "authorities": None, "additionals": None}
            resp[section] = [record(rng, t, "example.com")]
            out.append({"protocol": "dns", "request": {"opCode": "Query", "questions": [{"name": "example.com", "type": t, "class": "IN"}]},
                        "response": resp})
    for i, t1 in enumerate(RTYPES):
        for t2 in RTYPES[i:]:
            out.append({"protocol": "dns", "request": {"opCode": "Query", "questions": [{"name": "example.com", "type": t1, "class": "IN"}]},
                        "response": {"code": "No Error", "answers": [record(rng, t1), record(rng, t2)], "authorities": [], "additionals": None}})
    for _ in range(60 if quick else 1500):
        nq = rng.choice([1, 1, 1, 2, 3])
        req = {"opCode": rng.choice(OPCODES),
               "questions": [{"name": rng.choice(NAMES), "type": rng.choice(RTYPES), "class": rng.choice(["IN", "CH"])} for _ in range(nq)]}
        resp = {"code": rng.choice(CODES)}
        for section in ("answers", "authorities", "additionals"):
            k = rng.choice([None, 0, 1, 2, 5])
            if k is None:
                if rng.random() < 0.5:
                    resp[section] = None
            else:
                resp[section] = [record(rng, rng.choice(RTYPES)) for _ in range(k)]
        out.append({"protocol": "dns", "request": req, "response": resp})
    return out


def run(ctx, ents, keep=False):
    lines = []
    for e in ents:
        d = dict(e)
        d["keep"] = keep
        lines.append(json.dumps(d))
    rc, out = ctx.vh("vh-dns", [], inp="\n".join(lines) + "\n", timeout=600, merge_stderr=False)
    res = [json.loads(l) for l in out.split("\n") if l.startswith("{")]
    return rc, res, out


def c11(ctx):
    """DNS share of C11: generated entries through Analyze / Summarize / Represent."""
    from fam import aggregate as _agg
    ents = entries(ctx.rng, ctx.tier == "quick")
    rc, res, raw = run(ctx, ents)
    if rc != 0 or len(res) != len(ents):
        ctx.violation({"kind": "dns-c11-crash", "case": ents[len(res)] if len(res) < len(ents) else None, "output_tail": raw[-800:]})
        return
    reported = 0
    for e, r in zip(ents, res):
        ctx.count_case(("dns-c11", json.dumps(e, sort_keys=True)), True, "dns-entry")
        _agg.note_c16(ctx, "dns", r, {"family": "dns", "how": "vh-dns", "case": e})
        bad = r.get("panic") or (r.get("problems") or None)
        if r.get("panic", "").startswith("kfl:"):
            bad = None      # a failure inside KFL is C13/C16's business
        if bad and reported < 3:
            reported += 1
            ctx.violation({"kind": "dns-c11", "case": e, "observed": bad, "how": "vh-dns"})
        # time proportional to size
        if r.get("micros", 0) > 1000000 + 50 * r.get("item_bytes", 0) and reported < 3:   # generous linear budget (wall time)
            reported += 1
            ctx.violation({"kind": "dns-c11-slow", "case": e, "micros": r.get("micros"), "item_bytes": r.get("item_bytes")})
    ctx.sample({"kind": "dns-entry", "case": ents[len(ents) // 2], "sections": res[len(ents) // 2].get("sections")})


# ---------------------------------------------------------------- correspondence with Shape/Dns.v
def sj(v):
    if v is None:
        return "JN"
    if isinstance(v, bool):
        return "JB"
    if isinstance(v, (int, float)):
        return "JF"
    if isinstance(v, str):
        return "JS"
    if isinstance(v, list):
        return "(JA [" + "; ".join(sj(x) for x in v) + "])"
    return "(JO [" + "; ".join('("%s", %s)' % (k, sj(x)) for k, x in v.items()) + "])"


def mutate(rng, e):
    """A DNS entry that deviates from the shape in one place."""
    import copy
    e = copy.deepcopy(e)
    targets = []

    def walk(node, path):
        if isinstance(node, dict):
            for k in list(node):
                targets.append((node, k))
                walk(node[k], path + [k])
        elif isinstance(node, list):
            for i, x in enumerate(node):
                targets.append((node, i))
                walk(x, path + [i])
    walk(e["request"], [])
    walk(e["response"], [])
    node, k = rng.choice(targets)
    how = rng.choice(["del", "null", "num", "str", "list", "obj", "emptylist"])
    if how == "del":
        del node[k]
    else:
        node[k] = {"null": None, "num": 7, "str": "x", "list": ["x"], "obj": {"name": "x"}, "emptylist": []}[how]
    return e


def k_cases(ctx):
    ents = entries(ctx.rng, True)[: (120 if ctx.tier == "quick" else 400)]
    out = list(ents)
    for _ in range(300 if ctx.tier == "quick" else 3000):
        out.append(mutate(ctx.rng, ctx.rng.choice(ents)))
    return out


def correspondence(ctx, coq_ok):
    """Model (Shape/Dns.v) vs the real Analyze/Summarize/Represent on well-formed and deviating entries."""
    import vlib
    ents = k_cases(ctx)
    rc, res, raw = run(ctx, ents)
    if rc != 0 or len(res) != len(ents):
        ctx.broken.append("K_dns: harness failed (%d/%d results)" % (len(res), len(ents)))
        return
    terms = []
    for e, r in zip(ents, res):
        p = r.get("panic", "")
        if p.startswith("kfl"):
            p = ""
        panicked = bool(p)
        ctx.count_case(("dns-k", json.dumps(e, sort_keys=True)), True, "dns-k-" + ("panic" if panicked else "ok"))
        terms.append("(%s, %s, %s, %d)" % (sj(e["request"]), sj(e["response"]), "true" if panicked else "false", r.get("sections", 0)))
    if not coq_ok:
        return
    bad = []
    for k in range(0, len(terms), 600):
        src = ("From Coq Require Import List Bool String.\nImport ListNotations.\nRequire Import V.Base.Prelude V.Shape.Dns.\nLocal Open Scope string_scope.\n"
               "Definition cases : list (sj * sj * bool * nat) := [\n" + ";\n".join(terms[k:k + 600]) + "].\n"
               "Definition chk (c : sj * sj * bool * nat) := let '(rq, rs, panicked, n) := c in\n"
               "  match dns_stages rq rs with Ok m => negb panicked && Nat.eqb m n && dns_ok rq rs | Panic _ => panicked && negb (dns_ok rq rs) | _ => false end.\n"
               "Definition M := Eval vm_compute in failing chk cases.\nPrint M.\n")
        rc, out = ctx.coq_run("dns_cases_%d" % k, src)
        idx = vlib.parse_coq_list_of_nat(out, "M")
        if rc != 0 or idx is None:
            ctx.broken.append("K_dns: coqc failed on the case file")
            ctx.log(out[-600:])
            return
        bad += [k + i for i in idx]
    ctx.cov["traces_validated_against_impl"] = ctx.cov.get("traces_validated_against_impl", 0) + len(terms)
    if bad:
        ctx.broken.append("K_dns: model and implementation differ on entry %s (impl: %s)" % (json.dumps(ents[bad[0]])[:600], json.dumps(res[bad[0]])[:300]))
