"""AMQP 0-9-1 family: independent encoder, abstract conversations, reports, generators and the
AMQP share of C01 / C02 / C08 / C11 (DESIGN.md 4.2, 5.C05).

Nothing here is derived from the Go sources: the method table below is written from the AMQP
0-9-1 specification (RabbitMQ flavour: confirm class, exchange bind/unbind, basic nack,
connection blocked/unblocked).  The Go field names that the harness prints are related to the
specification's argument names by `camel`.
"""
import json
import struct

# ------------------------------------------------------------------------------------ the spec
# kinds: octet short long longlong shortstr longstr table bit timestamp
SPEC = {
    (10, 10): ("connection start", [("version-major", "octet"), ("version-minor", "octet"),
                                    ("server-properties", "table"), ("mechanisms", "longstr"), ("locales", "longstr")]),
    (10, 11): ("connection start-ok", [("client-properties", "table"), ("mechanism", "shortstr"),
                                       ("response", "longstr"), ("locale", "shortstr")]),
    (10, 20): ("connection secure", [("challenge", "longstr")]),
    (10, 21): ("connection secure-ok", [("response", "longstr")]),
    (10, 30): ("connection tune", [("channel-max", "short"), ("frame-max", "long"), ("heartbeat", "short")]),
    (10, 31): ("connection tune-ok", [("channel-max", "short"), ("frame-max", "long"), ("heartbeat", "short")]),
    (10, 40): ("connection open", [("virtual-host", "shortstr"), ("reserved-1", "shortstr"), ("reserved-2", "bit")]),
    (10, 41): ("connection open-ok", [("reserved-1", "shortstr")]),
    (10, 50): ("connection close", [("reply-code", "short"), ("reply-text", "shortstr"), ("class-id", "short"), ("method-id", "short")]),
    (10, 51): ("connection close-ok", []),
    (10, 60): ("connection blocked", [("reason", "shortstr")]),
    (10, 61): ("connection unblocked", []),
    (20, 10): ("channel open", [("reserved-1", "shortstr")]),
    (20, 11): ("channel open-ok", [("reserved-1", "longstr")]),
    (20, 20): ("channel flow", [("active", "bit")]),
    (20, 21): ("channel flow-ok", [("active", "bit")]),
    (20, 40): ("channel close", [("reply-code", "short"), ("reply-text", "shortstr"), ("class-id", "short"), ("method-id", "short")]),
    (20, 41): ("channel close-ok", []),
    (40, 10): ("exchange declare", [("reserved-1", "short"), ("exchange", "shortstr"), ("type", "shortstr"), ("passive", "bit"),
                                    ("durable", "bit"), ("auto-delete", "bit"), ("internal", "bit"), ("no-wait", "bit"), ("arguments", "table")]),
    (40, 11): ("exchange declare-ok", []),
    (40, 20): ("exchange delete", [("reserved-1", "short"), ("exchange", "shortstr"), ("if-unused", "bit"), ("no-wait", "bit")]),
    (40, 21): ("exchange delete-ok", []),
    (40, 30): ("exchange bind", [("reserved-1", "short"), ("destination", "shortstr"), ("source", "shortstr"), ("routing-key", "shortstr"),
                                 ("no-wait", "bit"), ("arguments", "table")]),
    (40, 31): ("exchange bind-ok", []),
    (40, 40): ("exchange unbind", [("reserved-1", "short"), ("destination", "shortstr"), ("source", "shortstr"), ("routing-key", "shortstr"),
                                   ("no-wait", "bit"), ("arguments", "table")]),
    (40, 51): ("exchange unbind-ok", []),
    (50, 10): ("queue declare", [("reserved-1", "short"), ("queue", "shortstr"), ("passive", "bit"), ("durable", "bit"), ("exclusive", "bit"),
                                 ("auto-delete", "bit"), ("no-wait", "bit"), ("arguments", "table")]),
    (50, 11): ("queue declare-ok", [("queue", "shortstr"), ("message-count", "long"), ("consumer-count", "long")]),
    (50, 20): ("queue bind", [("reserved-1", "short"), ("queue", "shortstr"), ("exchange", "shortstr"), ("routing-key", "shortstr"),
                              ("no-wait", "bit"), ("arguments", "table")]),
    (50, 21): ("queue bind-ok", []),
    (50, 30): ("queue purge", [("reserved-1", "short"), ("queue", "shortstr"), ("no-wait", "bit")]),
    (50, 31): ("queue purge-ok", [("message-count", "long")]),
    (50, 40): ("queue delete", [("reserved-1", "short"), ("queue", "shortstr"), ("if-unused", "bit"), ("if-empty", "bit"), ("no-wait", "bit")]),
    (50, 41): ("queue delete-ok", [("message-count", "long")]),
    (50, 50): ("queue unbind", [("reserved-1", "short"), ("queue", "shortstr"), ("exchange", "shortstr"), ("routing-key", "shortstr"),
                                ("arguments", "table")]),
    (50, 51): ("queue unbind-ok", []),
    (60, 10): ("basic qos", [("prefetch-size", "long"), ("prefetch-count", "short"), ("global", "bit")]),
    (60, 11): ("basic qos-ok", []),
    (60, 20): ("basic consume", [("reserved-1", "short"), ("queue", "shortstr"), ("consumer-tag", "shortstr"), ("no-local", "bit"),
                                 ("no-ack", "bit"), ("exclusive", "bit"), ("no-wait", "bit"), ("arguments", "table")]),
    (60, 21): ("basic consume-ok", [("consumer-tag", "shortstr")]),
    (60, 30): ("basic cancel", [("consumer-tag", "shortstr"), ("no-wait", "bit")]),
    (60, 31): ("basic cancel-ok", [("consumer-tag", "shortstr")]),
    (60, 40): ("basic publish", [("reserved-1", "short"), ("exchange", "shortstr"), ("routing-key", "shortstr"), ("mandatory", "bit"), ("immediate", "bit")]),
    (60, 50): ("basic return", [("reply-code", "short"), ("reply-text", "shortstr"), ("exchange", "shortstr"), ("routing-key", "shortstr")]),
    (60, 60): ("basic deliver", [("consumer-tag", "shortstr"), ("delivery-tag", "longlong"), ("redelivered", "bit"), ("exchange", "shortstr"),
                                 ("routing-key", "shortstr")]),
    (60, 70): ("basic get", [("reserved-1", "short"), ("queue", "shortstr"), ("no-ack", "bit")]),
    (60, 71): ("basic get-ok", [("delivery-tag", "longlong"), ("redelivered", "bit"), ("exchange", "shortstr"), ("routing-key", "shortstr"),
                                ("message-count", "long")]),
    (60, 72): ("basic get-empty", [("reserved-1", "shortstr")]),
    (60, 80): ("basic ack", [("delivery-tag", "longlong"), ("multiple", "bit")]),
    (60, 90): ("basic reject", [("delivery-tag", "longlong"), ("requeue", "bit")]),
    (60, 100): ("basic recover-async", [("requeue", "bit")]),
    (60, 110): ("basic recover", [("requeue", "bit")]),
    (60, 111): ("basic recover-ok", []),
    (60, 120): ("basic nack", [("delivery-tag", "longlong"), ("multiple", "bit"), ("requeue", "bit")]),
    (90, 10): ("tx select", []), (90, 11): ("tx select-ok", []),
    (90, 20): ("tx commit", []), (90, 21): ("tx commit-ok", []),
    (90, 30): ("tx rollback", []), (90, 31): ("tx rollback-ok", []),
    (85, 10): ("confirm select", [("nowait", "bit")]), (85, 11): ("confirm select-ok", []),
}

# the methods the property lists as reported: request -> its reply (None: no reply on the wire)
RPC = {(10, 10): (10, 11), (10, 30): (10, 31), (10, 40): (10, 41), (10, 50): (10, 51), (20, 10): (20, 11),
       (40, 10): (40, 11), (50, 10): (50, 11), (50, 20): (50, 21), (60, 20): (60, 21), (60, 30): (60, 31)}
REPLY_OF = {v: k for k, v in RPC.items()}
CONTENT = {(60, 40): "publish", (60, 60): "deliver", (60, 50): "return", (60, 71): "get-ok"}
SUPPORTED = set(RPC) | set(REPLY_OF) | {(60, 40), (60, 60)}
SELF_PAIRED = {(10, 10), (10, 30)}      # reported at once with an empty response by design
EMPTY = "empty"

PROPS = ["content-type", "content-encoding", "headers", "delivery-mode", "priority", "correlation-id", "reply-to",
         "expiration", "message-id", "timestamp", "type", "user-id", "app-id", "reserved"]
PROP_KIND = {"headers": "table", "delivery-mode": "octet", "priority": "octet", "timestamp": "timestamp"}
PROTO_HEADER = b"AMQP\x00\x00\x09\x01"
FRAME_END = 0xCE
CLIENT = ("10.0.0.1", "40000")
SERVER = ("10.0.0.2", "5672")


def camel(name):
    return "".join(p.capitalize() for p in name.split("-"))


# ------------------------------------------------------------------------------------ encoder
class Enc:
    """Byte writer that remembers where every length/size/count field sits (for C02)."""

    def __init__(self):
        self.b = bytearray()
        self.sizes = []          # (offset, width, what)

    def u(self, n, w):
        self.b += int(n).to_bytes(w, "big")

    def size_field(self, n, w, what):
        self.sizes.append((len(self.b), w, what))
        self.u(n, w)

    def shortstr(self, s):
        assert len(s) <= 255
        self.size_field(len(s), 1, "shortstr")
        self.b += s

    def longstr(self, s):
        self.size_field(len(s), 4, "longstr")
        self.b += s

    def field(self, v):
        t = v[0]
        self.b += t.encode()
        if t == "t":
            self.u(1 if v[1] else 0, 1)
        elif t == "b":
            self.u(v[1], 1)
        elif t == "s":
            self.b += struct.pack(">h", v[1])
        elif t == "I":
            self.b += struct.pack(">i", v[1])
        elif t == "l":
            self.b += struct.pack(">q", v[1])
        elif t == "f":
            self.u(v[1], 4)
        elif t == "d":
            self.u(v[1], 8)
        elif t == "D":
            self.u(v[1], 1)
            self.b += struct.pack(">i", v[2])
        elif t == "S":
            self.longstr(v[1])
        elif t == "A":
            inner = Enc()
            for x in v[1]:
                inner.field(x)
            self.embed(inner, "array")
        elif t == "T":
            self.b += struct.pack(">q", v[1])
        elif t == "F":
            self.table(v[1])
        elif t == "x":
            self.size_field(len(v[1]), 4, "bytes")
            self.b += v[1]
        elif t == "V":
            pass
        else:
            raise ValueError(t)

    def embed(self, inner, what):
        self.size_field(len(inner.b), 4, what)
        base = len(self.b)
        self.sizes += [(o + base, w, k) for o, w, k in inner.sizes]
        self.b += inner.b

    def table(self, entries):
        inner = Enc()
        for k, v in entries:
            inner.shortstr(k)
            inner.field(v)
        self.embed(inner, "table")

    def args(self, sig, vals):
        bits, nbits = 0, 0

        def flush():
            nonlocal bits, nbits
            if nbits:
                self.u(bits, 1)
                bits, nbits = 0, 0
        for (name, kind), v in zip(sig, vals):
            if kind == "bit":
                if nbits == 8:
                    flush()
                if v:
                    bits |= 1 << nbits
                nbits += 1
                continue
            flush()
            if kind == "octet":
                self.u(v, 1)
            elif kind == "short":
                self.u(v, 2)
            elif kind == "long":
                self.u(v, 4)
            elif kind == "longlong":
                self.u(v, 8)
            elif kind == "shortstr":
                self.shortstr(v)
            elif kind == "longstr":
                self.longstr(v)
            elif kind == "table":
                self.table(v)
            elif kind == "timestamp":
                self.b += struct.pack(">q", v)
            else:
                raise ValueError(kind)
        flush()


def frame(typ, channel, payload_enc):
    e = Enc()
    e.u(typ, 1)
    e.u(channel, 2)
    e.embed(payload_enc, "frame")
    e.u(FRAME_END, 1)
    return e


def enc_method(channel, cls, meth, vals):
    p = Enc()
    p.u(cls, 2)
    p.u(meth, 2)
    p.args(SPEC[(cls, meth)][1], vals)
    return frame(1, channel, p)


def enc_header(channel, cls, body_size, props, weight=0):
    """props: dict property-name -> value for the properties that are present."""
    p = Enc()
    p.u(cls, 2)
    p.u(weight, 2)
    p.size_field(body_size, 8, "bodysize")
    flags = 0
    for i, name in enumerate(PROPS):
        if name in props:
            flags |= 0x8000 >> i
    p.u(flags, 2)
    for name in PROPS:
        if name in props:
            k = PROP_KIND.get(name, "shortstr")
            p.args([(name, k)], [props[name]])
    return frame(2, channel, p)


def enc_body(channel, data):
    p = Enc()
    p.b += data
    return frame(3, channel, p)


def enc_heartbeat():
    return frame(8, 0, Enc())


# ------------------------------------------------------------------------------------ conversations
class Ev:
    """One frame (or the protocol header) sent by one side."""
    __slots__ = ("side", "kind", "ch", "cls", "meth", "args", "size", "props", "data", "enc", "tag")

    def __init__(self, side, kind, ch=0, cls=0, meth=0, args=None, size=0, props=None, data=b"", tag=None):
        self.side, self.kind, self.ch, self.cls, self.meth = side, kind, ch, cls, meth
        self.args, self.size, self.props, self.data, self.tag = args, size, props, data, tag
        if kind == "proto":
            self.enc = Enc()
            self.enc.b += PROTO_HEADER
        elif kind == "hb":
            self.enc = enc_heartbeat()
        elif kind == "method":
            self.enc = enc_method(ch, cls, meth, args)
        elif kind == "header":
            self.enc = enc_header(ch, cls, size, props)
        elif kind == "body":
            self.enc = enc_body(ch, data)
        else:
            raise ValueError(kind)

    def wire(self):
        return bytes(self.enc.b)

    def brief(self):
        if self.kind == "method":
            return "%s:%d:%s" % (self.side, self.ch, SPEC[(self.cls, self.meth)][0])
        return "%s:%d:%s" % (self.side, self.ch, self.kind)


class Conv:
    def __init__(self, evs, note=""):
        self.evs = evs
        self.note = note

    def stream(self, side):
        return b"".join(e.wire() for e in self.evs if e.side == side)

    def frames(self, side):
        return [e for e in self.evs if e.side == side]

    def order(self, mode):
        """Processing order of the events under a schedule."""
        if mode == "cs":
            return self.frames("c") + self.frames("s")
        if mode == "sc":
            return self.frames("s") + self.frames("c")
        return list(self.evs)

    def sched(self):
        """One letter per frame: the reads the conversation order needs (frames <= 4096 bytes are
        one read; the final letters let each half see its end of stream)."""
        return "".join(e.side * (1 + (len(e.wire()) - 1) // 4096) for e in self.evs)

    def size_fields(self, side):
        out, base = [], 0
        for e in self.frames(side):
            out += [(o + base, w, k) for o, w, k in e.enc.sizes]
            base += len(e.enc.b)
        return out

    def brief(self):
        return " ".join(e.brief() for e in self.evs)


def details(cls, meth, args):
    """Reported argument values of a method: name -> value, reserved arguments left out."""
    return {camel(n): v for (n, k), v in zip(SPEC[(cls, meth)][1], args) if not n.startswith("reserved")}


def norm_table(t):
    d = {}
    for k, v in t:
        d[k] = norm_value(v)
    return ("F", tuple(sorted(d.items())))


def norm_value(v):
    if v[0] == "F":
        return norm_table(v[1])
    if v[0] == "A":
        return ("A", tuple(norm_value(x) for x in v[1]))
    if v[0] == "t":
        return ("t", bool(v[1]))
    return tuple(v)


def norm_details(d):
    out = {}
    for k, v in d.items():
        if isinstance(v, list):
            v = norm_table(v)
        elif isinstance(v, dict):
            v = ("R", tuple(sorted(norm_details(v).items())))
        out[k] = v
    return out


ZERO_TIME = -62135596800
YEAR_10000 = 253402300800


def full_props(props, clamp):
    d = {}
    for name in PROPS[:-1]:
        k = PROP_KIND.get(name, "shortstr")
        if name in props:
            v = props[name]
        else:
            v = {"shortstr": b"", "octet": 0, "table": None, "timestamp": ZERO_TIME}[k]
        if name == "timestamp" and clamp and v >= YEAR_10000:
            v = ZERO_TIME
        d[camel(name)] = v
    return d


def item(rq_name, rq, rs_name, rs, by=None, swapped=False):
    ci = CLIENT + SERVER if not swapped else SERVER + CLIENT
    return {"rqm": rq_name, "rq": norm_details(rq), "rsm": rs_name, "rs": norm_details(rs), "ci": list(ci), "by": by}


def ideal_report(conv, mode):
    """What the property asks for: one item per answered request (request = the request method
    whoever sent it, response = its reply on the same channel), one item per message (method
    arguments, content properties exactly as on the wire, whole body), client and server
    endpoints as they are.  Content state is per channel and direction."""
    items = []
    pending = {}      # (ch, request key) -> list of details
    content = {}      # (side, ch) -> [kind, details, props, size, body]
    for e in conv.order(mode):
        if e.kind == "method":
            key = (e.cls, e.meth)
            name = SPEC[key][0]
            d = details(e.cls, e.meth, e.args)
            if key in CONTENT:
                content[(e.side, e.ch)] = [CONTENT[key], name, d, None, 0, b""]
            elif key in RPC:
                pending.setdefault((e.ch, key), []).append(d)
            elif key in REPLY_OF:
                q = pending.get((e.ch, REPLY_OF[key]))
                if q:
                    rq = q.pop(0)
                    items.append(item(SPEC[REPLY_OF[key]][0], rq, name, d))
        elif e.kind in ("header", "body"):
            st = content.get((e.side, e.ch))
            if st is None:
                continue
            if e.kind == "header":
                st[3], st[4], st[5] = full_props(e.props, False), e.size, b""
            elif st[3] is not None:
                st[5] += e.data
            if st[3] is not None and len(st[5]) >= st[4]:
                if st[0] in ("publish", "deliver"):
                    d = dict(st[2])
                    d["Properties"] = st[3]
                    d["Body"] = ("x", st[5])
                    items.append(item(st[1], d, EMPTY, {}))
                del content[(e.side, e.ch)]
    return items


def design_report(conv, mode, fixed_d6=True, cap=512):
    """The dissector's documented design evaluated on the abstract conversation: one pending
    method / publish / deliver record per half connection, pairing key = channel + class + method
    family, start / tune / publish / deliver reported at once with an empty response, one item
    per body frame, headers announcing more than `cap` body bytes dropped, timestamps from year
    10000 on replaced by the zero time.  Returns (items, residue, collisions)."""
    items, matcher, collisions = [], {}, []
    halves = {s: {"last": None, "ident": None,
                  "pub": {"Exchange": b"", "RoutingKey": b"", "Mandatory": False, "Immediate": False, "Properties": full_props({}, True)},
                  "del": {"ConsumerTag": b"", "DeliveryTag": 0, "Redelivered": False, "Exchange": b"", "RoutingKey": b"",
                          "Properties": full_props({}, True)}} for s in "cs"}

    def emit(is_request, ident, name, d, side):
        if ident in matcher:
            o_req, o_name, o_d = matcher.pop(ident)
            if o_req == is_request:
                collisions.append((ident, o_name, name))
                return
            rq, rs = ((name, d), (o_name, o_d)) if is_request else ((o_name, o_d), (name, d))
            items.append(item(rq[0], rq[1], rs[0], rs[1], by=side, swapped=(not fixed_d6 and side == "s")))
        else:
            matcher[ident] = (is_request, name, d)

    for e in conv.order(mode):
        h = halves[e.side]
        is_client = e.side == "c"
        if e.kind == "method":
            key = (e.cls, e.meth)
            name = SPEC[key][0]
            d = details(e.cls, e.meth, e.args)
            h["last"] = key
            h["ident"] = (e.ch, e.cls, e.meth - e.meth % 10)
            if key == (60, 40):
                h["pub"].update(d)
            elif key == (60, 60):
                h["del"].update(d)
            elif key in SELF_PAIRED:
                emit(not is_client, h["ident"], name, d, e.side)
                emit(is_client, h["ident"], EMPTY, {}, e.side)
            elif key in SUPPORTED:
                emit(is_client, h["ident"], name, d, e.side)
        elif e.kind == "header":
            if e.size > cap:
                continue
            p = full_props(e.props, True)
            if h["last"] == (60, 40):
                h["pub"]["Properties"] = p
            elif h["last"] == (60, 60):
                h["del"]["Properties"] = p
        elif e.kind == "body":
            if h["last"] == (60, 40):
                d = dict(h["pub"])
                d["Body"] = ("x", e.data)
                emit(is_client, h["ident"], "basic publish", d, e.side)
                emit(not is_client, h["ident"], EMPTY, {}, e.side)
            elif h["last"] == (60, 60):
                d = dict(h["del"])
                d["Body"] = ("x", e.data)
                emit(not is_client, h["ident"], "basic deliver", d, e.side)
                emit(is_client, h["ident"], EMPTY, {}, e.side)
    residue = sorted("%s_%s_%s_%s_%d_%d_%d|%s|%s" % (CLIENT[0], SERVER[0], CLIENT[1], SERVER[1], k[0], k[1], k[2],
                                                     "req" if v[0] else "res", v[1]) for k, v in matcher.items())
    return items, residue, collisions


def features(conv, mode, cap=512):
    """Known-finding classes whose trigger is present in the conversation (the classifier)."""
    fs = set()
    last = {"c": None, "s": None}
    open_msg = {}
    for e in conv.order(mode):
        if e.kind == "method":
            key = (e.cls, e.meth)
            if key in ((10, 11), (10, 31)):
                fs.add("amqp-handshake-ok-unreported")
            if key in RPC and key not in SELF_PAIRED and e.side == "s":
                fs.add("amqp-server-initiated-request")
            if key in REPLY_OF and REPLY_OF[key] not in SELF_PAIRED and e.side == "c":
                fs.add("amqp-server-initiated-request")
            for (s, ch), st in list(open_msg.items()):
                if s == e.side and st["left"] is not None and (st["left"] > 0 or st["frames"] == 0):
                    pass
            if last[e.side] is not None and last[e.side][2] and (last[e.side][0] != e.ch):
                fs.add("amqp-content-state-per-half")
            last[e.side] = [e.ch, key, key in ((60, 40), (60, 60)) and True]
            if key in ((60, 40), (60, 60)):
                open_msg[(e.side, e.ch)] = {"left": None, "frames": 0}
                last[e.side][2] = True
            else:
                # a method on the same half while a message of another channel is still open
                if any(s == e.side and ch != e.ch and (st["left"] is None or st["left"] > 0 or st["frames"] == 0)
                       for (s, ch), st in open_msg.items()):
                    fs.add("amqp-content-state-per-half")
                last[e.side][2] = False
        elif e.kind == "header":
            st = open_msg.get((e.side, e.ch))
            if st is not None:
                st["left"] = e.size
                if e.size > cap:
                    fs.add("amqp-body-cap")
                if e.size == 0:
                    fs.add("amqp-body-per-frame")
                    del open_msg[(e.side, e.ch)]
                if "timestamp" in e.props and e.props["timestamp"] >= YEAR_10000:
                    fs.add("amqp-timestamp-clamped")
                if last[e.side] and last[e.side][0] != e.ch:
                    fs.add("amqp-content-state-per-half")
        elif e.kind == "body":
            st = open_msg.get((e.side, e.ch))
            if st is not None and st["left"] is not None:
                st["frames"] += 1
                st["left"] -= len(e.data)
                if st["left"] > 0 or st["frames"] > 1:
                    fs.add("amqp-body-per-frame")
                if st["left"] <= 0:
                    del open_msg[(e.side, e.ch)]
                if last[e.side] and last[e.side][0] != e.ch:
                    fs.add("amqp-content-state-per-half")
    _, _, coll = design_report(conv, mode, cap=cap)
    if coll:
        fs.add("amqp-ident-collision")
    return fs


# ------------------------------------------------------------------------------------ harness output -> abstract
def from_canon(c, arg=True):
    """Canonical harness value -> abstract value.  With arg=True scalars become plain Python
    values (method arguments), otherwise tagged field values (table contents)."""
    (k, v), = [(k, v) for k, v in c.items() if k != "w"]
    if k == "R":
        return {n: from_canon(x, True) for n, x in v}
    if k == "s":
        b = bytes.fromhex(v)
        return b if arg else ("S", b)
    if k == "t":
        return bool(v) if arg else ("t", bool(v))
    if k == "u":
        n = int(v)
        if arg:
            return n
        return {8: ("b", n)}.get(c["w"], ("?u%d" % c["w"], n))
    if k == "i":
        n = int(v)
        if arg:
            return n
        return ({16: "s", 32: "I", 64: "l"}.get(c["w"], "?i"), n)
    if k == "f":
        return ("f", int(v, 16))
    if k == "d":
        return ("d", int(v, 16))
    if k == "D":
        return ("D", int(v[0]), int(v[1]))
    if k == "T":
        return int(v) if arg else ("T", int(v))
    if k == "x":
        return ("x", None if v is None else bytes.fromhex(v))
    if k == "A":
        return ("A", tuple(from_canon(x, False) for x in v))
    if k == "F":
        if v is None:
            return None
        return ("F", tuple((bytes.fromhex(kk), from_canon(x, False)) for kk, x in v))
    if k == "V":
        return ("V",) if not arg else {}
    return ("?", k)


def observed_items(out):
    items = []
    for it in out["items"]:
        rq = from_canon(it["rq"])
        rs = from_canon(it["rs"])
        items.append({"rqm": it["rqm"], "rq": _obs_details(rq), "rsm": it["rsm"], "rs": _obs_details(rs),
                      "ci": it["ci"], "by": it["by"]})
    return items


def _obs_details(d):
    if not isinstance(d, dict):
        return {"?": d}
    out = {}
    for k, v in d.items():
        if isinstance(v, dict):
            v = ("R", tuple(sorted(_obs_details(v).items())))
        out[k] = v
    return out


def same_items(obs, exp, ordered=True, with_by=False):
    def key(i):
        return (i["rqm"], sorted(i["rq"].items(), key=repr), i["rsm"], sorted(i["rs"].items(), key=repr), i["ci"],
                i["by"] if with_by else None)
    a, b = [key(i) for i in obs], [key(i) for i in exp]
    if not ordered:
        a, b = sorted(a, key=repr), sorted(b, key=repr)
    return a == b


def case_line(cid, c, s, cc=(), sc=(), ct=0, st=0, order="cs"):
    return json.dumps({"id": cid, "c": c.hex(), "s": s.hex(), "cc": list(cc), "sc": list(sc), "ct": ct, "st": st, "order": order})
