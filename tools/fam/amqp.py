"""AMQP 0-9-1 family: independent encoder, abstract conversations, reports, generators and the
AMQP share of C01 / C02 / C08 / C11 (DESIGN.md 4.2, 5.C05).

Nothing here is derived from the Go sources: the method table below is written from the AMQP
0-9-1 specification (RabbitMQ flavour: confirm class, exchange bind/unbind, basic nack,
connection blocked/unblocked).  The Go field names that the harness prints are related to the
specification's argument names by `camel`.
"""
from fam import aggregate as _agg
import json
import struct

# ------------------------------------------------------------------------------------ the spec
# kinds: octet short long longlong shortstr longstr table bit timestamp
SPEC = {
    (10, 10): ("connection start", [("version-major", "octet"), ("version-minor", "octet"),
                                    ("server-properties", "table"), ("mechanisms", "longstr"), ("locales", "longstr")]),
    (10, 11): ("connection start-ok", [("client-properties", "table"), ("mechanism", "shortstr"),
                                       ("response", "longstr"), ("locale", "shortstr")]),
    (10, 20): ("connection secure", [("challenge", "longstr")]),
    (10, 21): ("connection secure-ok", [("response", "longstr")]),
    (10, 30): ("connection tune", [("channel-max", "short"), ("frame-max", "long"), ("heartbeat", "short")]),
    (10, 31): ("connection tune-ok", [("channel-max", "short"), ("frame-max", "long"), ("heartbeat", "short")]),
    (10, 40): ("connection open", [("virtual-host", "shortstr"), ("reserved-1", "shortstr"), ("reserved-2", "bit")]),
    (10, 41): ("connection open-ok", [("reserved-1", "shortstr")]),
    (10, 50): ("connection close", [("reply-code", "short"), ("reply-text", "shortstr"), ("class-id", "short"), ("method-id", "short")]),
    (10, 51): ("connection close-ok", []),
    (10, 60): ("connection blocked", [("reason", "shortstr")]),
    (10, 61): ("connection unblocked", []),
    (20, 10): ("channel open", [("reserved-1", "shortstr")]),
    (20, 11): ("channel open-ok", [("reserved-1", "longstr")]),
    (20, 20): ("channel flow", [("active", "bit")]),
    (20, 21): ("channel flow-ok", [("active", "bit")]),
    (20, 40): ("channel close", [("reply-code", "short"), ("reply-text", "shortstr"), ("class-id", "short"), ("method-id", "short")]),
    (20, 41): ("channel close-ok", []),
    (40, 10): ("exchange declare", [("reserved-1", "short"), ("exchange", "shortstr"), ("type", "shortstr"), ("passive", "bit"),
                                    ("durable", "bit"), ("auto-delete", "bit"), ("internal", "bit"), ("no-wait", "bit"), ("arguments", "table")]),
    (40, 11): ("exchange declare-ok", []),
    (40, 20): ("exchange delete", [("reserved-1", "short"), ("exchange", "shortstr"), ("if-unused", "bit"), ("no-wait", "bit")]),
    (40, 21): ("exchange delete-ok", []),
    (40, 30): ("exchange bind", [("reserved-1", "short"), ("destination", "shortstr"), ("source", "shortstr"), ("routing-key", "shortstr"),
                                 ("no-wait", "bit"), ("arguments", "table")]),
    (40, 31): ("exchange bind-ok", []),
    (40, 40): ("exchange unbind", [("reserved-1", "short"), ("destination", "shortstr"), ("source", "shortstr"), ("routing-key", "shortstr"),
                                   ("no-wait", "bit"), ("arguments", "table")]),
    (40, 51): ("exchange unbind-ok", []),
    (50, 10): ("queue declare", [("reserved-1", "short"), ("queue", "shortstr"), ("passive", "bit"), ("durable", "bit"), ("exclusive", "bit"),
                                 ("auto-delete", "bit"), ("no-wait", "bit"), ("arguments", "table")]),
    (50, 11): ("queue declare-ok", [("queue", "shortstr"), ("message-count", "long"), ("consumer-count", "long")]),
    (50, 20): ("queue bind", [("reserved-1", "short"), ("queue", "shortstr"), ("exchange", "shortstr"), ("routing-key", "shortstr"),
                              ("no-wait", "bit"), ("arguments", "table")]),
    (50, 21): ("queue bind-ok", []),
    (50, 30): ("queue purge", [("reserved-1", "short"), ("queue", "shortstr"), ("no-wait", "bit")]),
    (50, 31): ("queue purge-ok", [("message-count", "long")]),
    (50, 40): ("queue delete", [("reserved-1", "short"), ("queue", "shortstr"), ("if-unused", "bit"), ("if-empty", "bit"), ("no-wait", "bit")]),
    (50, 41): ("queue delete-ok", [("message-count", "long")]),
    (50, 50): ("queue unbind", [("reserved-1", "short"), ("queue", "shortstr"), ("exchange", "shortstr"), ("routing-key", "shortstr"),
                                ("arguments", "table")]),
    (50, 51): ("queue unbind-ok", []),
    (60, 10): ("basic qos", [("prefetch-size", "long"), ("prefetch-count", "short"), ("global", "bit")]),
    (60, 11): ("basic qos-ok", []),
    (60, 20): ("basic consume", [("reserved-1", "short"), ("queue", "shortstr"), ("consumer-tag", "shortstr"), ("no-local", "bit"),
                                 ("no-ack", "bit"), ("exclusive", "bit"), ("no-wait", "bit"), ("arguments", "table")]),
    (60, 21): ("basic consume-ok", [("consumer-tag", "shortstr")]),
    (60, 30): ("basic cancel", [("consumer-tag", "shortstr"), ("no-wait", "bit")]),
    (60, 31): ("basic cancel-ok", [("consumer-tag", "shortstr")]),
    (60, 40): ("basic publish", [("reserved-1", "short"), ("exchange", "shortstr"), ("routing-key", "shortstr"), ("mandatory", "bit"), ("immediate", "bit")]),
    (60, 50): ("basic return", [("reply-code", "short"), ("reply-text", "shortstr"), ("exchange", "shortstr"), ("routing-key", "shortstr")]),
    (60, 60): ("basic deliver", [("consumer-tag", "shortstr"), ("delivery-tag", "longlong"), ("redelivered", "bit"), ("exchange", "shortstr"),
                                 ("routing-key", "shortstr")]),
    (60, 70): ("basic get", [("reserved-1", "short"), ("queue", "shortstr"), ("no-ack", "bit")]),
    (60, 71): ("basic get-ok", [("delivery-tag", "longlong"), ("redelivered", "bit"), ("exchange", "shortstr"), ("routing-key", "shortstr"),
                                ("message-count", "long")]),
    (60, 72): ("basic get-empty", [("reserved-1", "shortstr")]),
    (60, 80): ("basic ack", [("delivery-tag", "longlong"), ("multiple", "bit")]),
    (60, 90): ("basic reject", [("delivery-tag", "longlong"), ("requeue", "bit")]),
    (60, 100): ("basic recover-async", [("requeue", "bit")]),
    (60, 110): ("basic recover", [("requeue", "bit")]),
    (60, 111): ("basic recover-ok", []),
    (60, 120): ("basic nack", [("delivery-tag", "longlong"), ("multiple", "bit"), ("requeue", "bit")]),
    (90, 10): ("tx select", []), (90, 11): ("tx select-ok", []),
    (90, 20): ("tx commit", []), (90, 21): ("tx commit-ok", []),
    (90, 30): ("tx rollback", []), (90, 31): ("tx rollback-ok", []),
    (85, 10): ("confirm select", [("nowait", "bit")]), (85, 11): ("confirm select-ok", []),
}

# the methods the property lists as reported: request -> its reply (None: no reply on the wire)
RPC = {(10, 10): (10, 11), (10, 30): (10, 31), (10, 40): (10, 41), (10, 50): (10, 51), (20, 10): (20, 11),
       (40, 10): (40, 11), (50, 10): (50, 11), (50, 20): (50, 21), (60, 20): (60, 21), (60, 30): (60, 31)}
REPLY_OF = {v: k for k, v in RPC.items()}
CONTENT = {(60, 40): "publish", (60, 60): "deliver", (60, 50): "return", (60, 71): "get-ok"}
SUPPORTED = set(RPC) | set(REPLY_OF) | {(60, 40), (60, 60)}
SELF_PAIRED = {(10, 10), (10, 30)}      # reported at once with an empty response by design
EMPTY = "empty"

PROPS = ["content-type", "content-encoding", "headers", "delivery-mode", "priority", "correlation-id", "reply-to",
         "expiration", "message-id", "timestamp", "type", "user-id", "app-id", "reserved"]
PROP_KIND = {"headers": "table", "delivery-mode": "octet", "priority": "octet", "timestamp": "timestamp"}
PROTO_HEADER = b"AMQP\x00\x00\x09\x01"
FRAME_END = 0xCE
CLIENT = ("10.0.0.1", "40000")
SERVER = ("10.0.0.2", "5672")


def camel(name):
    return "".join(p.capitalize() for p in name.split("-"))


# ------------------------------------------------------------------------------------ encoder
class Enc:
    """Byte writer that remembers where every length/size/count field sits (for C02)."""

    def __init__(self):
        self.b = bytearray()
        self.sizes = []          # (offset, width, what)

    def u(self, n, w):
        self.b += int(n).to_bytes(w, "big")

    def size_field(self, n, w, what):
        self.sizes.append((len(self.b), w, what))
        self.u(n, w)

    def shortstr(self, s):
        assert len(s) <= 255
        self.size_field(len(s), 1, "shortstr")
        self.b += s

    def longstr(self, s):
        self.size_field(len(s), 4, "longstr")
        self.b += s

    def field(self, v):
        t = v[0]
        self.b += t.encode()
        if t == "t":
            self.u(1 if v[1] else 0, 1)
        elif t == "b":
            self.u(v[1], 1)
        elif t == "s":
            self.b += struct.pack(">h", v[1])
        elif t == "I":
            self.b += struct.pack(">i", v[1])
        elif t == "l":
            self.b += struct.pack(">q", v[1])
        elif t == "f":
            self.u(v[1], 4)
        elif t == "d":
            self.u(v[1], 8)
        elif t == "D":
            self.u(v[1], 1)
            self.b += struct.pack(">i", v[2])
        elif t == "S":
            self.longstr(v[1])
        elif t == "A":
            inner = Enc()
            for x in v[1]:
                inner.field(x)
            self.embed(inner, "array")
        elif t == "T":
            self.b += struct.pack(">q", v[1])
        elif t == "F":
            self.table(v[1])
        elif t == "x":
            self.size_field(len(v[1]), 4, "bytes")
            self.b += v[1]
        elif t == "V":
            pass
        else:
            raise ValueError(t)

    def embed(self, inner, what):
        self.size_field(len(inner.b), 4, what)
        base = len(self.b)
        self.sizes += [(o + base, w, k) for o, w, k in inner.sizes]
        self.b += inner.b

    def table(self, entries):
        inner = Enc()
        for k, v in entries:
            inner.shortstr(k)
            inner.field(v)
        self.embed(inner, "table")

    def args(self, sig, vals):
        bits, nbits = 0, 0

        def flush():
            nonlocal bits, nbits
            if nbits:
                self.u(bits, 1)
                bits, nbits = 0, 0
        for (name, kind), v in zip(sig, vals):
            if kind == "bit":
                if nbits == 8:
                    flush()
                if v:
                    bits |= 1 << nbits
                nbits += 1
                continue
            flush()
            if kind == "octet":
                self.u(v, 1)
            elif kind == "short":
                self.u(v, 2)
            elif kind == "long":
                self.u(v, 4)
            elif kind == "longlong":
                self.u(v, 8)
            elif kind == "shortstr":
                self.shortstr(v)
            elif kind == "longstr":
                self.longstr(v)
            elif kind == "table":
                self.table(v)
            elif kind == "timestamp":
                self.b += struct.pack(">q", v)
            else:
                raise ValueError(kind)
        flush()


def frame(typ, channel, payload_enc):
    e = Enc()
    e.u(typ, 1)
    e.u(channel, 2)
    e.embed(payload_enc, "frame")
    e.u(FRAME_END, 1)
    return e


def enc_method(channel, cls, meth, vals):
    p = Enc()
    p.u(cls, 2)
    p.u(meth, 2)
    p.args(SPEC[(cls, meth)][1], vals)
    return frame(1, channel, p)


def enc_header(channel, cls, body_size, props, weight=0):
    """props: dict property-name -> value for the properties that are present."""
    p = Enc()
    p.u(cls, 2)
    p.u(weight, 2)
    p.size_field(body_size, 8, "bodysize")
    flags = 0
    for i, name in enumerate(PROPS):
        if name in props:
            flags |= 0x8000 >> i
    p.u(flags, 2)
    for name in PROPS:
        if name in props:
            k = PROP_KIND.get(name, "shortstr")
            p.args([(name, k)], [props[name]])
    return frame(2, channel, p)


def enc_body(channel, data):
    p = Enc()
    p.b += data
    return frame(3, channel, p)


def enc_heartbeat():
    return frame(8, 0, Enc())


# ------------------------------------------------------------------------------------ conversations
class Ev:
    """One frame (or the protocol header) sent by one side."""
    __slots__ = ("side", "kind", "ch", "cls", "meth", "args", "size", "props", "data", "enc", "tag")

    def __init__(self, side, kind, ch=0, cls=0, meth=0, args=None, size=0, props=None, data=b"", tag=None):
        self.side, self.kind, self.ch, self.cls, self.meth = side, kind, ch, cls, meth
        self.args, self.size, self.props, self.data, self.tag = args, size, props, data, tag
        if kind == "proto":
            self.enc = Enc()
            self.enc.b += PROTO_HEADER
        elif kind == "hb":
            self.enc = enc_heartbeat()
        elif kind == "method":
            self.enc = enc_method(ch, cls, meth, args)
        elif kind == "header":
            self.enc = enc_header(ch, cls, size, props)
        elif kind == "body":
            self.enc = enc_body(ch, data)
        else:
            raise ValueError(kind)

    def wire(self):
        return bytes(self.enc.b)

    def brief(self):
        if self.kind == "method":
            return "%s:%d:%s" % (self.side, self.ch, SPEC[(self.cls, self.meth)][0])
        return "%s:%d:%s" % (self.side, self.ch, self.kind)


class Conv:
    def __init__(self, evs, note=""):
        self.evs = evs
        self.note = note

    def stream(self, side):
        return b"".join(e.wire() for e in self.evs if e.side == side)

    def frames(self, side):
        return [e for e in self.evs if e.side == side]

    def order(self, mode):
        """Processing order of the events under a schedule."""
        if mode == "cs":
            return self.frames("c") + self.frames("s")
        if mode == "sc":
            return self.frames("s") + self.frames("c")
        return list(self.evs)

    def sched(self):
        """Conversation-order delivery: (client cuts, server cuts, schedule).  Every frame is cut
        off at its end and into pieces of at most 4096 bytes, so that one granted read hands
        over exactly one piece whatever buffer the dissector reads into; the schedule has one
        letter per piece.  When it is exhausted each half sees its end of stream."""
        cuts, pos, sched = {"c": [], "s": []}, {"c": 0, "s": 0}, []
        for e in self.evs:
            n = len(e.wire())
            k = 0
            while k < n:
                step = min(4096, n - k)
                k += step
                cuts[e.side].append(pos[e.side] + k)
                sched.append(e.side)
            pos[e.side] += n
        return cuts["c"], cuts["s"], "".join(sched)

    def size_fields(self, side):
        out, base = [], 0
        for e in self.frames(side):
            out += [(o + base, w, k) for o, w, k in e.enc.sizes]
            base += len(e.enc.b)
        return out

    def brief(self):
        return " ".join(e.brief() for e in self.evs)


def details(cls, meth, args):
    """Reported argument values of a method: name -> value, reserved arguments left out."""
    return {camel(n): v for (n, k), v in zip(SPEC[(cls, meth)][1], args) if not n.startswith("reserved")}


def norm_table(t):
    d = {}
    for k, v in t:
        d[k] = norm_value(v)
    return ("F", tuple(sorted(d.items())))


def norm_value(v):
    if v[0] == "F":
        return norm_table(v[1])
    if v[0] == "A":
        return ("A", tuple(norm_value(x) for x in v[1]))
    if v[0] == "t":
        return ("t", bool(v[1]))
    return tuple(v)


def norm_details(d):
    out = {}
    for k, v in d.items():
        if isinstance(v, list):
            v = norm_table(v)
        elif isinstance(v, dict):
            v = ("R", tuple(sorted(norm_details(v).items())))
        out[k] = v
    return out


ZERO_TIME = -62135596800
YEAR_10000 = 253402300800
YEAR_0 = -62167219200


def full_props(props, clamp):
    d = {}
    for name in PROPS[:-1]:
        k = PROP_KIND.get(name, "shortstr")
        if name in props:
            v = props[name]
        else:
            v = {"shortstr": b"", "octet": 0, "table": None, "timestamp": ZERO_TIME}[k]
        if name == "timestamp" and clamp and not YEAR_0 <= v < YEAR_10000:
            v = ZERO_TIME
        d[camel(name)] = v
    return d


def item(rq_name, rq, rs_name, rs, by=None, swapped=False):
    ci = CLIENT + SERVER if not swapped else SERVER + CLIENT
    return {"rqm": rq_name, "rq": norm_details(rq), "rsm": rs_name, "rs": norm_details(rs), "ci": list(ci), "by": by}


def ideal_report(conv, mode):
    """What the property asks for: one item per answered request (request = the request method
    whoever sent it, response = its reply on the same channel), one item per message (method
    arguments, content properties exactly as on the wire, whole body), client and server
    endpoints as they are.  Content state is per channel and direction."""
    items = []
    pending = {}      # (ch, request key) -> list of details
    content = {}      # (side, ch) -> [kind, details, props, size, body]
    for e in conv.evs:           # the conversation's own order: what is reported does not depend on the processing order
        if e.kind == "method":
            key = (e.cls, e.meth)
            name = SPEC[key][0]
            d = details(e.cls, e.meth, e.args)
            if key in CONTENT:
                content[(e.side, e.ch)] = [CONTENT[key], name, d, None, 0, b""]
            elif key in RPC:
                pending.setdefault((e.ch, key), []).append(d)
            elif key in REPLY_OF:
                q = pending.get((e.ch, REPLY_OF[key]))
                if q:
                    rq = q.pop(0)
                    items.append(item(SPEC[REPLY_OF[key]][0], rq, name, d))
        elif e.kind in ("header", "body"):
            st = content.get((e.side, e.ch))
            if st is None:
                continue
            if e.kind == "header":
                st[3], st[4], st[5] = full_props(e.props, False), e.size, b""
            elif st[3] is not None:
                st[5] += e.data
            if st[3] is not None and len(st[5]) >= st[4]:
                if st[0] in ("publish", "deliver"):
                    d = dict(st[2])
                    d["Properties"] = st[3]
                    d["Body"] = ("x", st[5])
                    items.append(item(st[1], d, EMPTY, {}))
                del content[(e.side, e.ch)]
    return items


def design_report(conv, mode, fixed_d6=True, cap=512):
    """The dissector's documented design evaluated on the abstract conversation: one pending
    method / publish / deliver record per half connection, pairing key = channel + class + method
    family, start / tune / publish / deliver reported at once with an empty response, one item
    per body frame, headers announcing more than `cap` body bytes dropped, timestamps from year
    10000 on replaced by the zero time.  Returns (items, residue, collisions)."""
    items, matcher, collisions = [], {}, []
    halves = {s: {"last": None, "ident": None,
                  "pub": {"Exchange": b"", "RoutingKey": b"", "Mandatory": False, "Immediate": False, "Properties": full_props({}, True)},
                  "del": {"ConsumerTag": b"", "DeliveryTag": 0, "Redelivered": False, "Exchange": b"", "RoutingKey": b"",
                          "Properties": full_props({}, True)}} for s in "cs"}

    def emit(is_request, ident, name, d, side):
        if ident in matcher:
            o_req, o_name, o_d = matcher.pop(ident)
            if o_req == is_request:
                collisions.append((ident, o_name, name))
                return
            rq, rs = ((name, d), (o_name, o_d)) if is_request else ((o_name, o_d), (name, d))
            items.append(item(rq[0], rq[1], rs[0], rs[1], by=side, swapped=(not fixed_d6 and side == "s")))
        else:
            matcher[ident] = (is_request, name, d)

    for e in conv.order(mode):
        h = halves[e.side]
        is_client = e.side == "c"
        if e.kind == "method":
            key = (e.cls, e.meth)
            name = SPEC[key][0]
            d = details(e.cls, e.meth, e.args)
            h["last"] = key
            h["ident"] = (e.ch, e.cls, e.meth - e.meth % 10)
            if key == (60, 40):
                h["pub"].update(d)
            elif key == (60, 60):
                h["del"].update(d)
            elif key in SELF_PAIRED:
                emit(not is_client, h["ident"], name, d, e.side)
                emit(is_client, h["ident"], EMPTY, {}, e.side)
            elif key in SUPPORTED:
                emit(is_client, h["ident"], name, d, e.side)
        elif e.kind == "header":
            if e.size > cap:
                continue
            p = full_props(e.props, True)
            if h["last"] == (60, 40):
                h["pub"]["Properties"] = p
            elif h["last"] == (60, 60):
                h["del"]["Properties"] = p
        elif e.kind == "body":
            if h["last"] == (60, 40):
                d = dict(h["pub"])
                d["Body"] = ("x", e.data)
                emit(is_client, h["ident"], "basic publish", d, e.side)
                emit(not is_client, h["ident"], EMPTY, {}, e.side)
            elif h["last"] == (60, 60):
                d = dict(h["del"])
                d["Body"] = ("x", e.data)
                emit(not is_client, h["ident"], "basic deliver", d, e.side)
                emit(is_client, h["ident"], EMPTY, {}, e.side)
    residue = sorted("%s_%s_%s_%s_%d_%d_%d|%s|%s" % (CLIENT[0], SERVER[0], CLIENT[1], SERVER[1], k[0], k[1], k[2],
                                                     "req" if v[0] else "res", v[1]) for k, v in matcher.items())
    return items, residue, collisions


def features(conv, mode, cap=512):
    """Known-finding classes whose trigger is present in the conversation (the classifier)."""
    fs = set()
    last = {"c": None, "s": None}          # the half's most recent method event (what the dissector keeps)
    msg = {}                                # (side, ch) -> [method event, size or None, body frames, bytes]
    for e in conv.order(mode):
        if e.kind == "method":
            key = (e.cls, e.meth)
            last[e.side] = e
            if key in SELF_PAIRED or REPLY_OF.get(key) in SELF_PAIRED:
                fs.add("amqp-handshake-self-paired")
            elif key in RPC and e.side == "s" or key in REPLY_OF and e.side == "c":
                fs.add("amqp-server-initiated-request")
            if key in CONTENT:
                msg[(e.side, e.ch)] = [e, None, 0, 0]
            else:
                msg.pop((e.side, e.ch), None)
        elif e.kind in ("header", "body"):
            m = msg.get((e.side, e.ch))
            mine = m is not None and (m[0].cls, m[0].meth) in ((60, 40), (60, 60))
            l = last[e.side]
            theirs = l is not None and (l.cls, l.meth) in ((60, 40), (60, 60))
            if (mine or theirs) and (m is None or l is not m[0]):
                fs.add("amqp-content-state-per-half")
            if m is None:
                continue
            if e.kind == "header":
                m[1] = e.size
                if mine:
                    if e.size > cap:
                        fs.add("amqp-body-cap")
                    if e.size == 0:
                        fs.add("amqp-body-per-frame")
                    if not YEAR_0 <= e.props.get("timestamp", 0) < YEAR_10000:
                        fs.add("amqp-timestamp-clamped")
            elif m[1] is not None:
                m[2] += 1
                m[3] += len(e.data)
                if mine and (m[2] > 1 or m[3] < m[1]):
                    fs.add("amqp-body-per-frame")
            if m[1] is not None and m[3] >= m[1]:
                del msg[(e.side, e.ch)]
    _, _, coll = design_report(conv, mode, cap=cap)
    roles = {}
    for e in conv.order(mode):
        key = (e.cls, e.meth)
        if e.kind == "method" and key in SUPPORTED and key not in CONTENT and key not in SELF_PAIRED:
            ident = (e.ch, e.cls, e.meth - e.meth % 10)
            if roles.get(ident) == e.side:
                coll = True
            roles[ident] = e.side
    if coll:
        fs.add("amqp-ident-collision")
    return fs


def in_coq_normal_form(conv):
    """The syntactic normal form of AmqpSpec.normal (a sufficient condition for "no finding class
    is triggered"): every content method of either direction - reported or not - is followed on
    its direction, heartbeats apart, by its header (body size 1..512) and exactly one body frame
    of that size; no handshake methods; requests only from the client, replies only from the
    server; pairing keys distinct per direction."""
    for side in "cs":
        st = None
        keys = set()
        for e in conv.frames(side):
            if e.kind in ("hb", "proto"):
                continue
            if e.kind == "method":
                key = (e.cls, e.meth)
                if st is not None or key in SELF_PAIRED or REPLY_OF.get(key) in SELF_PAIRED:
                    return False
                rq, rp = key in RPC, key in REPLY_OF
                if side == "c" and (rp or key == (60, 60)) or side == "s" and (rq or key == (60, 40)):
                    return False
                if rq or rp:
                    k = (e.ch, e.cls, e.meth - e.meth % 10)
                    if k in keys:
                        return False
                    keys.add(k)
                st = ("h", e.ch) if key in CONTENT else None
            elif e.kind == "header":
                if st is None or st[0] != "h" or st[1] != e.ch or not 1 <= e.size <= 512:
                    return False
                st = ("b", e.ch, e.size)
            elif e.kind == "body":
                if st is None or st[0] != "b" or st[1] != e.ch or len(e.data) != st[2]:
                    return False
                st = None
        if st is not None:
            return False
    return True


# ------------------------------------------------------------------------------------ harness output -> abstract
def from_canon(c, arg=True):
    """Canonical harness value -> abstract value.  With arg=True scalars become plain Python
    values (method arguments), otherwise tagged field values (table contents)."""
    (k, v), = [(k, v) for k, v in c.items() if k != "w"]
    if k == "R":
        return {n: from_canon(x, True) for n, x in v}
    if k == "s":
        b = bytes.fromhex(v)
        return b if arg else ("S", b)
    if k == "t":
        return bool(v) if arg else ("t", bool(v))
    if k == "u":
        n = int(v)
        if arg:
            return n
        return {8: ("b", n)}.get(c["w"], ("?u%d" % c["w"], n))
    if k == "i":
        n = int(v)
        if arg:
            return n
        return ({16: "s", 32: "I", 64: "l"}.get(c["w"], "?i"), n)
    if k == "f":
        return ("f", int(v, 16))
    if k == "d":
        return ("d", int(v, 16))
    if k == "D":
        return ("D", int(v[0]), int(v[1]))
    if k == "T":
        return int(v) if arg else ("T", int(v))
    if k == "x":
        return ("x", None if v is None else bytes.fromhex(v))
    if k == "A":
        if v is None:
            return ("A-null",)          # a nil slice: the entry says null, not []
        return ("A", tuple(from_canon(x, False) for x in v))
    if k == "F":
        if v is None:
            return None
        return ("F", tuple((bytes.fromhex(kk), from_canon(x, False)) for kk, x in v))
    if k == "V":
        return ("V",) if not arg else {}
    return ("?", k)


def observed_items(out):
    items = []
    for it in out["items"]:
        rq = from_canon(it["rq"])
        rs = from_canon(it["rs"])
        items.append({"rqm": it["rqm"], "rq": _obs_details(rq), "rsm": it["rsm"], "rs": _obs_details(rs),
                      "ci": it["ci"], "by": it["by"]})
    return items


def _obs_details(d):
    if not isinstance(d, dict):
        return {"?": d}
    out = {}
    for k, v in d.items():
        if isinstance(v, dict):
            v = ("R", tuple(sorted(_obs_details(v).items())))
        out[k] = v
    return out


def same_items(obs, exp, ordered=True, with_by=False):
    def key(i):
        return (i["rqm"], sorted(i["rq"].items(), key=repr), i["rsm"], sorted(i["rs"].items(), key=repr), i["ci"],
                i["by"] if with_by else None)
    a, b = [key(i) for i in obs], [key(i) for i in exp]
    if not ordered:
        a, b = sorted(a, key=repr), sorted(b, key=repr)
    return a == b


def case_line(cid, c, s, cc=(), sc=(), ct=0, st=0, order="cs"):
    return json.dumps({"id": cid, "c": c.hex(), "s": s.hex(), "cc": list(cc), "sc": list(sc), "ct": ct, "st": st, "order": order})


# ------------------------------------------------------------------------------------ generators
INT64_MIN, INT64_MAX = -(1 << 63), (1 << 63) - 1
FLOATS32 = [0, 0x3f800000, 0x7f7fffff, 0x80000000, 0x00000001, 0xc2f6e979]
FLOATS64 = [0, 0x3ff0000000000000, 0x7fefffffffffffff, 0x8000000000000000, 0x0000000000000001, 0xc05edd2f1a9fbe77]
NONFINITE32 = [0x7fc00000, 0x7f800000, 0xff800000]
NONFINITE64 = [0x7ff8000000000000, 0x7ff0000000000000, 0xfff0000000000000]
BIN = bytes(range(256))


def rand_bytes(rng, n, textual=False):
    if textual:
        return bytes(rng.choice(b"abcdefghijklmnopqrstuvwxyz.-_/0123456789") for _ in range(n))
    return bytes(rng.randrange(256) for _ in range(n))


def gen_str(rng, maxlen, boundary=None):
    r = rng.random()
    if r < 0.08:
        return b""
    if r < 0.14 and boundary:
        return rand_bytes(rng, boundary, rng.random() < 0.5)
    if r < 0.22:
        # text a person could have typed: accents, a no-break space, a zero-width space, CJK, an emoji (all valid UTF-8, no
        # quote, backslash or control character: a KFL literal can carry it)
        return rng.choice(["caf\u00e9", "a\u00a0b", "zero\u200bwidth", "\u65e5\u672c", "ok \U0001f600", "na\u00efve text", "\u00a0"]).encode()[:maxlen]
    if r < 0.75:
        return rand_bytes(rng, rng.randint(1, min(12, maxlen)), True)
    return rand_bytes(rng, rng.randint(0, min(40, maxlen)))


def gen_field(rng, depth, finite=True):
    kinds = "tbsIlfdDSTxV" + ("AF" * 2 if depth > 0 else "")
    t = rng.choice(kinds)
    if t == "t":
        return ("t", rng.random() < 0.5)
    if t == "b":
        return ("b", rng.choice([0, 1, 127, 128, 255]))
    if t == "s":
        return ("s", rng.choice([0, 1, -1, 32767, -32768, rng.randint(-32768, 32767)]))
    if t == "I":
        return ("I", rng.choice([0, 7, -1, 2147483647, -2147483648, rng.randint(-2 ** 31, 2 ** 31 - 1)]))
    if t == "l":
        return ("l", rng.choice([0, -1, INT64_MAX, INT64_MIN, 1 << 53, rng.randint(INT64_MIN, INT64_MAX)]))
    if t == "f":
        return ("f", rng.choice(FLOATS32 if finite else FLOATS32 + NONFINITE32))
    if t == "d":
        return ("d", rng.choice(FLOATS64 if finite else FLOATS64 + NONFINITE64))
    if t == "D":
        return ("D", rng.choice([0, 2, 255]), rng.choice([0, -1, 2147483647, -2147483648, 31415]))
    if t == "S":
        return ("S", gen_str(rng, 300, 300))
    if t == "T":
        return ("T", rng.choice([0, 1, 1700000000, 253402300799, -1, -62135596800] if finite else
                                [0, 253402300800, INT64_MAX, INT64_MIN, -62135596801, 1 << 40]))
    if t == "x":
        return ("x", rng.choice([b"", b"\x00", BIN, rand_bytes(rng, rng.randint(1, 20))]))
    if t == "V":
        return ("V",)
    if t == "A":
        return ("A", [gen_field(rng, depth - 1, finite) for _ in range(rng.choice([0, 1, 2, 3, 5]))])
    return ("F", gen_table(rng, depth - 1, finite))


def gen_table(rng, depth=2, finite=True, maxn=4):
    n = rng.choice([0, 1, 1, 2, 3, maxn])
    keys, out = set(), []
    for _ in range(n):
        k = gen_str(rng, 255, 255) if rng.random() < 0.1 else rand_bytes(rng, rng.randint(1, 10), True)
        if k in keys:
            continue
        keys.add(k)
        out.append((k, gen_field(rng, depth, finite)))
    if depth >= 2 and rng.random() < 0.1 and b"deep" not in keys:
        # a chain of tables and arrays nested far deeper than any hand-written example (the protocol sets no bound)
        v = ("S", b"bottom")
        for lvl in range(rng.choice([3, 7, 8, 9, 10, 16, 17, 33, 40])):
            v = ("F", [(b"n%d" % lvl, v)]) if rng.random() < 0.6 else ("A", [v])
        out.append((b"deep", v))
    return out


def every_type_table(depth=1):
    """One entry per field type (all 14), nested once more inside a table and an array."""
    base = [(b"bool", ("t", True)), (b"byte", ("b", 255)), (b"short", ("s", -32768)), (b"int", ("I", -2147483648)),
            (b"long", ("l", INT64_MIN)), (b"float", ("f", 0x3f800000)), (b"double", ("d", 0xc05edd2f1a9fbe77)),
            (b"decimal", ("D", 2, 31415)), (b"str", ("S", b"text \xff\x00 bytes")), (b"time", ("T", 1700000000)),
            (b"bytes", ("x", b"\x00\x01\xfe\xff")), (b"void", ("V",)), (b"", ("S", b"")), (b"k" * 255, ("b", 0))]
    if depth > 0:
        inner = every_type_table(depth - 1)
        base += [(b"table", ("F", inner)), (b"array", ("A", [v for _, v in inner])), (b"empty-table", ("F", [])),
                 (b"empty-array", ("A", []))]
    return base


def gen_arg(rng, kind, name=""):
    if kind == "bit":
        return rng.random() < 0.5
    if kind == "octet":
        return rng.choice([0, 1, 9, 255])
    if kind == "short":
        return rng.choice([0, 1, 200, 404, 65535, rng.randrange(65536)])
    if kind == "long":
        return rng.choice([0, 1, 131072, 0xffffffff, 0x80000000, rng.randrange(1 << 32)])
    if kind == "longlong":
        return rng.choice([0, 1, (1 << 64) - 1, 1 << 63, rng.randrange(1 << 64)])
    if kind == "shortstr":
        return gen_str(rng, 255, 255)
    if kind == "longstr":
        return rng.choice([b"", b"PLAIN AMQPLAIN", b"\x00guest\x00guest", rand_bytes(rng, rng.randint(0, 600)), rand_bytes(rng, 5000)]) \
            if rng.random() < 0.9 else rand_bytes(rng, 70000)
    if kind == "table":
        return gen_table(rng, 2) if rng.random() < 0.85 else every_type_table()
    if kind == "timestamp":
        return rng.choice([0, 1, 1700000000, 253402300799, -1])
    raise ValueError(kind)


def gen_args(rng, cls, meth, fix=None):
    fix = fix or {}
    return [fix[n] if n in fix else gen_arg(rng, k, n) for n, k in SPEC[(cls, meth)][1]]


def gen_props(rng, names=None):
    if names is None:
        names = [n for n in PROPS if rng.random() < 0.4]
    props = {}
    for n in names:
        k = PROP_KIND.get(n, "shortstr")
        props[n] = gen_arg(rng, k, n)
    return props


def gen_message(rng, side, ch, kind="auto", body=None, split=None, props=None, hb=None):
    """Events of one content-carrying method: method, header, body frames."""
    if kind == "auto":
        kind = "publish" if side == "c" else rng.choice(["deliver", "deliver", "return", "get-ok"])
    key = {v: k for k, v in CONTENT.items()}[kind]
    if body is None:
        body = rand_bytes(rng, rng.choice([1, 1, 2, 17, 100, 511, 512]))
    if split is None:
        split = [len(body)] if body else []
    evs = [Ev(side, "method", ch, key[0], key[1], gen_args(rng, *key)),
           Ev(side, "header", ch, 60, size=len(body), props=gen_props(rng) if props is None else props)]
    pos = 0
    for n in split:
        evs.append(Ev(side, "body", ch, data=body[pos:pos + n]))
        pos += n
    if hb is None:
        hb = rng.random() < 0.25
    if hb:
        # heartbeats may come between any two frames, also inside a message
        evs.insert(rng.randint(1, len(evs) - 1) if len(evs) > 1 else 1, Ev(side, "hb"))
    return evs


UNSUPPORTED_C = [(60, 10), (60, 70), (60, 80), (60, 90), (60, 100), (60, 110), (60, 120), (90, 10), (90, 20), (90, 30), (85, 10),
                 (40, 20), (40, 30), (40, 40), (50, 30), (50, 40), (50, 50), (20, 20), (20, 21), (20, 40), (20, 41), (10, 21)]
UNSUPPORTED_S = [(60, 11), (60, 72), (60, 80), (60, 111), (60, 120), (90, 11), (90, 21), (90, 31), (85, 11), (40, 21), (40, 31), (40, 51),
                 (50, 31), (50, 41), (50, 51), (20, 20), (20, 21), (20, 40), (20, 41), (10, 20), (10, 60), (10, 61)]
CLIENT_RPC = [(20, 10), (40, 10), (50, 10), (50, 20), (60, 20), (60, 30)]


def gen_normal(rng, nch=None, size=None):
    """A well-formed conversation on which the dissector's design and the property agree:
    client-initiated requests each answered on their channel, at most one request per
    (channel, class, method family), single-frame bodies of 1..512 bytes whose frames follow
    their method directly on that half, unsupported methods (with and without content),
    heartbeats and the protocol header in between, several channels interleaved."""
    nch = nch or rng.choice([1, 2, 3, 6])
    chans = rng.sample(range(1, 65536), nch - 1) + [rng.choice([1, 65535])] if nch > 1 else [rng.choice([1, 7, 65535])]
    chans = list(dict.fromkeys(chans))
    units = []          # each unit: list of (events) that must stay in order; units of different channels interleave
    for ch in chans:
        seq = []
        fams = [k for k in CLIENT_RPC if rng.random() < 0.7]
        rng.shuffle(fams)
        if (20, 10) in fams:
            fams.remove((20, 10))
            fams.insert(0, (20, 10))
        for key in fams:
            rq = Ev("c", "method", ch, key[0], key[1], gen_args(rng, *key, fix={"no-wait": False}))
            rk = RPC[key]
            rs = Ev("s", "method", ch, rk[0], rk[1], gen_args(rng, *rk))
            seq.append([rq])
            seq.append([rs])
            for _ in range(rng.choice([0, 0, 1, 2])):
                seq.append(gen_message(rng, rng.choice("cs"), ch))
        for _ in range(rng.choice([0, 1, 3])):
            seq.append(gen_message(rng, rng.choice("cs"), ch))
        for _ in range(rng.choice([0, 1, 2, 4])):
            side = rng.choice("cs")
            key = rng.choice(UNSUPPORTED_C if side == "c" else UNSUPPORTED_S)
            seq.insert(rng.randint(0, len(seq)), [Ev(side, "method", ch, key[0], key[1], gen_args(rng, *key))])
        units.append(seq)
    # channel 0: connection open / close once each
    seq0 = []
    if rng.random() < 0.6:
        seq0 += [[Ev("c", "method", 0, 10, 40, gen_args(rng, 10, 40))], [Ev("s", "method", 0, 10, 41, gen_args(rng, 10, 41))]]
    if rng.random() < 0.5:
        seq0 += [[Ev("c", "method", 0, 10, 50, gen_args(rng, 10, 50))], [Ev("s", "method", 0, 10, 51, [])]]
    for _ in range(rng.choice([0, 1, 2])):
        seq0.insert(rng.randint(0, len(seq0)), [Ev(rng.choice("cs"), "hb")])
    if seq0:
        units.append(seq0)
    evs = [Ev("c", "proto")] if rng.random() < 0.8 else []
    # interleave the units; a group (message) is kept together on its half: no other frame of
    # the same half may come between its frames, frames of the other half may
    idx = [0] * len(units)
    while True:
        live = [i for i in range(len(units)) if idx[i] < len(units[i])]
        if not live:
            break
        i = rng.choice(live)
        evs += units[i][idx[i]]
        idx[i] += 1
    return Conv(evs, "normal")


def interleave_other_half(rng, conv):
    """Move frames of one half between the frames of a message of the other half (legal: the
    two directions are independent streams)."""
    evs = list(conv.evs)
    for _ in range(len(evs)):
        i = rng.randrange(len(evs) - 1) if len(evs) > 1 else 0
        if len(evs) > 1 and evs[i].side != evs[i + 1].side and evs[i].kind != "proto" and evs[i + 1].kind != "proto":
            a, b = evs[i], evs[i + 1]
            # swapping adjacent frames of different halves keeps both streams; keep request before reply
            if not (a.kind == "method" and b.kind == "method" and RPC.get((a.cls, a.meth)) == (b.cls, b.meth) and a.ch == b.ch):
                evs[i], evs[i + 1] = b, a
    return Conv(evs, conv.note)


def gen_feature(rng, which):
    """Conversations carrying exactly the trigger of one recorded finding class."""
    ch = rng.choice([1, 2, 9])
    if which == "handshake":
        evs = [Ev("c", "proto"),
               Ev("s", "method", 0, 10, 10, gen_args(rng, 10, 10, fix={"version-major": 0, "version-minor": 9})),
               Ev("c", "method", 0, 10, 11, gen_args(rng, 10, 11)),
               Ev("s", "method", 0, 10, 30, gen_args(rng, 10, 30)),
               Ev("c", "method", 0, 10, 31, gen_args(rng, 10, 31)),
               Ev("c", "method", 0, 10, 40, gen_args(rng, 10, 40)),
               Ev("s", "method", 0, 10, 41, gen_args(rng, 10, 41))]
    elif which == "collision":
        a = gen_args(rng, 50, 10, fix={"queue": b"first", "no-wait": rng.random() < 0.5})
        b = gen_args(rng, 50, 10, fix={"queue": b"second", "no-wait": False})
        evs = [Ev("c", "method", ch, 50, 10, a), Ev("c", "method", ch, 50, 10, b),
               Ev("s", "method", ch, 50, 11, gen_args(rng, 50, 11, fix={"queue": b"second"}))]
    elif which == "bodycap":
        body = rand_bytes(rng, rng.choice([513, 600, 4000]))
        evs = gen_message(rng, "c", ch, "publish", body=rand_bytes(rng, 5)) + gen_message(rng, "c", ch, "publish", body=body)
    elif which == "multiframe":
        body = rand_bytes(rng, rng.choice([2, 100, 512]))
        k = rng.randint(1, len(body) - 1)
        evs = gen_message(rng, rng.choice("cs"), ch, body=body, split=[k, len(body) - k])
    elif which == "emptybody":
        evs = gen_message(rng, "c", ch, "publish", body=b"", split=[]) + gen_message(rng, "s", ch, "deliver", body=b"", split=[])
    elif which == "interleave":
        m1 = gen_message(rng, "c", 1, "publish", body=b"one", hb=False)
        m2 = gen_message(rng, "c", 2, "publish", body=b"two", hb=False)
        evs = [m1[0], m2[0], m1[1], m2[1], m1[2], m2[2]] if rng.random() < 0.5 else \
            [m1[0], Ev("c", "method", 2, 60, 80, gen_args(rng, 60, 80)), m1[1], m1[2]]
    elif which == "server-init":
        if rng.random() < 0.5:
            evs = [Ev("s", "method", 0, 10, 50, gen_args(rng, 10, 50)), Ev("c", "method", 0, 10, 51, [])]
        else:
            evs = [Ev("s", "method", ch, 60, 30, gen_args(rng, 60, 30)), Ev("c", "method", ch, 60, 31, gen_args(rng, 60, 31))]
    elif which == "timestamp":
        evs = gen_message(rng, "c", ch, "publish", props={"timestamp": rng.choice([YEAR_10000, INT64_MAX, 1 << 40, INT64_MIN, YEAR_0 - 1]), "type": b"t"})
    else:
        raise ValueError(which)
    return Conv(evs, "feature:" + which)


FEATURES = ["handshake", "collision", "bodycap", "multiframe", "emptybody", "interleave", "server-init", "timestamp"]


def gen_method_sweep(rng):
    """One conversation per class/method of the specification with boundary-valued arguments;
    every bit combination of every method that has bits."""
    convs = []
    for (cls, meth), (name, sig) in sorted(SPEC.items()):
        bits = [n for n, k in sig if k == "bit"]
        combos = range(1 << len(bits)) if bits else [0]
        for variant in ("empty", "max"):
            for c in combos:
                fix = {b: bool(c >> i & 1) for i, b in enumerate(bits)}
                for n, k in sig:
                    if k == "shortstr":
                        fix[n] = b"" if variant == "empty" else rand_bytes(rng, 255)
                    elif k == "longstr":
                        fix[n] = b"" if variant == "empty" else rand_bytes(rng, 300)
                    elif k == "table":
                        fix[n] = [] if variant == "empty" else every_type_table()
                    elif k in ("octet", "short", "long", "longlong"):
                        w = {"octet": 8, "short": 16, "long": 32, "longlong": 64}[k]
                        fix[n] = 0 if variant == "empty" else (1 << w) - 1
                if len(bits) > 2 and variant == "max" and c not in (0, (1 << len(bits)) - 1) and rng.random() < 0.5:
                    continue
                side = "s" if (cls, meth) in REPLY_OF or (cls, meth) in SELF_PAIRED or (cls, meth) in ((60, 60), (60, 50), (60, 71)) else "c"
                if REPLY_OF.get((cls, meth)) in SELF_PAIRED:
                    side = "c"
                ch = 0 if cls == 10 else 1
                args = gen_args(rng, cls, meth, fix=fix)
                evs = []
                key = (cls, meth)
                if key in REPLY_OF:
                    rq = REPLY_OF[key]
                    evs.append(Ev("c" if side == "s" else "s", "method", ch, rq[0], rq[1], gen_args(rng, *rq, fix={"no-wait": False})))
                evs.append(Ev(side, "method", ch, cls, meth, args))
                if key in RPC:
                    rk = RPC[key]
                    evs.append(Ev("s" if side == "c" else "c", "method", ch, rk[0], rk[1], gen_args(rng, *rk)))
                if key in CONTENT:
                    body = rand_bytes(rng, 3)
                    evs += [Ev(side, "header", ch, 60, size=3, props=gen_props(rng)), Ev(side, "body", ch, data=body)]
                # a supported exchange after it on another channel shows that decoding went on undisturbed
                evs += [Ev("c", "method", 3, 50, 20, gen_args(rng, 50, 20, fix={"no-wait": False})), Ev("s", "method", 3, 50, 21, [])]
                convs.append(Conv(evs, "sweep:%s:%s:%d" % (name, variant, c)))
    return convs


def gen_props_sweep(rng, exhaustive=False):
    convs = []
    subsets = [[], list(PROPS)] + [[p] for p in PROPS] + [[p for p in PROPS if p != q] for q in PROPS]
    if exhaustive:
        subsets = [[p for i, p in enumerate(PROPS) if m >> i & 1] for m in range(1 << 14)]
    else:
        subsets += [[p for p in PROPS if rng.random() < 0.5] for _ in range(40)]
    for names in subsets:
        side = rng.choice("cs")
        evs = gen_message(rng, side, 1, "publish" if side == "c" else "deliver", props=gen_props(rng, names))
        convs.append(Conv(evs, "props:" + ",".join(names)))
    return convs


# ------------------------------------------------------------------------------------ running the implementation
def vh(ctx, mode, lines, extra=(), timeout=600):
    rc, out = ctx.vh("vh-amqp", [mode] + list(extra), inp="\n".join(lines) + "\n", timeout=timeout)
    res = []
    for l in out.split("\n"):
        if l.startswith("{"):
            try:
                res.append(json.loads(l))
            except ValueError:
                pass
    return rc, res, out


MODES = ("cs", "sc", "conv")


def conv_case(cid, conv, mode, rng=None, cuts=False):
    c, s = conv.stream("c"), conv.stream("s")
    if mode == "conv":
        cc, sc, order = conv.sched()
        return case_line(cid, c, s, cc, sc, 0, 0, order or "c")
    cc = sorted(rng.sample(range(1, len(c)), min(len(c) - 1, rng.choice([1, 2, 5])))) if cuts and len(c) > 1 else []
    sc = sorted(rng.sample(range(1, len(s)), min(len(s) - 1, rng.choice([1, 2, 5])))) if cuts and len(s) > 1 else []
    return case_line(cid, c, s, cc, sc, 0, 0, mode)


def judge(conv, mode, out):
    """The C05 oracle on one run.  Returns (verdict, classes, detail): verdict is 'ok',
    'known' (the run differs from the property's report exactly as the recorded design
    limitations whose triggers are present predict) or 'violation'."""
    if out["c"]["out"] != "eof" or out["s"]["out"] != "eof":
        return "violation", set(), "a well-formed stream did not end with end-of-stream: client %s, server %s" % (out["c"], out["s"])
    obs = observed_items(out)
    ideal = ideal_report(conv, mode)
    design, residue, _ = design_report(conv, mode)
    fs = features(conv, mode)
    if out["residue"] != residue:
        return "violation", fs, "matcher residue %s, expected %s" % (out["residue"], residue)
    if same_items(obs, ideal, ordered=False) and same_items(obs, design, ordered=True, with_by=True):
        return "ok", fs, ""
    if same_items(obs, design, ordered=True, with_by=True):
        if fs:
            return "known", fs, "items follow the dissector's design, which differs from the exact report"
        return "violation", fs, "items differ from the exact report and no recorded limitation is triggered"
    return "violation", fs, "items differ from both the exact report and the dissector's documented design"


def describe_items(items):
    return [{"request": i["rqm"], "response": i["rsm"], "rq": repr(sorted(i["rq"].items()))[:400], "rs": repr(sorted(i["rs"].items()))[:200],
             "ci": i["ci"], "by": i.get("by")} for i in items]


# ------------------------------------------------------------------------------------ harness output -> Coq terms (K)
NAME2KEY = {v[0]: k for k, v in SPEC.items()}


def coq_bytes(b):
    # byte constructors elaborate about three times faster than numerals through `bs`
    return "[%s]" % ";".join("x%02x" % x for x in b)


def coq_z(n):
    return "(%d)%%Z" % n


def coq_fv_canon(c):
    (k, v), = [(k, v) for k, v in c.items() if k != "w"]
    if k == "t":
        return "FBool %s" % ("true" if v else "false")
    if k == "u":
        return "FByte %s" % v
    if k == "i":
        return "%s %s" % ({16: "FShort", 32: "FInt", 64: "FLong"}[c["w"]], coq_z(int(v)))
    if k == "f":
        return "FFloat %d" % int(v, 16)
    if k == "d":
        return "FDouble %d" % int(v, 16)
    if k == "D":
        return "FDecimal %s %s" % (v[0], coq_z(int(v[1])))
    if k == "s":
        return "FStr %s" % coq_bytes(bytes.fromhex(v))
    if k == "A":
        if v is None:
            return "FVoid"              # reported as null: what the model reports for the void field, never for an array
        return "FArr [%s]" % "; ".join(coq_fv_canon(x) for x in v)
    if k == "T":
        return "FTime %s" % coq_z(int(v))
    if k == "F":
        return "FTable %s" % coq_table_canon(v)
    if k == "x":
        return "FBytes %s" % coq_bytes(bytes.fromhex(v or ""))
    if k == "V":
        return "FVoid"
    raise ValueError(c)


def coq_table_canon(ents):
    return "[%s]" % "; ".join("(%s, %s)" % (coq_bytes(bytes.fromhex(k)), coq_fv_canon(x)) for k, x in ents)


def coq_arg_canon(kind, c):
    (k, v), = [(k, v) for k, v in c.items() if k != "w"]
    if kind in ("octet", "short", "long", "longlong"):
        return "%s %s" % ({"octet": "AOctet", "short": "AShort", "long": "ALong", "longlong": "ALongLong"}[kind], v)
    if kind == "shortstr":
        return "AShortStr %s" % coq_bytes(bytes.fromhex(v))
    if kind == "longstr":
        return "ALongStr %s" % coq_bytes(bytes.fromhex(v))
    if kind == "table":
        return "ANull" if v is None else "ATable %s" % coq_table_canon(v)
    if kind == "bit":
        return "ABit %s" % ("true" if v else "false")
    if kind == "timestamp":
        return "ATime %s" % coq_z(int(v))
    raise ValueError(kind)


def coq_view(name, c):
    if name == EMPTY:
        return "(0, [])"
    cls, meth = NAME2KEY[name]
    kinds = {camel(n): k for n, k in SPEC[(cls, meth)][1]}
    args = []
    for fname, val in c["R"]:
        if fname == "Properties":
            pk = {camel(n): PROP_KIND.get(n, "shortstr") for n in PROPS}
            args += [coq_arg_canon(pk[pn], pv) for pn, pv in val["R"]]
        elif fname == "Body":
            args.append("ALongStr %s" % coq_bytes(bytes.fromhex(val["x"] or "")))
        else:
            args.append(coq_arg_canon(kinds[fname], val))
    return "(%d, [%s])" % (cls * 1000 + meth, "; ".join(args))


def coq_case(line, out, normal=False):
    """One kcase term from the case given to the harness and what it printed; None when the
    case cannot be expressed (schedule-driven order)."""
    ci = json.loads(line)
    if ci["order"] not in ("cs", "sc"):
        return None
    oc = {"eof": "OEof", "error": "OError", "panic": "(OPanic 0)", "noterm": "ONoTerm"}
    tails = ["TEof", "TErrOnce", "TErrForever"]
    items = []
    for it in out["items"]:
        swapped = it["ci"] != list(CLIENT + SERVER)
        items.append("mk_item %s %s %s %s" % ("true" if it["by"] == "c" else "false", coq_view(it["rqm"], it["rq"]),
                                              coq_view(it["rsm"], it["rs"]), "true" if swapped else "false"))
    res = []
    for r in out["residue"]:
        key, kind, name = r.split("|")
        ch, cls, fam = [int(x) for x in key.split("_")[4:]]
        mid = 0 if name == EMPTY else NAME2KEY[name][0] * 1000 + NAME2KEY[name][1]
        res.append((ch, cls, fam, kind == "req", mid))
    res.sort()
    res_t = "; ".join("(%d, %d, %d, %s, %d)" % (a, b, c, "true" if d else "false", e) for a, b, c, d, e in res)
    return ("{| k_client_first := %s; k_c := %s; k_ct := %s; k_s := %s; k_st := %s;\n   k_obs := (%s, %s, [%s], [%s]); k_normal := %s |}" % (
        "true" if ci["order"] == "cs" else "false", coq_bytes(bytes.fromhex(ci["c"])), tails[ci["ct"]],
        coq_bytes(bytes.fromhex(ci["s"])), tails[ci["st"]], oc[out["c"]["out"]], oc[out["s"]["out"]], ";\n     ".join(items), res_t,
        "true" if normal and ci["order"] == "cs" else "false"))


def k_check(ctx, name, pairs, chunk=400, maxbytes=2000, budget=3000000, normal_ids=()):
    """Model <-> implementation correspondence: the model, evaluated inside Coq on the same
    streams, must reproduce outcome classes, items and residue.  Returns indices (into pairs)
    on which they differ, or None when the case file did not compile."""
    import vlib
    terms, idx, total = [], [], 0
    for i, (line, out) in enumerate(pairs):
        if len(line) > 4 * maxbytes:
            continue
        t = coq_case(line, out, normal=out.get("id") in normal_ids)
        if t is not None and total + len(t) <= budget:       # elaborating the literals costs ~7 us per character
            terms.append(t)
            idx.append(i)
            total += len(t)
    bad, spec_bad = [], []
    for k in range(0, len(terms), chunk):
        src = ("Require Import V.Base.Prelude V.Amqp.AmqpTypes V.Amqp.AmqpModel V.Amqp.AmqpEq.\nLocal Open Scope N_scope.\n"
               "Definition cases : list kcase := [\n" + ";\n".join(terms[k:k + chunk]) + "].\n"
               "Definition M := Eval vm_compute in failing kcheck_obs cases.\nPrint M.\n"
               "Definition S := Eval vm_compute in failing kcheck_spec cases.\nPrint S.\n")
        rc, out = ctx.coq_run("%s_%d" % (name, k), src, timeout=900)
        got = vlib.parse_coq_list_of_nat(out, "M")
        got_s = vlib.parse_coq_list_of_nat(out, "S")
        if rc != 0 or got is None or got_s is None:
            ctx.log(out[-800:])
            return None, len(terms)
        bad += [idx[k + j] for j in got]
        spec_bad += [idx[k + j] for j in got_s]
    ctx.amqp_spec_mismatches = spec_bad
    return bad, len(terms)


# ------------------------------------------------------------------------------------ malformed inputs
TOKENS = [b"\x01", b"\x02", b"\x03", b"\x08", b"\xce", b"\x00\x0a", b"\x00\x14", b"\x00\x28", b"\x00\x32", b"\x00\x3c",
          b"\x00\x55", b"\x00\x5a", b"\x00\x0b", b"\x00\x1e", b"\x00\x1f", PROTO_HEADER, b"AMQP", b"\x00\x00\x00\x00", b"\x00\x00\x00\x05",
          b"\xff\xff\xff\xff", b"\x7f\xff\xff\xff", b"\x80\x00\x00\x00", b"\x00\x00\x00\x01", b"\x00\x01", b"\x00\x00",
          b"F", b"A", b"S", b"x", b"t", b"b", b"s", b"I", b"l", b"f", b"d", b"D", b"T", b"V", b"\x00", b"\xff", b"\x01k",
          b"\x00\x00\x00\x00\x00\x00\x02\x01", b"\x00\x00\x00\x00\x00\x00\x00\x03", b"\xff\xfc", b"\x20\x00"]


def gen_payload_noise(rng, n):
    out = bytearray()
    while len(out) < n:
        r = rng.random()
        if r < 0.6:
            out += rng.choice(TOKENS)
        elif r < 0.8:
            out += bytes([rng.randrange(256)])
        else:
            k = rng.randrange(4)
            out += bytes([k]) + rand_bytes(rng, k, True)
    return bytes(out[:n])


def gen_shaped_garbage(rng):
    """Frames that are well-formed on the outside (header, size, end octet) around payloads that
    are not: the payload parsers see arbitrary token-biased bytes."""
    out = bytearray()
    for _ in range(rng.randint(1, 6)):
        typ = rng.choice([1, 1, 1, 2, 2, 3, 8, rng.randrange(256)])
        ch = rng.choice([0, 1, 65535])
        r = rng.random()
        if typ == 1 and r < 0.8:
            cls, meth = rng.choice(sorted(SPEC))
            payload = struct.pack(">HH", cls, meth) + gen_payload_noise(rng, rng.choice([0, 1, 3, 8, 20, 60]))
            if r < 0.3:        # a real argument list cut or extended
                good = bytes(enc_method(ch, cls, meth, gen_args(rng, cls, meth)).b)[7:-1]
                payload = good[:rng.randint(4, len(good))] + gen_payload_noise(rng, rng.choice([0, 0, 2]))
        elif typ == 2 and r < 0.8:
            payload = struct.pack(">HHQ", 60, 0, rng.choice([0, 3, 512, 513, 1 << 63])) + struct.pack(">H", rng.choice([0, 0xfffc, 0x2000, 0xa000, rng.randrange(65536)])) \
                + gen_payload_noise(rng, rng.choice([0, 1, 5, 30]))
        else:
            payload = gen_payload_noise(rng, rng.choice([0, 1, 4, 9, 40]))
        end = b"\xce" if rng.random() < 0.9 else bytes([rng.randrange(256)])
        size = len(payload) if rng.random() < 0.9 else rng.choice([0, len(payload) + 1, max(0, len(payload) - 1), 16000001, 0xffffffff])
        out += bytes([typ]) + struct.pack(">HI", ch, size) + payload + end
    return bytes(out)


def gen_random_stream(rng):
    r = rng.random()
    if r < 0.45:
        return gen_shaped_garbage(rng)
    if r < 0.8:
        return b"".join(rng.choice(TOKENS) if rng.random() < 0.8 else rand_bytes(rng, rng.randint(1, 4)) for _ in range(rng.randint(1, 40)))
    return rand_bytes(rng, rng.randint(0, 60))


def corrupt(rng, data):
    """One random corruption of a stream: substitution of one or several bytes, insertion,
    deletion, or truncation."""
    if not data:
        return data
    b = bytearray(data)
    r = rng.random()
    if r < 0.5:
        i = rng.randrange(len(b))
        b[i] = rng.choice([0, 1, 0x7f, 0x80, 0xff, 0xce, ord("A"), ord("F"), ord("x"), rng.randrange(256), b[i] ^ (1 << rng.randrange(8))])
    elif r < 0.7:
        for _ in range(rng.randint(2, 6)):
            b[rng.randrange(len(b))] = rng.randrange(256)
    elif r < 0.8:
        i = rng.randrange(len(b) + 1)
        b[i:i] = rng.choice(TOKENS)
    elif r < 0.9:
        i = rng.randrange(len(b))
        del b[i:i + rng.choice([1, 1, 2, 4, 7])]
    else:
        del b[rng.randrange(len(b)):]
    return bytes(b)


def small_convs(rng, n, maxlen=420):
    """A fixed-size mix of short conversations (normal ones and one per finding class)."""
    out = [gen_feature(rng, f) for f in FEATURES]
    # every use enumerates cuts / corruptions of these streams: keep them small (a feature
    # conversation with a multi-frame body can be tens of kilobytes)
    out = [c for c in out if len(c.stream("c")) <= 4 * maxlen and len(c.stream("s")) <= 4 * maxlen]
    while len(out) < n + len(FEATURES):
        c = gen_normal(rng, nch=rng.choice([1, 2]))
        if 40 < len(c.stream("c")) <= maxlen and len(c.stream("s")) <= maxlen:
            out.append(c)
    rng.shuffle(out)
    return out[:n]


def _ok_outcome(o):
    return o["out"] in ("eof", "error")


def _replay(ctx, what, line, out, why):
    return {"kind": what, "case": json.loads(line), "observed": {"c": out["c"], "s": out["s"], "items": len(out.get("items", [])),
            "residue": out.get("residue")}, "why": why,
            "how": "echo '<case as one JSON line>' | work/bin/vh-amqp run   (check.py C05 --replay <this file> does it)"}


# ------------------------------------------------------------------------------------ C01 share
def c01_cases(ctx, rng=None):
    """(line, kind, expectation) triples: every prefix of a few conversations on either half,
    corruptions of conversations, token-biased arbitrary streams."""
    rng = rng or ctx.rng
    quick = ctx.tier == "quick"
    cases = []
    convs = small_convs(rng, 4 if quick else 12, 300 if quick else 600)
    for ci, conv in enumerate(convs):
        c, s = conv.stream("c"), conv.stream("s")
        for side, data in (("c", c), ("s", s)):
            ends, pos = [], 0
            for e in conv.frames(side):
                pos += len(e.wire())
                ends.append((pos, e))
            for k in range(len(data) + 1):
                keep = {id(e) for p, e in ends if p <= k}
                pre = Conv([e for e in conv.evs if e.side != side or id(e) in keep])
                line = case_line("pre%d%s%d" % (ci, side, k), data[:k] if side == "c" else c, data[:k] if side == "s" else s, order="cs")
                cases.append((line, "prefix", pre))
    base = small_convs(rng, 6 if quick else 40, 500)
    for i in range(300 if quick else 6000):
        conv = rng.choice(base)
        c, s = conv.stream("c"), conv.stream("s")
        if rng.random() < 0.5:
            c = corrupt(rng, c)
        else:
            s = corrupt(rng, s)
        if rng.random() < 0.2:
            c, s = corrupt(rng, c), corrupt(rng, s)
        cases.append((case_line("cor%d" % i, c, s, ct=rng.choice([0, 0, 1, 2]), st=rng.choice([0, 0, 1, 2]), order=rng.choice(["cs", "sc"])), "corrupt", None))
    # every length field of a conversation rich in tables replaced by the boundary values
    rich = Conv(gen_method_sweep_one(rng, 50, 10) + [Ev("s", "method", 1, 50, 11, gen_args(rng, 50, 11))] + gen_message(rng, "c", 1, "publish"), "tables")
    for side in "cs":
        data = rich.stream(side)
        for off, w, what in rich.size_fields(side):
            for v in boundary_values(w, len(data) - off - w):
                mut = data[:off] + v.to_bytes(w, "big") + data[off + w:]
                cases.append((case_line("bnd%s%d_%d" % (side, off, v), mut if side == "c" else rich.stream("c"),
                                        mut if side == "s" else rich.stream("s")), "boundary", None))
    # ... and two of them at once (sampled pairs, each value 0 / all ones / 7)
    for side in "cs":
        data = rich.stream(side)
        fields = rich.size_fields(side)
        pairs = [(a, b) for i, a in enumerate(fields) for b in fields[i + 1:]]
        for (o1, w1, _), (o2, w2, _) in (rng.sample(pairs, min(len(pairs), 120 if quick else 3000))):
            for v1 in (0, -1, 7):
                for v2 in (0, -1, 7):
                    mut = bytearray(data)
                    mut[o1:o1 + w1] = (v1 % (1 << (8 * w1))).to_bytes(w1, "big")
                    mut[o2:o2 + w2] = (v2 % (1 << (8 * w2))).to_bytes(w2, "big")
                    cases.append((case_line("bp%s%d_%d_%d_%d" % (side, o1, o2, v1, v2), bytes(mut) if side == "c" else rich.stream("c"),
                                            bytes(mut) if side == "s" else rich.stream("s")), "boundary-pair", None))
    for i in range(300 if quick else 20000):
        cases.append((case_line("rnd%d" % i, gen_random_stream(rng), gen_random_stream(rng), ct=rng.choice([0, 0, 1, 2]),
                                st=rng.choice([0, 0, 1, 2]), order=rng.choice(["cs", "sc"])), "random", None))
    return cases


def c01(ctx, collect=None):
    """AMQP share of C01 on the implementation: no panic and no non-termination on any input;
    what was completely received before a cut is still reported.  Returns the (line, output)
    pairs (also appended to `collect` for the correspondence check)."""
    cases = c01_cases(ctx)
    rc, res, raw = vh(ctx, "run", [c[0] for c in cases])
    pairs = []
    if rc != 0 or len(res) != len(cases):
        # a crash the harness could not recover from: the case after the last answered one
        bad = cases[len(res)][0] if len(res) < len(cases) else None
        ctx.violation({"kind": "amqp-c01-crash", "case": json.loads(bad) if bad else None, "output_tail": raw[-1500:],
                       "why": "the dissector took the process down (not a recoverable panic)"})
        return pairs
    reported = 0
    for (line, kind, exp), out in zip(cases, res):
        pairs.append((line, out))
        nontrivial = len(out["items"]) > 0 or kind != "random"
        ctx.count_case(("amqp-c01", line), nontrivial, "amqp-c01-" + kind)
        why = None
        if not _ok_outcome(out["c"]) or not _ok_outcome(out["s"]):
            why = "outcome client=%s server=%s" % (out["c"], out["s"])
        elif kind == "prefix":
            design, residue, _ = design_report(exp, "cs")
            if not same_items(observed_items(out), design, ordered=True, with_by=True) or out["residue"] != residue:
                why = "the items for a cut stream differ from the report of its complete frames"
        if why and reported < 3:
            reported += 1
            ctx.violation(_replay(ctx, "amqp-c01-" + kind, line, out, why))
    ctx.sample({"kind": "amqp-c01", "case": json.loads(cases[len(cases) // 2][0]), "outcome": [res[len(cases) // 2]["c"]["out"], res[len(cases) // 2]["s"]["out"]]})
    if collect is not None:
        collect += pairs
    return pairs


# ------------------------------------------------------------------------------------ C02 share
CAP = 16000000


def boundary_values(width, remaining):
    vals = [0, 1, remaining - 1, remaining, remaining + 1, 65535, 65536, CAP, CAP + 1, 512, 513, 0x7fffffff, -1, 0xffffffff]
    out = []
    for v in vals:
        v &= (1 << (8 * width)) - 1
        if v not in out:
            out.append(v)
    return out


def c02_cases(ctx, rng=None):
    rng = rng or ctx.rng
    quick = ctx.tier == "quick"
    convs = small_convs(rng, 5 if quick else 30, 500) + [Conv(gen_method_sweep_one(rng, 10, 10) + gen_message(rng, "c", 1, "publish"), "tables")]
    cases = []
    for ci, conv in enumerate(convs):
        streams = {"c": conv.stream("c"), "s": conv.stream("s")}
        for side in "cs":
            data = streams[side]
            fields = conv.size_fields(side)
            if quick and len(fields) > 40:
                fields = rng.sample(fields, 40)
            for off, w, what in fields:
                remaining = len(data) - off - w
                for v in boundary_values(w, remaining):
                    mut = data[:off] + v.to_bytes(w, "big") + data[off + w:]
                    for tail in (0, 1, 2):
                        c = mut if side == "c" else streams["c"]
                        s = mut if side == "s" else streams["s"]
                        cases.append((case_line("sz%d%s%d_%d_%d" % (ci, side, off, v, tail), c, s, ct=tail, st=tail, order="cs"), what, len(c) + len(s)))
    # ends of stream by an error that says "time-out" (once, and on every further read): the half ends, whatever the kind of error
    for ci, conv in enumerate(convs):
        for tail in (3, 4):
            cases.append((case_line("to%d_%d" % (ci, tail), conv.stream("c"), conv.stream("s"), ct=tail, st=tail, order="cs"), "timeout-tail", len(conv.stream("c")) + len(conv.stream("s"))))
    # two size fields at once (an outer and an inner declared size both far beyond the bytes present): every pair of the size
    # fields of the conversation with a table of every field type, both set to the largest positive value of their width
    conv = convs[-1]
    for side in "cs":
        data = conv.stream(side)
        fields = conv.size_fields(side)
        pairs = [(a, b) for i, a in enumerate(fields) for b in fields[i + 1:]]
        wide = [p_ for p_ in pairs if p_[0][1] >= 4 and p_[1][1] >= 4]          # all pairs of 32-bit sizes (frame, table, array, long string, bytes)
        rest = [p_ for p_ in pairs if not (p_[0][1] >= 4 and p_[1][1] >= 4)]
        if len(wide) > (600 if quick else 6000):
            wide = rng.sample(wide, 600 if quick else 6000)
        pairs = wide + rng.sample(rest, min(len(rest), 100 if quick else 2000))
        for (o1, w1, what1), (o2, w2, what2) in pairs:
            mut = bytearray(data)
            if o1 > o2:
                (o1, w1), (o2, w2) = (o2, w2), (o1, w1)
            # the earlier (possibly enclosing) field gets the largest positive value, the later one a large value below it
            mut[o1:o1 + w1] = ((1 << (8 * w1 - 1)) - 1).to_bytes(w1, "big")
            mut[o2:o2 + w2] = (1 << (8 * w2 - 4)).to_bytes(w2, "big")
            c = bytes(mut) if side == "c" else conv.stream("c")
            s_ = bytes(mut) if side == "s" else conv.stream("s")
            cases.append((case_line("pair%s%d_%d" % (side, o1, o2), c, s_, ct=0, st=0, order="cs"), what1 + "+" + what2, len(c) + len(s_)))
    # many frame headers each declaring the cap, with nothing behind them; nested length fields
    for tail in (0, 1, 2):
        hdr = b"\x03\x00\x01" + CAP.to_bytes(4, "big")
        cases.append((case_line("caps%d" % tail, hdr * 3000, hdr, ct=tail, st=tail), "frame", 7 * 3001))
        deep = b"\x01\x00\x01\x00\x00\x01\x00" + b"\x00\x32\x00\x0a\x00\x00\x00\x00" + b"\x7f\xff\xff\xff" + b"\x01kF\x7f\xff\xff\xff" * 40
        cases.append((case_line("deep%d" % tail, deep * 50, b"", ct=tail, st=tail), "table", len(deep) * 50))
    # very many small units at two sizes (N and 4N): a body in thousands of one-byte frames (publish on the client half,
    # deliver on the server half), thousands of heartbeats, thousands of small pipelined methods with their replies.
    # Every unit is reported or skipped on its own, so the cost per unit may be large; what must not happen is a cost
    # per unit that grows with the units already seen: judged by the ratio between the two sizes (c02 below).
    # field arrays / field tables nested N and 4N deep in the arguments of one queue.declare (a frame of 5 / 7 bytes per level)
    def nested_frame(depth, kind):
        inner = b""
        for _ in range(depth):
            inner = (b"A" if kind == "A" else b"\x01kF") + len(inner).to_bytes(4, "big") + inner
        table = (b"\x01k" + inner) if kind == "A" else inner
        args = (50).to_bytes(2, "big") + (10).to_bytes(2, "big") + b"\x00\x00\x01q\x00" + len(table).to_bytes(4, "big") + table
        return b"AMQP\x00\x00\x09\x01" + b"\x01\x00\x01" + len(args).to_bytes(4, "big") + args + b"\xce"
    for kind, name, sizes in (("A", "nested-arrays", (15000, 60000)), ("F", "nested-tables", (1000, 4000))):
        for d in sizes:
            c = nested_frame(d, kind)
            cases.append((case_line("%s%d" % (name, d), c, b"", ct=0, st=0), "many-%s:%d" % (name, d), len(c)))
    for nsmall in ((1500, 6000) if quick else (10000, 40000)):
        for side in "cs":
            body = bytes(rng.randrange(256) for _ in range(50)) * (nsmall // 50)
            conv = Conv(gen_message(rng, side, 1, "publish" if side == "c" else "deliver", body=body, split=[1] * len(body), hb=False), "many-body-frames")
            c, s = conv.stream("c"), conv.stream("s")
            cases.append((case_line("manybody%s%d" % (side, nsmall), c, s, ct=0, st=0), "many-body-frames-%s:%d" % (side, nsmall), len(c) + len(s)))
        hbs = Conv([Ev("c", "hb") for _ in range(nsmall)] + [Ev("s", "hb") for _ in range(nsmall)], "many-heartbeats")
        c, s = hbs.stream("c"), hbs.stream("s")
        cases.append((case_line("manyhb%d" % nsmall, c, s, ct=0, st=0), "many-heartbeats:%d" % nsmall, len(c) + len(s)))
        evs = []
        for i in range(nsmall // 4):
            evs += [Ev("c", "method", 1 + i % 60000, 50, 10, gen_args(rng, 50, 10)), Ev("s", "method", 1 + i % 60000, 50, 11, gen_args(rng, 50, 11))]
        many = Conv(evs, "many-methods")
        c, s = many.stream("c"), many.stream("s")
        cases.append((case_line("manymeth%d" % nsmall, c, s, ct=0, st=0), "many-methods:%d" % nsmall, len(c) + len(s)))
    return cases


def gen_method_sweep_one(rng, cls, meth):
    return [Ev("s" if (cls, meth) in ((10, 10), (10, 30)) else "c", "method", 0 if cls == 10 else 1, cls, meth,
               gen_args(rng, cls, meth, fix={n: every_type_table() for n, k in SPEC[(cls, meth)][1] if k == "table"}))]


def c02(ctx):
    """AMQP share of C02 on the implementation: every size/length field replaced by the boundary
    values, three tails, in a child process under an address-space limit; budget
    alloc <= 64*n + 96 MiB, time <= 2 us * n + 0.5 s (dissection plus the later stages)."""
    cases = c02_cases(ctx)
    todo = list(cases)
    done = 0
    reported = 0
    worst = {"alloc": 0, "us": 0}
    scaling = {}
    while todo:
        rc, res, raw = vh(ctx, "cost", [c[0] for c in todo], extra=("-mem", "1536"), timeout=900)
        outs = [r for r in res if "start" not in r]
        starts = [r for r in res if "start" in r]
        for (line, what, n), out in zip(todo, outs):
            done += 1
            ctx.count_case(("amqp-c02", line), True, "amqp-c02-" + what)
            alloc, us = out.get("alloc", 0), out.get("us", 0)
            worst["alloc"], worst["us"] = max(worst["alloc"], alloc), max(worst["us"], us)
            why = None
            if what.startswith("many-"):
                scaling.setdefault(what.split(":")[0], {})[int(what.split(":")[1])] = (alloc, us, n, line, out)
            if not _ok_outcome(out["c"]) or not _ok_outcome(out["s"]):
                why = "outcome client=%s server=%s" % (out["c"], out["s"])
            elif what.startswith("many-"):
                pass
            elif alloc > 64 * n + (96 << 20):
                why = "allocated %d bytes for %d bytes of input" % (alloc, n)
            elif us > 2 * n + 500000:
                why = "took %d us for %d bytes of input" % (us, n)
            if why and reported < 3:
                reported += 1
                r = _replay(ctx, "amqp-c02-" + what, line, out, why)
                r["how"] = "echo '<case>' | work/bin/vh-amqp cost -mem 1536"
                ctx.violation(r)
        if len(outs) < len(todo):
            # the child died (out of memory, fatal error) on the case it announced last
            killer = todo[len(outs)]
            if reported < 3:
                reported += 1
                ctx.violation({"kind": "amqp-c02-killed", "case": json.loads(killer[0]), "field": killer[1],
                               "why": "the child process was killed (address-space limit 1536 MiB) while dissecting this input",
                               "output_tail": raw[-600:], "how": "echo '<case>' | work/bin/vh-amqp cost -mem 1536"})
            todo = todo[len(outs) + 1:]
        else:
            todo = []
    # four times the units: at most six times the cost (quadratic growth gives sixteen), plus a constant
    ratios = {}
    for shape, by_size in sorted(scaling.items()):
        if len(by_size) != 2:
            continue
        (n1, a), (n2, b) = sorted(by_size.items())
        ratios[shape] = {"units": [n1, n2], "alloc": [a[0], b[0]], "us": [a[1], b[1]]}
        why = None
        if b[0] > 6 * a[0] + (64 << 20):
            why = "%d units allocate %d bytes, %d units %d bytes: the cost of a unit grows with the units before it" % (n1, a[0], n2, b[0])
        elif b[1] > 8 * a[1] + 1500000:
            why = "%d units take %d us, %d units %d us: the cost of a unit grows with the units before it" % (n1, a[1], n2, b[1])
        if why and shape in ("many-nested-arrays", "many-nested-tables") and ctx.is_known("amqp-nesting-cost"):
            continue
        if why and reported < 3:
            reported += 1
            r = _replay(ctx, "amqp-c02-" + shape, b[3], b[4], why)
            r["how"] = "echo '<case>' | work/bin/vh-amqp cost -mem 1536"
            ctx.violation(r)
    ctx.cov["amqp_c02_scaling"] = ratios
    ctx.cov["amqp_c02_worst"] = worst
    ctx.sample({"kind": "amqp-c02", "cases": len(cases), "worst_alloc": worst["alloc"], "worst_us": worst["us"]})
    return done


# ------------------------------------------------------------------------------------ C08 share
def _obs_key(out):
    return json.dumps([out["c"]["out"], out["s"]["out"], [[i["by"], i["rqm"], i["rq"], i["rsm"], i["rs"], i["ci"]] for i in out["items"]],
                       out["residue"]], sort_keys=True)


def c08(ctx):
    """AMQP share of C08 on the implementation: the same bytes in any segmentation give the same
    items, outcome classes and residue."""
    rng = ctx.rng
    quick = ctx.tier == "quick"
    convs = small_convs(rng, 8 if quick else 60, 260 if quick else 500)
    streams = []
    for i, conv in enumerate(convs):
        c, s = conv.stream("c"), conv.stream("s")
        if i % 3 == 2:
            c, s = corrupt(rng, c), corrupt(rng, s)
        streams.append((c, s, rng.choice([0, 0, 1, 2])))
    lines, groups = [], []
    for gi, (c, s, tail) in enumerate(streams):
        start = len(lines)
        lines.append(case_line("g%d" % gi, c, s, ct=tail, st=tail))
        # every two-piece split (sampled for streams beyond 600 bytes: the case text is quadratic otherwise)
        ck = range(1, len(c)) if len(c) <= 600 else sorted(rng.sample(range(1, len(c)), 300))
        sk = range(1, len(s)) if len(s) <= 600 else sorted(rng.sample(range(1, len(s)), 300))
        for k in ck:
            lines.append(case_line("g%dc%d" % (gi, k), c, s, cc=[k], ct=tail, st=tail))
        for k in sk:
            lines.append(case_line("g%ds%d" % (gi, k), c, s, sc=[k], ct=tail, st=tail))
        lines.append(case_line("g%dbytes" % gi, c, s, cc=list(range(1, len(c))), sc=list(range(1, len(s))), ct=tail, st=tail))
        for j in range(25 if quick else 90):
            cc = sorted(rng.sample(range(1, max(2, len(c))), min(max(0, len(c) - 1), rng.randint(1, 12)))) if len(c) > 1 else []
            sc = sorted(rng.sample(range(1, max(2, len(s))), min(max(0, len(s) - 1), rng.randint(1, 12)))) if len(s) > 1 else []
            lines.append(case_line("g%dr%d" % (gi, j), c, s, cc=cc, sc=sc, ct=tail, st=tail))
        groups.append((start, len(lines)))
    rc, res, raw = vh(ctx, "run", lines)
    if rc != 0 or len(res) != len(lines):
        ctx.violation({"kind": "amqp-c08-crash", "output_tail": raw[-1500:], "why": "harness died"})
        return 0
    reported = 0
    for a, b in groups:
        ref = _obs_key(res[a])
        for i in range(a, b):
            ctx.count_case(("amqp-c08", lines[i]), True, "amqp-c08")
            if _obs_key(res[i]) != ref and reported < 3:
                reported += 1
                r = _replay(ctx, "amqp-c08", lines[i], res[i], "this segmentation gives other items/outcome than the unsegmented stream")
                r["unsegmented"] = {"c": res[a]["c"], "s": res[a]["s"], "items": len(res[a]["items"]), "residue": res[a]["residue"]}
                ctx.violation(r)
    ctx.sample({"kind": "amqp-c08", "streams": len(streams), "segmentations": len(lines)})
    return len(lines)


# ------------------------------------------------------------------------------------ C11 share
def gen_any_roles(rng):
    """Parseable conversations beyond well-formed ones: any reported method from either side, so
    that every pairing the matcher can produce (a reply as request, two replies, ...) occurs;
    tables with non-finite floats and timestamps outside years 0..9999."""
    ch = rng.choice([0, 1])
    fam = rng.choice(sorted(set((c, m - m % 10) for c, m in SUPPORTED)))
    members = [k for k in sorted(SUPPORTED) if (k[0], k[1] - k[1] % 10) == fam]
    evs = []
    for _ in range(rng.randint(2, 5)):
        key = rng.choice(members)
        side = rng.choice("cs")
        finite = rng.random() < 0.7
        fix = {n: gen_table(rng, 2, finite) for n, k in SPEC[key][1] if k == "table"}
        if key in CONTENT:
            props = gen_props(rng)
            if "headers" in props:
                props["headers"] = gen_table(rng, 2, finite)
            if "timestamp" in props and not finite:
                props["timestamp"] = rng.choice([-62167219201, INT64_MIN, -62135596801, YEAR_10000 - 1, -(1 << 40)])
            evs += gen_message(rng, side, ch, CONTENT[key], props=props)
        else:
            evs.append(Ev(side, "method", ch, key[0], key[1], gen_args(rng, *key, fix=fix)))
    return Conv(evs, "roles")


STAGE_CLASSES = [
    ("json: unsupported value", "amqp-json-nonfinite-float"),
    ("year outside of range", "amqp-json-time-range"),
]


def stage_class(msg):
    for needle, cls in STAGE_CLASSES:
        if needle in msg:
            return cls
    return None


def c11(ctx, extra_lines=()):
    """AMQP share of C11 on the implementation: every item emitted for well-formed conversations,
    for conversations with arbitrary roles and value types, and for corrupted streams goes through
    Marshal -> Unmarshal -> Analyze -> Marshal/Unmarshal -> Summarize / Represent."""
    rng = ctx.rng
    quick = ctx.tier == "quick"
    lines = list(extra_lines)
    convs = gen_method_sweep(rng)[::3 if quick else 1] + gen_props_sweep(rng)[::2 if quick else 1] \
        + [gen_normal(rng) for _ in range(40 if quick else 400)] + [gen_feature(rng, f) for f in FEATURES] \
        + [gen_any_roles(rng) for _ in range(300 if quick else 5000)]
    for i, conv in enumerate(convs):
        lines.append(conv_case("w%d" % i, conv, rng.choice(["cs", "sc", "conv"]), rng))
    base = small_convs(rng, 10, 600)
    for i in range(200 if quick else 3000):
        conv = rng.choice(base)
        lines.append(case_line("x%d" % i, corrupt(rng, conv.stream("c")), corrupt(rng, conv.stream("s")), order=rng.choice(["cs", "sc"])))
    rc, res, raw = vh(ctx, "stage", lines)
    if rc != 0 or len(res) != len(lines):
        ctx.violation({"kind": "amqp-c11-crash", "case": json.loads(lines[len(res)]) if len(res) < len(lines) else None,
                       "output_tail": raw[-1500:], "why": "the process died in a later stage"})
        return 0
    nitems, reported, shapes, kinds = 0, 0, {}, set()
    for line, out in zip(lines, res):
        for k, it in enumerate(out["items"]):
            nitems += 1
            ctx.count_case(("amqp-c11", line, k), True, "amqp-c11-" + it["rqm"].replace(" ", "-"))
            _agg.note_c16(ctx, "amqp", it.get("c16"), {"family": "amqp", "how": "vh-amqp stage", "case": line, "item": k})
            msg = it.get("stage", "")
            if it.get("rep"):
                shapes[it["rep"]] = shapes.get(it["rep"], 0) + 1
            if not msg:
                continue
            cls = stage_class(msg)
            if cls and ctx.is_known(cls):
                continue
            kind = (it["rqm"], it["rsm"], msg[:70])
            if kind not in kinds:
                kinds.add(kind)
                ctx.log("amqp c11 failure:", kind)
            if reported < 3:
                reported += 1
                ctx.violation({"kind": "amqp-c11", "case": json.loads(line), "item": k, "request": it["rqm"], "response": it["rsm"],
                               "failure": msg, "how": "echo '<case>' | work/bin/vh-amqp stage"})
    ctx.cov["amqp_c11_items"] = nitems
    ctx.cov["amqp_c11_representation_shapes"] = shapes
    ctx.sample({"kind": "amqp-c11", "items": nitems, "null_sections": shapes})
    return nitems
