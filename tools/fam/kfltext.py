"""KFL text-level operations: macro expansion (C17) and redaction (C15).

Generators, the independent Python references (the property's own meaning, written without
looking at the Coq model) and the helpers shared by tools/props/C17.py and C15.py."""
import base64
import itertools
import json
import os
import re
import xml.etree.ElementTree as ET

import vlib

REDACTED = "[REDACTED]"


# ----------------------------------------------------------------------------------------------
# harness access
# ----------------------------------------------------------------------------------------------
def load_macros(ctx):
    """[(name, raw definition)] of every registered extension + the table kfl built at init."""
    rc, out = ctx.vh("vh-kfltext", ["macros"])
    o = json.loads(out.strip().splitlines()[-1])
    return [(m["name"], m["def"]) for m in o["extensions"]], o["table"]


def run_expand(ctx, texts, reps, shuffles, table=None, tag="t"):
    args = ["expand", str(reps), str(shuffles), str(ctx.seed)]
    if table is not None:
        path = os.path.join(ctx.work, "table_%s.json" % tag)
        with open(path, "w") as f:
            json.dump([{"name": n, "def": d} for n, d in table], f)
        args.append(path)
    inp = "".join(json.dumps(t) + "\n" for t in texts)
    rc, out = ctx.vh("vh-kfltext", args, inp=inp, timeout=1200)
    lines = [l for l in out.split("\n") if l.startswith("{")]
    if rc != 0 or len(lines) != len(texts):
        return None, out[-1500:]
    return [json.loads(l) for l in lines], ""


def run_redact(ctx, cases):
    inp = "".join(json.dumps({"q": q, "r": r}) + "\n" for q, r in cases)
    rc, out = ctx.vh("vh-kfltext", ["redact"], inp=inp, timeout=1200)
    lines = [l for l in out.split("\n") if l.startswith("{")]
    if rc != 0 or len(lines) != len(cases):
        return None, out[-1500:]
    return [json.loads(l) for l in lines], ""


def coq_bytes(s):
    """Coq term for a str (UTF-8) or bytes."""
    if isinstance(s, str):
        s = s.encode("utf-8")
    return "(bs [" + ";".join(str(b) for b in s) + "]%N)"


COQ_STR_HEAD = "Require Import Coq.Strings.String.\n"      # first line of a case file that uses coq_str
COQ_STR_DEF = "Definition S := list_byte_of_string.\n"


def coq_str(s):
    """Coq term (list of bytes) for a text through a string literal: far cheaper to parse than a
    list of numerals.  Falls back to numerals for NUL (not representable in a Coq literal)."""
    if isinstance(s, bytes):
        s = s.decode("utf-8", "surrogateescape")
    if "\0" in s or any(0xDC80 <= ord(c) <= 0xDCFF for c in s):
        return coq_bytes(s.encode("utf-8", "surrogateescape"))
    return '(S "' + s.replace('"', '""') + '"%string)'


def blank_raw_char(q):
    """q with every raw-string / char literal replaced by the number 0."""
    return "".join("0" if k == "lit" and t[0] in "'`" else t for k, t in lex(q, True))


# ----------------------------------------------------------------------------------------------
# C17: the property's own reference (single pass over the lexical structure of the text)
# ----------------------------------------------------------------------------------------------
def is_word(c):
    return c == "_" or c.isalnum()


def lex(q, protect_raw_char=True):
    """Split q into ('lit', text) | ('run', text) | ('other', text).  A run is a maximal
    sequence of identifier characters and dots; a lit is a complete literal with its quotes
    (double-quoted with backslash escapes; with protect_raw_char also '...' and `...`)."""
    toks, i, n = [], 0, len(q)
    while i < n:
        c = q[i]
        if c == '"' or (protect_raw_char and c == "'"):
            j = i + 1
            while j < n and q[j] != c:
                if q[j] == "\\":
                    j += 1
                j += 1
            toks.append(("lit", q[i:j + 1]))
            i = j + 1
        elif protect_raw_char and c == "`":
            j = q.find("`", i + 1)
            j = n if j < 0 else j
            toks.append(("lit", q[i:j + 1]))
            i = j + 1
        elif c == "\\":
            toks.append(("other", q[i:i + 2]))
            i += 2
        elif is_word(c) or c == ".":
            j = i
            while j < n and (is_word(q[j]) or q[j] == "."):
                j += 1
            toks.append(("run", q[i:j]))
            i = j
        else:
            toks.append(("other", c))
            i += 1
    return toks


def ref_expand(q, table, protect_raw_char=True):
    """Every standalone identifier that is a macro name -> its parenthesised definition;
    literals, longer identifiers and dotted paths byte-for-byte unchanged."""
    out = []
    for kind, t in lex(q, protect_raw_char):
        if kind == "run" and t in table:
            out.append("(" + table[t] + ")")
        else:
            out.append(t)
    return "".join(out)


def well_lexed(q):
    """Every double-quoted literal is terminated and no backslash occurs outside literals."""
    i, n = 0, len(q)
    while i < n:
        c = q[i]
        if c == '"':
            j = i + 1
            while j < n and q[j] != '"':
                if q[j] == "\\":
                    j += 1
                j += 1
            if j >= n:
                return False
            i = j + 1
        elif c == "\\":
            return False
        else:
            i += 1
    return True


def has_raw_or_char(q):
    return any(k == "lit" and t[0] in "'`" for k, t in lex(q, True))


def diff_kind(q, got, table):
    """Name the clause of the property that an output violates (for the replay file)."""
    want = ref_expand(q, table)
    tq, tg = lex(q), lex(got)
    lits_q = [t for k, t in tq if k == "lit"]
    lits_g = [t for k, t in tg if k == "lit"]
    # literals of the definitions inserted by the reference
    it = iter(lits_g)
    if not all(any(l == g for g in it) for l in lits_q):
        return "string-literal-rewritten"
    longer = [t for k, t in tq if k == "run" and t not in table and any(m in t for m in table)]
    for w in longer:
        if got.count(w) < q.count(w):
            return "longer-identifier-rewritten"
    if len(got) < len(want):
        return "standalone-identifier-not-expanded"
    return "other-difference"


MACRO_HOSTS_PREFIX = ["%sVersion", "%sx", "%s2x", "%s_total", "%s9", "%sHeaders"]
MACRO_HOSTS_SUFFIX = ["x%s", "my%s", "_%s", "X%s", "is_%s", "9%s"]
MACRO_HOSTS_INFIX = ["x%sx", "a_%s_b", "get%sCount"]
MACRO_HOSTS_DOTTED = ["a.%s", "%s.b", "request.%s.method", "protocol.%s", "%s.*.c", "request.headers.%s", "a..%s", "%s..b"]
PLAIN_IDENTS = ["request.method", "response.status", "a", "x1", "protocol.name", "protocol.abbr", "src.ip", "dst.port",
                "true", "false", "nil", "elapsedTime", "request.path", "timestamp"]
LETTERS = ["\u00e9", "\u00df", "\u03a9", "\u65e5"]


def gen_c17(ctx, names, n_random):
    """-> list of (stream, text).  Streams:
       wf        well-lexed texts (double-quoted literals terminated, no stray backslash): full oracle
       gram      wf and grammatical KFL: additionally Validate must accept
       rawchar   contains raw-string / char literals (known finding class)
       malformed unterminated literals / stray backslashes: determinism, idempotence and K only"""
    rng = ctx.rng
    out = []

    def lit_plain(name):
        return rng.choice(['"%s"', '"x-%s-y"', '"a %s b"', '"%s://svc:80/%s"', '"%s"', '" %s "', '"(%s)"', '"!%s and %s"']).replace("%s", name)

    def lit_escaped(name):
        return rng.choice(['"say \\"%s\\" now"', '"%s \\" b"', '"a \\" %s"', '"\\\\"', '"\\\\\\" %s"', '"%s\\\\"',
                           '"\\"%s\\""', '"a\\\\\\\\" and %s and "b', '"\\t%s\\n"', '"%s\\\\\\\\"']).replace("%s", name)

    def host(name):
        return rng.choice(MACRO_HOSTS_PREFIX + MACRO_HOSTS_SUFFIX + MACRO_HOSTS_INFIX + MACRO_HOSTS_DOTTED) % name

    # ---- corpus: the witnesses of the repaired defects and boundary shapes, for every macro
    for m in names:
        for t in ["%s", "%sVersion == 1", "request.%sVersion", "x%s", "%s2x", "a.%s", "%s.b", "%s and %s", "!%s", "(%s)",
                  "( %s )", "%s\n", "\t%s\t", "%s()", "%s[0]", "a[%s]", "%s-x", "-%s", "%s==1", "1==%s", "%s,%s", "%s or\n%s",
                  'x == "%s"', 'x == "%s \\" b"', 'x == "a \\" %s"', 'x == "a\\"" and %s', 'x == "a\\\\" and %s',
                  '"%s" == x and %s', '%s and x == "%s" and %s', 'request.headers["%s"] == "x-%s-y"', '%s"a"', '"a"%s', '""%s""',
                  "%s_", "_%s", "%s.", ".%s", "%s..x", "9%s", "%s9"]:
            out.append(("wf", t.replace("%s", m)))
        for t in ["x == `%s`", "x == '%s'", "`%s` and %s", "%s and '%s'", "x == `a \"%s` and %s and y == \"b\"", "'\"' == x and %s"]:
            out.append(("rawchar", t.replace("%s", m)))
        for t in ['%s"', '"%s', '%s or "a', '%s \\', '\\%s', '"a\\" and %s', '%s and "a\\']:
            out.append(("malformed", t.replace("%s", m)))
    out.append(("wf", "http or !amqp and request.method == \"GET\" and request.headers[\"http\"] == \"x-amqp-y\""))
    out.append(("wf", " and ".join(names)))
    out.append(("wf", "".join("(%s)" % m for m in names)))
    out.append(("wf", ""))
    for a, b in itertools.permutations(names, 2):
        out.append(("wf", a + b))            # http2http, httphttp2 ...: one longer identifier
        out.append(("wf", a + " " + b))
        out.append(("wf", a + "." + b))
    for l in LETTERS:
        out.append(("wf", l + "http and http" + l + " or " + "http " + l))

    # ---- random assemblies
    ops = [" and ", " or ", " == ", " != ", " >= ", " < ", " > ", " <= "]
    for _ in range(n_random):
        stream = rng.choices(["wf", "gram", "rawchar", "malformed"], [55, 25, 10, 10])[0]
        if stream == "gram":
            terms = []
            for _ in range(rng.randint(1, 5)):
                k = rng.random()
                m = rng.choice(names)
                if k < 0.35:
                    t = m
                elif k < 0.45:
                    t = "!" + m
                elif k < 0.6:
                    t = rng.choice(MACRO_HOSTS_PREFIX + MACRO_HOSTS_SUFFIX[:5] + MACRO_HOSTS_INFIX + ["a.%s", "%s.b", "request.%s.method", "request.headers.%s"]) % m + rng.choice([" == ", " != "]) + rng.choice(["1", lit_plain(m), lit_escaped(rng.choice(names)) if rng.random() < 0.5 else '"v"'])
                    if t.count('"') % 2 or not well_lexed(t):
                        t = "request.%sVersion == 1" % m
                elif k < 0.8:
                    t = rng.choice(PLAIN_IDENTS[:2] + PLAIN_IDENTS[4:8] + PLAIN_IDENTS[11:]) + rng.choice([" == ", " != "]) + lit_plain(m)
                elif k < 0.9:
                    t = "request.headers[%s] == %s" % (lit_plain(m), lit_plain(rng.choice(names)))
                else:
                    t = "(" + m + rng.choice([" and ", " or "]) + rng.choice(names) + ")"
                terms.append(t)
            ws = rng.choice([" ", "  ", "\n", "\t", " \n "])
            q = ""
            for i, t in enumerate(terms):
                if i:
                    q += ws + rng.choice(["and", "or"]) + ws
                q += t
            if rng.random() < 0.15:
                q = "(" + q + ")"
            out.append(("gram", q))
            continue
        parts = []
        for _ in range(rng.randint(1, 9)):
            k = rng.random()
            m = rng.choice(names)
            if k < 0.25:
                parts.append(m)
            elif k < 0.45:
                parts.append(host(m))
            elif k < 0.55:
                parts.append(rng.choice(PLAIN_IDENTS))
            elif k < 0.68:
                parts.append(lit_plain(m))
            elif k < 0.78:
                parts.append(lit_escaped(m))
            elif k < 0.86:
                parts.append(rng.choice(["(", ")", "!", "-", "[", "]", ",", "[0]", "1", "3.14", ":"]))
            elif k < 0.9:
                parts.append(rng.choice(LETTERS) + rng.choice(["", m]))
            elif stream == "rawchar":
                parts.append(rng.choice(["`%s`", "'%s'", "`a %s`", "'%s b'", "`\"%s`", "'h'"]).replace("%s", m))
            elif stream == "malformed":
                parts.append(rng.choice(['"', '"' + m, m + '"', "\\", "\\" + m, '"a\\']))
            else:
                parts.append(m)
        q = ""
        for i, p in enumerate(parts):
            if i:
                q += rng.choice(ops + [" ", " ", "", "\n", "\t", "  ", "(", ")", ","])
            q += p
        if stream == "rawchar" and not has_raw_or_char(q):
            q += " and `" + rng.choice(names) + "`"
        if stream in ("wf", "rawchar") and not well_lexed(q):
            stream = "malformed"
        if stream == "malformed" and well_lexed(q):
            stream = "rawchar" if has_raw_or_char(q) else "wf"
        if stream == "wf" and has_raw_or_char(q):
            stream = "rawchar"
        out.append((stream, q))
    return out


# an extended table that still satisfies the side conditions of the theorems (names that are
# prefixes of each other, more than eight entries so that the Go map has more than one bucket)
def extended_table(real):
    extra = [("h", 'a.h == "h"'), ("ht", 'proto.ht == "ht"'), ("http2x", 'x.y == "http2x http"'), ("ws", 'protocol.abbr == "WS"'),
             ("web", 'request.web == "http or http2"'), ("kafka_", 'k.v == 1'), ("_dns", 'd.n.s == "_dns"')]
    return list(real) + extra
