"""KFL text-level operations: macro expansion (C17) and redaction (C15).

Generators, the independent Python references (the property's own meaning, written without
looking at the Coq model) and the helpers shared by tools/props/C17.py and C15.py."""
import base64
import itertools
import json
import os
import re
import xml.etree.ElementTree as ET

import vlib

REDACTED = "[REDACTED]"


# ----------------------------------------------------------------------------------------------
# harness access
# ----------------------------------------------------------------------------------------------
def load_macros(ctx):
    """[(name, raw definition)] of every registered extension + the table kfl built at init."""
    rc, out = ctx.vh("vh-kfltext", ["macros"])
    o = json.loads(out.strip().split("\n")[-1])
    return [(m["name"], m["def"]) for m in o["extensions"]], o["table"]


def run_expand(ctx, texts, reps, shuffles, table=None, tag="t", pre=None):
    args = ["expand", str(reps), str(shuffles), str(ctx.seed)]
    if table is not None:
        path = os.path.join(ctx.work, "table_%s.json" % tag)
        with open(path, "w") as f:
            json.dump([{"name": n, "def": d} for n, d in table], f)
        args.append(path)
    elif pre is not None:
        args.append("-")
    if pre is not None:
        # an earlier table of the same process with the same names and other definitions
        path = os.path.join(ctx.work, "pretable_%s.json" % tag)
        with open(path, "w") as f:
            json.dump([{"name": n, "def": d} for n, d in pre], f)
        args.append(path)
    inp = "".join(json.dumps(t) + "\n" for t in texts)
    rc, out = ctx.vh("vh-kfltext", args, inp=inp, timeout=1200)
    lines = [l for l in out.split("\n") if l.startswith("{")]
    if rc != 0 or len(lines) != len(texts):
        return None, out[-1500:]
    return [json.loads(l) for l in lines], ""


def run_redact(ctx, cases):
    inp = "".join(json.dumps({"q": q, "r": r}) + "\n" for q, r in cases)
    rc, out = ctx.vh("vh-kfltext", ["redact"], inp=inp, timeout=1200)
    lines = [l for l in out.split("\n") if l.startswith("{")]
    if rc != 0 or len(lines) != len(cases):
        return None, out[-1500:]
    return [json.loads(l) for l in lines], ""


def coq_bytes(s):
    """Coq term for a str (UTF-8) or bytes."""
    if isinstance(s, str):
        s = s.encode("utf-8")
    return "(bs [" + ";".join(str(b) for b in s) + "]%N)"


COQ_STR_HEAD = "Require Import Coq.Strings.String.\n"      # first line of a case file that uses coq_str
COQ_STR_DEF = "Definition S := list_byte_of_string.\n"


def coq_str(s):
    """Coq term (list of bytes) for a text through a string literal: far cheaper to parse than a
    list of numerals.  Falls back to numerals for NUL (not representable in a Coq literal)."""
    if isinstance(s, bytes):
        s = s.decode("utf-8", "surrogateescape")
    if "\0" in s or any(0xDC80 <= ord(c) <= 0xDCFF for c in s):
        return coq_bytes(s.encode("utf-8", "surrogateescape"))
    return '(S "' + s.replace('"', '""') + '"%string)'


def blank_raw_char(q):
    """q with every raw-string / char literal replaced by the number 0."""
    return "".join("0" if k == "lit" and t[0] in "'`" else t for k, t in lex(q, True))


# ----------------------------------------------------------------------------------------------
# C17: the property's own reference (single pass over the lexical structure of the text)
# ----------------------------------------------------------------------------------------------
def is_word(c):
    return c == "_" or c.isalnum()


def lex(q, protect_raw_char=True):
    """Split q into ('lit', text) | ('run', text) | ('other', text).  A run is a maximal
    sequence of identifier characters and dots; a lit is a complete literal with its quotes
    (double-quoted with backslash escapes; with protect_raw_char also '...' and `...`)."""
    toks, i, n = [], 0, len(q)
    while i < n:
        c = q[i]
        if c == '"' or (protect_raw_char and c == "'"):
            j = i + 1
            while j < n and q[j] != c:
                if q[j] == "\\":
                    j += 1
                j += 1
            toks.append(("lit", q[i:j + 1]))
            i = j + 1
        elif protect_raw_char and c == "`":
            j = q.find("`", i + 1)
            j = n if j < 0 else j
            toks.append(("lit", q[i:j + 1]))
            i = j + 1
        elif c == "\\":
            toks.append(("other", q[i:i + 2]))
            i += 2
        elif is_word(c) or c == ".":
            j = i
            while j < n and (is_word(q[j]) or q[j] == "."):
                j += 1
            toks.append(("run", q[i:j]))
            i = j
        else:
            toks.append(("other", c))
            i += 1
    return toks


def ref_expand(q, table, protect_raw_char=True):
    """Every standalone identifier that is a macro name -> its parenthesised definition;
    literals, longer identifiers and dotted paths byte-for-byte unchanged."""
    out = []
    for kind, t in lex(q, protect_raw_char):
        if kind == "run" and t in table:
            out.append("(" + table[t] + ")")
        else:
            out.append(t)
    return "".join(out)


def well_lexed(q):
    """Every double-quoted literal is terminated and no backslash occurs outside literals."""
    i, n = 0, len(q)
    while i < n:
        c = q[i]
        if c == '"':
            j = i + 1
            while j < n and q[j] != '"':
                if q[j] == "\\":
                    j += 1
                j += 1
            if j >= n:
                return False
            i = j + 1
        elif c == "\\":
            return False
        else:
            i += 1
    return True


def has_raw_or_char(q):
    return any(k == "lit" and t[0] in "'`" for k, t in lex(q, True))


def diff_kind(q, got, table):
    """Name the clause of the property that an output violates (for the replay file)."""
    want = ref_expand(q, table)
    tq, tg = lex(q), lex(got)
    lits_q = [t for k, t in tq if k == "lit"]
    lits_g = [t for k, t in tg if k == "lit"]
    # literals of the definitions inserted by the reference
    it = iter(lits_g)
    if not all(any(l == g for g in it) for l in lits_q):
        return "string-literal-rewritten"
    longer = [t for k, t in tq if k == "run" and t not in table and any(m in t for m in table)]
    for w in longer:
        if got.count(w) < q.count(w):
            return "longer-identifier-rewritten"
    if len(got) < len(want):
        return "standalone-identifier-not-expanded"
    return "other-difference"


MACRO_HOSTS_PREFIX = ["%sVersion", "%sx", "%s2x", "%s_total", "%s9", "%sHeaders"]
MACRO_HOSTS_SUFFIX = ["x%s", "my%s", "_%s", "X%s", "is_%s", "9%s"]
MACRO_HOSTS_INFIX = ["x%sx", "a_%s_b", "get%sCount"]
MACRO_HOSTS_DOTTED = ["a.%s", "%s.b", "request.%s.method", "protocol.%s", "%s.*.c", "request.headers.%s", "a..%s", "%s..b"]
PLAIN_IDENTS = ["request.method", "response.status", "a", "x1", "protocol.name", "protocol.abbr", "src.ip", "dst.port",
                "true", "false", "nil", "elapsedTime", "request.path", "timestamp"]
LETTERS = ["\u00e9", "\u00df", "\u03a9", "\u65e5"]


def gen_c17(ctx, names, n_random, table=None):
    """-> list of (stream, text).  Streams:
       wf        well-lexed texts (double-quoted literals terminated, no stray backslash): full oracle
       gram      wf and grammatical KFL: additionally Validate must accept
       rawchar   contains raw-string / char literals (known finding class)
       malformed unterminated literals / stray backslashes: determinism, idempotence and K only"""
    rng = ctx.rng
    out = []

    def lit_plain(name):
        return rng.choice(['"%s"', '"x-%s-y"', '"a %s b"', '"%s://svc:80/%s"', '"%s"', '" %s "', '"(%s)"', '"!%s and %s"']).replace("%s", name)

    def lit_escaped(name):
        return rng.choice(['"say \\"%s\\" now"', '"%s \\" b"', '"a \\" %s"', '"\\\\"', '"\\\\\\" %s"', '"%s\\\\"',
                           '"\\"%s\\""', '"a\\\\\\\\" and %s and "b', '"\\t%s\\n"', '"%s\\\\\\\\"']).replace("%s", name)

    def host(name):
        return rng.choice(MACRO_HOSTS_PREFIX + MACRO_HOSTS_SUFFIX + MACRO_HOSTS_INFIX + MACRO_HOSTS_DOTTED) % name

    # ---- corpus: the witnesses of the repaired defects and boundary shapes, for every macro
    for m in names:
        for t in ["%s", "%sVersion == 1", "request.%sVersion", "x%s", "%s2x", "a.%s", "%s.b", "%s and %s", "!%s", "(%s)",
                  "( %s )", "%s\n", "\t%s\t", "%s()", "%s[0]", "a[%s]", "%s-x", "-%s", "%s==1", "1==%s", "%s,%s", "%s or\n%s",
                  'x == "%s"', 'x == "%s \\" b"', 'x == "a \\" %s"', 'x == "a\\"" and %s', 'x == "a\\\\" and %s',
                  '"%s" == x and %s', '%s and x == "%s" and %s', 'request.headers["%s"] == "x-%s-y"', '%s"a"', '"a"%s', '""%s""',
                  "%s_", "_%s", "%s.", ".%s", "%s..x", "9%s", "%s9"]:
            out.append(("wf", t.replace("%s", m)))
        for t in ["x == `%s`", "x == '%s'", "`%s` and %s", "%s and '%s'", "x == `a \"%s` and %s and y == \"b\"", "'\"' == x and %s"]:
            out.append(("rawchar", t.replace("%s", m)))
        for t in ['%s"', '"%s', '%s or "a', '%s \\', '\\%s', '"a\\" and %s', '%s and "a\\']:
            out.append(("malformed", t.replace("%s", m)))
    out.append(("wf", "http or !amqp and request.method == \"GET\" and request.headers[\"http\"] == \"x-amqp-y\""))
    out.append(("wf", " and ".join(names)))
    out.append(("wf", "".join("(%s)" % m for m in names)))
    out.append(("wf", ""))
    for a, b in itertools.permutations(names, 2):
        out.append(("wf", a + b))            # http2http, httphttp2 ...: one longer identifier
        out.append(("wf", a + " " + b))
        out.append(("wf", a + "." + b))
    for l in LETTERS:
        out.append(("wf", l + "http and http" + l + " or " + "http " + l))

    # ---- random assemblies
    ops = [" and ", " or ", " == ", " != ", " >= ", " < ", " > ", " <= "]
    for _ in range(n_random):
        stream = rng.choices(["wf", "gram", "rawchar", "malformed"], [55, 25, 10, 10])[0]
        if stream == "gram":
            terms = []
            for _ in range(rng.randint(1, 5)):
                k = rng.random()
                m = rng.choice(names)
                if k < 0.35:
                    t = m
                elif k < 0.45:
                    t = "!" + m
                elif k < 0.6:
                    t = rng.choice(MACRO_HOSTS_PREFIX + MACRO_HOSTS_SUFFIX[:5] + MACRO_HOSTS_INFIX + ["a.%s", "%s.b", "request.%s.method", "request.headers.%s"]) % m + rng.choice([" == ", " != "]) + rng.choice(["1", lit_plain(m), lit_escaped(rng.choice(names)) if rng.random() < 0.5 else '"v"'])
                    if t.count('"') % 2 or not well_lexed(t):
                        t = "request.%sVersion == 1" % m
                elif k < 0.8:
                    t = rng.choice(PLAIN_IDENTS[:2] + PLAIN_IDENTS[4:8] + PLAIN_IDENTS[11:]) + rng.choice([" == ", " != "]) + lit_plain(m)
                elif k < 0.9:
                    t = "request.headers[%s] == %s" % (lit_plain(m), lit_plain(rng.choice(names)))
                else:
                    t = "(" + m + rng.choice([" and ", " or "]) + rng.choice(names) + ")"
                terms.append(t)
            ws = rng.choice([" ", "  ", "\n", "\t", " \n "])
            q = ""
            for i, t in enumerate(terms):
                if i:
                    q += ws + rng.choice(["and", "or"]) + ws
                q += t
            if rng.random() < 0.15:
                q = "(" + q + ")"
            out.append(("gram", q))
            continue
        parts = []
        for _ in range(rng.randint(1, 9)):
            k = rng.random()
            m = rng.choice(names)
            if k < 0.25:
                parts.append(m)
            elif k < 0.45:
                parts.append(host(m))
            elif k < 0.55:
                parts.append(rng.choice(PLAIN_IDENTS))
            elif k < 0.68:
                parts.append(lit_plain(m))
            elif k < 0.78:
                parts.append(lit_escaped(m))
            elif k < 0.86:
                parts.append(rng.choice(["(", ")", "!", "-", "[", "]", ",", "[0]", "1", "3.14", ":"]))
            elif k < 0.9:
                parts.append(rng.choice(LETTERS) + rng.choice(["", m]))
            elif stream == "rawchar":
                parts.append(rng.choice(["`%s`", "'%s'", "`a %s`", "'%s b'", "`\"%s`", "'h'"]).replace("%s", m))
            elif stream == "malformed":
                parts.append(rng.choice(['"', '"' + m, m + '"', "\\", "\\" + m, '"a\\']))
            else:
                parts.append(m)
        q = ""
        for i, p in enumerate(parts):
            if i:
                q += rng.choice(ops + [" ", " ", "", "\n", "\t", "  ", "(", ")", ","])
            q += p
        if stream == "rawchar" and not has_raw_or_char(q):
            q += " and `" + rng.choice(names) + "`"
        if stream in ("wf", "rawchar") and not well_lexed(q):
            stream = "malformed"
        if stream == "malformed" and well_lexed(q):
            stream = "rawchar" if has_raw_or_char(q) else "wf"
        if stream == "wf" and has_raw_or_char(q):
            stream = "rawchar"
        out.append((stream, q))
    # ---- already expanded queries (and expansions glued to fresh macro names)
    if table:
        wf = [q for st, q in out if st in ("wf", "gram") and q]
        for q in ctx.rng.sample(wf, min(len(wf), max(20, n_random // 8))):
            e = ref_expand(q, table)
            out.append(("wf", e))
            out.append(("wf", e + " and " + ctx.rng.choice(names)))
            out.append(("wf", ctx.rng.choice(names) + " or " + e))
    return out


# an extended table that still satisfies the side conditions of the theorems (names that are
# prefixes of each other, more than eight entries so that the Go map has more than one bucket)
def extended_table(real):
    extra = [("h", 'a.h == "h"'), ("ht", 'proto.ht == "ht"'), ("http2x", 'x.y == "http2x http"'), ("ws", 'protocol.abbr == "WS"'),
             ("web", 'request.web == "http or http2"'), ("kafka_", 'k.v == 1'), ("_dns", 'd.n.s == "_dns"'),
             # definitions whose own first and last characters are brackets, operators or quotes (a rewrite that looks at
             # the edges of a definition to decide how to wrap it)
             ("cpar", '(c == 1) or (p == 2)'), ("grp", '(g == 1)'), ("ngt", '!(n == 1)'), ("tl", 't.startsWith("(")'), ("ld", '(l) == 1'),
             ("qt", '"q" == q.t')]
    return list(real) + extra


# ==============================================================================================
# C15: redaction
# ==============================================================================================
class Doc:
    """A nested document stored in a string field: kind 'json' | 'xml', optionally base64."""

    def __init__(self, kind, b64, tree, decl=False):
        self.kind, self.b64, self.tree, self.decl = kind, b64, tree, decl

    def __eq__(self, o):
        return isinstance(o, Doc) and (self.kind, self.tree) == (o.kind, o.tree)

    def __repr__(self):
        return "Doc(%s%s,%r)" % (self.kind, ",b64" if self.b64 else "", self.tree)


def xml_text(tag, val):
    if isinstance(val, list):
        return "".join(xml_text(tag, v) for v in val)
    if isinstance(val, dict):
        attrs = "".join(' %s="%s"' % (k[1:], v) for k, v in val.items() if k.startswith("-"))
        body = val.get("#text", "") + "".join(xml_text(k, v) for k, v in val.items() if not k.startswith("-") and k != "#text")
        return "<%s%s>%s</%s>" % (tag, attrs, body, tag)
    return "<%s>%s</%s>" % (tag, val, tag)


XML_DECLS = ['<?xml version="1.0" encoding="UTF-8"?>\n', '<?xml version="1.0" encoding="UTF-8"?>\n', '<?xml version="1.0"?>', '<?xml version="1.0" encoding="UTF-8"?>\r\n',
             '<?xml version="1.0"?> ', '<?xml version="1.0"?><!-- c -->', '<?xml version="1.0" standalone="yes"?>\n\n']


def render(node):
    """abstract tree -> plain JSON-able value (nested documents become strings)."""
    if isinstance(node, Doc):
        if node.kind == "json":
            s = json.dumps(render(node.tree), separators=(",", ":"), sort_keys=True)
        else:
            (root, val), = node.tree.items()
            decl = node.decl if isinstance(node.decl, str) else ('<?xml version="1.0" encoding="UTF-8"?>\n' if node.decl else "")
            s = decl + xml_text(root, render_xml(val))
        if node.b64:
            # markers in a value stand for bytes that are no UTF-8 (a Latin-1 password, a binary token): only a wrapped
            # document can carry them
            t = base64.b64encode(s.encode().replace(b"~L1~", b"\xe9").replace(b"~BIN~", b"\xff\xfe")).decode()
            # base64 text as mail and PEM tools write it: line feeds every few columns, CRLF, a trailing line feed (the standard
            # decoder skips CR and LF, and the length is then no multiple of four)
            if node.b64 == "nl":
                t = "\n".join(t[i:i + 20] for i in range(0, len(t), 20)) + "\n"
            elif node.b64 == "crlf":
                t = "\r\n".join(t[i:i + 76] for i in range(0, len(t), 76))
            elif node.b64 == "trail":
                t += "\n"
            return t
        return s
    if isinstance(node, dict):
        return {k: render(v) for k, v in node.items()}
    if isinstance(node, list):
        return [render(v) for v in node]
    return node


def render_xml(v):
    if isinstance(v, Doc):
        return render(v)
    if isinstance(v, dict):
        return {k: render_xml(x) for k, x in v.items()}
    if isinstance(v, list):
        return [render_xml(x) for x in v]
    return v


def xml_to_tree(text):
    """XML text -> the map form mxj uses (attributes '-k', text '#text', repeated children as lists)."""
    def conv(e):
        kids = list(e)
        if not kids and not e.attrib:
            return e.text or ""
        d = {}
        for k, v in e.attrib.items():
            d["-" + k] = v
        if e.text and e.text.strip():
            d["#text"] = e.text
        for c in kids:
            v = conv(c)
            if c.tag in d:
                if not isinstance(d[c.tag], list):
                    d[c.tag] = [d[c.tag]]
                d[c.tag].append(v)
            else:
                d[c.tag] = v
        return d
    e = ET.fromstring(text)
    return {e.tag: conv(e)}


def unnest(value, shape):
    """Re-build the abstract view of a returned record: where the generated record had a nested
    document (shape) and the returned one still has a string that decodes, descend into it."""
    if isinstance(shape, Doc):
        if not isinstance(value, str):
            return value
        s = value
        try:
            if shape.b64:
                s = base64.b64decode(value.replace("\r", "").replace("\n", ""), validate=True).decode()
            if shape.kind == "json":
                inner = json.loads(s)
            else:
                inner = xml_to_tree(s)
        except Exception:
            return value
        return Doc(shape.kind, shape.b64, unnest(inner, shape.tree))
    if isinstance(shape, dict) and isinstance(value, dict):
        return {k: unnest(v, shape.get(k)) for k, v in value.items()}
    if isinstance(shape, list) and isinstance(value, list):
        return [unnest(v, shape[i] if i < len(shape) else None) for i, v in enumerate(value)]
    return value


def children(node):
    """[(step, child)] of a node of the abstract view."""
    if isinstance(node, Doc):
        return [(("j",) if node.kind == "json" else ("x",), node.tree)]
    if isinstance(node, dict):
        return [(("k", k), v) for k, v in node.items()]
    if isinstance(node, list):
        return [(("i", i), v) for i, v in enumerate(node)]
    return []


def locations(node, loc=()):
    yield loc, node
    for st, c in children(node):
        yield from locations(c, loc + (st,))


def at(node, loc):
    for st in loc:
        nxt = [c for s, c in children(node) if s == st]
        if not nxt:
            return KeyError
        node = nxt[0]
    return node


# ---- path specs: a list of steps; rendered to the KFL argument and interpreted by `denote`
#   ('child', k) ('bracket', k) ('nth', i) ('wild', '[*]' | '.*') ('desc',)  ('json',) ('xml',)
#   after an ('xml',): ('xchild', tag) ('xidx', i)
def render_path(spec):
    s = ""
    for st in spec:
        t = st[0]
        if t in ("child", "xchild"):
            s += ("." if s and not s.endswith("..") else "") + st[1]
        elif t == "bracket":
            s += "['%s']" % st[1]
        elif t in ("nth", "xidx"):
            s += "[%d]" % st[1]
        elif t == "wild":
            s += st[1] if (s or st[1] == "[*]") else "*"
        elif t == "desc":
            s += ".."
        elif t == "json":
            s += ".json()"
        elif t == "xml":
            s += ".xml()"
    return s


def denote(spec, root):
    """The set of locations of the abstract view that a path denotes (the property's meaning:
    JSONPath child / index / wildcard / descent steps, json()/xml() hops into the nested
    documents, mxj-style dotted XML paths)."""
    cur = [((), root)]
    in_xml = False
    for n, st in enumerate(spec):
        t, nxt = st[0], []
        last = n == len(spec) - 1
        for loc, node in cur:
            if t in ("child", "bracket"):
                if isinstance(node, dict) and st[1] in node:
                    nxt.append((loc + (("k", st[1]),), node[st[1]]))
            elif t == "nth":
                if isinstance(node, list):
                    i = st[1] + len(node) if st[1] < 0 else st[1]
                    if 0 <= i < len(node):
                        nxt.append((loc + (("i", i),), node[i]))
            elif t == "wild":
                if isinstance(node, (dict, list)):
                    nxt += [(loc + (s,), c) for s, c in children(node)]
            elif t == "desc":
                def walk(l, nd):
                    yield l, nd
                    if isinstance(nd, (dict, list)):
                        for s, c in children(nd):
                            yield from walk(l + (s,), c)
                nxt += list(walk(loc, node))
            elif t == "json":
                if isinstance(node, Doc) and node.kind == "json":
                    nxt.append((loc + (("j",),), node.tree))
            elif t == "xml":
                if isinstance(node, Doc) and node.kind == "xml":
                    nxt.append((loc + (("x",),), node.tree))
            elif t == "xchild":
                nodes = [(loc, node)]
                if isinstance(node, list):      # a repeated element crossed without an index: each
                    nodes = [(loc + (("i", i),), c) for i, c in enumerate(node)]
                for l2, nd in nodes:
                    if isinstance(nd, dict) and st[1] in nd:
                        nxt.append((l2 + (("k", st[1]),), nd[st[1]]))
            elif t == "xidx":
                if isinstance(node, list):
                    if 0 <= st[1] < len(node):
                        nxt.append((loc + (("i", st[1]),), node[st[1]]))
                elif st[1] == 0:
                    nxt.append((loc, node))
        cur = nxt
    seen, out = set(), []
    for loc, _ in cur:
        if loc not in seen:
            seen.add(loc)
            out.append(loc)
    return out


def classify_path(spec, root):
    """Known-finding classes a path falls into (computed from the path and the record only)."""
    cls = set()
    hops = [i for i, st in enumerate(spec) if st[0] in ("json", "xml")]
    for h in hops:
        if len(denote(spec[:h], root)) > 1:
            cls.add("wildcard-before-hop")
    xml_at = [i for i, st in enumerate(spec) if st[0] == "xml"]
    if xml_at:
        x = xml_at[0]
        if any(st[0] in ("json", "xml") for st in spec[x + 1:]):
            cls.add("hop-after-xml")
        if spec[-1][0] == "xidx":
            cls.add("xml-indexed-leaf")
        for i in range(x + 1, len(spec) - 1):
            if spec[i][0] == "xchild" and spec[i + 1][0] == "xchild":
                for loc in denote(spec[:i + 1], root):
                    if isinstance(at(root, loc), list):
                        cls.add("xml-repeated-unindexed")
    return cls


B64_TOKEN = re.compile(r"[A-Za-z0-9+/]{12,}={0,2}")


def all_texts(s, depth=0):
    """s and every text obtained from it by decoding base64 tokens (recursively)."""
    yield s
    if depth > 4:
        return
    for m in B64_TOKEN.finditer(s):
        tok = m.group(0)
        for cut in (0, 1, 2, 3):
            t = tok[: len(tok) - cut] if cut else tok
            if len(t) % 4:
                continue
            try:
                d = base64.b64decode(t, validate=True).decode("utf-8")
            except Exception:
                continue
            yield from all_texts(d, depth + 1)
            break


def secrets_below(node):
    return [v for _, v in locations(node) if isinstance(v, (str, int)) and not isinstance(v, bool) and is_secret(v)]


def is_secret(v):
    return (isinstance(v, str) and v.startswith("zq") and v.endswith("x")) or (isinstance(v, int) and not isinstance(v, bool) and v >= 7000000)


def c15_oracle(tree, specs, out):
    """The four clauses of C15 on the implementation's observable.  tree: generated abstract
    record; specs: the redaction paths; out: harness output.  Returns None | (clause, detail)."""
    if out["panic"]:
        return ("panic", "evaluation panicked")
    if out["err"]:
        return ("error", "PrepareQuery/Eval returned an error (%s)" % out.get("stage"))
    if not out["truth"]:
        return ("not-matching", "redact(...) did not evaluate to true")
    try:
        rec = json.loads(out["rec"])
        rec2 = json.loads(out["rec2"])
    except Exception:
        return ("bad-json", "returned record is not JSON")
    view = unnest(rec, tree)
    if out["err2"] or out["truth2"] != out["truth"] or unnest(rec2, tree) != view:
        return ("apply-differs", "Apply and PrepareQuery+Eval disagree")
    den = []
    for sp in specs:
        den += denote(sp, tree)
    den = list(dict.fromkeys(den))

    def covered(loc):
        return any(loc[:len(d)] == d for d in den)
    # 1. marker at every denoted location (a location below another denoted one is gone with it)
    for d in den:
        if any(d != e and d[:len(e)] == e for e in den):
            continue
        v = at(view, d)
        if v != REDACTED:
            return ("marker-missing", "location %s holds %r" % (fmt_loc(d), None if v is KeyError else v))
    # 2. every location outside them unchanged
    for loc, v in locations(tree):
        if covered(loc) or isinstance(v, (dict, list, Doc)):
            continue
        w = at(view, loc)
        if w is KeyError or w != v or type(w) != type(v):
            return ("frame", "location %s changed from %r to %r" % (fmt_loc(loc), v, None if w is KeyError else w))
    # 3. the targeted values appear nowhere (also inside re-encoded nested documents)
    targeted = []
    for d in den:
        targeted += secrets_below(at(tree, d))
    texts = list(all_texts(out["rec"]))
    for s in dict.fromkeys(targeted):
        needle = str(s)
        if any(needle in t for t in texts):
            return ("leak", "targeted value %r still occurs in the returned record" % (s,))
    # 4. no key / element added
    have = set(l for l, _ in locations(tree))
    for loc, v in locations(view):
        if loc not in have:
            return ("key-added", "location %s does not exist in the original record" % fmt_loc(loc))
    return None


def fmt_loc(loc):
    s = "$"
    for st in loc:
        s += {"k": lambda: "." + st[1], "i": lambda: "[%d]" % st[1], "j": lambda: ".json()", "x": lambda: ".xml()"}[st[0]]()
    return s


# ---- generators -------------------------------------------------------------------------------
KEYS = ["a", "b", "c", "id", "name", "k", "data", "items", "v", "body", "x-y", "user"]
XTAGS = ["a", "b", "t", "x", "item", "name", "v"]


class RecGen:
    def __init__(self, rng):
        self.rng, self.n = rng, 0

    def secret(self):
        self.n += 1
        r = self.rng.random()
        if r < 0.04:
            return 9007199254740993 + 2 * self.n       # an integer no float64 holds (a document re-encoded through floats rounds it)
        if r < 0.12:
            return 7000000 + self.n
        return "zq%04dx" % self.n

    def sstr(self):
        self.n += 1
        return "zq%04dx" % self.n

    def value(self, depth, docs=True):
        r = self.rng.random()
        if depth <= 0 or r < 0.4:
            return self.secret() if self.rng.random() < 0.93 else self.rng.choice([True, False, None])
        if r < 0.62:
            return self.obj(depth - 1, docs)
        if r < 0.8:
            return self.arr(depth - 1, docs)
        if docs:
            return self.doc(depth - 1)
        return self.secret()

    def obj(self, depth, docs=True, keys=None):
        ks = keys or self.rng.sample(KEYS, self.rng.randint(1, 4))
        return {k: self.value(depth, docs) for k in ks}

    def arr(self, depth, docs=True):
        n = self.rng.choice([0, 1, 1, 2, 2, 2, 3, 3, 4])
        if self.rng.random() < 0.6:
            # objects with overlapping key sets: wildcards match some elements only
            pool = self.rng.sample(KEYS, 3)
            return [self.obj(depth, docs, keys=self.rng.sample(pool, self.rng.randint(1, 3))) for _ in range(n)]
        return [self.value(depth, docs) for _ in range(n)]

    def xml_elem(self, depth):
        r = self.rng.random()
        if depth <= 0 or r < 0.35:
            if self.rng.random() < 0.12:
                # a JSON document as the text of an element (quotes need no escaping in element text)
                return Doc("json", self.rng.random() < 0.4, {"c": self.sstr(), "d": self.sstr()})
            return self.sstr()
        d = {}
        if self.rng.random() < 0.4:
            d["-" + self.rng.choice(["id", "lang", "k"])] = self.sstr()
        if self.rng.random() < 0.25 and d:
            d["#text"] = self.sstr()
            return d
        for tag in self.rng.sample(XTAGS, self.rng.randint(1, 3)):
            if self.rng.random() < 0.35:
                d[tag] = [self.xml_elem(depth - 1) for _ in range(self.rng.randint(2, 3))]
            else:
                d[tag] = self.xml_elem(depth - 1)
        return d

    def doc(self, depth):
        b64 = self.rng.random() < 0.4
        if b64 and self.rng.random() < 0.25:
            b64 = self.rng.choice(["nl", "crlf", "trail"])
        if self.rng.random() < 0.55:
            return Doc("json", b64, self.obj(max(depth, 1), docs=depth > 0))
        root = self.rng.choice(["r", "root", "doc"])
        body = self.xml_elem(2)
        if not isinstance(body, dict):
            body = {"t": body, "x": [self.sstr(), self.sstr()]}
        # the declaration on a line of its own, on the same line as the root element, before a CRLF, before a comment
        return Doc("xml", b64, {root: body}, decl=self.rng.choice(XML_DECLS) if self.rng.random() < 0.4 else False)

    def record(self):
        rec = self.obj(3)
        # make sure that most records carry at least one nested document
        if self.rng.random() < 0.7 and not any(isinstance(v, Doc) for _, v in locations(rec)):
            rec[self.rng.choice(["body", "payload"])] = self.doc(2)
        return rec


def concrete_spec(loc):
    """The plain path of a location."""
    spec, in_xml = [], False
    for st in loc:
        if st[0] == "k":
            if in_xml:
                spec.append(("xchild", st[1]))
            elif re.fullmatch(r"[A-Za-z_][A-Za-z0-9_]*", st[1]):
                spec.append(("child", st[1]))
            else:
                spec.append(("bracket", st[1]))
        elif st[0] == "i":
            spec.append(("xidx" if in_xml else "nth", st[1]))
        elif st[0] == "j":
            spec.append(("json",))
            in_xml = False
        else:
            spec.append(("xml",))
            in_xml = True
    return spec


def gen_paths(rng, tree):
    """-> list of (form, spec) for one record; the location sets are what `denote` computes."""
    locs = [l for l, _ in locations(tree) if l]
    out = []
    if not locs:
        return out

    def seg_bounds(spec):
        """index ranges of the JSON segments (between hops)"""
        segs, start = [], 0
        for i, st in enumerate(spec):
            if st[0] in ("json", "xml"):
                segs.append((start, i, "json"))
                start = i + 1
                kind = st[0]
                if kind == "xml":
                    segs.append((start, len(spec), "xml"))
                    return segs
        segs.append((start, len(spec), "json"))
        return segs

    for _ in range(8):
        loc = rng.choice(locs)
        spec = concrete_spec(loc)
        if not spec or spec[-1][0] in ("json", "xml"):
            continue
        hop = "plain"
        if any(st[0] == "json" for st in spec):
            hop = "json-hop"
        if any(st[0] == "xml" for st in spec):
            hop = "xml-hop" if hop == "plain" else "json+xml-hop"
        if sum(1 for st in spec if st[0] in ("json", "xml")) > 1 and hop == "json-hop":
            hop = "json-json-hop"
        if any(isinstance(at(tree, loc[:i]), Doc) and at(tree, loc[:i]).b64 for i in range(len(loc))):
            hop += "+b64"
        form = rng.choice(["plain", "plain", "bracket", "wild", "wild", "desc", "desc2", "neg", "negout", "wildneg", "wildneg", "missing",
                           "missing-hop", "xnoidx"])
        sp = list(spec)
        jidx = [i for i, st in enumerate(sp) if st[0] in ("child", "bracket", "nth")]
        if form == "bracket":
            ch = [i for i in jidx if sp[i][0] == "child"]
            if not ch:
                continue
            for i in rng.sample(ch, rng.randint(1, len(ch))):
                sp[i] = ("bracket", sp[i][1])
        elif form == "wild":
            if not jidx:
                continue
            i = rng.choice(jidx)
            sp[i] = ("wild", rng.choice(["[*]", ".*"]) if sp[i][0] != "nth" else "[*]")
        elif form in ("desc", "desc2"):
            # replace the steps of one JSON segment before its last (two) key(s) by a descent
            segs = [(a, b) for a, b, k in seg_bounds(sp) if k == "json" and b > a]
            if not segs:
                continue
            a, b = rng.choice(segs)
            keep = 1 if form == "desc" else 2
            if b - a < keep or sp[b - keep][0] == "nth" and form == "desc" and rng.random() < 0.7:
                continue
            cut = rng.randint(a, b - keep)
            sp = sp[:cut] + [("desc",)] + sp[b - keep:]
            if cut < b - keep and sp[cut + 1][0] == "bracket":
                sp[cut + 1] = ("child", sp[cut + 1][1]) if re.fullmatch(r"[A-Za-z_][A-Za-z0-9_]*", sp[cut + 1][1]) else sp[cut + 1]
            if sp[cut + 1][0] == "bracket":
                continue
        elif form == "xnoidx":
            xi = [i for i, st in enumerate(sp) if st[0] == "xidx"]
            if not xi:
                continue
            drop = set(rng.sample(xi, rng.randint(1, len(xi))))
            sp = [st for i, st in enumerate(sp) if i not in drop]
        elif form == "neg":
            nth = [i for i in jidx if sp[i][0] == "nth"]
            if not nth:
                continue
            i = rng.choice(nth)
            parent = at(tree, denote(sp[:i], tree)[0]) if denote(sp[:i], tree) else None
            if not isinstance(parent, list):
                continue
            sp[i] = ("nth", sp[i][1] - len(parent))
        elif form == "negout":
            # a negative index below -len of its array: denotes nothing
            nth = [i for i in jidx if sp[i][0] == "nth"]
            if not nth:
                continue
            i = rng.choice(nth)
            parent = at(tree, denote(sp[:i], tree)[0]) if denote(sp[:i], tree) else None
            if not isinstance(parent, list):
                continue
            sp[i] = ("nth", -len(parent) - rng.randint(1, 2))
        elif form == "wildneg":
            # a wildcard or a descent before a negative index: the arrays it reaches differ in length, the index
            # is within some of them and below -len of others
            nth = [i for i in jidx if sp[i][0] == "nth" and any(j < i for j in jidx)]
            if not nth:
                continue
            i = rng.choice(nth)
            j = rng.choice([j for j in jidx if j < i])
            if rng.random() < 0.7:
                sp[j] = ("wild", rng.choice(["[*]", ".*"]) if sp[j][0] != "nth" else "[*]")
                lens = [len(at(tree, l)) for l in denote(sp[:i], tree) if isinstance(at(tree, l), list)]
                # within the longest array it reaches, below -len of a shorter one when the lengths differ
                sp[i] = ("nth", -max(lens) if lens and rng.random() < 0.6 else -rng.randint(1, 4))
            else:
                segs = [(a, b) for a, b, k in seg_bounds(sp) if k == "json" and a <= j < i < b]
                if not segs or i - 1 < segs[0][0] or sp[i - 1][0] not in ("child",):
                    continue
                sp = sp[:j] + [("desc",)] + sp[i - 1:i] + [("nth", -rng.randint(1, 4))] + sp[i + 1:]
        elif form == "missing":
            i = rng.randrange(len(sp))
            t = sp[i][0]
            if t in ("child", "bracket", "xchild"):
                sp[i] = (t, "zz")
            elif t in ("nth", "xidx"):
                sp[i] = (t, 7)
            elif t == "json":
                sp[i] = ("xml",)
                sp = sp[:i + 1] + [("xchild", "r"), ("xchild", "t")]
            else:
                sp[i] = ("json",)
                sp = sp[:i + 1] + [("child", "a")]
            if rng.random() < 0.3:
                sp = sp + [("xchild" if any(s[0] == "xml" for s in sp) else "child", "zz")]
        elif form == "missing-hop":
            # a hop applied to something that is not a nested document
            leafs = [l for l, v in locations(tree) if l and not isinstance(v, Doc) and not any(s[0] in ("j", "x") for s in l)]
            if not leafs:
                continue
            sp = concrete_spec(rng.choice(leafs)) + [(rng.choice(["json", "xml"]),)]
            sp += [("child", "a")] if sp[-1][0] == "json" else [("xchild", "r"), ("xchild", "t")]
        if not sp or sp[-1][0] in ("json", "xml", "desc"):
            continue
        out.append((form + "/" + hop, tuple(sp)))
    return out


def gen_c15(ctx, n_records):
    """-> list of cases {tree, record (JSON text), specs, forms, query}"""
    rng = ctx.rng
    cases = []
    for _ in range(n_records):
        g = RecGen(rng)
        tree = g.record()
        rec = json.dumps(render(tree), separators=(",", ":"))
        pool = gen_paths(rng, tree)
        if not pool:
            continue
        sets = []
        for size in (1, 1, 2, 3, 4):
            if len(pool) >= size:
                sets.append(rng.sample(pool, size))
        # overlapping pairs: a path and one of its ancestors / itself / a wildcard over it
        f, sp = rng.choice(pool)
        js = [i for i, st in enumerate(sp) if st[0] not in ("json", "xml", "desc")]
        if len(sp) > 1 and js:
            cut = rng.choice(js)
            anc = sp[:cut + 1]
            if anc[-1][0] not in ("json", "xml", "desc"):
                sets.append([(f, sp), ("ancestor", anc)])
        sets.append([(f, sp), (f, sp)])
        for st in sets:
            orders = list(itertools.permutations(st)) if len(st) <= 3 else [tuple(st), tuple(reversed(st))]
            for o in dict.fromkeys(orders):
                specs = [s for _, s in o]
                args = ", ".join('"%s"' % render_path(s) for s in specs)
                q = "redact(%s)" % args
                if rng.random() < 0.1:
                    q = "true and " + q
                cases.append({"tree": tree, "record": rec, "specs": specs, "forms": [f for f, _ in o], "query": q})
    return cases


# ---- correspondence with the Coq model (coq/KflText/Redact.v + RJson.v) -----------------------
def canonical(v):
    """Returned record with every nested JSON document re-rendered compactly with sorted keys
    (oj.JSON writes Go-map order); the model keeps the key order of its input, which the
    generator renders sorted."""
    if isinstance(v, dict):
        return {k: canonical(v[k]) for k in sorted(v)}
    if isinstance(v, list):
        return [canonical(x) for x in v]
    if isinstance(v, str):
        text, wrapped = v, False
        try:
            if len(v) % 4 == 0 and v:
                text, wrapped = base64.b64decode(v, validate=True).decode("utf-8"), True
        except Exception:
            text, wrapped = v, False
        try:
            inner = json.loads(text)
        except Exception:
            return v
        if not isinstance(inner, (dict, list)):
            return v
        t = json.dumps(canonical(inner), separators=(",", ":"), sort_keys=True)
        return base64.b64encode(t.encode()).decode() if wrapped else t
    return v


def jv_term(v):
    if v is None:
        return "JNull"
    if isinstance(v, bool):
        return "JBool true" if v else "JBool false"
    if isinstance(v, int):
        return "JNum (%d)%%Z" % v
    if isinstance(v, str):
        return "JStr " + coq_str(v)
    if isinstance(v, list):
        return "JArr [" + "; ".join(jv_term(x) for x in v) + "]"
    if isinstance(v, dict):
        return "JObj [" + "; ".join("(%s, %s)" % (coq_str(k), jv_term(v[k])) for k in sorted(v)) + "]"
    raise ValueError(v)


def segs_term(spec):
    """One argument of redact as the list of its .json()-separated pieces (no xml hop)."""
    pieces, cur = [], []
    for st in spec:
        if st[0] == "json":
            pieces.append(cur)
            cur = []
        elif st[0] in ("child", "bracket"):
            cur.append("Child " + coq_str(st[1]))
        elif st[0] == "nth":
            cur.append("Nth (%d)%%Z" % st[1])
        elif st[0] == "wild":
            cur.append("Wild")
        elif st[0] == "desc":
            cur.append("Desc")
        else:
            raise ValueError(st)
    pieces.append(cur)
    return "[" + "; ".join("{| sjp := [%s]; sxml := None |}" % "; ".join(p) for p in pieces) + "]"


def model_comparable(case):
    """Cases the model's correspondence covers: JSON paths and json() hops only, and none of the
    recorded classes whose outcome depends on Go map order (wildcard before a hop)."""
    def has_cr(t):
        # the model's JSON text has the escapes quote, backslash, n, t and slash only
        if isinstance(t, Doc):
            return (isinstance(t.decl, str) and "\r" in t.decl) or isinstance(t.b64, str) or has_cr(t.tree)
        if isinstance(t, dict):
            return any(has_cr(v) for v in t.values())
        if isinstance(t, list):
            return any(has_cr(v) for v in t)
        return False
    if has_cr(case["tree"]):
        return False
    for sp in case["specs"]:
        if any(st[0] in ("xml", "xchild", "xidx") for st in sp):
            return False
        if "wildcard-before-hop" in classify_path(sp, case["tree"]):
            return False
        if not sp or sp[-1][0] in ("json", "desc"):
            return False
    return True
