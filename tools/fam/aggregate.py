"""Shared driver of the properties that span the four stream dissectors (C01, C02, C08, C11):
each family module tools/fam/<family>.py exposes c01/c02/c08/c11(ctx) running its share on the
real Dissect; the Coq side is Properties/Cxx.v importing the family lemma files."""
import importlib
import time
import traceback

FAMILIES = ["resp", "amqp", "kafka", "http"]


def run_shared(ctx, entry, coq_needed, rule, assumptions, trusted):
    ctx.build_harness()
    if not ctx.harness_tagged:
        ctx.broken.append("harness: build with -tags verif failed")
        return ctx.finish(rule="(harness did not build)")
    ctx.translate()
    ctx.coq_failed = ctx.coq_build()
    ctx.check_proofs()
    per_family = {}
    for fam in FAMILIES:
        t = time.time()
        before = ctx.cov["evaluations"]
        try:
            mod = importlib.import_module("fam." + fam)
            fn = getattr(mod, entry)
        except ModuleNotFoundError as ex:
            ctx.note("family %s is not part of this revision (%s): its share of %s is not covered" % (fam, ex, ctx.prop))
            continue
        except Exception as ex:
            ctx.broken.append("%s: family %s has no %s entry point (%s)" % (ctx.prop, fam, entry, ex))
            continue
        try:
            fn(ctx)
        except Exception:
            traceback.print_exc()
            ctx.broken.append("%s: family %s check failed: %s" % (ctx.prop, fam, traceback.format_exc(limit=2)[-300:]))
        per_family[fam] = {"evaluations": ctx.cov["evaluations"] - before, "wall_s": round(time.time() - t, 1)}
        ctx.log("%s: %s" % (fam, per_family[fam]))
    ctx.trusted += trusted
    return ctx.finish(rule=rule, assumptions=assumptions, extra={"per_family": per_family})


# ---------------------------------------------------------------------------------------- C16
def note_c16(ctx, fam, c16, replay):
    """Called by the family c11 loops for every emitted item: the stage.Result of the shared
    pipeline (own queries + all macros evaluated by the real kfl.Apply)."""
    stash = getattr(ctx, "c16_stash", None)
    if stash is not None and c16:
        stash.append((fam, c16, replay))
    items = getattr(ctx, "c11_items", None)
    if items is not None and c16 and "stage_req" in c16:
        # C11 (static part): the request / response maps as the stages saw them (VERIF_STAGE_DUMP)
        items.append((fam, c16, replay))


_CLAUSE = r'[A-Za-z_][A-Za-z0-9_.]*(?:\[\d+\][A-Za-z0-9_.]*)*(?:\["[^"\\\\]*"\])? == (?:"[^"\\\\\x00-\x1f\x7f]*"|-?\d+(?:\.\d+)?)'
_SAFE_QUERY = None


def unsafe_query(q):
    """Interpolated values that KFL string literals cannot carry (no escape processing: D43): the query is not a
    conjunction of `path == "value without quote, backslash or control character"` / `path == number` clauses."""
    global _SAFE_QUERY
    import re
    if _SAFE_QUERY is None:
        _SAFE_QUERY = re.compile("^%s(?: and %s)*$" % (_CLAUSE, _CLAUSE))
    return _SAFE_QUERY.match(q) is None


def unsafe_value(entry_json, q):
    """The same judged on the VALUES the query was built from (read from the entry at the paths the query names) instead
    of on the query text: a query whose text carries a backslash although no value does is not excused.  None when the
    entry or a path cannot be read."""
    import json
    import re
    try:
        entry = json.loads(entry_json)
    except (TypeError, ValueError):
        return None
    paths = re.findall(r'(?:^| and )([A-Za-z_][A-Za-z0-9_.]*(?:\[\d+\][A-Za-z0-9_.]*)*) == ', q)
    if not paths:
        return None
    for p in paths:
        cur = entry
        for seg in re.findall(r'[A-Za-z_][A-Za-z0-9_]*|\[\d+\]', p):
            try:
                cur = cur[int(seg[1:-1])] if seg.startswith("[") else cur[seg]
            except (KeyError, IndexError, TypeError):
                return None
        if isinstance(cur, str) and any(ch in '"\\' or ord(ch) < 32 or ord(ch) == 127 for ch in cur):
            return True
    return False


def collect_c16(ctx, fn):
    """Run a family's C11 share only to harvest its items (its own verdicts are not C16's)."""
    ctx.c16_stash = getattr(ctx, "c16_stash", [])
    saved = (ctx.violation, ctx.is_known, ctx.count_case, ctx.sample, ctx.known_finding)
    ctx.violation = lambda *a, **k: None
    ctx.is_known = lambda *a, **k: True
    ctx.count_case = lambda *a, **k: None
    ctx.sample = lambda *a, **k: None
    ctx.known_finding = lambda *a, **k: None
    nbroken = len(ctx.broken)
    try:
        fn(ctx)
    finally:
        ctx.violation, ctx.is_known, ctx.count_case, ctx.sample, ctx.known_finding = saved
        del ctx.broken[nbroken:]
