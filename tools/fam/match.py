"""Shared code of the matcher family (C09, C10): conversations, histories, oracles."""
from vlib import coq_list, coq_bool


def merges(seqs):
    """All order-preserving merges of the given sequences (lists)."""
    seqs = [s for s in seqs if s]
    if not seqs:
        yield []
        return
    for i, s in enumerate(seqs):
        rest = seqs[:i] + [s[1:]] + seqs[i + 1:]
        for m in merges(rest):
            yield [s[0]] + m


def conversation(conn_specs, base=10):
    """conn_specs: list of (conn, nreq, nresp) -> per-direction sequences of (conn, 'c'|'s', pid)."""
    seqs = []
    pid = base
    for conn, nreq, nresp in conn_specs:
        seqs.append([(conn, "c", pid + i) for i in range(nreq)])
        pid += 10
        seqs.append([(conn, "s", pid + i) for i in range(nresp)])
        pid += 10
    return seqs


def expected_items(history):
    """Oracle from the property text: k-th request with k-th response per connection."""
    reqs, resps = {}, {}
    for c, d, p in history:
        (reqs if d == "c" else resps).setdefault(c, []).append(p)
    items = set()
    residue = set()
    for c in set(reqs) | set(resps):
        rq, rs = reqs.get(c, []), resps.get(c, [])
        for k in range(min(len(rq), len(rs))):
            items.add((c, rq[k], rs[k]))
        for k in range(len(rs), len(rq)):
            residue.add((c, k + 1, True, rq[k]))
        for k in range(len(rq), len(rs)):
            residue.add((c, k + 1, False, rs[k]))
    return items, residue


def parse_residue(proto, res):
    out = set()
    for r in res or []:
        f = r["key"].split("_")
        conn = int(f[0].split(".")[-1])
        k = int(f[4])
        out.add((conn, k, bool(r["isreq"]), r["pid"]))
    return out


def hist_line(proto, history):
    return proto + "|" + " ".join("%d:%s:%d" % (c, d, p) for c, d, p in history)


def coq_hev(history):
    return coq_list(["(%d, %s, %d)" % (c, coq_bool(d == "c"), p) for c, d, p in history])


def coq_items(items):
    return coq_list(["(%d, %d, %d)" % (i["conn"], i["req"], i["resp"]) for i in items])


def coq_residue(res):
    return coq_list(["(%d, %d, %s, %d)" % (c, k, coq_bool(d), p) for c, k, d, p in sorted(res)])
