"""Shared code of the matcher family (C09, C10): conversations, histories, oracles."""
from vlib import coq_list, coq_bool


def merges(seqs):
    """All order-preserving merges of the given sequences (lists)."""
    seqs = [s for s in seqs if s]
    if not seqs:
        yield []
        return
    for i, s in enumerate(seqs):
        rest = seqs[:i] + [s[1:]] + seqs[i + 1:]
        for m in merges(rest):
            yield [s[0]] + m


def conversation(conn_specs, base=10):
    """conn_specs: list of (conn, nreq, nresp) -> per-direction sequences of (conn, 'c'|'s', pid)."""
    seqs = []
    pid = base
    for conn, nreq, nresp in conn_specs:
        seqs.append([(conn, "c", pid + i) for i in range(nreq)])
        pid += 10
        seqs.append([(conn, "s", pid + i) for i in range(nresp)])
        pid += 10
    return seqs


def expected_items(history):
    """Oracle from the property text: k-th request with k-th response per connection."""
    reqs, resps = {}, {}
    for c, d, p in history:
        (reqs if d == "c" else resps).setdefault(c, []).append(p)
    items = set()
    residue = set()
    for c in set(reqs) | set(resps):
        rq, rs = reqs.get(c, []), resps.get(c, [])
        for k in range(min(len(rq), len(rs))):
            items.add((c, rq[k], rs[k]))
        for k in range(len(rs), len(rq)):
            residue.add((c, k + 1, True, rq[k]))
        for k in range(len(rq), len(rs)):
            residue.add((c, k + 1, False, rs[k]))
    return items, residue


def parse_residue(proto, res):
    out = set()
    for r in res or []:
        f = r["key"].split("_")
        try:
            k = int(f[4])
        except (IndexError, ValueError):
            k = -1
        out.add((r.get("conn", -1), k, bool(r["isreq"]), r["pid"]))
    return out


def hist_line(proto, history):
    return proto + "|" + " ".join("%d:%s:%d" % (c, d, p) for c, d, p in history)


def coq_hev(history):
    return coq_list(["(%d, %s, %d)" % (c, coq_bool(d == "c"), p) for c, d, p in history])


def coq_items(items):
    return coq_list(["(%d, %d, %d)" % (i["conn"], i["req"], i["resp"]) for i in items])


def coq_residue(res):
    return coq_list(["(%d, %d, %s, %d)" % (c, k, coq_bool(d), p) for c, k, d, p in sorted(res)])


# ---- keyed correlation (HTTP/2 stream ids, Kafka correlation ids): events (conn, dir, pid, key)
def keyed_expected(history):
    reqs, resps = {}, {}
    for c, d, p, k in history:
        (reqs if d == "c" else resps)[(c, k)] = p
    items = {(c, reqs[(c, k)], resps[(c, k)]) for (c, k) in reqs if (c, k) in resps}
    residue = {(c, k, True, p) for (c, k), p in reqs.items() if (c, k) not in resps}
    residue |= {(c, k, False, p) for (c, k), p in resps.items() if (c, k) not in reqs}
    return items, residue


def keyed_line(proto, history):
    return proto + "|" + " ".join("%d:%s:%d:%d" % e for e in history)


def coq_kev(history):
    return coq_list(["((%d, %d), %s, %d)" % (c, k, coq_bool(d == "c"), p) for c, d, p, k in history])


def keyed_histories(rng, proto, quick):
    """Conversations with out-of-order responses; for kafka only histories in which every response
    follows its request (the polling matcher gives up otherwise: recorded finding)."""
    out = []
    shapes = [(1, 1), (2, 2), (2, 1), (3, 3), (3, 2)] if quick else [(1, 1), (2, 2), (2, 1), (3, 3), (3, 2), (4, 4), (4, 3)]
    for nreq, nresp in shapes:
        keys = [2 * i + 1 for i in range(nreq)]
        reqs = [(1, "c", 10 + i, keys[i]) for i in range(nreq)]
        import itertools
        for answered in itertools.permutations(range(nreq), nresp):
            resps = [(1, "s", 20 + i, keys[i]) for i in answered]
            ms = list(merges([reqs, resps]))
            if len(ms) > 12:
                ms = rng.sample(ms, 12)
            out += ms
    # two connections with the same keys
    for _ in range(30 if quick else 300):
        h = []
        seqs = []
        for c in rng.choice([(2, 3), (2, 4), (1, 2)]):
            n = rng.randint(1, 4)
            keys = [2 * i + 1 for i in range(n)]
            order = list(range(n))
            rng.shuffle(order)
            order = order[:rng.randint(0, n)]
            seqs.append([(c, "c", 100 * c + i, keys[i]) for i in range(n)])
            seqs.append([(c, "s", 100 * c + 50 + i, keys[i]) for i in order])
        seqs = [x for x in seqs if x]
        while seqs:
            x = rng.choice(seqs)
            h.append(x.pop(0))
            seqs = [y for y in seqs if y]
        out.append(h)
    if proto == "kafka":
        def ok(h):
            seen = set()
            for c, d, p, k in h:
                if d == "c":
                    seen.add((c, k))
                elif (c, k) not in seen:
                    return False
            return True
        out = [h for h in out if ok(h)]
    return out
