"""C11, static part for redis / amqp / kafka / http / dns: the tie between the generated access programs
(coq/gen/StagesSrc.v), the generated shapes (coq/gen/StageShapes.v) and the implementation.

a. every item the aggregate run of C11 pushed through the stages (request / response maps as
   Summarize and Represent see them, dumped by harness/stage): conforms to an alternative AND the
   model (stage_run) gives the observed outcome;
b. deviating items: every single-point deviation (other JSON type / null / key deleted or added,
   at every place of the maps) of real items and of shape-derived witness values is run through
   the REAL Summarize / Represent (vh-stages mutate); model and implementation must agree on the
   outcome and on the site of the panic;
c. when the static check fails: witness values conforming to the failing alternative are run
   through the real stages to turn the failure into a concrete panicking input."""
import copy
import hashlib
import json
import os
import re

import vlib

EXTS = ["redis", "amqp", "kafka", "http", "dns"]
STAGES = ["summarize", "represent"]


def load_gen():
    gen = os.path.join(vlib.COQ, "gen")
    src = json.load(open(os.path.join(gen, "StagesSrc.json")))
    shapes = json.load(open(os.path.join(gen, "StageShapes.json")))
    return src, shapes


def site_of(src, o):
    """site number of an observed panic (None: not an assertion inside the translated files)"""
    if not o.get("panic"):
        return 0
    if o.get("kind") not in ("assert", "index") or o.get("file") not in src["files"]:
        return None
    return (src["files"].index(o["file"]) + 1) * src["mul"] + o["line"]


# ---------------------------------------------------------------------------------- witnesses from shapes
ANYS = [None, True, 7, "x", [], ["x"], {}, {"k": "x"}, [{}]]


def wmax(s):
    k = s["k"]
    if k == "any":
        return "x"
    if k == "null":
        return None
    if k == "bool":
        return True
    if k == "num":
        return 7
    if k == "numtag":
        return s["z"]
    if k == "str":
        return "s"
    if k == "strtag":
        return s["s"]
    if k in ("arr", "arr1"):
        return [wmax(s["e"])]
    if k == "opt":
        return wmax(s["e"])
    if k == "obj":
        o = {f[0]: wmax(f[1]) for f in s["fs"]}
        if "rest" in s:
            o["other key"] = wmax(s["rest"])
        return o
    raise ValueError(k)


def wmin(s):
    k = s["k"]
    if k in ("any", "opt", "null"):
        return None
    if k == "arr":
        return []
    if k == "arr1":
        return [wmin(s["e"])]
    if k == "obj":
        return {f[0]: wmin(f[1]) for f in s["fs"]}
    return wmax(s)


EXTRA_ANYS = []     # objects over the keys the failing program reads that no shape lists (set by witnesses)


def listed_keys(s, acc):
    if s["k"] == "obj":
        for f in s["fs"]:
            acc.add(f[0])
            listed_keys(f[1], acc)
        if "rest" in s:
            listed_keys(s["rest"], acc)
    elif s["k"] in ("arr", "arr1", "opt"):
        listed_keys(s["e"], acc)
    return acc


def objects_over(keys):
    """small objects over the given keys: what a program that reads these keys of an arbitrary value may depend on"""
    import itertools
    vals = [None, "x", 7, True, {}, []]
    out = []
    for k in keys:
        for v in vals:
            out.append({k: v})
    for a, b in itertools.combinations(keys, 2):
        for va in vals[:4]:
            for vb in vals[:4]:
                out.append({a: va, b: vb})
    return out


def variants(s):
    """values conforming to s that differ from wmax(s) in one place"""
    k = s["k"]
    if k == "any":
        for v in ANYS + EXTRA_ANYS:
            yield copy.deepcopy(v)
    elif k == "num":
        yield from (-1, 0, 1)
    elif k == "str":
        yield ""
    elif k == "opt":
        yield None
        yield from variants(s["e"])
    elif k == "arr":
        yield []
        for v in variants(s["e"]):
            yield [v]
        yield [wmax(s["e"]), wmax(s["e"])]
    elif k == "arr1":
        for v in variants(s["e"]):
            yield [v]
        yield [wmax(s["e"]), wmax(s["e"])]
    elif k == "obj":
        base = wmax(s)
        for f in s["fs"]:
            for v in variants(f[1]):
                o = copy.deepcopy(base)
                o[f[0]] = v
                yield o
            if f[1]["k"] in ("opt", "any", "null"):
                o = copy.deepcopy(base)
                del o[f[0]]            # an absent key reads as nil
                yield o
        if "rest" in s:
            o = copy.deepcopy(base)
            del o["other key"]
            yield o
            for v in variants(s["rest"]):
                o = copy.deepcopy(base)
                o["other key"] = v
                yield o


def witnesses(alt, cap, prog_keys=(), all_alts=None):
    global EXTRA_ANYS
    listed = set()
    for a in (all_alts or [alt]):        # keys that no shape of the extension lists: members of arbitrary values only
        listed_keys(a["req"], listed)
        listed_keys(a["resp"], listed)
    EXTRA_ANYS = objects_over([k for k in prog_keys if k not in listed][:8])
    if EXTRA_ANYS:
        cap = max(cap, 6000)
    rq, rs = wmax(alt["req"]), wmax(alt["resp"])
    out = [("max", rq, rs), ("min", wmin(alt["req"]), wmin(alt["resp"]))]
    for i, v in enumerate(variants(alt["req"])):
        if len(out) >= cap:
            break
        out.append(("req-variant-%d" % i, v, rs))
    for i, v in enumerate(variants(alt["resp"])):
        if len(out) >= 2 * cap:
            break
        out.append(("resp-variant-%d" % i, rq, v))
    return out


# ---------------------------------------------------------------------------------- running the implementation
def vh_stages(ctx, mode, cases, extra=()):
    inp = "\n".join(json.dumps(c) for c in cases) + "\n"
    rc, out = ctx.vh("vh-stages", [mode, "-strmax", str(STRMAX)] + list(extra), inp=inp, timeout=900, merge_stderr=False)
    res = [json.loads(l) for l in out.split("\n") if l.startswith("{")]
    return rc, res


STRMAX = 1024


def type_sig(v, depth=0):
    if v is None:
        return "n"
    if isinstance(v, bool):
        return "b"
    if isinstance(v, (int, float)):
        return "f"
    if isinstance(v, str):
        return "s"
    if isinstance(v, list):
        return "[" + ",".join(sorted({type_sig(x, depth + 1) for x in v})) + "]"
    return "{" + ",".join("%s:%s" % (k, type_sig(x, depth + 1)) for k, x in sorted(v.items())) + "}"


def item_sig(ext, rq, rs):
    tags = [(rq or {}).get(k) for k in ("method", "apiKey", "apiVersion")] + [(rs or {}).get("method")]
    tags = [t if isinstance(t, (str, int, float)) else None for t in tags]
    h = hashlib.sha1((type_sig(rq) + "|" + type_sig(rs)).encode()).hexdigest()[:10]
    return (ext, json.dumps(tags), h)


# ---------------------------------------------------------------------------------- Coq
PRELUDE = """From Coq Require Import List Bool String ZArith.
Require Import V.Base.Prelude V.Shape.Access V.gen.StagesSrc V.gen.StageShapes.
Import ListNotations.
Local Open Scope string_scope.
Set Warnings "-abstract-large-number".
Definition ext_of (e : nat) : stmt * stmt * list alt :=
  match e with
  | 0 => (prog_redis_summarize, prog_redis_represent, alts_redis)
  | 1 => (prog_amqp_summarize, prog_amqp_represent, alts_amqp)
  | 2 => (prog_kafka_summarize, prog_kafka_represent, alts_kafka)
  | 3 => (prog_http_summarize, prog_http_represent, alts_http)
  | _ => (prog_dns_summarize, prog_dns_represent, alts_dns)
  end.
Definition out_eqb (r : res unit) (n : nat) : bool :=
  match r with Ok _ => Nat.eqb n 0 | Panic s => negb (Nat.eqb n 0) && Nat.eqb s n | _ => false end.
(* extension, request, response, must it conform to an alternative, observed outcome of Summarize and of
   Represent (0: no panic, else the site of the failed assertion) *)
Definition case := (nat * jv * jv * bool * nat * nat)%type.
(* monomorphic constructors for the case terms (fast to elaborate) *)
Definition jn (z : Z) : jv := VNum (Some z).
Definition js (s : string) : jv := VStr (Some s).
Definition jN : jv := VNum None.
Definition jS : jv := VStr None.
Definition ac (v : jv) (r : list jv) : list jv := v :: r.
Definition an : list jv := nil.
Definition oc (k : string) (v : jv) (r : list (string * jv)) : list (string * jv) := (k, v) :: r.
Definition on : list (string * jv) := nil.
Definition mk (e : nat) (rq rs : jv) (must : bool) (s1 s2 : nat) : case := (e, rq, rs, must, s1, s2).
Definition cc (c : case) (r : list case) : list case := c :: r.
Definition cn : list case := nil.
Definition chk_conf (c : case) : bool :=
  let '(e, rq, rs, must, _, _) := c in let '(_, _, alts) := ext_of e in
  negb must || existsb (fun a => alt_conf a rq rs) alts.
Definition chk_run (c : case) : bool :=
  let '(e, rq, rs, _, s1, s2) := c in let '(p1, p2, _) := ext_of e in
  out_eqb (stage_run p1 rq rs) s1 && out_eqb (stage_run p2 rq rs) s2.
Definition show (c : case) :=
  let '(e, rq, rs, _, s1, s2) := c in let '(p1, p2, _) := ext_of e in (stage_run p1 rq rs, stage_run p2 rq rs).
"""


LIT = re.compile(r'"(?:[^"]|"")*"')


def intern(terms):
    """Elaborating a string literal costs ~50 us per character: every distinct literal is defined once."""
    table = {}

    def name(m):
        lit = m.group(0)
        if lit not in table:
            table[lit] = "s%d" % len(table)
        return table[lit]
    terms = [LIT.sub(name, t) for t in terms]
    defs = "".join("Definition %s := %s.\n" % (n, lit) for lit, n in table.items())
    return defs, terms


def coq_cases(ctx, name, cases):
    """cases: dicts with ext, req_skel, resp_skel, must, s1, s2. Returns (bad_conf, bad_run) index lists or None."""
    terms = ["(mk %d %s %s %s %d %d)" % (EXTS.index(c["ext"]), c["req_skel"], c["resp_skel"], "true" if c["must"] else "false", c["s1"], c["s2"])
             for c in cases]
    defs, terms = intern(terms)
    src = (PRELUDE + defs + "Definition cases : list case :=\n" + "\n".join("cc " + t + " (" for t in terms) + "cn" + ")" * len(terms) + ".\n"
           "Definition MC := Eval vm_compute in failing chk_conf cases.\nPrint MC.\n"
           "Definition MR := Eval vm_compute in failing chk_run cases.\nPrint MR.\n")
    rc, out = ctx.coq_run(name, src)
    mc = vlib.parse_coq_list_of_nat(out, "MC")
    mr = vlib.parse_coq_list_of_nat(out, "MR")
    if rc != 0 or mc is None or mr is None:
        ctx.log(out[-1500:])
        return None
    return mc, mr


def coq_show(ctx, name, cases):
    terms = ["(mk %d %s %s true %d %d)" % (EXTS.index(c["ext"]), c["req_skel"], c["resp_skel"], c["s1"], c["s2"]) for c in cases]
    src = PRELUDE + "Eval vm_compute in map show [\n" + ";\n".join(terms) + "].\n"
    rc, out = ctx.coq_run(name, src)
    return out[-1200:]


def static_failures(ctx):
    src = PRELUDE
    names = []
    for e in EXTS:
        for st in STAGES:
            n = "F_%s_%s" % (e, st)
            names.append((e, st, n))
            src += "Definition %s := Eval vm_compute in failing (fun a => check prog_%s_%s (stage_env a)) alts_%s.\nPrint %s.\n" % (n, e, st, e, n)
    rc, out = ctx.coq_run("stages_static", src)
    res = {}
    for e, st, n in names:
        l = vlib.parse_coq_list_of_nat(out, n)
        if rc != 0 or l is None:
            ctx.log(out[-1500:])
            return None
        res[(e, st)] = l
    return res


def source_keys(ext):
    """string literals used as map indices in the extension's stage code (candidates for the members of arbitrary values)"""
    import re
    keys = []
    for f in ("main.go", "helpers.go", "graphql.go"):
        try:
            text = open(os.path.join(vlib.REPO, "pkg/extensions", ext, f)).read()
        except OSError:
            continue
        for k in re.findall(r'\["([A-Za-z_#-][A-Za-z0-9_#-]*)"\]', text):
            if k not in keys:
                keys.append(k)
    return keys


def impl_witness_search(ctx, shapes, exts, why):
    """When the programs of an extension are not available (the translator refused, the generated files do not
    compile), values built from the shapes alone are run through the real stages: a panic is the failing input."""
    found = 0
    for e in exts:
        keys = source_keys(e)
        for alt in shapes["alts"].get(e, []):
            ws = witnesses(alt, 300, keys, shapes["alts"].get(e))
            rc, res = vh_stages(ctx, "run", [{"id": w[0], "ext": e, "request": w[1], "response": w[2]} for w in ws])
            for w, r in zip(ws, res or []):
                for stg, o in (("summarize", r.get("sum") or {}), ("represent", r.get("rep") or {})):
                    if o.get("panic") and found < 3:
                        found += 1
                        ctx.violation({"kind": "c11-witness", "extension": e, "stage": stg, "alternative": alt["name"],
                                       "what": "%s; a value conforming to the shape of this alternative makes the real %s panic" % (why, stg.capitalize()),
                                       "request": w[1], "response": w[2], "panic": "%s:%s %s" % (o.get("file"), o.get("line"), o.get("msg")),
                                       "how": "echo '{\"id\":\"w\",\"ext\":\"%s\",\"request\":<request>,\"response\":<response>}' | work/bin/vh-stages run" % e})
            if found >= 3:
                return found
    return found


# ---------------------------------------------------------------------------------- the check
def c11(ctx):
    quick = ctx.tier == "quick"
    items = getattr(ctx, "c11_items", [])
    try:
        src, shapes = load_gen()
    except (OSError, ValueError) as ex:
        ctx.broken.append("C11_static: generated StagesSrc.json / StageShapes.json missing (%s)" % ex)
        return
    ctx.check_proofs("Properties/C11_static.v")
    files = ["gen/StagesSrc.v", "gen/StageShapes.v", "Shape/Access.v", "Base/Prelude.v"]
    coq_ok = not any(f in ctx.coq_failed for f in files)
    untranslated = [p["untranslated"] for p in src["programs"] if p["untranslated"]]
    if untranslated:
        ctx.broken.append("C11_static: the translator refused: " + "; ".join(untranslated)[:600])
        impl_witness_search(ctx, shapes, sorted({p["ext"] for p in src["programs"] if p["untranslated"]}), "the translator refused a stage function")
    if shapes["problems"]:
        ctx.broken.append("C11_static: shape derivation: " + "; ".join(shapes["problems"])[:600])
    all_sites = {(p["ext"], p["stage"]): set(p["sites"]) for p in src["programs"]}
    st = {"programs": {"%s_%s" % k: len(v) for k, v in all_sites.items()},
          "alternatives": {e: len(shapes["alts"][e]) for e in EXTS}, "untranslated": untranslated}
    ctx.cov["c11_static"] = st
    if not coq_ok:
        ctx.broken.append("K_stages: the generated Coq files do not compile")
        return

    # ---- c. the static check itself: failing alternatives -> witness values on the real code
    fails = static_failures(ctx)
    if fails is None:
        ctx.broken.append("C11_static: the checker could not be evaluated on the generated files")
        fails = {}
    nfail = 0
    for (e, stg), idx in fails.items():
        for i in idx:
            nfail += 1
            alt = shapes["alts"][e][i]
            keys = [k for p in src["programs"] if p["ext"] == e and p["stage"] == stg for k in p["keys"]]
            ws = witnesses(alt, 400, keys, shapes["alts"][e])
            rc, res = vh_stages(ctx, "run", [{"id": w[0], "ext": e, "request": w[1], "response": w[2]} for w in ws])
            hit = None
            for w, r in zip(ws, res):
                o = r["sum" if stg == "summarize" else "rep"]
                if o.get("panic"):
                    hit = (w, o)
                    break
            if hit:
                w, o = hit
                if nfail <= 4:
                    ctx.violation({"kind": "c11-static", "extension": e, "stage": stg, "alternative": alt["name"],
                                   "what": "the shape checker rejects %s of %s for this alternative; a value conforming to it makes the real %s panic"
                                           % (stg, e, stg.capitalize()),
                                   "request": w[1], "response": w[2], "panic": "%s:%s %s" % (o.get("file"), o.get("line"), o.get("msg")),
                                   "how": "echo '{\"id\":\"w\",\"ext\":\"%s\",\"request\":<request>,\"response\":<response>}' | work/bin/vh-stages run" % e})
            else:
                ctx.broken.append("C11_static: check_alts rejects prog_%s_%s for alternative \"%s\" and none of %d conforming witness values made the real code panic"
                                  % (e, stg, alt["name"], len(ws)))
    st["failing_alternatives"] = nfail

    ctx.log("stages tie: static diagnosis done (%d failing alternatives)" % nfail)
    # ---- a. the items of the aggregate run
    by_sig = {}
    dumped = 0
    for fam, c16, replay in items:
        ext = (c16.get("protocol") or "").split("/")[0]
        if ext not in EXTS or "stage_req" not in c16:
            continue
        dumped += 1
        sig = item_sig(ext, c16["stage_req"], c16["stage_resp"])
        l = by_sig.setdefault(sig, [])
        panicked = (c16.get("panic") or "").split(":")[0] in ("summarize", "represent")
        if len(l) < (2 if quick else 6) or panicked:
            l.append((ext, c16, replay))
    real = [x for l in by_sig.values() for x in l]
    ctx.rng.shuffle(real)
    cap_real = 450 if quick else 4000
    real.sort(key=lambda x: 0 if (x[1].get("panic") or "").split(":")[0] in ("summarize", "represent") else 1)
    real = real[:cap_real]
    rc, res = vh_stages(ctx, "run", [{"id": str(i), "ext": x[0], "request": x[1]["stage_req"], "response": x[1]["stage_resp"]} for i, x in enumerate(real)])
    if rc != 0 or len(res) != len(real):
        ctx.broken.append("K_stages: vh-stages run failed (%d/%d results)" % (len(res), len(real)))
        return
    cases = []
    outside = 0
    for x, r in zip(real, res):
        s1, s2 = site_of(src, r["sum"]), site_of(src, r["rep"])
        if s1 is None or s2 is None:
            outside += 1
            continue
        cases.append({"ext": x[0], "req_skel": r["req_skel"], "resp_skel": r["resp_skel"], "must": True, "s1": s1, "s2": s2,
                      "origin": "emitted", "replay": x[2], "request": x[1]["stage_req"], "response": x[1]["stage_resp"], "obs": r})
    nreal = len(cases)

    # ---- b. deviating items: single-point deviations of real items and of shape witnesses
    bases = []
    seen = set()
    for x in real:
        sig = item_sig(x[0], x[1]["stage_req"], x[1]["stage_resp"])
        if sig in seen:
            continue
        seen.add(sig)
        bases.append({"id": "emitted-%d" % len(bases), "ext": x[0], "request": x[1]["stage_req"], "response": x[1]["stage_resp"]})
    bases = bases[:60 if quick else 500]
    wit = []
    for e in EXTS:
        for alt in shapes["alts"][e]:
            for w in witnesses(alt, 0 if quick else 100)[:(1 if quick else 200)]:
                wit.append({"id": "witness %s %s" % (alt["name"], w[0]), "ext": e, "request": w[1], "response": w[2]})
    # the witnesses themselves conform and must not panic
    rc, wres = vh_stages(ctx, "run", wit)
    if rc != 0 or len(wres) != len(wit):
        ctx.broken.append("K_stages: vh-stages run failed on the witness values")
        return
    for w, r in zip(wit, wres):
        s1, s2 = site_of(src, r["sum"]), site_of(src, r["rep"])
        if s1 is None or s2 is None:
            outside += 1
            continue
        cases.append({"ext": w["ext"], "req_skel": r["req_skel"], "resp_skel": r["resp_skel"], "must": True, "s1": s1, "s2": s2,
                      "origin": w["id"], "request": w["request"], "response": w["response"], "obs": r})
        if (s1 or s2) and not any(w["ext"] == e for (e, _), idx in fails.items() if idx):
            ctx.violation({"kind": "c11-witness-panic", "extension": w["ext"], "witness": w["id"], "request": w["request"], "response": w["response"],
                           "observed": r, "what": "a value conforming to an alternative of the derived shapes makes the real stage panic although the static check accepts the program",
                           "how": "vh-stages run"})
    nwit = len(cases) - nreal
    ctx.log("stages tie: %d emitted items dumped, %d sampled, %d witnesses run" % (dumped, nreal, nwit))
    mut_bases = bases + (wit if quick else wit[::5])
    rc, mres = vh_stages(ctx, "mutate", mut_bases, extra=["-keys", os.path.join(vlib.COQ, "gen", "StagesSrc.json"), "-per", "1" if quick else "2"])
    if rc != 0:
        ctx.broken.append("K_stages: vh-stages mutate failed")
        return
    ctx.log("stages tie: %d deviating runs kept from %d bases" % (len(mres), len(mut_bases)))
    classes = {}
    other_panics = 0
    for r in mres:
        s1, s2 = site_of(src, r["sum"]), site_of(src, r["rep"])
        if s1 is None or s2 is None:
            other_panics += 1
            outside += 1
            if other_panics <= 3:
                ctx.note("deviating %s item panics outside the model (%s): %s / %s" % (r["ext"], r.get("mut"), json.dumps(r["sum"])[:160], json.dumps(r["rep"])[:160]))
            continue
        classes.setdefault((r["ext"], s1, s2), []).append(r)
    per_class = 2 if quick else 8
    cap_dev = 1000 if quick else 12000
    dev = []
    for rnd in range(per_class):
        for k in sorted(classes):
            if rnd < len(classes[k]) and len(dev) < cap_dev:
                r = classes[k][rnd]
                dev.append({"ext": r["ext"], "req_skel": r["req_skel"], "resp_skel": r["resp_skel"], "must": False, "s1": k[1], "s2": k[2],
                            "origin": "%s: %s" % (r["id"], r.get("mut")), "request": r.get("request"), "response": r.get("response"), "obs": r})
    cases += dev
    ctx.cov["evaluations"] += len(mres)

    ctx.log("stages tie: %d cases for Coq (%d KB of terms)" % (len(cases), sum(len(c["req_skel"]) + len(c["resp_skel"]) for c in cases) // 1024))
    # ---- the model on all of them
    bad_conf, bad_run = [], []
    for k in range(0, len(cases), 1500):
        r = coq_cases(ctx, "stages_cases_%d" % k, cases[k:k + 1500])
        if r is None:
            ctx.broken.append("K_stages: coqc failed on the case file")
            return
        bad_conf += [k + i for i in r[0]]
        bad_run += [k + i for i in r[1]]
    for c in cases:
        ctx.count_case(("stages", c["ext"], c["req_skel"], c["resp_skel"]), True, "stages-" + ("dev" if not c["must"] else "conf") + "-" + c["ext"])
    ctx.cov["traces_validated_against_impl"] = ctx.cov.get("traces_validated_against_impl", 0) + len(cases)
    reported = 0
    for i in bad_conf:
        c = cases[i]
        if c["s1"] or c["s2"]:
            if c["origin"] == "emitted" and reported < 3:
                reported += 1
                ctx.violation({"kind": "c11-emitted-item-panics", "extension": c["ext"], "observed": c["obs"], "request": c["request"], "response": c["response"],
                               "replay": c.get("replay"), "what": "an emitted item conforms to no alternative of the shapes and the real stage panics on it"})
            continue
        ctx.broken.append("K_shapes: %s item (%s) conforms to no alternative of alts_%s: request %s response %s"
                          % (c["ext"], c["origin"], c["ext"], json.dumps(c["request"])[:500], json.dumps(c["response"])[:300]))
        break
    if bad_run:
        shown = coq_show(ctx, "stages_show", [cases[i] for i in bad_run[:3]])
        c = cases[bad_run[0]]
        ctx.broken.append("K_stages: model and implementation differ on %d of %d cases; first: %s (%s): implementation summarize=%s represent=%s, request %s response %s; model: %s"
                          % (len(bad_run), len(cases), c["ext"], c["origin"], c["s1"], c["s2"], json.dumps(c["request"])[:400], json.dumps(c["response"])[:300],
                             " ".join(shown.split())[-400:]))
    # ---- coverage of the assertion sites by deviating cases on which model and implementation agree
    hit = {k: set() for k in all_sites}
    badset = set(bad_run)
    for i, c in enumerate(cases):
        if i in badset:
            continue
        if c["s1"]:
            hit[(c["ext"], "summarize")].add(c["s1"])
        if c["s2"]:
            hit[(c["ext"], "represent")].add(c["s2"])
    total = sum(len(v) for v in all_sites.values())
    nhit = sum(len(hit[k] & all_sites[k]) for k in all_sites)
    missed = {"%s_%s" % k: sorted(all_sites[k] - hit[k]) for k in all_sites if all_sites[k] - hit[k]}
    st.update({"items_dumped": dumped, "emitted_items_checked": nreal, "witness_values_checked": nwit, "deviating_runs": len(mres),
               "deviating_cases_checked": len(dev), "outcome_classes": len(classes), "outside_model": outside,
               "sites_total": total, "sites_hit": nhit, "sites_not_hit": missed, "string_limit": STRMAX})
    ctx.log("stages tie: %d emitted + %d witness + %d deviating cases (of %d runs), sites hit %d/%d, conf mismatches %d, run mismatches %d"
            % (nreal, nwit, len(dev), len(mres), nhit, total, len(bad_conf), len(bad_run)))
    if not quick and missed:
        ctx.note("assertion sites not reached by a deviating case: %s" % json.dumps(missed))
    ctx.sample({"kind": "stages-tie", "cases": len(cases), "sites_hit": "%d/%d" % (nhit, total)})
    ctx.trusted += [
        "harness/cmd/vh-translate/stages*.go (go/ast translation of Summarize/Represent into access programs; its assumptions are listed in the header of gen/StagesSrc.v) "
        "and stageshapes.go (reflection over the emitted Go values; pairing rules in the header of gen/StageShapes.v): exercised by the model-vs-implementation check, not proved",
        "skeleton abstraction of JSON values (harness/cmd/vh-stages): strings up to %d printable bytes and integral numbers below 2^31 recorded, others only by type; keys escaped injectively" % STRMAX,
        "panics that are not failed type assertions or constant indices of too short slices inside main.go/helpers.go of the extension are outside the model (%d such runs this time)" % outside,
    ]
