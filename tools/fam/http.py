"""HTTP family (pkg/extensions/http): abstract conversations, expected reports, oracles on the
implementation, Coq case files, and the HTTP share of C01 / C02 / C08 / C11.

The abstract conversation (HTTP/1 exchanges, HTTP/2 stream scripts) is generated here from the
seeded PRNG; harness/cmd/vh-http encodes it (own HTTP/1 encoder; x/net Framer + hpack.Encoder),
drives the real Dissect and prints projected observables.  What an item must report is computed
here from the abstract conversation alone.
"""
from fam import aggregate as _agg
import base64
import concurrent.futures
import hashlib
import json
import os
import re
import subprocess
import urllib.parse

import vlib

CAP = 1 << 20
CLIENT = ("10.0.0.1", "40000")
SERVER = ("10.0.0.2", "80")


def b64(b):
    return base64.b64encode(bytes(b)).decode()


def unb64(s):
    return base64.b64decode(s)


# ------------------------------------------------------------------------------------ running
def _run_batch(args):
    prog, mode, lines, limit_kb, timeout = args
    cmd = [prog, mode]
    pre = None
    if limit_kb:
        import resource

        def pre():
            resource.setrlimit(resource.RLIMIT_AS, (limit_kb * 1024, limit_kb * 1024))
    try:
        p = subprocess.run(cmd, input=("\n".join(lines) + "\n").encode(), stdout=subprocess.PIPE,
                           stderr=subprocess.PIPE, timeout=timeout, env=vlib.env_with_go(), preexec_fn=pre)
        out, rc, err = p.stdout.decode("utf-8", "replace"), p.returncode, p.stderr.decode("utf-8", "replace")
    except subprocess.TimeoutExpired as ex:
        out = ex.stdout.decode("utf-8", "replace") if ex.stdout else ""
        rc, err = 124, "timeout"
    res = []
    for l in out.split("\n"):
        if l.strip():
            try:
                res.append(json.loads(l))
            except ValueError:
                pass
    return rc, res, err[-2000:]


def run_cases(ctx, cases, mode="run", batch=40, limit_kb=None, timeout=900, workers=12):
    """Runs cases through vh-http in parallel batches; returns {id: result}. A batch whose process
    died yields results for the cases finished before it (the next case is marked 'died')."""
    prog = os.path.join(vlib.BIN, "vh-http")
    for i, c in enumerate(cases):
        c.setdefault("id", i)
    jobs = []
    for k in range(0, len(cases), batch):
        chunk = cases[k:k + batch]
        jobs.append((prog, mode, [json.dumps(c) for c in chunk], limit_kb, timeout))
    results = {}
    with concurrent.futures.ThreadPoolExecutor(max_workers=workers) as ex:
        for (job, (rc, res, err)) in zip(jobs, ex.map(_run_batch, jobs)):
            ids = [json.loads(l)["id"] for l in job[2]]
            for r in res:
                if "id" in r:
                    results[r["id"]] = r
            if rc != 0 or len(res) < len(ids):
                for i in ids:
                    if i not in results:
                        results[i] = {"id": i, "died": True, "rc": rc, "stderr": err}
                        break   # the first unfinished case is the one that killed the process
                for i in ids:
                    results.setdefault(i, {"id": i, "skipped": True})
    return results


# ------------------------------------------------------------------------------------ small helpers
TOKEN = set(b"!#$%&'*+-.^_`|~0123456789abcdefghijklmnopqrstuvwxyzABCDEFGHIJKLMNOPQRSTUVWXYZ")


def canon_key(k):
    """textproto.CanonicalMIMEHeaderKey: unchanged when a byte is not a token byte."""
    kb = k.encode("latin-1")
    if any(c not in TOKEN for c in kb):
        return k
    out, upper = [], True
    for ch in k:
        if upper and "a" <= ch <= "z":
            ch = ch.upper()
        elif not upper and "A" <= ch <= "Z":
            ch = ch.lower()
        out.append(ch)
        upper = ch == "-"
    return "".join(out)


def body_key(b):
    return (len(b), hashlib.sha1(bytes(b)).hexdigest())


def obs_body(rep):
    """(len, sha1) of a harness body report."""
    if rep is None:
        return (0, hashlib.sha1(b"").hexdigest())
    return (rep["n"], rep["h"])


def rand_token(rng, lo=1, hi=8, alphabet="abcdefghijklmnopqrstuvwxyz0123456789"):
    return "".join(rng.choice(alphabet) for _ in range(rng.randint(lo, hi)))


def rand_value(rng, lo=0, hi=24):
    alphabet = "abcdefghijklmnopqrstuvwxyzABCDEFGHIJKLMNOPQRSTUVWXYZ0123456789 ,;=/._-+*()\"'!?<>[]{}@#$%^&|~`:"
    s = "".join(rng.choice(alphabet) for _ in range(rng.randint(lo, hi))).strip()
    return s


def rand_body(rng, n, binary=None):
    if n > 2000:
        # long bodies: runs with short random stretches in between (cheap to write as a Coq term)
        out = bytearray()
        while len(out) < n:
            out += bytes([rng.randrange(256)]) * rng.choice([64, 100, 1000, 4000])
            out += bytes(rng.getrandbits(8) for _ in range(rng.choice([0, 1, 5, 30])))
        return bytes(out[:n])
    if binary is None:
        binary = rng.random() < 0.4
    if binary:
        return bytes(rng.getrandbits(8) for _ in range(n))
    return bytes(rng.choice(b"abcdefghijklmnopqrstuvwxyz {}[]\":,0123456789\r\n") for _ in range(n))


def parse_cookie_header(vals):
    out = []
    for v in vals:
        for part in v.split(";"):
            part = part.strip()
            if not part or "=" not in part:
                continue
            n, val = part.split("=", 1)
            out.append([n, val])
    return out


# ==================================================================================== HTTP/2
GRPC_CT = ["application/grpc", "application/grpc+proto", "application/grpc-web+proto"]
PLAIN_CT = ["application/json", "text/plain; charset=utf-8", "application/octet-stream", "text/html", None]


def gen_stream(rng, idx, body_sizes=None, force=None):
    """One abstract stream: request and response header fields, bodies, trailers, gRPC or not."""
    kind = force or rng.choice(["plain", "plain", "grpc", "grpc", "grpc-trailers-only", "grpc-req-only", "grpc-status-only"])
    method = rng.choice(["GET", "POST", "POST", "PUT", "DELETE", "PATCH", "OPTIONS", "get", "Post"])
    path = "/" + "/".join(rand_token(rng) + (rng.choice(["%20", "%2F", "%2f", "%41", "%C3%A9", "+", "%25"]) + rand_token(rng, 0, 3) if rng.random() < 0.15 else "")
                          for _ in range(rng.randint(0, 3)))
    if rng.random() < 0.3:
        path += "?" + "&".join("%s=%s" % (rand_token(rng, 1, 3), rand_token(rng, 0, 4)) for _ in range(rng.randint(1, 3)))
    req = [(":method", method), (":scheme", rng.choice(["http", "https"])), (":path", path),
           (":authority", rng.choice(["svc.example:8080", "10.0.0.2", "api"]))]
    rng.shuffle(req)
    resp = [(":status", str(rng.choice([200, 200, 200, 201, 204, 301, 400, 404, 500, 503])))]
    common = ["user-agent", "accept", "x-request-id", "x-trace", "te", "accept-encoding", "x-a", "x-b"]

    def extra(n):
        out = []
        for _ in range(n):
            name = rng.choice(common) if rng.random() < 0.7 else "x-" + rand_token(rng, 1, 6)
            out.append((name, rand_value(rng)))
        return out
    req += extra(rng.randint(0, 5))
    resp += extra(rng.randint(0, 4))
    if rng.random() < 0.3:
        req.append(("cookie", "%s=%s; %s=%s" % (rand_token(rng), rand_token(rng), rand_token(rng), rand_token(rng))))
    if rng.random() < 0.3:   # repeated names
        n = rng.choice(["x-dup", "accept"])
        req += [(n, rand_value(rng, 1, 5)), (n, rand_value(rng, 1, 5))]
    sizes = body_sizes or [0, 0, 0, 1, 2, 3, 5, 17, 17, 100, 100, 1000, 1000, 4095, 4096, 4097, 16384, 20000]
    req_body = rand_body(rng, rng.choice(sizes)) if method not in ("GET", "DELETE", "OPTIONS") or rng.random() < 0.1 else b""
    resp_body = rand_body(rng, rng.choice(sizes))
    req_tr, resp_tr = None, None
    grpc = False
    if kind == "plain":
        ct = rng.choice(PLAIN_CT)
        if ct and req_body:
            req.append(("content-type", ct))
        ct = rng.choice(PLAIN_CT)
        if ct:
            resp.append(("content-type", ct))
        if rng.random() < 0.15:
            resp_tr = [("x-checksum", rand_token(rng))]
    elif kind == "grpc":
        grpc = True
        req.append(("content-type", rng.choice(GRPC_CT)))
        resp.append(("content-type", rng.choice(GRPC_CT)))
        resp_tr = [("grpc-status", rng.choice(["0", "0", "5", "14"])), ("grpc-message", rand_token(rng))]
        if not req_body:
            req_body = rand_body(rng, rng.choice([5, 17, 100]), True)
    elif kind == "grpc-trailers-only":
        grpc = True
        req.append(("content-type", "application/grpc"))
        resp += [("content-type", "application/grpc"), ("grpc-status", "12")]
        resp_body = b""
    elif kind == "grpc-req-only":      # only the request half carries the marker (D34)
        grpc = True
        req.append(("content-type", "application/grpc"))
        resp.append(("content-type", "text/plain"))
    elif kind == "grpc-status-only":   # grpc-status without a gRPC content type
        grpc = True
        resp_tr = [("grpc-status", "0")]
    if rng.random() < 0.1 and req_body:
        req_tr = [("x-req-trailer", rand_token(rng))]
    return {"idx": idx, "kind": kind, "grpc": grpc, "req": req, "req_body": req_body, "req_tr": req_tr,
            "resp": resp, "resp_body": resp_body, "resp_tr": resp_tr, "req_done": True, "resp_done": True}


def pieces_of(body):
    """RLE pieces for the harness / Coq: literal chunks and long runs."""
    out, pos = [], 0
    for m in re.finditer(rb"(.)\1{63,}", body, re.S):
        if m.start() > pos:
            out.append(("lit", body[pos:m.start()]))
        out.append(("rep", body[m.start()], m.end() - m.start()))
        pos = m.end()
    if pos < len(body):
        out.append(("lit", body[pos:]))
    return out


def pieces_json(body):
    return [{"lit": b64(p[1])} if p[0] == "lit" else {"b": p[1], "n": p[2]} for p in pieces_of(body)]


def frames_of(rng, st, side, sid, maxframe=16384):
    """Frame ops of one half of a stream: HEADERS (+CONTINUATION), DATA*, optional trailers."""
    fields = st["req"] if side == "c" else st["resp"]
    body = st["req_body"] if side == "c" else st["resp_body"]
    tr = st["req_tr"] if side == "c" else st["resp_tr"]
    done = st["req_done"] if side == "c" else st["resp_done"]
    ops = []
    split = sorted(rng.sample(range(1, 60), rng.randint(1, 3))) if rng.random() < 0.3 else []
    noidx = [i for i in range(len(fields)) if rng.random() < 0.1]
    h = {"t": "headers", "sid": sid, "fields": [list(f) for f in fields], "split": split, "noidx": noidx,
         "end": done and not body and not tr}
    if rng.random() < 0.1:
        h["pad"] = rng.randint(1, 20)
    if rng.random() < 0.1:
        h["prio"] = True
        h["val"] = rng.randint(1, 200)
    ops.append(h)
    pos = 0
    dataops = []
    while pos < len(body):
        n = min(len(body) - pos, rng.choice([1, 7, 100, 1000, maxframe, maxframe, maxframe]))
        d = {"t": "data", "sid": sid, "data": pieces_json(body[pos:pos + n])}
        if rng.random() < 0.05:
            d["pad"] = rng.randint(1, 9)
        dataops.append(d)
        pos += n
    if body and rng.random() < 0.15:   # an empty DATA frame carrying END_STREAM
        dataops.append({"t": "data", "sid": sid, "data": []})
    if dataops and not tr and done:
        dataops[-1]["end"] = True
    ops += dataops
    if tr:
        ops.append({"t": "headers", "sid": sid, "fields": [list(f) for f in tr], "end": done})
    return ops


def other_frame(rng, sids):
    t = rng.choice(["settings", "settings_ack", "ping", "ping", "window_update", "window_update", "priority", "unknown", "tablesize", "goaway"])
    op = {"t": t, "val": rng.randint(0, 100)}
    if t == "goaway":
        # a graceful shutdown notice in the middle of the connection (last-stream-id 0, one of the streams, or the maximum):
        # the streams already started still complete
        op["sid"] = rng.choice([0, 0] + sids + [2 ** 31 - 1])
        op["val"] = rng.choice([0, 0, 2, 11])
    if t in ("window_update",):
        op["sid"] = rng.choice([0] + sids)
    if t in ("priority", "unknown"):
        op["sid"] = rng.choice(sids)
    if t == "ping":
        op["ack"] = rng.random() < 0.5
    if t == "tablesize":
        op["val"] = rng.choice([0, 256, 1024, 4096])
    if t == "unknown":
        op["data"] = pieces_json(rand_body(rng, rng.randint(0, 20)))
    return op


def interleave(rng, lists, sticky=0.0):
    """Random order-preserving merge of the frame lists."""
    lists = [list(l) for l in lists if l]
    out = []
    cur = None
    while lists:
        if cur is None or cur not in lists or rng.random() >= sticky:
            cur = rng.choice(lists)
        out.append(cur.pop(0))
        if not cur:
            lists.remove(cur)
            cur = None
    return out


def build_h2_case(rng, streams, mode="prior", others=True, rst=None, order=None, upgrade=None):
    """Encodable case of a list of abstract streams.  Stream ids 1,3,5,.. in list order (the h2c
    upgrade exchange, if any, is stream 1)."""
    first = 3 if mode == "h2c" else 1
    for k, st in enumerate(streams):
        st["sid"] = first + 2 * k
    sids = [st["sid"] for st in streams] or [1]
    cl = [frames_of(rng, st, "c", st["sid"]) for st in streams]
    sl = [frames_of(rng, st, "s", st["sid"]) for st in streams if st.get("resp_present", True)]
    sticky = rng.choice([0.0, 0.5, 0.9])
    cops = interleave(rng, cl, sticky)
    sops = interleave(rng, sl, sticky)
    if others:
        for ops in (cops, sops):
            for _ in range(rng.randint(0, 4)):
                ops.insert(rng.randint(0, len(ops)), other_frame(rng, sids))
    if rst:
        for (side, st) in rst:
            ops = cops if side == "c" else sops
            ops.append({"t": "rst", "sid": st["sid"], "val": 8})
    cops.insert(0, {"t": "settings", "val": rng.randint(0, 10)})
    sops.insert(0, {"t": "settings", "val": rng.randint(0, 10)})
    # SETTINGS_HEADER_TABLE_SIZE bounds the PEER's encoder: a half may announce a small table and still send
    # size updates up to what the other half announced (or the default 4096)
    for ops in (cops, sops):
        r = rng.random()
        if r < 0.4:
            ops[0]["hts"] = rng.choice([0, 256, 1024, 2048, 4096, 65536])
        elif r < 0.6:
            ops[0] = {"t": "settings", "empty": True}       # a peer that keeps every default: the preface is an empty SETTINGS frame
    case = {"kind": "h2", "h2": {"mode": mode, "client": cops, "server": sops}}
    if mode == "h2c":
        case["h2"]["upgrade"] = upgrade
    if order == "sc":
        case["first"] = "s"
    return case


def expected_h2_headers(fields, trailers, body_len_text):
    """Header multiset an item must report for one half of a stream (names as http.Header
    canonicalises them).  body_len_text: length of the reported body text (Content-Length that
    the HAR layer puts in place; see finding h2-content-length)."""
    hs = [[canon_key(n), v] for n, v in list(fields) + list(trailers or [])]
    return sorted(hs)


def expected_h2_item(st, completed_by="s"):
    rb, sb = st["req_body"][:CAP], st["resp_body"][:CAP]
    rf = dict((n, v) for n, v in st["req"] if n.startswith(":"))
    sf = dict((n, v) for n, v in st["resp"] if n.startswith(":"))
    cookies = parse_cookie_header([v for n, v in st["req"] if n == "cookie"])
    return {
        "abbr": "gRPC" if st["grpc"] else "HTTP/2",
        "method": rf[":method"], "path": rf[":path"], "status": int(sf[":status"]),
        "req_headers": expected_h2_headers(st["req"], st["req_tr"], 0),
        "res_headers": expected_h2_headers(st["resp"], st["resp_tr"], 0),
        "req_body": body_key(rb), "res_body": body_key(sb),
        "req_cookies": sorted(cookies),
        "idx": st["idx"],
    }


def h2_item_view(it):
    """Property-relevant view of an observed HTTP/2 item (bodies un-base64-ed)."""
    v = {"stage": it.get("stage"), "abbr": it["proto"][2], "version": it["proto"][1], "name": it["proto"][0],
         "ci": it.get("ci")}
    req, res = it.get("req"), it.get("res")
    if req is None or res is None:
        v["unreadable"] = True
        return v
    v["method"] = req["method"]
    v["url"] = req["url"]
    v["req_ver"], v["res_ver"] = req["ver"], res["ver"]
    v["status"] = res["status"]
    v["req_headers"] = sorted(req["headers"])
    v["res_headers"] = sorted(res["headers"])
    v["req_headers_order"] = req["headers"]
    v["res_headers_order"] = res["headers"]
    v["req_cookies"] = sorted(req["cookies"])
    v["req_params"] = req.get("params") or []
    v["req_mime"] = req.get("mime")

    def dec(rep):
        if rep is None:
            return b"", True, b""
        if "b64" not in rep:
            return None, True, None
        text = unb64(rep["b64"])
        try:
            return base64.b64decode(text, validate=True), True, text
        except Exception:
            return text, False, text
    rbody, rok, rtext = dec(req.get("text"))
    sbody, sok, stext = dec(res.get("text"))
    v["req_body_bytes"], v["res_body_bytes"] = rbody, sbody
    v["req_text"], v["res_text"] = rtext, stext
    v["req_body"] = body_key(rbody) if rbody is not None else None
    v["res_body"] = body_key(sbody) if sbody is not None else None
    v["b64_ok"] = rok and sok
    v["an"] = it.get("an")
    return v


def strip_cl(hs):
    return [h for h in hs if h[0] != "Content-Length"]


def diff_h2_item(exp, v):
    """Names of the observables on which the observed item differs from what the stream sent."""
    d = []
    if v.get("unreadable"):
        return ["unreadable:" + str(v.get("stage"))]
    if v["abbr"] != exp["abbr"]:
        d.append("classification")
    if v["name"] != "http" or v["version"] != "2.0":
        d.append("protocol")
    if v["method"] != exp["method"]:
        d.append("method")
    if v["status"] != exp["status"]:
        d.append("status")
    for side in ("req", "res"):
        eh, oh = exp[side + "_headers"], v[side + "_headers"]
        if eh != oh:
            if strip_cl(eh) == strip_cl(oh):
                d.append(side + "-content-length")
            else:
                d.append(side + "-headers")
        if v[side + "_body"] != exp[side + "_body"]:
            d.append(side + "-body")
    if not v["b64_ok"]:
        d.append("b64")
    if v["req_cookies"] != exp["req_cookies"]:
        d.append("cookies")
    if v["ci"] is None or tuple(v["ci"][:4]) != CLIENT + SERVER:
        d.append("connection-info")
    an = v.get("an")
    if an is not None:
        if an.get("path") != exp["path"]:
            d.append("analyze-path")
        if an.get("status") != exp["status"] or an.get("method") != exp["method"]:
            d.append("analyze-fields")
    return d


def match_items(exps, views, diff):
    """Assign observed items to expected ones (greedy on exact match first, then best effort).
    Returns (pairs [(exp, view, diffs)], missing exps, extra views)."""
    exps, views = list(exps), list(views)
    pairs = []
    for e in list(exps):
        for v in views:
            if not diff(e, v):
                pairs.append((e, v, []))
                exps.remove(e)
                views.remove(v)
                break
    for e in list(exps):
        best = None
        for v in views:
            dd = diff(e, v)
            if best is None or len(dd) < len(best[1]):
                best = (v, dd)
        if best is not None:
            pairs.append((e, best[0], best[1]))
            exps.remove(e)
            views.remove(best[0])
    return pairs, exps, views


# classes of recorded findings (computed, never guessed): a difference set maps to a class tag
def classify_h2(diffs, exp=None):
    ds = set(diffs)
    if ds and ds <= {"req-content-length", "res-content-length"}:
        return "h2-content-length"
    if ds == {"classification"} and exp is not None and exp.get("kind") in ("grpc-req-only",):
        return "h2-grpc-one-half"
    return None


def h2_residue_key(st, side):
    if side == "c":
        return "%s_%s_%s_%s_%d_HTTP2" % (CLIENT[0], SERVER[0], CLIENT[1], SERVER[1], st["sid"])
    return "%s_%s_%s_%s_%d_HTTP2" % (CLIENT[0], SERVER[0], CLIENT[1], SERVER[1], st["sid"])


# ==================================================================================== HTTP/1.x
# method tokens are case-sensitive and copied verbatim: a few in lower and mixed case
METHODS = ["GET", "GET", "GET", "POST", "POST", "PUT", "DELETE", "PATCH", "OPTIONS", "PURGE", "M-SEARCH", "get", "Patch", "m-search"]
H1_SIZES = [0, 1, 2, 3, 10, 100, 1000, 4000, 4090, 4095, 4096, 4097, 4100, 5000, 8192, 8193, 20000]


def gen_target(rng):
    segs = []
    for _ in range(rng.randint(0, 4)):
        s = rand_token(rng, 0 if rng.random() < 0.1 else 1, 8, "abcdefghijklmnopqrstuvwxyzABCXYZ0123456789-._~")
        if rng.random() < 0.15:
            s += rng.choice(["%20", "%2F", "%2f", "%41", "%C3%A9", "+", "%25"]) + rand_token(rng, 0, 3)
        segs.append(s)
    path = "/" + "/".join(segs)
    if path.startswith("//"):
        path = "/x" + path[1:]
    query = None
    if rng.random() < 0.5:
        keys = [rand_token(rng, 1, 4) for _ in range(rng.randint(1, 3))]
        parts = []
        for _ in range(rng.randint(1, 5)):
            k = rng.choice(keys)
            v = rand_token(rng, 0, 6, "abcdefghijklmnopqrstuvwxyz0123456789-._~")
            if rng.random() < 0.2:
                v += rng.choice(["%20", "+", "%26", "%3D", "%C3%A9"]) + rand_token(rng, 0, 2)
            parts.append(k + "=" + v if rng.random() < 0.9 else k)
        query = "&".join(parts)
    target = path + ("?" + query if query is not None else "")
    host = None
    if rng.random() < 0.1:
        host = rng.choice(["proxy.example", "h.example:8080"])
        if rng.random() < 0.35:
            # absolute-form without a path (RFC 7230 5.3.2): the path of the request is empty
            path = ""
            target = ("?" + query if query is not None else "")
        target = "http://" + host + target
    return target, path, query, host


def gen_exchange(rng, k, last=False, sizes=None):
    sizes = sizes or H1_SIZES
    method = rng.choice(METHODS)
    target, path, query, host = gen_target(rng)
    proto = "1.0" if rng.random() < 0.12 else "1.1"
    rh = [["Host" if rng.random() < 0.8 else "host", host or rng.choice(["h.example", "svc:8080", "10.0.0.2"])]]

    def extra(n, names):
        out = []
        for _ in range(n):
            name = rng.choice(names) if rng.random() < 0.7 else "X-" + rand_token(rng, 1, 6)
            if rng.random() < 0.3:
                name = name.lower()
            v = rand_value(rng)
            if rng.random() < 0.1:
                v = " " + v + "  "    # optional white space around the value is not part of it
            out.append([name, v])
        return out
    rh += extra(rng.randint(0, 6), ["User-Agent", "Accept", "X-Request-Id", "Accept-Encoding", "X-A", "x-b", "Referer", "X_Under"])
    if rng.random() < 0.25:
        n = rng.choice(["X-Dup", "Accept", "x-dup"])
        rh += [[n, rand_value(rng, 1, 6)] for _ in range(rng.randint(2, 3))]
    if rng.random() < 0.3:
        # names from a small pool: a name can come back after a different one (merged into one member of the entry's map)
        cnames = [rand_token(rng) for _ in range(rng.randint(1, 3))]
        rh.append(["Cookie", "; ".join("%s=%s" % (rng.choice(cnames), rand_token(rng, 1, 6)) for _ in range(rng.randint(1, 5)))])
    if rng.random() < 0.5:
        rng.shuffle(rh)
    rb = b""
    rf = "none"
    if method in ("POST", "PUT", "PATCH") or rng.random() < 0.05:
        rb = rand_body(rng, rng.choice(sizes))
        rf = rng.choice(["cl", "cl", "chunked"]) if proto == "1.1" else "cl"
        ct = rng.choice(["application/json", "text/plain", "application/octet-stream", "text/plain; charset=utf-8", None,
                         "application/x-www-form-urlencoded"])
        if ct == "application/x-www-form-urlencoded":
            rb = "&".join("%s=%s" % (rand_token(rng, 1, 4), rand_token(rng, 0, 6)) for _ in range(rng.randint(1, 4))).encode()
        if ct:
            rh.append(["Content-Type", ct])
    status = rng.choice([200, 200, 200, 201, 204, 301, 302, 304, 400, 404, 418, 500, 503])
    sp = proto if rng.random() < 0.9 else ("1.1" if proto == "1.0" else "1.0")
    sh = extra(rng.randint(0, 5), ["Server", "Date", "X-Trace", "Cache-Control", "Vary", "X-A", "etag"])
    if rng.random() < 0.3:
        snames = [rand_token(rng) for _ in range(2)]
        sh += [["Set-Cookie", "%s=%s%s" % (rng.choice(snames), rand_token(rng), rng.choice(["", "; Path=/", "; HttpOnly", "; Domain=example.com; Secure"]))]
               for _ in range(rng.randint(1, 2))]
    if 300 <= status < 400:
        sh.append(["Location", "/" + rand_token(rng)])
    sb = b""
    sf = "cl"
    if status in (204, 304):
        sf = "none"
    else:
        sb = rand_body(rng, rng.choice(sizes))
        choices = ["cl", "cl", "chunked"] if sp == "1.1" else ["cl"]
        if last:
            choices.append("close")
        sf = rng.choice(choices)
        ct = rng.choice(["application/json", "text/plain", "application/octet-stream", "text/html; charset=utf-8", None])
        if ct:
            sh.append(["Content-Type", ct])
        if sf == "close" and sp == "1.1":
            sh.append(["Connection", "close"])
    rh.append(["X-Rq", str(k)])
    sh.append(["X-Rs", str(k)])

    def chunks(n):
        return [rng.choice([1, 2, 15, 16, 17, 255, 256, 1000, 4096, 5000]) for _ in range(rng.randint(0, 6))]
    ex = {"method": method, "target": target, "proto": proto, "reqHeaders": rh, "reqBody": b64(rb), "reqFraming": rf,
          "reqChunks": chunks(len(rb)), "reqFramePos": rng.randint(0, len(rh)),
          "status": status, "reason": rng.choice(["OK", "Whatever", "Not Found"]), "respProto": sp, "respHeaders": sh,
          "respBody": b64(sb), "respFraming": sf, "respChunks": chunks(len(sb)), "respFramePos": rng.randint(0, len(sh)),
          "chunkExt": rng.random() < 0.1, "chunkUpper": rng.random() < 0.3}
    if last and rng.random() < 0.15:
        # the connection leaves HTTP with its last exchange: an upgrade that is not h2c, answered by 101 (a 1xx status that
        # IS the final response of its exchange)
        proto_name = rng.choice(["websocket", "TLS/1.3", "foo/2"])
        ex.update({"method": "GET", "proto": "1.1", "respProto": "1.1", "reqBody": "", "reqFraming": "none", "reqChunks": [],
                   "reqHeaders": [h for h in rh if h[0].lower() not in ("content-type", "connection", "upgrade")]
                   + [["Connection", "Upgrade"], ["Upgrade", proto_name], ["Sec-WebSocket-Key", rand_token(rng, 8, 8)]],
                   "status": 101, "reason": "Switching Protocols", "respBody": "", "respFraming": "none", "respChunks": [],
                   "respHeaders": [h for h in sh if h[0].lower() not in ("content-type", "connection", "upgrade", "location")]
                   + [["Connection", "Upgrade"], ["Upgrade", proto_name]]})
        ex["reqFramePos"], ex["respFramePos"] = 0, 0
    return ex


def go_query_unescape(s):
    return urllib.parse.unquote_to_bytes(s.replace("+", " ")).decode("utf-8", "replace")


def expected_h1_item(e, k):
    """What the item of exchange e must report, from the abstract exchange alone."""
    target = e["target"]
    sp = urllib.parse.urlsplit(target)
    rb, sb = unb64(e["reqBody"]), unb64(e["respBody"])
    rh = []
    host = None
    for n, v in e["reqHeaders"]:
        rh.append([canon_key(n), v.strip(" \t")])
    if e["reqFraming"] == "cl":
        rh.append(["Content-Length", str(len(rb))])
    elif e["reqFraming"] == "chunked":
        rh.append(["Transfer-Encoding", "chunked"])
    sh = [[canon_key(n), v.strip(" \t")] for n, v in e["respHeaders"]]
    if e["respFraming"] == "cl":
        sh.append(["Content-Length", str(len(sb))])
    elif e["respFraming"] == "chunked":
        sh.append(["Transfer-Encoding", "chunked"])
    query = []
    if sp.query:
        for part in sp.query.split("&"):
            if not part:
                continue
            kk, _, vv = part.partition("=")
            query.append([go_query_unescape(kk), go_query_unescape(vv)])
    path = urllib.parse.unquote_to_bytes(sp.path).decode("utf-8", "replace")
    cookies = parse_cookie_header([v for n, v in rh if n == "Cookie"])
    scookies = []
    for n, v in sh:
        if n == "Set-Cookie":
            nv = v.split(";")[0]
            cn, _, cv = nv.partition("=")
            scookies.append([cn.strip(), cv.strip()])
    ctype = [v for n, v in rh if n == "Content-Type"]
    mime = ctype[0].split(";")[0].strip().lower() if ctype else ""
    exp = {"k": k, "method": e["method"], "url": target, "req_ver": "HTTP/" + e["proto"], "res_ver": "HTTP/" + e["respProto"],
           "status": e["status"], "req_headers": sorted(rh), "res_headers": sorted(sh), "query": sorted(query),
           "req_cookies": sorted(cookies), "res_cookies": sorted(scookies), "res_body": body_key(sb), "path": path,
           "segs": path.split("/")[1:], "req_framing": e["reqFraming"], "mime": mime}
    if mime == "application/x-www-form-urlencoded":
        exp["req_params"] = sorted([go_query_unescape(p.partition("=")[0]), go_query_unescape(p.partition("=")[2])] for p in rb.decode().split("&") if p)
        exp["req_body"] = body_key(b"")
    else:
        exp["req_params"] = []
        exp["req_body"] = body_key(rb)
    qm = {}
    for n, v in exp["query"]:
        qm.setdefault(n, []).append(v)
    exp["an_query"] = {n: (vs[0] if len(vs) == 1 else vs) for n, vs in qm.items()}

    def merged(hs):
        m = {}
        for n, v in sorted(hs):
            m.setdefault(n, []).append(v)
        return {n: ",".join(vs) for n, vs in m.items()}
    exp["an_req_headers"] = merged(exp["req_headers"])
    exp["an_res_headers"] = merged(exp["res_headers"])
    # the entry's cookie maps: one member per name, the values of a repeated name joined in wire order
    cm = {}
    for n, v in cookies:
        cm.setdefault(n, []).append(v)
    exp["an_req_cookies"] = {n: ",".join(vs) for n, vs in cm.items()}
    sm = {}
    for n, v in scookies:
        sm.setdefault(n, []).append(v)
    exp["an_res_cookies"] = {n: sorted(vs) for n, vs in sm.items()}
    return exp


def h1_item_view(it):
    v = {"stage": it.get("stage"), "proto": it["proto"], "ci": it.get("ci")}
    req, res = it.get("req"), it.get("res")
    if req is None or res is None:
        v["unreadable"] = True
        return v
    v.update({"method": req["method"], "url": req["url"], "req_ver": req["ver"], "res_ver": res["ver"], "status": res["status"],
              "req_headers": sorted(req["headers"]), "res_headers": sorted(res["headers"]),
              "req_headers_order": req["headers"], "res_headers_order": res["headers"], "query_order": req["query"],
              "query": sorted(req["query"]), "req_cookies": sorted(req["cookies"]), "res_cookies": sorted(res["cookies"]),
              "req_params": sorted(req.get("params") or []), "has_post": req.get("hasPost"),
              "req_body": obs_body(req.get("text")), "res_body": obs_body(res.get("text")), "an": it.get("an"),
              "wmethod": req.get("wmethod")})
    return v


def diff_h1_item(exp, v):
    d = []
    if v.get("unreadable"):
        return ["unreadable:" + str(v.get("stage"))]
    for f in ("method", "url", "req_ver", "res_ver", "status", "query", "req_cookies", "res_cookies", "req_params"):
        if v[f] != exp[f]:
            d.append(f)
    for side in ("req", "res"):
        eh, oh = exp[side + "_headers"], v[side + "_headers"]
        if eh != oh:
            extra = [h for h in oh if h not in eh]
            missing = [h for h in eh if h not in oh]
            if side == "req" and exp["req_framing"] == "chunked" and not missing and len(extra) == 1 and extra[0][0] == "Content-Length":
                d.append("req-chunked-content-length")
            elif side == "res" and not extra and len(missing) == 1 and missing[0][0] == "Connection" and "close" in missing[0][1].lower():
                d.append("res-connection-close-dropped")
            else:
                d.append(side + "-headers")
        if v[side + "_body"] != exp[side + "_body"]:
            d.append(side + "-body")
    if v["proto"][0] != "http" or v["proto"][2] != "HTTP" or ("HTTP/" + v["proto"][1]) not in (exp["req_ver"], exp["res_ver"]):
        d.append("protocol")
    if v["ci"] is None or tuple(v["ci"][:4]) != CLIENT + SERVER:
        d.append("connection-info")
    an = v.get("an")
    if an is not None:
        if an.get("path") != exp["path"]:
            d.append("analyze-path")
        if an.get("segs") != exp["segs"]:
            d.append("analyze-segments")
        if an.get("query") != exp["an_query"]:
            d.append("analyze-query")
        if an.get("url") != exp["url"] or an.get("targetUri") != exp["url"]:
            d.append("analyze-url")
        if an.get("method") != exp["method"] or an.get("status") != exp["status"]:
            d.append("analyze-fields")
        ah = dict(an.get("reqHeaders") or {})
        eh = dict(exp["an_req_headers"])
        if "req-chunked-content-length" in d:
            ah.pop("Content-Length", None)
        if ah != eh:
            d.append("analyze-req-headers")
        eh = dict(exp["an_res_headers"])
        if "res-connection-close-dropped" in d:
            eh.pop("Connection", None)
        if (an.get("resHeaders") or {}) != eh:
            d.append("analyze-res-headers")
        if "an_req_cookies" in exp:
            if (an.get("reqCookies") or {}) != exp["an_req_cookies"]:
                d.append("analyze-req-cookies")
            got = {n: sorted(str(v).split(",")) for n, v in (an.get("resCookies") or {}).items()}
            if got != exp["an_res_cookies"]:
                d.append("analyze-res-cookies")
    return d


def classify_h1(diffs, exp=None):
    ds = set(diffs)
    if ds and ds <= {"req-chunked-content-length", "res-connection-close-dropped"}:
        return "h1-chunked-request-content-length" if "req-chunked-content-length" in ds else "h1-response-connection-close"
    return None


def h1_residue_key(k, kind="HTTP1"):
    return "%s_%s_%s_%s_%d_%s" % (CLIENT[0], SERVER[0], CLIENT[1], SERVER[1], k, kind)


# ==================================================================================== Coq terms
def cq_bytes(b):
    return "(bs [" + ";".join(str(x) for x in bytes(b)) + "])"


def cq_list(xs):
    return "[" + "; ".join(xs) + "]"


def cq_bool(b):
    return "true" if b else "false"


def cq_pieces(body):
    out = []
    for p in pieces_of(bytes(body)):
        if p[0] == "lit":
            for k in range(0, len(p[1]), 1500):     # short literals: coqc recurses on the length of a list literal
                out.append("PLit " + cq_bytes(p[1][k:k + 1500]))
        else:
            out.append("PRep %d %d" % (p[1], p[2]))
    return cq_list(out)


def cq_pk(x):
    return "PkErr" if x is None else "(PkBytes %s)" % cq_bytes(unb64(x))


ERRCLS = {"eof": "EEOF", "ueof": "EUnexpectedEOF", "other": "EProto"}


def hdr_tag(hdr_pairs):
    for n, v in hdr_pairs:
        if n in ("X-Rq", "X-Rs"):
            try:
                return int(v)
            except ValueError:
                return 0
    return 0


def cq_event(ev):
    t = ev["t"]
    if t == "E":
        return "EvErr %s %s" % (ERRCLS[ev["e"]], cq_bool(ev["more"]))
    if t == "F":
        if ev["k"] == "H":
            fs = cq_list(["(%s, %s)" % (cq_bytes(unb64(n)), cq_bytes(unb64(v))) for n, v in ev["f"]])
            f = "FHeaders %d %s %s" % (ev["sid"], fs, cq_bool(ev["es"]))
        elif ev["k"] == "D":
            f = "FData %d (unp %s) %s" % (ev["sid"], cq_pieces(unb64(ev["d"])), cq_bool(ev["es"]))
        else:
            f = "FOther %d" % ev["sid"]
        return "EvFrame (%s) %s" % (f, cq_bool(ev["more"]))
    hdr = [(unb64(k), [unb64(v) for v in vs]) for k, vs in ev["hdr"]]
    tag = hdr_tag([(k.decode("latin-1"), vs[0].decode("latin-1")) for k, vs in hdr if vs])
    h = cq_list(["(%s, %s)" % (cq_bytes(k), cq_list([cq_bytes(v) for v in vs])) for k, vs in hdr])
    method = cq_bytes(unb64(ev["method"])) if "method" in ev else "[]"
    p = "mkPayload false %d %s (%d)%%Z %s []" % (tag, method, ev.get("status", 0), h)
    berr = "None" if not ev["berr"] else "(Some %s)" % ERRCLS[ev["berr"]]
    return "EvMsg (%s) %d %s %s %s" % (p, ev["minor"], berr, cq_bool(ev["more"]), cq_pk(ev["next"]))


VARIANT = {("1.0", "HTTP"): 0, ("1.1", "HTTP"): 1, ("2.0", "HTTP/2"): 2, ("2.0", "gRPC"): 3}


def cq_pobs(side, is_req, textlimit=2048):
    h2 = side["ver"] == "HTTP/2.0"
    hs = side["headers"]
    tag = hdr_tag(hs)
    body, text = b"", None
    rep = side.get("text")
    if rep is not None and "b64" in rep:
        t = unb64(rep["b64"])
        if h2:
            try:
                body = base64.b64decode(t, validate=True)
            except Exception:
                body = b""
            if len(t) <= textlimit:
                text = t
    hl = cq_list(["(%s, %s)" % (cq_bytes(n.encode("utf-8", "surrogateescape")), cq_bytes(v.encode("utf-8", "surrogateescape"))) for n, v in hs])
    method = cq_bytes((side.get("method") or "").encode()) if is_req else "[]"
    status = side.get("status") or 0
    return "mkPobs %s %d %s (%d)%%Z %s %s %s" % (cq_bool(h2), tag, method, 0 if is_req else status, hl, cq_pieces(body),
                                                 "None" if text is None else "(Some %s)" % cq_bytes(text))


def cq_item(it):
    var = VARIANT.get((it["proto"][1], it["proto"][2]), 9)
    out = bool(it["ci"][4]) if it.get("ci") else False
    return "mkIobs %d %s (%s) (%s)" % (var, cq_bool(out), cq_pobs(it["req"], True), cq_pobs(it["res"], False))


def cq_residue(keys):
    out = []
    for k in keys or []:
        parts = k.split("_")
        out.append("(%d, %s)" % (int(parts[4]), cq_bool(parts[5] == "HTTP2")))
    return cq_list(out)


def cq_conn_case(case, r):
    """conn_case term of one run (needs wantoracle); None if an item could not be projected."""
    for it in r["items"]:
        if it.get("req") is None or it.get("res") is None:
            return None
        for side in (it["req"], it["res"]):
            rep = side.get("text")
            if rep is not None and "b64" not in rep:
                return None
    cev = cq_list([cq_event(e) for e in r["oc"]["ev"]])
    sev = cq_list([cq_event(e) for e in r["os"]["ev"]])
    items = cq_list([cq_item(it) for it in r["items"]])
    return "mkCase %s %s %s\n  %s\n  %s\n  %s\n  %s %s %s" % (
        cq_bool(case.get("first") != "s"), cq_pk(r["oc"]["first"]), cq_pk(r["os"]["first"]), cev, sev, items,
        cq_residue(r["residue"]), cq_bool(r["c"]["outcome"] == "panic"), cq_bool(r["s"]["outcome"] == "panic"))


def run_conn_cases_in_coq(ctx, name, terms, budget=300000, timeout=900, workers=14):
    """Evaluates chk_conn on the terms (files of about `budget` characters, in parallel); returns
    the list of failing indices (None on coqc failure)."""
    jobs, cur, cur_idx, size = [], [], [], 0
    for i, t in enumerate(terms):
        if cur and size + len(t) > budget:
            jobs.append((cur_idx, cur))
            cur, cur_idx, size = [], [], 0
        cur.append(t)
        cur_idx.append(i)
        size += len(t)
    if cur:
        jobs.append((cur_idx, cur))

    def one(j):
        idxs, ts = j
        src = ("Require Import V.Base.Prelude V.Http.HBytes V.Http.H2Asm V.Http.HttpLoop V.Http.H1Glue V.Http.HttpK.\n"
               "Local Open Scope N_scope.\n"
               "Definition cases : list conn_case := [\n" + ";\n".join(ts) + "].\n"
               "Definition M := Eval vm_compute in failing chk_conn cases.\nPrint M.\n")
        return ctx.coq_run("%s_%d" % (name, idxs[0]), src, timeout=timeout)
    bad = []
    with concurrent.futures.ThreadPoolExecutor(max_workers=workers) as ex:
        for (idxs, ts), (rc, out) in zip(jobs, ex.map(one, jobs)):
            idx = vlib.parse_coq_list_of_nat(out, "M")
            if rc != 0 or idx is None:
                ctx.log("coqc failed on %s_%d: %s" % (name, idxs[0], out[-800:]))
                return None
            bad += [idxs[i] for i in idx]
    return bad


# ==================================================================================== shared properties (HTTP share)
def sample_conversations(rng, n_h1=3, n_h2=3, sizes=None, split=True):
    """Abstract conversations used by C01 / C02 / C08: list of (case, meta)."""
    out = []
    for i in range(n_h1):
        k = rng.choice([2, 3])
        ex = [gen_exchange(rng, j + 1, last=(j == k - 1), sizes=sizes or [0, 3, 100, 1000, 4097, 5000]) for j in range(k)]
        if i == 0:
            ex[0].update({"method": "POST", "reqFraming": "chunked", "reqBody": b64(rand_body(rng, 300)), "reqChunks": [100, 100]})
            ex[-1].update({"respFraming": "chunked", "respBody": b64(rand_body(rng, 500)), "respChunks": [255, 17]})
            if ex[-1]["status"] in (204, 304):
                ex[-1]["status"] = 200
        if i == 1:
            ex[0].update({"method": "POST", "reqFraming": "cl", "reqBody": b64(rand_body(rng, 64))})
            ex[-1].update({"respFraming": "cl", "respBody": b64(rand_body(rng, 128))})
            if ex[-1]["status"] in (204, 304):
                ex[-1]["status"] = 200
        out.append(({"kind": "h1", "h1": ex}, {"kind": "h1", "exchanges": ex}))
    for i in range(n_h2):
        k = rng.choice([1, 2, 3])
        streams = [gen_stream(rng, j, body_sizes=sizes or [0, 5, 100, 3000, 20000]) for j in range(k)]
        mode = "prior"
        case = build_h2_case(rng, streams, mode=mode)
        if not split:
            for side in ("client", "server"):
                for op in case["h2"][side]:
                    op.pop("split", None)
        out.append((case, {"kind": "h2", "streams": streams}))
    return out


def encode_cases(ctx, cases):
    res = run_cases(ctx, [dict(c) for c in cases], mode="encode")
    return [res[c["id"]] for c in cases]


def strip_item(it):
    # stage_ns: timing; size / rep_size: length of the item's JSON, which contains CaptureSize (bytes read from
    # the connection since the previous message: read-ahead, not part of what is reported about the traffic)
    d = {k: v for k, v in it.items() if k not in ("stage_ns", "size", "rep_size")}
    return json.dumps(d, sort_keys=True)


def result_key(r):
    """Everything the chunking property compares: outcome classes, items, residue."""
    if "items" not in r:
        return "BROKEN " + json.dumps(r, sort_keys=True)[:200]
    return json.dumps([r["c"]["outcome"], r["s"]["outcome"], [strip_item(i) for i in r["items"]], r["residue"]], sort_keys=True)


def raw(c, s, **kw):
    d = {"kind": "raw", "c": b64(c), "s": b64(s), "bodylimit": 1}
    d.update(kw)
    return d


TOKENS = [b"GET ", b"POST ", b"HEAD ", b"/", b" HTTP/1.1\r\n", b" HTTP/1.0\r\n", b"HTTP/1.1 200 OK\r\n", b"HTTP/1.1 101 Switching Protocols\r\n",
          b"\r\n", b"\r\n\r\n", b"\n", b"Host: h\r\n", b"Content-Length: ", b"Transfer-Encoding: chunked\r\n", b"Connection: Upgrade\r\n",
          b"Upgrade: h2c\r\n", b"Content-Type: multipart/form-data; boundary=x\r\n", b"Content-Type: application/x-www-form-urlencoded\r\n",
          b"Content-Encoding: gzip\r\n", b"Cookie: a=b\r\n", b"0\r\n\r\n", b"5\r\nhello\r\n", b"ffffffffffffffff\r\n", b"-1", b"0", b"1", b"9", b"4294967296",
          b"PRI * HTTP/2.0\r\n\r\nSM\r\n\r\n", b"\x00\x00\x00\x04\x00\x00\x00\x00\x00", b"\x00\x00\x04\x08\x00\x00\x00\x00\x00\x00\x00\x00\x01",
          b"\x00\x00\x01\x01\x05\x00\x00\x00\x01\x82", b"\x00\x00\x05\x00\x01\x00\x00\x00\x01hello", b"\x00\x00\x03\x01\x05\x00\x00\x00\x03\x88\x84\x86",
          b"\xff\xff\xff", b"\x00", b"\x80", b":", b" ", b"%", b"?a=1&a=2", b"%zz", b"--x\r\n", b"{\"query\":\"{a}\"}"]


H2_PREFACE = b"PRI * HTTP/2.0\r\n\r\nSM\r\n\r\n"


def h2_frame(ftype, flags, sid, payload):
    n = len(payload)
    return bytes([(n >> 16) & 255, (n >> 8) & 255, n & 255, ftype, flags]) + sid.to_bytes(4, "big") + payload


def big_data_streams(rng, quick):
    """HTTP/2 halves whose DATA frames reach and pass the assembler's per-stream cap (1 MiB): a stream that starts
    with a DATA frame (no HEADERS) or with HEADERS, one frame of the framer's largest sizes or many frames adding up;
    followed by more DATA on the same stream."""
    cap = 1 << 20
    hdr_get = h2_frame(1, 4, 0, b"\x82\x84\x86\x41\x01h")           # HEADERS(END_HEADERS) :method GET, :path /, :scheme http, :authority h
    out = []
    firsts = [cap - 1, cap, cap + 1, 2 * cap + 5] if quick else [cap - 1, cap, cap + 1, cap + 16384, 2 * cap + 5, (1 << 24) - 1]
    for n in firsts:
        for with_headers in (False, True):
            for second in ([0, 70000] if quick else [0, 1, 16384, 70000, cap + 1]):
                sid = rng.choice([1, 3, 5, 7])
                fill = bytes([rng.randrange(256)])
                c = bytearray(H2_PREFACE + h2_frame(4, 0, 0, b""))
                if with_headers:
                    c += hdr_get[:5] + sid.to_bytes(4, "big") + hdr_get[9:]
                c += h2_frame(0, 0, sid, fill * n)
                c += h2_frame(0, rng.choice([0, 1]), sid, fill * second)
                c += h2_frame(0, 1, sid, b"tail")
                out.append((bytes(c), h2_frame(4, 0, 0, b""), "big-data first=%d headers=%s second=%d" % (n, with_headers, second)))
    # many default-size frames adding up beyond the cap
    for with_headers in (False, True):
        sid = 1
        c = bytearray(H2_PREFACE + h2_frame(4, 0, 0, b""))
        if with_headers:
            c += hdr_get[:5] + sid.to_bytes(4, "big") + hdr_get[9:]
        for _ in range(cap // 16384 + 2):
            c += h2_frame(0, 0, sid, b"x" * 16384)
        c += h2_frame(0, 1, sid, b"y" * 100)
        out.append((bytes(c), h2_frame(4, 0, 0, b""), "big-data frames=%d headers=%s" % (cap // 16384 + 3, with_headers)))
    return out


# frames that http2.Framer.ReadFrame answers with an error other than an end of stream
REJECTED_FRAMES = [h2_frame(8, 0, 1, b"\x00\x00\x00\x00"), h2_frame(8, 0, 0, b"\x00\x00\x00\x00"), h2_frame(6, 0, 0, b"1234567"),
                   h2_frame(4, 0, 0, b"12345"), h2_frame(3, 0, 1, b"123"), h2_frame(2, 0, 1, b"1234"), h2_frame(7, 0, 0, b"1234"),
                   h2_frame(0, 0, 0, b"data on stream 0"), h2_frame(1, 4, 0, b"\x82"), h2_frame(9, 4, 1, b"\x82"), h2_frame(4, 1, 0, b"123456"),
                   h2_frame(5, 4, 0, b"\x00\x00\x00\x02\x82"), h2_frame(1, 4, 1, b"\xff\xff\xff\xff\xff")]


def random_stream(rng, n):
    out = bytearray()
    for _ in range(n):
        if rng.random() < 0.85:
            out += rng.choice(TOKENS)
        else:
            out += bytes(rng.getrandbits(8) for _ in range(rng.randint(1, 6)))
    return bytes(out)


def rand_cuts(rng, n, k=None):
    if n < 2:
        return []
    k = k or rng.randint(1, 8)
    return sorted(set(rng.randrange(1, n) for _ in range(k)))


def _bad_outcome(r):
    if "items" not in r:
        return "harness-failure"
    for side in ("c", "s"):
        if r[side]["outcome"] in ("panic", "hang"):
            return "%s:%s:%s" % (r[side]["outcome"], side, r[side].get("site", ""))
    if r.get("timeout"):
        return "timeout"
    return None


def c01(ctx):
    """HTTP share of C01: prefixes, corruptions and random token-biased strings never panic or
    hang; a cut conversation still reports what was complete."""
    rng = ctx.rng
    quick = ctx.tier == "quick"
    convs = sample_conversations(rng, 3, 3, split=False)
    for i, (c, m) in enumerate(convs):
        c["id"] = i
    encs = encode_cases(ctx, [c for c, _ in convs])
    cases, info = [], []

    def add(case, what):
        case["id"] = len(cases)
        cases.append(case)
        info.append(what)
    for (conv, meta), enc in zip(convs, encs):
        cb, sb = unb64(enc["c"]), unb64(enc["s"])
        add(raw(cb, sb), ("full", meta, None))
        full_id = len(cases) - 1
        for side, data, ends in (("c", cb, enc["cends"]), ("s", sb, enc["sends"])):
            offs = set(range(len(data))) if len(data) <= (700 if quick else 100000) else set(rng.sample(range(len(data)), 250))
            offs |= {e for e in ends if e < len(data)} | {e - 1 for e in ends if e > 0} | {0}
            for k in sorted(offs):
                case = raw(cb[:k], sb, ctail=rng.choice([0, 0, 1])) if side == "c" else raw(cb, sb[:k], stail=rng.choice([0, 0, 1]))
                add(case, ("prefix", meta, (side, k, full_id, ends)))
        # corruptions
        for _ in range(40 if quick else 600):
            side = rng.choice("cs")
            data = bytearray(cb if side == "c" else sb)
            if not data:
                continue
            for _ in range(rng.choice([1, 1, 1, 2, 4])):
                off = rng.randrange(len(data))
                r = rng.random()
                if r < 0.6:
                    data[off] = rng.choice([0, 0xff, 0x0d, 0x0a, 0x20, 0x3a, 0x30, 0x39, 0x2d, rng.getrandbits(8)])
                elif r < 0.8:
                    del data[off:off + rng.randint(1, 4)]
                else:
                    data[off:off] = rng.choice(TOKENS)
            case = raw(bytes(data), sb, ccuts=rand_cuts(rng, len(data))) if side == "c" else raw(cb, bytes(data), scuts=rand_cuts(rng, len(data)))
            case["ctail"], case["stail"] = rng.choice([0, 1, 2]), rng.choice([0, 1, 2])
            add(case, ("corruption", meta, None))
    for _ in range(400 if quick else 20000):
        c, s = random_stream(rng, rng.randint(1, 25)), random_stream(rng, rng.randint(1, 25))
        add(raw(c, s, ccuts=rand_cuts(rng, len(c)), scuts=rand_cuts(rng, len(s)), ctail=rng.choice([0, 1, 2]), stail=rng.choice([0, 1, 2]),
                first=rng.choice(["c", "s"])), ("random", None, None))
    for c, sv, what in big_data_streams(rng, quick):
        add(raw(c, sv, ctail=0, stail=0), ("bigdata", {"kind": "h2", "what": what}, None))
        add(raw(H2_PREFACE + sv, c[len(H2_PREFACE):], ctail=0, stail=0), ("bigdata", {"kind": "h2", "what": what + " (server half)"}, None))
    # very many streams open at once (HEADERS or DATA seen, no END_STREAM), then the oldest ones end
    hpl = b"\x82\x84\x86\x41\x01h"
    for nopen in ((90, 101, 130, 300) if quick else (90, 100, 101, 102, 130, 300, 1000, 5000)):
        for first in ("headers", "data"):
            c = bytearray(H2_PREFACE + h2_frame(4, 0, 0, b""))
            for k in range(nopen):
                c += h2_frame(1, 4, 2 * k + 1, hpl) if first == "headers" else h2_frame(0, 0, 2 * k + 1, b"d")
            for k in (0, 1, nopen // 2, nopen - 1):
                c += h2_frame(0, 1, 2 * k + 1, b"end")
            c += h2_frame(1, 5, 2 * nopen + 1, hpl)
            add(raw(bytes(c), h2_frame(4, 0, 0, b""), ctail=0, stail=0), ("manystreams", {"kind": "h2", "what": "%d open streams (%s first)" % (nopen, first)}, None))
            add(raw(H2_PREFACE + h2_frame(4, 0, 0, b""), bytes(c[len(H2_PREFACE):]), ctail=0, stail=0),
                ("manystreams", {"kind": "h2", "what": "%d open streams on the server half (%s first)" % (nopen, first)}, None))
    res = run_cases(ctx, cases, batch=60)
    nviol = 0
    partial_extra = 0
    for case, (kind, meta, extra) in zip(cases, info):
        r = res[case["id"]]
        ctx.count_case(("http-c01", case["c"], case["s"], case.get("ctail"), case.get("stail")), kind != "full", "http-" + kind)
        bad = _bad_outcome(r)
        why = None
        if bad:
            why = bad
        elif kind == "prefix":
            side, k, full_id, ends = extra
            full = [strip_item(i) for i in res[full_id]["items"]]
            obs = [strip_item(i) for i in r["items"]]
            rest = list(obs)
            for f in full:
                if f in rest:
                    rest.remove(f)
            if len(rest) > 1:
                why = "cut at %s:%d emits %d items that the complete conversation does not have" % (side, k, len(rest))
            partial_extra += len(rest)
            # at a message boundary of an HTTP/1 conversation: exactly the complete exchanges
            if why is None and meta["kind"] == "h1" and k in ends:
                j = ends.index(k) + 1
                want = min(j, len(full))
                got = len([o for o in obs if o in full])
                if got != want:
                    why = "cut at message boundary %s:%d: %d complete exchanges reported, expected %d" % (side, k, got, want)
        if why and not ctx.is_known("http-c01:" + why.split(":")[0]) and nviol < 3:
            nviol += 1
            ctx.violation({"kind": "http-c01", "input_kind": kind, "case": case, "failure": why,
                           "how": "vh-http run (case on stdin)"})
    ctx.cov.setdefault("http_c01", {})["items_for_the_cut_message"] = partial_extra
    ctx.sample({"kind": "http-c01", "cases": len(cases), "prefix": sum(1 for i in info if i[0] == "prefix"),
                "corruption": sum(1 for i in info if i[0] == "corruption"), "random": sum(1 for i in info if i[0] == "random")})
    return nviol


def c08(ctx):
    """HTTP share of C08: same bytes, different segmentations: identical items and outcome."""
    rng = ctx.rng
    quick = ctx.tier == "quick"
    convs = sample_conversations(rng, 4, 4)
    for i, (c, m) in enumerate(convs):
        c["id"] = i
    encs = encode_cases(ctx, [c for c, _ in convs])
    streams = [(unb64(e["c"]), unb64(e["s"])) for e in encs]
    # corruptions of some of them
    for cb, sb in list(streams[:4]):
        d = bytearray(cb)
        if d:
            d[rng.randrange(len(d))] = rng.choice([0, 0x0a, 0xff, 0x3a])
        e = bytearray(sb)
        if e:
            e[rng.randrange(len(e))] = rng.choice([0, 0x0a, 0xff, 0x3a])
        streams.append((bytes(d), sb))
        streams.append((cb, bytes(e)))
    # HTTP/2 halves with a frame the framer rejects (not an end of stream) between complete frames, more messages after it
    nh2 = 0
    for (conv, meta), (cb, sb) in list(zip(convs, streams)):
        if meta["kind"] != "h2" or nh2 >= (2 if quick else 8):
            continue
        nh2 += 1
        for side in ("c", "s"):
            data = cb if side == "c" else sb
            start = len(H2_PREFACE) if data.startswith(H2_PREFACE) else 0
            bounds, p = [], start
            while p + 9 <= len(data):
                p += 9 + int.from_bytes(data[p:p + 3], "big")
                if p <= len(data):
                    bounds.append(p)
            if len(bounds) < 3:
                continue
            for bad in rng.sample(REJECTED_FRAMES, 3 if quick else 6):
                at = rng.choice(bounds[:-1])
                d = data[:at] + bad + data[at:]
                streams.append((d, sb) if side == "c" else (cb, d))
    cases, ref = [], {}
    for si, (cb, sb) in enumerate(streams):
        def add(**kw):
            c = raw(cb, sb, **kw)
            c["id"] = len(cases)
            c["_stream"] = si
            cases.append(c)
            return c["id"]
        ref[si] = add()
        for side, data in (("ccuts", cb), ("scuts", sb)):
            n = len(data)
            pts = set(range(1, n)) if n <= (500 if quick else 1500) else set(rng.sample(range(1, n), 160 if quick else 600))
            pts |= {p for p in (1, 2, 8, 9, 23, 24, 25, 4095, 4096, 4097, 8191, 8192, 8193, n - 1) if 0 < p < n}
            for p in sorted(pts):
                add(**{side: [p]})
        for _ in range(25 if quick else 400):
            add(ccuts=rand_cuts(rng, len(cb), rng.randint(2, 40)), scuts=rand_cuts(rng, len(sb), rng.randint(2, 40)))
        add(ccuts=[-1], scuts=[-1])
    res = run_cases(ctx, [{k: v for k, v in c.items() if k != "_stream"} for c in cases], batch=80)
    nviol = 0
    for c in cases:
        r = res[c["id"]]
        si = c["_stream"]
        ctx.count_case(("http-c08", si, tuple(c.get("ccuts", [])), tuple(c.get("scuts", []))), c["id"] != ref[si], "http-split")
        if result_key(r) != result_key(res[ref[si]]) and nviol < 3:
            nviol += 1
            ctx.violation({"kind": "http-c08", "case": {k: v for k, v in c.items() if k != "_stream"},
                           "reference": {k: v for k, v in cases[ref[si]].items() if k != "_stream"},
                           "observed": result_key(r)[:2000], "expected": result_key(res[ref[si]])[:2000],
                           "how": "vh-http run: same bytes, the two segmentations give different results"})
    ctx.sample({"kind": "http-c08", "streams": len(streams), "segmentations": len(cases)})
    return nviol


def boundary_values(rem, cap):
    vals = [0, 1, rem - 1, rem, rem + 1, 65535, 65536, cap, cap + 1, 2 ** 31 - 1, -1, 2 ** 32 - 1]
    return vals


def c02(ctx):
    """HTTP share of C02: every length field x boundary values x three tails, in a child process
    under an address-space limit; alloc <= 64 n + 96 MiB, cpu <= 2 us n + 0.5 s; terminates."""
    rng = ctx.rng
    quick = ctx.tier == "quick"
    convs = sample_conversations(rng, 2, 2, sizes=[0, 3, 100, 1000, 5000])
    if not quick:
        convs += sample_conversations(rng, 6, 6)
    for i, (c, m) in enumerate(convs):
        c["id"] = i
    encs = encode_cases(ctx, [c for c, _ in convs])
    cases = []
    for enc in encs:
        cb, sb = unb64(enc["c"]), unb64(enc["s"])
        for tail in (0, 1, 2, 3, 4):          # 3, 4: an error that says "time-out", once / on every further read
            c = raw(cb, sb, ctail=tail, stail=tail)
            c["_what"] = ("unchanged", tail)
            cases.append(c)
        fields = enc.get("fields") or []          # no length field at all (header-less exchanges without bodies): null
        if quick and len(fields) > 14:
            fields = rng.sample(fields, 14)
        for f in fields:
            data = cb if f["side"] == "c" else sb
            cap = (1 << 24) - 1 if f["kind"] == "h2len" else CAP
            for v in boundary_values(f["rem"], cap):
                if f["kind"] == "h2len":
                    rep = (v % (1 << 24)).to_bytes(3, "big")
                elif f["kind"] == "chunk":
                    rep = (b"-1" if v < 0 else b"%x" % v)
                else:
                    rep = b"%d" % v
                nd = data[:f["off"]] + rep + data[f["off"] + f["len"]:]
                for tail in (0, 1, 2):
                    c = raw(nd, sb, ctail=tail, stail=tail) if f["side"] == "c" else raw(cb, nd, ctail=tail, stail=tail)
                    c["_what"] = (f["kind"], f["side"], f["off"], v, tail)
                    cases.append(c)
    # very many small DATA frames on one stream (the cost of a frame must not grow with what the stream already holds),
    # below and beyond the per-stream cap, with and without HEADERS, either half
    hdr = h2_frame(1, 4, 1, b"\x82\x84\x86\x41\x01h")
    for nfr, sz in ([(8000, 1), (6000, 10), (3000, 100)] if quick else [(8000, 1), (60000, 1), (6000, 10), (20000, 10), (3000, 100), (12000, 100)]):
        for with_headers in (True, False):
            body = h2_frame(4, 0, 0, b"") + (hdr if with_headers else b"") + h2_frame(0, 0, 1, b"z" * sz) * nfr + h2_frame(0, 1, 1, b"")
            for half in ("c", "s"):
                c = raw(H2_PREFACE + body, h2_frame(4, 0, 0, b""), ctail=0, stail=0) if half == "c" else raw(H2_PREFACE + h2_frame(4, 0, 0, b""), body, ctail=0, stail=0)
                c["_what"] = ("h2-many-data-frames", half, nfr, sz, with_headers)
                cases.append(c)
    # HTTP/1 in very many small units at two sizes (N and 4N), judged by the ratio: a chunked body of one-byte chunks,
    # pipelined minimal exchanges, header fields
    ok200 = b"HTTP/1.1 200 OK\r\nContent-Length: 0\r\n\r\n"
    for nsmall in ((1500, 6000) if quick else (10000, 40000)):
        chunked = b"POST /u HTTP/1.1\r\nHost: h\r\nTransfer-Encoding: chunked\r\n\r\n" + b"1\r\nx\r\n" * nsmall + b"0\r\n\r\n"
        shapes = [("h1-many-chunks", chunked, ok200),
                  ("h1-many-exchanges", b"GET /p HTTP/1.1\r\nHost: h\r\n\r\n" * nsmall, ok200 * nsmall),
                  ("h1-many-header-fields", b"GET /h HTTP/1.1\r\nHost: h\r\n" + b"".join(b"X-%d: v\r\n" % (k % 50) for k in range(nsmall)) + b"\r\n", ok200)]
        for shape, cb, sb in shapes:
            c = raw(cb, sb, ctail=0, stail=0)
            c["nostage"] = True        # the dissector alone: the later stages (and the harness' KFL evaluations) cost 2 MB per entry
            c["_what"] = ("scaling", shape, nsmall)
            cases.append(c)
    for i, c in enumerate(cases):
        c["id"] = i
    res = run_cases(ctx, [{k: v for k, v in c.items() if k != "_what"} for c in cases], mode="cost", batch=60,
                    limit_kb=6 * 1024 * 1024, timeout=600)
    nviol = 0
    worst = {"alloc_over_n": 0, "cpu_ms": 0}
    scaling = {}
    for c in cases:
        r = res[c["id"]]
        ctx.count_case(("http-c02", c["c"], c["s"], c["ctail"]), c["_what"][0] != "unchanged", "http-" + c["_what"][0])
        why = None
        if r.get("died"):
            why = "child process died (rc %s): %s" % (r.get("rc"), (r.get("stderr") or "")[-200:])
        elif r.get("skipped"):
            continue
        elif r.get("error"):
            why = "harness: " + r["error"]
        else:
            n = r["n"]
            worst["alloc_over_n"] = max(worst["alloc_over_n"], r["alloc"])
            worst["cpu_ms"] = max(worst["cpu_ms"], r["cpu_ns"] / 1e6)
            if c["_what"][0] == "scaling":
                scaling.setdefault(c["_what"][1], {})[c["_what"][2]] = (r["alloc"], r["cpu_ns"] // 1000, c)
            if r["c"]["outcome"] in ("hang", "panic") or r["s"]["outcome"] in ("hang", "panic") or r.get("timeout"):
                why = "outcome %s / %s" % (r["c"]["outcome"], r["s"]["outcome"])
            elif c["_what"][0] == "scaling":
                pass
            elif r["alloc"] > 64 * n + 96 * (1 << 20):
                why = "allocated %d bytes for %d input bytes" % (r["alloc"], n)
            elif r["cpu_ns"] > 2000 * n + 500000000:
                why = "cpu %.1f ms for %d input bytes" % (r["cpu_ns"] / 1e6, n)
        if why and nviol < 3:
            nviol += 1
            ctx.violation({"kind": "http-c02", "field": c["_what"], "case": {k: v for k, v in c.items() if k != "_what"},
                           "failure": why, "how": "vh-http cost (case on stdin) in a child process with RLIMIT_AS 6 GiB"})
    ratios = {}
    for shape, by_size in sorted(scaling.items()):
        if len(by_size) != 2:
            continue
        (n1, a), (n2, b) = sorted(by_size.items())
        ratios[shape] = {"units": [n1, n2], "alloc": [a[0], b[0]], "cpu_us": [a[1], b[1]]}
        why = None
        if b[0] > 6 * a[0] + (64 << 20):
            why = "%d units allocate %d bytes, %d units %d bytes: the cost of a unit grows with the units before it" % (n1, a[0], n2, b[0])
        elif b[1] > 8 * a[1] + 1500000:
            why = "%d units take %d us of CPU, %d units %d us: the cost of a unit grows with the units before it" % (n1, a[1], n2, b[1])
        if why and nviol < 3:
            nviol += 1
            ctx.violation({"kind": "http-c02", "field": list(b[2]["_what"]), "case": {k: v for k, v in b[2].items() if k != "_what"},
                           "failure": why, "how": "vh-http cost (case on stdin) in a child process with RLIMIT_AS 6 GiB"})
    ctx.cov.setdefault("http_c02", {})["scaling"] = ratios
    ctx.cov.setdefault("http_c02", {}).update({"max_alloc_bytes": worst["alloc_over_n"], "max_cpu_ms": round(worst["cpu_ms"], 2)})
    ctx.sample({"kind": "http-c02", "cases": len(cases), "max_alloc_bytes": worst["alloc_over_n"], "max_cpu_ms": round(worst["cpu_ms"], 2)})
    return nviol


def classify_stage(it):
    """Class of an item that does not survive the later stages (computed from the item)."""
    st = it.get("stage") or ""
    return "http-stage:" + st.split(":")[0] + (":" + st.split(":")[1] if st.startswith("panic") and ":" in st else "")


def c11(ctx):
    """HTTP share of C11: every item emitted for well-formed and corrupted streams goes through
    json round trip -> Analyze -> Summarize / Represent; the representation is well-formed."""
    rng = ctx.rng
    quick = ctx.tier == "quick"
    cases = []
    for i in range(120 if quick else 2000):
        k = rng.choice([1, 2, 3])
        ex = [gen_exchange(rng, j + 1, last=(j == k - 1)) for j in range(k)]
        for e in ex:                      # field variants the later stages read
            r = rng.random()
            if r < 0.1:
                e["reqHeaders"].append(["Content-Type", "multipart/form-data; boundary=xyz"])
                e.update({"method": "POST", "reqFraming": "cl",
                          "reqBody": b64(b"--xyz\r\nContent-Disposition: form-data; name=\"f\"; filename=\"a.txt\"\r\nContent-Type: text/plain\r\n\r\nhello\r\n--xyz--\r\n")})
            elif r < 0.3:
                e["reqHeaders"] = [h for h in e["reqHeaders"] if h[0].lower() != "content-type"] + [["Content-Type", rng.choice(["application/json", "application/json", "application/json; charset=utf-8"])]]
                body = rng.choice([b'{"query":"{ a { b } }","variables":null}', b'{"query":"{ a { b } }","variables":null}',
                                   b'{"query":{"match_all":{}}}', b'{"query":5}', b'{"query":["a"]}', b'{"query":null}', b'{"query":true}',
                                   b'{"query":"not graphql {{"}', b'["query"]', b'{"other":1}', b'{"query":'])
                e.update({"method": "POST", "reqFraming": "cl", "reqBody": b64(body)})
            elif r < 0.35:
                e["respHeaders"].append(["Content-Encoding", "gzip"])
        cases.append({"kind": "h1", "h1": ex, "bodylimit": 1})
    for i in range(60 if quick else 1000):
        streams = [gen_stream(rng, j, body_sizes=[0, 3, 100, 3000]) for j in range(rng.choice([1, 2, 3]))]
        for st in streams:
            r = rng.random()
            if r < 0.1:
                st["req"] = [f for f in st["req"] if f[0] != "content-type"] + [("content-type", "application/x-www-form-urlencoded")]
            elif r < 0.15:
                st["req"] = [f for f in st["req"] if f[0] != "content-type"] + [("content-type", "multipart/form-data; boundary=x")]
            elif r < 0.2:
                st["resp"] = list(st["resp"]) + [("content-encoding", "gzip")]
            elif r < 0.35:     # GraphQL over HTTP/2: a JSON body whose "query" parses as GraphQL
                st["req"] = [f for f in st["req"] if f[0] not in ("content-type", ":method")] + [(":method", "POST"), ("content-type", "application/json")]
                st["req_body"] = b'{"query":"{ a { b } }","variables":null}'
        c = build_h2_case(rng, streams)
        c["bodylimit"] = 1
        cases.append(c)
    for i, c in enumerate(cases):
        c["id"] = i
    encs = encode_cases(ctx, cases)
    for enc in list(encs)[: (60 if quick else 600)]:
        cb, sb = bytearray(unb64(enc["c"])), bytearray(unb64(enc["s"]))
        for d in (cb, sb):
            for _ in range(rng.choice([0, 1, 2])):
                if d:
                    d[rng.randrange(len(d))] = rng.choice([0, 0xff, 0x0a, 0x3a, 0x25, rng.getrandbits(8)])
        c = raw(bytes(cb), bytes(sb))
        c["id"] = len(cases)
        cases.append(c)
    res = run_cases(ctx, cases, batch=40)
    nviol, nitems = 0, 0
    classes = {}
    for c in cases:
        r = res[c["id"]]
        items = r.get("items", [])
        ctx.count_case(("http-c11", json.dumps(c, sort_keys=True)), bool(items), "http-" + c["kind"])
        for it in items:
            nitems += 1
            _agg.note_c16(ctx, "http", it.get("c16"), {"family": "http", "how": "vh-http run (stage)", "case": c})
            why = None
            if it.get("stage") != "ok":
                why = classify_stage(it)
            elif it.get("stage_ns", 0) > 500_000_000 + 20_000 * it.get("size", 0):     # generous linear budget: wall time on a loaded machine
                why = "http-stage:slow"
            if why:
                classes[why] = classes.get(why, 0) + 1
                if not ctx.is_known(why) and nviol < 3:
                    nviol += 1
                    ctx.violation({"kind": "http-c11", "class": why, "case": c, "stage": it.get("stage"),
                                   "how": "vh-http run: item -> json -> Analyze -> json -> Summarize / Represent"})
    ctx.cov.setdefault("http_c11", {}).update({"items": nitems, "classes": classes})
    ctx.sample({"kind": "http-c11", "cases": len(cases), "items": nitems, "not_ok": classes})
    return nviol
