"""KFL evaluator family (C12, C13, C14, C18): query / record generators, the reference semantics of
the language written from the property text (independent of eval.go and of the Coq model), the
runner of harness/cmd/vh-kfl and the writer of the correspondence files.

Abstract queries (what the generator builds and `sem` evaluates; `render` gives the query text):

  logical    ('L', [equality, ...], [op, ...])        op in and/or, right nested, short circuit
  equality   ('Q', [comparison, ...], [op, ...])      op in == / !=, right nested
  comparison ('C', [unary, ...], [op, ...])           op in > >= < <=, right nested
  unary      ('U', prefix, primary)                   prefix: string over '!' and '-'
  primary    ('num', text) ('str', s) ('re', src) ('true',) ('false',) ('nil',) ('sub', logical)
             ('path', segs)
             ('call', segs, name, [logical, ...])     segs may be [] : name(args)
             ('hop', segs, 'json'|'xml', subsegs)     segs.json()subsegs
  segs       ('k', name) ('w',) ('i', n) ('b', key) ('bw',) ('d', name)
"""
import base64
import binascii
import datetime
import json
import math
import os
import re
import struct
import time

import vlib

# ----------------------------------------------------------------------------------------------
# rendering

def render_segs(segs):
    out = []
    for i, s in enumerate(segs):
        if s[0] == 'k':
            out.append(("" if i == 0 else ".") + s[1])
        elif s[0] == 'w':
            out.append(".*")
        elif s[0] == 'i':
            out.append("[%d]" % s[1])
        elif s[0] == 'b':
            out.append('["%s"]' % s[1])
        elif s[0] == 'bw':
            out.append("[*]")
        elif s[0] == 'd':
            out.append(".." + s[1])
    return "".join(out)


def render(node):
    t = node[0]
    if t in ('L', 'Q', 'C'):
        parts = [render(node[1][0])]
        for op, x in zip(node[2], node[1][1:]):
            parts.append(op)
            parts.append(render(x))
        return " ".join(parts)
    if t == 'U':
        return node[1] + render(node[2])
    if t == 'num':
        return node[1]
    if t == 'str':
        return '"%s"' % node[1]
    if t == 're':
        return 'r"%s"' % node[1]
    if t in ('true', 'false', 'nil'):
        return t
    if t == 'sub':
        return "(" + render(node[1]) + ")"
    if t == 'path':
        return render_segs(node[1])
    if t == 'call':
        head = render_segs(node[1])
        return (head + "." if head else "") + node[2] + "(" + ", ".join(render(a) for a in node[3]) + ")"
    if t == 'hop':
        sub = render_segs(node[3])
        if sub and node[3][0][0] == 'k':
            sub = "." + sub
        return render_segs(node[1]) + "." + node[2] + "()" + sub
    raise ValueError(t)


# ----------------------------------------------------------------------------------------------
# reference semantics (from the property text)

class Undefined(Exception):
    """The language rules do not fix a truth value (ill-typed operand); no oracle verdict."""


MISSING = ('missing',)

GO_FLOAT = re.compile(r'^[+-]?(?:(?:\d+\.?\d*|\.\d+)(?:[eE][+-]?\d+)?)$')
GO_INF = re.compile(r'^[+-]?(?:inf|infinity)$', re.I)
GO_NAN = re.compile(r'^[+-]?nan$', re.I)


def is_num(x):
    return isinstance(x, (int, float)) and not isinstance(x, bool)


def fmt_g6(x):
    if x != x:
        return "NaN"
    if x in (float('inf'), float('-inf')):
        return "+Inf" if x > 0 else "-Inf"
    return "%.6g" % x


def to_str(x):
    """string coercion: strings as they are, integers in decimal, other numbers with six
    significant digits, true/false/null by name"""
    if isinstance(x, str):
        return x
    if isinstance(x, bool):
        return "true" if x else "false"
    if isinstance(x, int):
        return str(x)
    if isinstance(x, float):
        return fmt_g6(x)
    if x is None:
        return "null"
    raise Undefined("string form of a container")


def to_num(x):
    """numeric coercion: numbers as float64, numeric strings by value, other strings 0,
    true 1, false and null 0"""
    if isinstance(x, bool):
        return 1.0 if x else 0.0
    if isinstance(x, int):
        return float(x)
    if isinstance(x, float):
        return x
    if x is None:
        return 0.0
    if isinstance(x, str):
        if GO_FLOAT.match(x):
            f = float(x)
            if f in (float('inf'), float('-inf')):
                return 0.0                      # out of range is an error for the coercion
            return f
        if GO_INF.match(x):
            return float('-inf') if x.startswith('-') else float('inf')
        if GO_NAN.match(x):
            return float('nan')
        if re.match(r'^[+-]?0[xX]', x) or '_' in x:
            raise Undefined("hexadecimal / underscore float syntax")
        return 0.0
    raise Undefined("number from a container")


def truthy(x):
    if isinstance(x, bool):
        return x
    if isinstance(x, str):
        return x != ""
    if is_num(x):
        return x > 0
    if x is None:
        return False
    if isinstance(x, list):
        return len(x) > 0
    if isinstance(x, tuple) and x and x[0] == 're':
        raise Undefined("regex as a truth value")
    raise Undefined("truth of an object")


class Unordered(list):
    """several matches whose order the language does not fix (recursive descent, members of an object)"""


def lookup(segs, root):
    cur = [root]
    unordered = False
    for s in segs:
        nxt = []
        if s[0] == 'd' or (s[0] in ('w', 'bw') and any(isinstance(v, dict) for v in cur)):
            unordered = True
        for v in cur:
            if s[0] in ('k', 'b'):
                if isinstance(v, dict) and s[1] in v:
                    nxt.append(v[s[1]])
            elif s[0] == 'i':
                if isinstance(v, list) and -len(v) <= s[1] < len(v):
                    nxt.append(v[s[1]])
            elif s[0] in ('w', 'bw'):
                if isinstance(v, list):
                    nxt += v
                elif isinstance(v, dict):
                    nxt += list(v.values())
            elif s[0] == 'd':
                stack = [v]
                while stack:
                    x = stack.pop()
                    if isinstance(x, dict):
                        if s[1] in x:
                            nxt.append(x[s[1]])
                        stack += list(x.values())
                    elif isinstance(x, list):
                        stack += x
        cur = nxt
    return Unordered(cur) if unordered else cur


def path_value(matches):
    if not matches:
        return MISSING
    if len(matches) == 1:
        return matches[0]
    return Unordered(matches) if isinstance(matches, Unordered) else list(matches)


def scalar_eq(x, y):
    if is_num(x) and is_num(y):
        return float(x) == float(y)
    for v in (x, y):
        if isinstance(v, (list, dict)):
            raise Undefined("container inside an any-match")
    return to_str(x) == to_str(y)


def deep_eq(x, y):
    if isinstance(x, list) and isinstance(y, list):
        return len(x) == len(y) and all(deep_eq(a, b) for a, b in zip(x, y))
    if isinstance(x, dict) and isinstance(y, dict):
        return set(x) == set(y) and all(deep_eq(x[k], y[k]) for k in x)
    if is_num(x) and is_num(y):
        return float(x) == float(y)
    return type(x) == type(y) and x == y


def sorted_json(l):
    return sorted(l, key=lambda v: json.dumps(v, sort_keys=True))


def all_same(x, y):
    """both lists hold one and the same value in every position: equal in any order"""
    return len(x) == len(y) and all(deep_eq(a, x[0]) for a in x) and all(deep_eq(b, x[0]) for b in y)


def is_re(x):
    return isinstance(x, tuple) and len(x) == 2 and x[0] == 're'


def op_eq(x, y):
    if is_re(x) and is_re(y):
        raise Undefined("two regexes")
    if is_re(x):
        return regex_match(x[1], y)
    if is_re(y):
        return regex_match(y[1], x)
    if isinstance(x, dict) or isinstance(y, dict):
        raise Undefined("object operand")
    if isinstance(x, list) and isinstance(y, list):
        if isinstance(x, Unordered) or isinstance(y, Unordered):
            # equality of two match lists is element by element; where the language does not fix the order of
            # the matches the answer is defined only if it is the same for every order
            if all_same(x, y):
                return True
            if len(x) != len(y) or not deep_eq(sorted_json(x), sorted_json(y)):
                return False
            raise Undefined("order of the matches")
        return deep_eq(x, y)
    if isinstance(x, list):
        return any(scalar_eq(i, y) for i in x)
    if isinstance(y, list):
        return any(scalar_eq(x, i) for i in y)
    return scalar_eq(x, y)


def regex_match(src, v):
    if isinstance(v, (list, dict)):
        raise Undefined("regex against a container")
    try:
        rx = re.compile(src)
    except re.error:
        raise Undefined("regex")
    return rx.search(to_str(v)) is not None


CMP = {'>': lambda a, b: a > b, '>=': lambda a, b: a >= b, '<': lambda a, b: a < b, '<=': lambda a, b: a <= b}
# what refutes a comparison of two lists: some pair in the opposite relation (a NaN refutes nothing;
# this is the rule of the Coq specification KflSemOps.rel_refuted and of the implementation)
REFUTES = {'>': lambda a, b: a <= b, '>=': lambda a, b: a < b, '<': lambda a, b: a >= b, '<=': lambda a, b: a > b}


def op_cmp(op, x, y):
    f = CMP[op]
    for v in (x, y):
        if is_re(v) or isinstance(v, dict):
            raise Undefined("comparison of a regex / object")
    if isinstance(x, list) and isinstance(y, list):
        return not any(REFUTES[op](to_num(i), to_num(j)) for i in x for j in y)
    if isinstance(x, list):
        return any(f(to_num(i), to_num(y)) for i in x)
    if isinstance(y, list):
        return any(f(to_num(x), to_num(i)) for i in y)
    return f(to_num(x), to_num(y))


DATETIME_RE = re.compile(r'^(\d{1,2})/(\d{1,2})/(\d{4}), (\d{1,2}):(\d\d):(\d\d)\.(\d\d\d) (AM|PM)$')


def parse_datetime_ms(s):
    m = DATETIME_RE.match(s)
    if not m:
        return None
    mo, d, y, h, mi, sec, ms, ap = m.groups()
    h = int(h)
    if not (1 <= h <= 12):
        return None
    h = h % 12 + (12 if ap == 'PM' else 0)
    try:
        t = datetime.datetime(int(y), int(mo), int(d), h, int(mi), int(sec), tzinfo=datetime.timezone.utc)
    except ValueError:
        return None
    return int(t.timestamp()) * 1000 + int(ms)


UNIT_MS = {'seconds': 1000, 'minutes': 60000, 'hours': 3600000, 'days': 86400000, 'weeks': 7 * 86400000,
           'months': 30 * 86400000, 'years': 365 * 86400000}


class Sem:
    """Reference evaluation of one abstract query on one record (a Python JSON value)."""

    def __init__(self, record, now_ms=None, xml_docs=None):
        self.rec = record
        self.now_ms = now_ms
        self.xml_docs = xml_docs or {}
        self.limit = 0
        self.tail_missing = False      # a path continuing after a selector / hop had no match

    def truth(self, q):
        # limit(n) is reported to the caller whether or not the evaluation reaches it: the first
        # limit(n) of the query text with n <> 0
        self.limit = first_limit(q)
        v = self.expr(q)
        return truthy(v)

    def expr(self, q):                 # a (sub)expression: a missing path makes it false
        v = self.logical(q)
        return False if v is MISSING else v

    def logical(self, n):
        if n[0] != 'L':
            return self.equality(n)
        return self._logical(n[1], n[2])

    def _logical(self, items, ops):
        x = self.equality(items[0])
        if x is MISSING:
            return MISSING
        if not ops:
            return x
        if ops[0] == 'and' and not truthy(x):
            return False
        if ops[0] == 'or' and truthy(x):
            return True
        y = self._logical(items[1:], ops[1:])
        if y is MISSING:
            return MISSING
        return (truthy(x) and truthy(y)) if ops[0] == 'and' else (truthy(x) or truthy(y))

    def equality(self, n):
        if n[0] != 'Q':
            return self.comparison(n)
        return self._chain(n[1], n[2], self.comparison, lambda op, x, y: op_eq(x, y) if op == '==' else not op_eq(x, y))

    def comparison(self, n):
        if n[0] != 'C':
            return self.unary(n)
        return self._chain(n[1], n[2], self.unary, op_cmp)

    def _chain(self, items, ops, sub, f):
        x = sub(items[0])
        if x is MISSING:
            return MISSING
        if not ops:
            return x
        y = self._chain(items[1:], ops[1:], sub, f)
        if y is MISSING:
            return MISSING
        return f(ops[0], x, y)

    def unary(self, n):
        if n[0] != 'U':
            return self.primary(n)
        v = self.primary(n[2])
        if v is MISSING:
            return MISSING
        for op in reversed(n[1]):
            if op == '!':
                if is_re(v):
                    raise Undefined("negated regex")
                v = not truthy(v)
            else:
                if not is_num(v):
                    raise Undefined("minus on a non-number")
                v = -v
        return v

    def primary(self, n):
        t = n[0]
        if t == 'num':
            return float(n[1])
        if t == 'str':
            return n[1]
        if t == 're':
            return ('re', n[1])
        if t == 'true':
            return True
        if t == 'false':
            return False
        if t == 'nil':
            return None
        if t == 'sub':
            return self.expr(n[1])
        if t == 'path':
            v = path_value(lookup(n[1], self.rec))
            if v is MISSING and has_tail(n[1]):
                self.tail_missing = True
            return v
        if t == 'call':
            return self.call(n)
        if t == 'hop':
            return self.hop(n)
        raise ValueError(t)

    def subject(self, segs):
        if not segs:
            return self.rec
        return path_value(lookup(segs, self.rec))

    def call(self, n):
        _, segs, name, args = n
        subj = self.subject(segs)
        vals = [self.expr(a) for a in args]
        if name in ('startsWith', 'endsWith', 'contains'):
            if subj is MISSING:
                return False
            if len(vals) < 1 or isinstance(subj, (list, dict)):
                raise Undefined("string helper on a container / without argument")
            s, a = to_str(subj), to_str(vals[0])
            return {'startsWith': s.startswith, 'endsWith': s.endswith, 'contains': s.__contains__}[name](a)
        if name == 'datetime':
            if len(vals) < 1 or not isinstance(vals[0], str):
                raise Undefined("datetime argument")
            ms = parse_datetime_ms(vals[0])
            return False if ms is None else ms
        if name == 'limit':
            if len(vals) < 1 or not is_num(vals[0]) or vals[0] < 0 or vals[0] != int(vals[0]):
                raise Undefined("limit argument")
            return True
        if name == 'now' or name in UNIT_MS:
            if self.now_ms is None:
                raise Undefined("clock")
            if name == 'now':
                if vals:
                    raise Undefined("now with an argument")
                return self.now_ms
            if len(vals) < 1 or not is_num(vals[0]):
                raise Undefined("time helper argument")
            return self.now_ms + int(vals[0]) * UNIT_MS[name]
        raise Undefined("helper " + name)

    def hop(self, n):
        _, segs, kind, sub = n
        subj = self.subject(segs)
        if subj is MISSING:
            return False
        if not isinstance(subj, str):
            raise Undefined("nested document in a non-string")
        text = subj
        try:
            dec = base64.b64decode(subj, validate=True)
            text = dec.decode('utf-8')
        except (binascii.Error, ValueError, UnicodeDecodeError):
            pass
        if kind == 'json':
            try:
                doc = strict_json(text)
            except ValueError:
                return False
            m = lookup(sub, doc)
            if not m:
                return False
            return m[0] if len(m) == 1 else (m if isinstance(m, Unordered) else list(m))
        spec = self.xml_docs.get(text)
        if spec is None:
            raise Undefined("xml document unknown to the oracle")
        return xml_lookup(spec, sub)


def first_limit(node):
    found = []

    def walk(n):
        t = n[0]
        if t in ('L', 'Q', 'C'):
            for x in n[1]:
                walk(x)
        elif t == 'U':
            walk(n[2])
        elif t == 'sub':
            walk(n[1])
        elif t == 'call':
            if n[2] == 'limit' and n[3] and n[3][0][0] == 'num':
                found.append(int(float(n[3][0][1])))
    walk(node)
    for x in found:
        if x != 0:
            return x
    return 0


def has_tail(segs):
    """does the path continue after a bracket selector (the grammar then nests an expression)"""
    for i, s in enumerate(segs):
        if s[0] in ('i', 'b', 'bw') and i + 1 < len(segs):
            return True
    return False


def strict_json(text):
    def bad(c):
        raise ValueError(c)
    return json.loads(text, parse_constant=bad)


# XML documents are built from a spec so that the expected value is known by construction:
#   spec = (tag, attrs dict, text or None, [children])
def xml_render(spec):
    tag, attrs, text, kids = spec
    a = "".join(' %s="%s"' % kv for kv in sorted(attrs.items()))
    inner = (text or "") + "".join(xml_render(k) for k in kids)
    return "<%s%s>%s</%s>" % (tag, a, inner, tag)


def xml_lookup(spec, sub):
    """first value at the element path sub = [('k', tag) | ('i', n) ...] below the document root:
    the text of an element (with or without attributes); false when there is none"""
    cur = [("", {}, None, [spec])]
    for s in sub:
        nxt = []
        if s[0] == 'k':
            for e in cur:
                nxt += [k for k in e[3] if k[0] == s[1]]
        elif s[0] == 'i':
            if 0 <= s[1] < len(cur):
                nxt = [cur[s[1]]]
        else:
            raise Undefined("xml selector")
        cur = nxt
    if not cur:
        return False
    e = cur[0]
    if e[3]:
        raise Undefined("xml element with children")
    if e[2] is None or e[2] == "":
        raise Undefined("xml element without text")
    return e[2]


# ----------------------------------------------------------------------------------------------
# canonical JSON (numbers by exact decimal value)

def canon_number(lit):
    """a JSON number as the value a float64 reader sees: integer literals exactly, every other literal as the
    nearest float64 (integral values written as integers, -0 as 0)"""
    try:
        if re.match(r'^-?\d+$', lit):
            return str(int(lit))
        f = float(lit)
    except ValueError:
        return "num:" + lit
    if f == int(f) if abs(f) < 2.0 ** 63 else False:
        return str(int(f))
    return repr(f)


class _Num(str):
    pass


def canon_json(text):
    """canonical form of a JSON text: sorted keys, numbers as exact decimals; None if not JSON"""
    try:
        v = json.loads(text, parse_int=lambda s: _Num(canon_number(s)), parse_float=lambda s: _Num(canon_number(s)),
                       parse_constant=lambda s: _Num("const:" + s))
    except (ValueError, RecursionError):
        return None

    def enc(x):
        if isinstance(x, _Num):
            return "#" + x
        if isinstance(x, str):
            return json.dumps(x)
        if isinstance(x, dict):
            return "{" + ",".join(json.dumps(k) + ":" + enc(x[k]) for k in sorted(x)) + "}"
        if isinstance(x, list):
            return "[" + ",".join(enc(i) for i in x) + "]"
        return json.dumps(x)
    try:
        return enc(v)
    except RecursionError:
        return None


# ----------------------------------------------------------------------------------------------
# running the harness

def hx(b):
    if isinstance(b, str):
        b = b.encode('utf-8', 'surrogateescape')
    return binascii.hexlify(b).decode()


def unhx(h):
    return binascii.unhexlify(h).decode('utf-8', 'replace')


def run_cases(ctx, mode, lines, extra=(), timeout=600):
    """Run vh-kfl <mode> on the given lines (lists of byte/str fields).  Returns one parsed JSON
    answer per line; a case that killed the process gives {'outcome': 'crash', ...} and the run
    resumes after it."""
    out = []
    start = 0
    enc = ["\t".join(hx(f) for f in l) for l in lines]
    while start < len(enc):
        rc, text = ctx.vh("vh-kfl", [mode] + list(extra), inp="\n".join(enc[start:]) + "\n", timeout=timeout)
        got = []
        for ln in text.split("\n"):
            if ln.startswith("{"):
                try:
                    got.append(json.loads(ln))
                except ValueError:
                    break
        out += got
        start += len(got)
        if start < len(enc):
            if got and got[-1].get("outcome") == "timeout":
                continue                    # the watchdog answered for the hanging case and exited
            tail = text[-600:]
            out.append({"outcome": "crash", "rc": rc, "msg": tail})
            start += 1
    return out


# ----------------------------------------------------------------------------------------------
# generators

FIELDS = ["a", "b", "c"]
BOUNDARY_NUMBERS = ["0", "-0.0", "0.1", "999999", "1000000", "1234567", "1234568", "9007199254740991",
                    "9007199254740992", "9007199254740993", "1e21", "5e-324", "-7", "7", "7.5", "2", "3.14",
                    # floats with more than six significant digits (a float that meets a string is its %g text of six digits)
                    "3.1415926", "1234.5678", "1234567.5", "0.000012345678", "123456789.125", "2.0000001", "999999.5"]
QUERY_NUMBERS = ["0", "1", "2", "7", "7.5", "0.1", "999999", "1000000", "1234567", "1234568", "3.14",
                 "9007199254740992", "9007199254740993", "1e21"]
STRINGS = ["", "x", "xy", "abc", "1", "7", "1000000", "1e+06", "7.5", "true", "null", "0.5", "Chevrolet", " a b ",
           "3.14159", "3.1415926", "1234.57", "1234.5678", "1.23457e+06", "1.23457e-05", "1.23457e+08", "2", "1e+06",
           "inf", "Infinity", "-inf", "NaN", "+Inf", "infinity", "nan", ".5", "-x"]
REGEXES = ["^x", "y$", "a.c", "^[0-9]+$", "e[+]06", "^$", "Chev.*", "^1"]


def json_of(v):
    return json.dumps(v, separators=(",", ":"))


def num_value(lit):
    return float(lit) if any(c in lit for c in ".eE") else int(lit)


def leaf_values(rng):
    """one value of every JSON type, numbers from the boundary list"""
    vals = [None, True, False, rng.choice(STRINGS), num_value(rng.choice(BOUNDARY_NUMBERS))]
    return vals


def gen_value(rng, depth=0):
    r = rng.random()
    if depth >= 2 or r < 0.55:
        k = rng.random()
        if k < 0.35:
            return num_value(rng.choice(BOUNDARY_NUMBERS))
        if k < 0.7:
            return rng.choice(STRINGS)
        if k < 0.8:
            return None
        return rng.random() < 0.5
    if r < 0.8:
        return [gen_value(rng, depth + 1) for _ in range(rng.randint(0, 3))]
    return {f: gen_value(rng, depth + 1) for f in rng.sample(FIELDS, rng.randint(0, 3))}


def gen_record(rng, paths=()):
    """a record in which each referenced path is independently present / absent"""
    rec = {}
    for f in FIELDS:
        if rng.random() < 0.75:
            rec[f] = gen_value(rng)
    for segs in paths:
        if rng.random() < 0.7:
            plant(rng, rec, segs)
    return rec


def plant(rng, rec, segs):
    """make the path exist (as far as the existing shape allows) with a random leaf"""
    cur = rec
    for i, s in enumerate(segs):
        last = i == len(segs) - 1
        nxt_is_index = (not last) and segs[i + 1][0] in ('i', 'w', 'bw')
        if s[0] in ('k', 'b', 'd'):
            if not isinstance(cur, dict):
                return
            if last:
                cur[s[1]] = gen_value(rng, 1)
                return
            if not isinstance(cur.get(s[1]), (list if nxt_is_index else dict)):
                cur[s[1]] = [] if nxt_is_index else {}
            cur = cur[s[1]]
        elif s[0] in ('i', 'w', 'bw'):
            if not isinstance(cur, list):
                return
            n = (s[1] + 1) if s[0] == 'i' else rng.randint(1, 3)
            while len(cur) < n:
                cur.append(gen_value(rng, 2) if last else {})
            if last:
                return
            if s[0] == 'i':
                if not isinstance(cur[s[1]], dict):
                    cur[s[1]] = {}
                cur = cur[s[1]]
            else:
                for j in range(len(cur)):
                    if not isinstance(cur[j], dict):
                        cur[j] = {}
                sub = segs[i + 1:]
                for j in range(len(cur)):
                    if rng.random() < 0.8:
                        plant(rng, cur[j], sub)
                return


def gen_path(rng, allow_tail=True):
    forms = ['k', 'kk', 'ki', 'kb', 'kw', 'kwk', 'kbw', 'kdk']
    if allow_tail:
        forms += ['kik', 'kbk', 'kbwk']
    f = rng.choice(forms)
    f1, f2 = rng.choice(FIELDS), rng.choice(FIELDS)
    return {
        'k': [('k', f1)], 'kk': [('k', f1), ('k', f2)], 'ki': [('k', f1), ('i', rng.randint(0, 2))],
        'kb': [('k', f1), ('b', f2)], 'kw': [('k', f1), ('w',)], 'kwk': [('k', f1), ('w',), ('k', f2)],
        'kbw': [('k', f1), ('bw',)], 'kdk': [('k', f1), ('d', f2)],
        'kik': [('k', f1), ('i', rng.randint(0, 1)), ('k', f2)], 'kbk': [('k', f1), ('b', f2), ('k', rng.choice(FIELDS))],
        'kbwk': [('k', f1), ('bw',), ('k', f2)],
    }[f]


def gen_operand(rng, depth, tail_ok):
    r = rng.random()
    if r < 0.42:
        return ('path', gen_path(rng, tail_ok))
    if r < 0.62:
        return ('num', rng.choice(QUERY_NUMBERS))
    if r < 0.76:
        return ('str', rng.choice(STRINGS))
    if r < 0.82:
        return rng.choice([('true',), ('false',), ('nil',)])
    if r < 0.90 and depth < 2:
        return ('sub', gen_logical(rng, depth + 1))
    if r < 0.95:
        return ('U', rng.choice(['-', '-', '!', '--']), rng.choice([('num', rng.choice(QUERY_NUMBERS)), ('path', gen_path(rng, False))]))
    return ('call', gen_path(rng, False)[:2], rng.choice(['startsWith', 'endsWith', 'contains']), [('str', rng.choice(STRINGS))])


def gen_comparison(rng, depth, tail_ok):
    r = rng.random()
    if r < 0.45:
        ops = [rng.choice(['>', '>=', '<', '<='])]
        if rng.random() < 0.08:
            ops.append(rng.choice(['>', '>=', '<', '<=']))
        items = [gen_operand(rng, depth, False) for _ in ops] + [gen_operand(rng, depth, tail_ok)]
        return ('C', items, ops)
    return gen_operand(rng, depth, tail_ok)


def gen_equality(rng, depth, tail_ok):
    r = rng.random()
    if r < 0.55:
        op = rng.choice(['==', '=='] + ['!='])
        left = gen_comparison(rng, depth, False)
        if rng.random() < 0.15:
            right = ('re', rng.choice(REGEXES))
        else:
            right = gen_comparison(rng, depth, tail_ok)
        if rng.random() < 0.1:
            left, right = (right, left) if not (right[0] == 'path' and has_tail(right[1])) else (left, right)
        return ('Q', [left, right], [op])
    if r < 0.6:
        return ('U', '!', ('sub', gen_logical(rng, depth + 1))) if depth < 2 else ('true',)
    return gen_comparison(rng, depth, tail_ok)


def gen_logical(rng, depth=0):
    n = 1 + (rng.random() < 0.55) + (rng.random() < 0.2)
    ops = [rng.choice(['and', 'or']) for _ in range(n - 1)]
    items = [gen_equality(rng, depth, tail_ok=(i == n - 1)) for i in range(n)]
    # the lexer has no keywords: `a.* and b` reads `and` as the next path segment, so a path ending
    # in `.*` cannot be followed by and/or; it is written in parentheses
    items = [('sub', x) if i < n - 1 and render(x).endswith(".*") else x for i, x in enumerate(items)]
    return ('L', items, ops) if n > 1 else items[0]


def query_paths(node, acc=None):
    acc = [] if acc is None else acc
    t = node[0]
    if t in ('L', 'Q', 'C'):
        for x in node[1]:
            query_paths(x, acc)
    elif t == 'U':
        query_paths(node[2], acc)
    elif t == 'sub':
        query_paths(node[1], acc)
    elif t == 'path':
        acc.append(node[1])
    elif t in ('call', 'hop'):
        if node[1]:
            acc.append(node[1])
        if t == 'call':
            for a in node[3]:
                query_paths(a, acc)
    return acc


def tail_not_last(node):
    """structural class of the select-tail finding: a path that continues after a bracket selector
    or a json()/xml() hop is followed by further operands in the same (sub)expression, or stands
    under a unary operator / on the left of an operator"""
    def flat(n, out):
        t = n[0]
        if t in ('L', 'Q', 'C'):
            for x in n[1]:
                flat(x, out)
        elif t == 'U':
            out.append(('unary', n))
            flat(n[2], out)
        else:
            out.append(('prim', n))
        return out

    def is_tail(p):
        return (p[0] == 'path' and has_tail(p[1])) or (p[0] == 'hop' and p[3]) or \
               (p[0] == 'call' and has_tail(p[1] + [('k', p[2])]))

    def check(n):
        seq = flat(n, [])
        prims = [x for x in seq]
        for i, (kind, p) in enumerate(prims):
            if kind == 'unary' and is_tail(p[2]) and p[1]:
                return True
            if kind == 'prim' and is_tail(p) and i != len(prims) - 1:
                return True
        for kind, p in prims:
            if kind == 'prim' and p[0] == 'sub' and check(p[1]):
                return True
            if kind == 'prim' and p[0] == 'call' and any(check(a) for a in p[3]):
                return True
        return False
    return check(node)


# exhaustive small queries over a small alphabet ------------------------------------------------
def small_queries():
    """every query  x op y  and  x op y lop z  over a small operand alphabet (x, y, z operands;
    op every operator), plus unary forms: the exhaustive part of the C12 quantifier"""
    operands = [('path', [('k', 'a')]), ('path', [('k', 'b')]), ('num', '1'), ('num', '1000000'), ('str', 'x'),
                ('true',), ('nil',), ('path', [('k', 'a'), ('w',)])]
    ops2 = ['==', '!=', '>', '>=', '<', '<=']
    out = []
    for x in operands:
        out.append(x)
        out.append(('U', '!', x))
        if x[0] in ('path', 'num'):
            out.append(('U', '-', x))
        for op in ops2:
            for y in operands:
                node = ('Q', [x, y], [op]) if op in ('==', '!=') else ('C', [x, y], [op])
                out.append(node)
    base = [('Q', [('path', [('k', 'a')]), ('num', '1')], ['==']), ('path', [('k', 'b')]), ('true',), ('false',),
            ('C', [('path', [('k', 'c')]), ('num', '1')], ['>']), ('sub', ('path', [('k', 'c')]))]
    for x in base:
        for lop in ('and', 'or'):
            for y in base:
                out.append(('L', [x, y], [lop]))
                for lop2 in ('and', 'or'):
                    out.append(('L', [x, y, ('path', [('k', 'c')])], [lop, lop2]))
    return out


def small_records():
    vals = [MISSING, None, True, False, "", "x", "1", 0, 1, 2, 1000000, 1.0, 0.1, -0.0, [1, 2], [], ["x", 1000000], {}]
    recs = []
    for va in vals:
        for vb in (MISSING, True, 0, "x"):
            r = {}
            if va is not MISSING:
                r['a'] = va
            if vb is not MISSING:
                r['b'] = vb
            recs.append(r)
    return recs


# helper / ill-typed queries ----------------------------------------------------------------------
HELPERS = ["startsWith", "endsWith", "contains", "datetime", "limit", "json", "xml", "redact", "now", "seconds",
           "minutes", "hours", "days", "weeks", "months", "years", "undefinedHelper"]
ARG_KINDS = ['1', '-1', '1.5', '"x"', '""', 'true', 'false', 'nil', 'a', 'a.b', 'r"x"', '(1 == 1)', '"a.b"',
             '"10/19/2021, 6:29:02.000 PM"', 'a[0]', '!a', 'b.json().c', 'now()', 'limit(1)', 't: 1']


def illtyped_queries(rng, tier):
    out = []
    subjects = ["", "a.", "a.b.", 'a["k"].', "a[0].", "a.json().", "a.xml().", "a.*."]
    for h in HELPERS:
        for subj in subjects:
            for n in range(0, 4):
                reps = 1 if tier == "quick" else 4
                for _ in range(reps):
                    args = ", ".join(rng.choice(ARG_KINDS) for _ in range(n))
                    q = "%s%s(%s)" % (subj, h, args)
                    out.append(q)
                    if rng.random() < 0.3:
                        out.append("%s %s %s" % (q, rng.choice(["==", "!=", ">", "and", "or"]), rng.choice(ARG_KINDS[:12])))
    chains = ["a.json().b.json().c", "a.xml().b.xml().c", "a.json().b.xml().c == 1", "a.json()", "a.xml()", "a.json()[0]",
              'a.json()["k"]', "a.json()..k", "a.json()[*]", "a.xml()[0]", "a.xml().r", "a.xml().r.b", "a.xml()..b",
              "a.json().json()", "json()", "xml()", "json().a", "a.json().b.startsWith(\"x\")", "a.json().redact(\"b\")",
              "a.b.json().c.d[0].e", 'a.json()["k"].x == 1', "a.json()[0].x.y == 1 and b", "a.json.b", "a.xml.b",
              "a.json().b == a.json().c", "!a.json().b", "-a.json().b > 1", "now", "a.now", "now.a", "limit", "a.limit.b",
              "seconds", "a.(1)", "a..(1)", "a.b.(1, 2)", "a.*(1)", "a.*.b(1)", "(a).b", "a[0][1]", 'a[0]["k"]', "a[0]..b",
              "a..b..c", "a...b", "a.b[99999999999]", "a[0x10]", "a[-1]", 'a["x\\"y"]', "a['k']", "a[`k`]", 'a["*"]', "a[*][0]",
              "redact()", "redact(1)", 'redact("a", 1, nil)', 'redact("a.json().b")', 'redact("a.xml().b")', 'redact("..a")',
              'redact("a[*].b")', 'redact("[")', 'redact("a.json()")', 'redact(".json()")', 'a.redact("b") and b',
              "r\"(\" == a", "a == r\"(\"", "r\"(\" == a and true", "1 == r\"x\" == r\"y\"", "r\"x\" > 1", "!r\"x\"", "-r\"x\"",
              "-\"x\"", "!nil", "-nil", "--1", "!!true", "!-!-1", "- - 1", "a == == 1", "a and", "and", "()", "(", ")", "((((a))))",
              "limit(1e30)", "limit(-1)", "limit(nil)", 'limit("x")', "limit(a)", "limit(limit(1))", "seconds(1e300)",
              "years(9999999999)", "seconds(nil)", 'datetime("13/45/2021, 6:29:02.000 PM")', "datetime(1)", "datetime(nil)",
              "a.startsWith(1, 2, 3)", "a.startsWith(r\"x\")", "a.contains(a)", "a.b(c: 1)", "a.b(c: 1, d: \"x\")",
              "1 == 1 == 1 == 1", "1 < 2 < 3 < 4", "a and b or c and d or e", "true or a.b.c.d.e.f.g"]
    out += chains
    return out


DEEP_FORMS = [lambda n: "(" * n + "a" + ")" * n, lambda n: "!" * n + "a", lambda n: "-" * n + "1",
              lambda n: " and ".join(["a"] * n), lambda n: " == ".join(["1"] * n), lambda n: " < ".join(["1"] * n),
              lambda n: "a" + ".b" * n, lambda n: "a" + ".json()" * n + ".b", lambda n: "f(" * n + "1" + ")" * n,
              lambda n: "a" + "[0].b" * n, lambda n: '"' + "x" * n + '"', lambda n: "a.f(" + ", ".join(["1"] * n) + ")"]


def garbage_strings(rng, n):
    out = [b"", b" ", b"\x00", b"\xff\xfe", b'"', b'"\\', b"'", b"`", b"/*", b"//", b"r\"", b"a.", b".", b"..", b"[", b"a[",
           b"a[\"", b"(", b"\n", b"\r\n\t", b"a\x00b", b"\xc3\x28", b"\xef\xbb\xbfa", b"a == \"\\u00e9\"", b"a == \"\\q\"",
           b"a == 'ab'", b"a == `x\ny`", b"1e", b"1e400", b"0x", b"0b2", b"08", b"1_0", b"1..2", b".5", b"5.", b"\xe2\x80\x8b",
           "aééé == 1".encode(), "日本 == 1".encode(), b"a /* c */ == 1", b"a // c", b"a == 1 // c\n and b"]
    toks = [b"a", b"b", b".", b"..", b"*", b"[", b"]", b"(", b")", b",", b":", b"==", b"!=", b"!", b"-", b">", b">=", b"<",
            b"and", b"or", b"true", b"false", b"nil", b"1", b"1.5", b"\"x\"", b"r\"x\"", b"json", b"xml", b"redact", b"limit",
            b"now", b"seconds", b"startsWith", b" ", b"\"", b"'", b"`", b"\\", b"\x00", b"\xff", b"http", b"amqp", b"0"]
    while len(out) < n:
        k = rng.random()
        if k < 0.5:
            out.append(b"".join(rng.choice(toks) + (b" " if rng.random() < 0.5 else b"") for _ in range(rng.randint(1, 14))))
        elif k < 0.8:
            out.append(bytes(rng.randrange(256) for _ in range(rng.randint(1, 24))))
        else:
            out.append(bytes(rng.choice(b" ()[]\".*!-=<>andor1a,:\\'`") for _ in range(rng.randint(1, 30))))
    return out[:n]


def nested_doc_records(rng, n):
    """records whose string fields embed JSON, XML, base64 of those, and garbage"""
    out = []
    xml_samples = ['<r><b>1</b></r>', '<r><b x="2">1</b></r>', '<r><b x="1"><c>1</c></b></r>', '<r/>', '<r></r>', '<r>t<b/>u</r>',
                   '<?xml version="1.0"?>\n<r><b>1</b><b>2</b></r>', '<r><b>', '<', '<r a="1" a="2"/>', '<r>&bogus;</r>',
                   '<r><![CDATA[x]]></r>', '<!DOCTYPE r [<!ENTITY e "x">]><r>&e;</r>', '<a:r xmlns:a="u"><a:b>1</a:b></a:r>',
                   '<r>' + '<b>' * 50 + '</b>' * 50 + '</r>', '\xff\xfe<r/>', '<r>\x00</r>']
    json_samples = ['{"b":1}', '{"b":{"c":[1,2,{"k":"v"}]},"k":[{"x":1},{"x":2}]}', '[1,2,3]', '[]', '{}', '1', '"s"', 'null',
                    '{"b":', '{"b":1}}', '[1,]', '{"a":NaN}', '{"b":1e400}', '{"b":99999999999999999999}', '\x00', '{"b":"\\ud800"}',
                    '{"c":"{\\"d\\":1}"}', '[' * 200 + ']' * 200, '{"k":' * 100 + '1' + '}' * 100, '  {"b" : 1}  ', '{"b":1}{"b":2}']
    garbage = ['', ' ', 'AAAA', '====', 'e30=', 'e30', 'W10=', '!!!!', 'eyJiIjoxfQ==', 'eyJiIjoxfQ', 'PHI+PGI+MTwvYj48L3I+']
    pool = xml_samples + json_samples + garbage
    pool += [base64.b64encode(s.encode('utf-8', 'replace')).decode() for s in xml_samples[:8] + json_samples[:10]]
    while len(out) < n:
        rec = {}
        for f in FIELDS:
            r = rng.random()
            if r < 0.6:
                rec[f] = rng.choice(pool)
            elif r < 0.75:
                rec[f] = {g: rng.choice(pool) for g in rng.sample(FIELDS + ["k"], 2)}
            elif r < 0.85:
                rec[f] = [rng.choice(pool) for _ in range(rng.randint(0, 3))]
            else:
                rec[f] = gen_value(rng)
        out.append(json.dumps(rec))
    return out


def edge_records():
    """serialisation edge cases for C14"""
    return ['[]', '{}', '[1,2,3]', '"x"', '1', 'true', 'null', '0', '-0', '-0.0', '1.0', '1e2', '1E2', '1e-7', '0.1', '1.5e300',
            '9007199254740992', '-9007199254740992', '9007199254740991', '4611686018427387904', '123456789.123456789',
            '0.000001', '1e21', '1e-324', '5e-324', '{"a":[]}', '{"a":{}}', '{"a":[{}]}', '{"a":[[]]}', '{"":1}', '{"a b":1}',
            '{"a":"\\u00e9"}', '{"a":"é"}', '{"a":"\\ud83d\\ude00"}', '{"a":"\\n\\t\\\\\\"/"}', '{"a":"\\u0000"}', '{"a":"\\u001f"}',
            '{"\\u00e9":1}', '{"a":"<>&"}', '{"a":"\\u2028"}', ' {"a" : 1 , "b" : [ 1 , 2 ] } ', '{"a":1,"b":{"c":{"d":{"e":[1,{"f":null}]}}}}',
            '{"a":0.30000000000000004}', '{"a":1.7976931348623157e308}', '{"a":2.2250738585072014e-308}', '{"a":100}', '{"a":1e2}',
            '{"a":1.10}', '{"a":-1}', '{"a":[1.0,2.50,3e0]}', '{"z":1,"y":2,"x":3}', '{"a":"{\\"b\\":1}"}', '{"a":"eyJiIjoxfQ=="}',
            '{"a":"<r><b>1</b></r>"}', '{"a":true,"b":false,"c":null}', '[[[[[[1]]]]]]', '[{"a":1},{"a":2}]', '["a",1,null,true,{}]']


# ----------------------------------------------------------------------------------------------
# correspondence file (model vs implementation, spec vs implementation) evaluated by coqc

K_HEADER = ("Require Import V.Base.Prelude V.Kfl.Num V.Kfl.Json V.Kfl.KflAst V.Kfl.JPath V.Kfl.KflOps V.Kfl.KflEval "
            "V.Kfl.KflTie V.Kfl.KflSem V.Kfl.KflLimit V.Kfl.KflWf.\nLocal Open Scope Z_scope.\n")


def k_check(ctx, name, items, chk_def, chunk=250, timeout=600):
    """items: Coq terms (strings) of one case each; chk_def: 'Definition chk (c : T) : bool := ...' with the
    type of the cases named in `Definition case_t`.  Returns the list of failing indices or None."""
    bad = []
    for k in range(0, len(items), chunk):
        src = (K_HEADER + chk_def + "\nDefinition cases : list case_t := [\n" + ";\n".join(items[k:k + chunk]) + "].\n"
               "Definition M := Eval vm_compute in failing chk cases.\nPrint M.\n")
        rc, out = ctx.coq_run("%s_%d" % (name, k), src, timeout=timeout)
        idx = vlib.parse_coq_list_of_nat(out, "M")
        if rc != 0 or idx is None:
            ctx.log(out[-1500:])
            return None
        bad += [k + i for i in idx]
    return bad


def k_map(ctx, name, defs, fn, items, chunk=100, timeout=900, workers=8):
    """Evaluate `fn : case_t -> nat` (defined in `defs`) on every item inside Coq (vm_compute), chunks in
    parallel coqc processes.  Returns the list of results or None if a chunk did not compile."""
    from concurrent.futures import ThreadPoolExecutor

    def one(k):
        src = (K_HEADER + defs + "\nDefinition cases : list case_t := [\n" + ";\n".join(items[k:k + chunk]) + "].\n"
               "Definition M := Eval vm_compute in map %s cases.\nPrint M.\n" % fn)
        rc, out = ctx.coq_run("%s_%d" % (name, k), src, timeout=timeout)
        got = vlib.parse_coq_list_of_nat(out, "M")
        if rc != 0 or got is None or len(got) != len(items[k:k + chunk]):
            return k, None, out
        return k, got, ""
    starts = list(range(0, len(items), chunk))
    with ThreadPoolExecutor(max_workers=workers) as ex:
        parts = list(ex.map(one, starts))
    codes = []
    for k, got, out in parts:
        if got is None:
            ctx.log(out[-1500:])
            return None
        codes += got
    return codes


# code of one case: bit 0 model <> implementation, bit 1 Coq specification (where it defines a truth value) <>
# implementation, bit 2 limit of the model <> Propagate.Limit, bit 3 C12_limit instance fails, bit 4 the Coq
# specification defines a truth value, bit 5 the tree violates shape_expr (hypothesis of C13), bit 6 it violates prepared_expr
# (hypothesis of C14), bit 7 the model's answer depends on the order in which object members are visited (Go map order:
# the implementation's answer is not a function of the input; bits 0 and 1 are then not looked at)
CHK = """
Definition case_t := (tables * expr * jv * option bool * N)%type.
Definition code (c : case_t) : nat :=
  let '(t, e, r, obs, lim) := c in
  (if agrees t e r obs then 0 else 1) +
  (match sem (t_float t) (t_re t) (t_time t) (t_b64 t) (t_json t) (t_xml t) e r, obs with
   | Some b, Some b' => if Bool.eqb b b' then 0 else 2
   | Some _, None => 2
   | None, _ => 0
   end) +
  (if N.eqb (limit_model t e) lim || negb (limit_defined t e) then 0 else 4) +
  (if N.eqb (limit_model t e) (limit_spec t e) then 0 else 8) +
  (match sem (t_float t) (t_re t) (t_time t) (t_b64 t) (t_json t) (t_xml t) e r with Some _ => 16 | None => 0 end) +
  (if shape_expr e then 0 else 32) + (if prepared_expr e then 0 else 64) +
  (if order_dependent t e r then 128 else 0).
"""




def k_codes(ctx, name, items, chunk=100, timeout=900):
    codes = k_map(ctx, name, CHK, "code", items, chunk=chunk, timeout=timeout)
    if codes is None:
        return None
    nd = sum(1 for c in codes if c & 128)
    if nd:
        ctx.cov["map_order_dependent_cases_not_compared"] = ctx.cov.get("map_order_dependent_cases_not_compared", 0) + nd
    return [(c & ~3) if c & 128 else c for c in codes]


def k_item(o):
    """the Coq term of one answered case of `vh-kfl eval -k` (None if it cannot be compared)"""
    if not (o.get("ast") and o.get("rec") and o.get("rec_ok") and o.get("tables")) or o.get("unsupported") or o.get("shape") \
            or o.get("redact"):
        return None
    if o.get("outcome") == "ok":
        obs = "Some " + ("true" if o["truth"] else "false")
    elif o.get("outcome") == "panic" and o.get("stage") == "eval":
        obs = "None"
    else:
        return None
    return "(%s, %s, %s, %s, %s%%N)" % (o["tables"], o["ast"], o["rec"], obs, o["limit"])


def gen_special_cases(rng, now_ms):
    """helper cases with an answer known by construction: time helpers, datetime, json()/xml() hops, limit"""
    out = []
    for name, unit in UNIT_MS.items():
        for n in (-5, 5, 0, 1):
            for delta in (-600000, 600000):
                for op in ('<=', '>=', '<', '>'):
                    q = ('C', [('path', [('k', 'a')]), ('call', [], name, [('U', '-', ('num', str(-n))) if n < 0 else ('num', str(n))])], [op])
                    out.append((q, {"a": now_ms + n * unit + delta}, {}))
    # fractional arguments count whole units (hours(1.5) is hours(1), hours(-0.5) is now()): a record between the
    # truncated and the fractional instant tells the two readings apart
    for name, unit in UNIT_MS.items():
        for lit, whole, frac in (("1.5", 1, 1.5), ("0.9", 0, 0.9), ("2.25", 2, 2.25)):
            mid = int((whole + frac) / 2 * unit)
            if (frac - whole) / 2 * unit < 900000:
                continue        # the clock is read again when the query is prepared: keep a margin of fifteen minutes
            for sign in (1, -1):
                arg = ('num', lit) if sign > 0 else ('U', '-', ('num', lit))
                for op in ('<', '>'):
                    q = ('C', [('path', [('k', 'a')]), ('call', [], name, [arg])], [op])
                    out.append((q, {"a": now_ms + sign * mid}, {}))
    for delta in (-600000, 600000):
        for op in ('<=', '>='):
            out.append((('C', [('path', [('k', 'a')]), ('call', [], 'now', [])], [op]), {"a": now_ms + delta}, {}))
    base = 1634668142000                      # 10/19/2021, 6:29:02.000 PM UTC
    for frac in (0, 1, 500, 999):             # the millisecond part of the literal counts
        lit = '10/19/2021, 6:29:02.%03d PM' % frac
        for d in (-1, 0, 1):
            for op in ('>', '>=', '<', '=='):
                node = ('Q' if op == '==' else 'C', [('path', [('k', 'a')]), ('call', [], 'datetime', [('str', lit)])], [op])
                out.append((node, {"a": base + frac + d}, {}))
    out.append((('call', [], 'datetime', [('str', 'not a date')]), {}, {}))
    docs = [{"b": 1, "c": {"d": [1, 2, {"k": "v"}]}, "k": [{"x": 1}, {"x": 2}]}, [1, 2, "x"], {"b": "x", "k": 1000000}, {}, 5]
    subs = [[('k', 'b')], [('k', 'c'), ('k', 'd')], [('i', 0)], [('b', 'b')], [('bw',)], [('d', 'x')], [('k', 'k'), ('w',), ('k', 'x')],
            [('k', 'c'), ('k', 'd'), ('w',)], [('k', 'zz')], [('k', 'k')]]
    lits = [('num', '1'), ('num', '2'), ('str', 'x'), ('num', '1000000'), ('str', 'v')]
    for doc in docs:
        for sub in subs:
            for b64 in (False, True):
                text = json_of(doc)
                if b64:
                    text = base64.b64encode(text.encode()).decode()
                lit = rng.choice(lits)
                op = rng.choice(['==', '==', '!=', '>', '<='])
                node = ('Q' if op in ('==', '!=') else 'C', [('hop', [('k', 'a')], 'json', sub), lit], [op])
                out.append((node, {"a": text, "b": 1}, {}))
    out.append((('Q', [('hop', [('k', 'a')], 'json', [('k', 'b')]), ('num', '1')], ['==']), {"a": "INVALID JSON"}, {}))
    out.append((('Q', [('hop', [('k', 'zz')], 'json', [('k', 'b')]), ('num', '1')], ['==']), {"a": "{}"}, {}))
    xml_specs = [("r", {}, None, [("b", {}, "1", []), ("c", {"x": "2"}, "t", [])]),
                 ("r", {}, None, [("b", {}, "u", []), ("b", {}, "v", [])]),
                 ("r", {"id": "7"}, "txt", [])]
    for spec in xml_specs:
        text = xml_render(spec)
        for sub in ([('k', 'r'), ('k', 'b')], [('k', 'r'), ('k', 'c')], [('k', 'r')], [('k', 'r'), ('k', 'zz')]):
            for b64 in (False, True):
                t = base64.b64encode(text.encode()).decode() if b64 else text
                for lit in ('1', 't', 'u', 'txt'):
                    node = ('Q', [('hop', [('k', 'a')], 'xml', sub), ('str', lit)], ['=='])
                    out.append((node, {"a": t}, {text: spec}))
    for n in ('100', '1', '0', '7'):
        for other in (('Q', [('path', [('k', 'a')]), ('num', '1')], ['==']), ('true',), ('false',)):
            lim = ('call', [], 'limit', [('num', n)])
            out.append((('L', [other, lim], ['and']), {"a": 1}, {}))
            out.append((('L', [lim, other], ['and']), {"a": 2}, {}))
            out.append((('L', [lim, ('call', [], 'limit', [('num', '9')])], ['or']), {"a": 2}, {}))
    for name in ('startsWith', 'endsWith', 'contains'):
        for subj in ("Chevrolet", 1000000, 1.5, True, None):
            for a in ("Chev", "let", "vro", "", "1e+06", "1", "true", "null", "x"):
                out.append((('call', [('k', 'a'), ('k', 'b')], name, [('str', a)]), {"a": {"b": subj}}, {}))
                out.append((('U', '!', ('call', [('k', 'a'), ('b', 'b')], name, [('str', a)])), {"a": {"b": subj}}, {}))
        # the subject path has no match: the helper is false whatever its argument ("false" contains "a")
        for a in ("", "a", "fal", "false", "e", "x"):
            out.append((('call', [('k', 'a'), ('k', 'zz')], name, [('str', a)]), {"a": {"b": 1}}, {}))
            out.append((('call', [('k', 'zz')], name, [('str', a)]), {}, {}))
            out.append((('L', [('U', '!', ('call', [('k', 'zz'), ('w',)], name, [('str', a)])), ('true',)], ['and']), {"a": 1}, {}))
    return out



def oj_misparses(text):
    """does the record contain a number that ojg's parser (I + Frac/Div, then * Pow10) does not
    convert to the nearest float64"""
    import re
    for m in re.finditer(r'-?\d+(?:\.\d+)?(?:[eE][+-]?\d+)?', text):
        lit = m.group(0)
        if not any(c in lit for c in ".eE"):
            continue
        mm = re.match(r'(-?)(\d+)(?:\.(\d+))?(?:[eE]([+-]?\d+))?$', lit)
        neg, ip, fp, ex = mm.group(1), mm.group(2), mm.group(3) or "", int(mm.group(4) or 0)
        if len(ip) > 18 or len(fp) > 18:
            return True
        f = float(int(ip))
        if fp and int(fp) > 0:
            f += float(int(fp)) / float(10 ** len(fp))
        if ex:
            f = f * pow10(ex)
        if neg:
            f = -f
        if f != float(lit):
            return True
    return False


def pow10(n):
    """math.Pow10 of Go"""
    if 0 <= n <= 308:
        return float("1e%d" % (n // 32 * 32)) * float("1e%d" % (n % 32))
    if -323 <= n <= 0:
        return float("1e-%d" % (-n // 32 * 32)) / float("1e%d" % (-n % 32))
    return float('inf') if n > 0 else 0.0




# ----------------------------------------------------------------------------------------------
# correspondence of the Precompute model (KflPre.v) with kfl.Parse + kfl.Precompute

PRE_HEADER = ("Require Import V.Base.Prelude V.Kfl.Num V.Kfl.Json V.Kfl.KflAst V.Kfl.JPath V.Kfl.KflOps V.Kfl.KflEval "
              "V.Kfl.KflTie V.Kfl.KflPre V.Kfl.KflPreTie V.Kfl.KflWf.\nLocal Open Scope Z_scope.\n")


def parse_nested_n(out, name):
    """'<name> = [[[97%N; 98%N]; []]; ...]' -> list of list of bytes"""
    m = re.search(re.escape(name) + r"\s*=\s*(\[.*?\])\s*:\s*list", out, re.S)
    if not m:
        return None
    txt = re.sub(r"%N", "", m.group(1)).replace(";", ",")
    txt = re.sub(r"\s+", "", txt)
    try:
        v = json.loads(txt)
    except ValueError:
        return None
    return [[bytes(x) for x in case] for case in v]


def check_precompute(ctx, pairs, evals, now_ns, name="kpre", chunk=80):
    """pairs: (query, record) texts; evals: the answers of `vh-kfl eval -k` for them.  Returns (compared, problems)."""
    from concurrent.futures import ThreadPoolExecutor
    queries = sorted({q for q, _ in pairs}, key=lambda x: (len(x), x))
    sres = run_cases(ctx, "surface", [[q] for q in queries])
    surface = {q: o for q, o in zip(queries, sres)}
    cases = []
    for (q, r), o in zip(pairs, evals):
        so = surface.get(q, {})
        if so.get("outcome") != "ok" or so.get("shape") or not o.get("rec") or not o.get("rec_ok") or not o.get("tables") \
                or o.get("unsupported") or o.get("redact"):
            continue
        if o.get("outcome") == "ok":
            obs = "Some (%s, %s%%N)" % ("true" if o["truth"] else "false", o["limit"])
        elif o.get("outcome") == "error" and o.get("stage") == "prepare":
            obs = "None"
        else:
            continue
        cases.append((q, r, so, o, obs))
    if not cases:
        return 0, []
    # round 1: the strings the model hands to jp.ParseString
    asts = sorted({c[2]["ast"] for c in cases})
    needed = {}

    def round1(k):
        part = asts[k:k + chunk]
        src = PRE_HEADER + "Definition X := Eval vm_compute in map needed_paths [\n" + ";\n".join(part) + "].\nPrint X.\n"
        rc, out = ctx.coq_run("%s_r1_%d" % (name, k), src, timeout=600)
        got = parse_nested_n(out, "X")
        return part, got, out
    with ThreadPoolExecutor(max_workers=8) as ex:
        for part, got, out in ex.map(round1, range(0, len(asts), chunk)):
            if got is None or len(got) != len(part):
                ctx.log(out[-800:])
                return 0, ["K_precompute: coqc failed in round 1"]
            for a, g in zip(part, got):
                needed[a] = g
    strings = sorted({s for g in needed.values() for s in g})
    pres = run_cases(ctx, "paths", [[s] for s in strings])
    ptab = {s: o.get("coq", "None") for s, o in zip(strings, pres)}
    items = []
    for q, r, so, o, obs in cases:
        entries = "; ".join("(%s, %s)" % (vlib.coq_bytes(s), ptab[s]) for s in sorted(set(needed[so["ast"]])))
        pt = "(PTables [%s] %s)" % (entries, so["regexes"])
        items.append("(%s, %s, (%d)%%Z, %s, %s, %s)" % (o["tables"], pt, now_ns, so["ast"], o["rec"], obs))
    defs = "Definition case_t := (tables * ptables * Z * expr * jv * option (bool * N))%type.\n"

    def round2(k):
        src = (PRE_HEADER + defs + "Definition cases : list case_t := [\n" + ";\n".join(items[k:k + chunk]) + "].\n"
               "Definition M := Eval vm_compute in map pre_code cases.\nPrint M.\n")
        rc, out = ctx.coq_run("%s_r2_%d" % (name, k), src, timeout=900)
        got = vlib.parse_coq_list_of_nat(out, "M")
        return k, got, out
    codes = []
    with ThreadPoolExecutor(max_workers=8) as ex:
        for k, got, out in ex.map(round2, range(0, len(items), chunk)):
            if got is None or len(got) != len(items[k:k + chunk]):
                ctx.log(out[-800:])
                return 0, ["K_precompute: coqc failed in round 2"]
            codes += got
    problems = []
    for code, (q, r, so, o, obs) in zip(codes, cases):
        if code & 1:
            problems.append("K_precompute: err result of the model differs from Precompute on %r" % (q,))
        if code & 2:
            problems.append("K_precompute: the tree of the model evaluates differently from the prepared query on %r / %s" % (q, r))
        if code & 4:
            problems.append("K_precompute: Limit of the model differs on %r" % (q,))
        if code & 8:
            problems.append("K_precompute: the model panics on %r" % (q,))
        if code & 16:
            problems.append("K_surface: the tree kfl.Parse returns for %r violates shape_expr / surf_expr (hypotheses of C13_precompute_no_panic)" % (q,))
    return len(codes), problems
