"""RESP / Redis model family: independent RESP2 encoder, abstract conversation generator, the
property oracle (what must be reported), drivers for harness/cmd/vh-redis, the printer of Coq
case files for the model correspondence, and the Redis share of C01 / C02 / C08.

Nothing in this file is derived from the dissector's source except the command / keyword tables,
which are read from the compiled package on every run (vh-redis tables).

Abstract values (JSON-able):
  ["s", bytes]  simple string      ["e", {...}]  error (see mk_err)     ["i", int]  integer
  ["b", bytes|None]  bulk / null bulk              ["a", [values]|None]  array / null array
A conversation is a list of exchanges {"cmd": [name, arg, ...], "reply": value}; bytes are Python
bytes objects inside the process and hex strings in replay files.
"""
import json
import os

import vlib

CRLF = b"\r\n"
TYPE_NAMES = ["Simple String", "Bulk String", "Array", "Integer", "Error", "N/A"]   # order + $ * : - 0
T_SIMPLE, T_BULK, T_ARRAY, T_INT, T_ERROR, T_NA = range(6)
T_NULL = 6            # only in the strict expectation: the dissector has no way to say "null"
REFILL = 8192
INT64_MIN, INT64_MAX = -(1 << 63), (1 << 63) - 1

_tables = {}


def tables(ctx):
    """Command / keyword tables of the compiled package."""
    if "t" not in _tables:
        rc, out = ctx.vh("vh-redis", ["tables"])
        t = json.loads(out.strip().splitlines()[-1])
        if t["types"] != TYPE_NAMES:
            ctx.broken.append("redis type names changed: %r" % (t["types"],))
        _tables["t"] = {"commands": [c.encode() for c in t["commands"]],
                        "keywords": [k.encode() for k in t["keywords"]], "types": t["types"]}
    return _tables["t"]


# ----------------------------------------------------------------------------- encoder (RESP2)
def dec(n):
    return str(n).encode()


def err_text(e):
    k = e["kind"]
    if k in ("moved", "ask"):
        return (b"MOVED " if k == "moved" else b"ASK ") + dec(e["slot"]) + b" " + e["host"] + b":" + dec(e["port"])
    if k == "clusterdown":
        return b"CLUSTERDOWN " + e["text"]
    if k == "busy":
        return b"BUSY " + e["text"]
    if k == "noscript":
        return b"NOSCRIPT " + e["text"]
    return e["text"]


def enc_value(v, fields=None, base=0):
    """RESP2 encoding. `fields` (optional list) receives (offset_of_number, length_of_number, kind)
    for every $N / *N field, offsets relative to `base`."""
    t, x = v
    if t == "s":
        return b"+" + x + CRLF
    if t == "e":
        return b"-" + err_text(x) + CRLF
    if t == "i":
        return b":" + dec(x) + CRLF
    if t == "b":
        if x is None:
            if fields is not None:
                fields.append((base + 1, 2, "$"))
            return b"$-1" + CRLF
        n = dec(len(x))
        if fields is not None:
            fields.append((base + 1, len(n), "$"))
        return b"$" + n + CRLF + x + CRLF
    if t == "a":
        if x is None:
            if fields is not None:
                fields.append((base + 1, 2, "*"))
            return b"*-1" + CRLF
        n = dec(len(x))
        if fields is not None:
            fields.append((base + 1, len(n), "*"))
        out = b"*" + n + CRLF
        for e in x:
            out += enc_value(e, fields, base + len(out))
        return out
    raise ValueError(t)


def cmd_value(cmd):
    return ["a", [["b", a] for a in cmd]]


def enc_conv(conv, fields_c=None, fields_s=None):
    """(client bytes, server bytes, end offsets of each command, end offsets of each reply)."""
    cb, sb, cends, sends = b"", b"", [], []
    for ex in conv:
        cb += enc_value(cmd_value(ex["cmd"]), fields_c, len(cb))
        cends.append(len(cb))
        if ex.get("reply") is not None:
            sb += enc_value(ex["reply"], fields_s, len(sb))
            sends.append(len(sb))
    return cb, sb, cends, sends


# ----------------------------------------------------------------------------- what must be reported
def view(t, cmd=b"", key=b"", val=b"", kw=b""):
    return (t, cmd, key, val, kw)


def ascii_upper(b):
    return bytes(c - 32 if 97 <= c <= 122 else c for c in b)


def cmd_view(cmd):
    """A command is reported with its name, its key and its further arguments."""
    name, args = cmd[0], cmd[1:]
    key = args[0] if len(args) >= 1 else b""
    if len(args) <= 1:
        val = b""
    elif len(args) == 2:
        val = args[1]
    else:
        val = b"[" + b", ".join(args[1:]) + b"]"
    return view(T_ARRAY, ascii_upper(name), key, val)


def err_view_text(e):
    k, msg = e["kind"], err_text(e)
    if k in ("moved", "ask"):
        return (b"MovedDataError: " if k == "moved" else b"AskDataError: ") + msg + \
            b" host: " + e["host"] + b" port: " + dec(e["port"]) + b" slot: " + dec(e["slot"])
    return {"clusterdown": b"ClusterError: ", "busy": b"BusyError: ", "noscript": b"NoScriptError: ",
            "plain": b"DataError: "}[k] + msg


def is_ascii(b):
    return all(c < 128 for c in b)


def reply_strict(v):
    """The reply with its type and content exactly as sent (None: no packet can carry it)."""
    t, x = v
    if t == "s":
        return view(T_SIMPLE, kw=x)
    if t == "e":
        return view(T_ERROR, val=err_view_text(x))
    if t == "i":
        return view(T_INT, val=dec(x))
    if t == "b":
        return view(T_NULL) if x is None else view(T_BULK, val=x)
    if t == "a":
        if x is None:
            return view(T_NULL)
        if not x:
            return view(T_ARRAY)
        return None
    raise ValueError(t)


def elem_text(e):
    """How one array element shows up in a key / value slot: bytes for strings and integers,
    None for anything else (skipped)."""
    t, x = e
    if t in ("s", "b"):
        return x or b""
    if t == "i":
        return dec(x)
    return None


def has_empty_error(v):
    t, x = v
    if t == "e":
        return err_text(x) == b""
    if t == "a" and x:
        return any(has_empty_error(e) for e in x)
    return False


def reply_known(v, tb):
    """Classifier: (class tag, predicted packet or None when the side stops) for the reply shapes
    that are recorded findings, else None."""
    t, x = v
    if t == "s":
        if not is_ascii(x) or ascii_upper(x) not in tb["keywords"]:
            return ("unknown-keyword", None)
        if ascii_upper(x) != x:
            return ("keyword-upcased", view(T_SIMPLE, kw=ascii_upper(x)))
        return None
    if has_empty_error(v):          # also nested: the element cannot be read, so the array cannot
        return ("empty-error", None)
    if t == "b" and x is None:
        return ("null-as-empty", view(T_BULK))
    if t == "a" and x is None:
        return ("null-as-empty", view(T_ARRAY))
    if t == "a" and x:
        f = x[0]
        if f[0] not in ("s", "b"):
            return ("array-first-element", None)
        name = f[1] or b""
        if name != b"" and (not is_ascii(name) or ascii_upper(name) not in tb["commands"]):
            return ("reply-array-as-command", None)
        # accepted, but shaped like a command: name / key / value list
        key = (elem_text(x[1]) or b"") if len(x) > 1 else b""
        val = (elem_text(x[2]) or b"") if len(x) > 2 else b""
        if len(x) > 3:
            val = b"[" + val + b"".join(b", " + elem_text(e) for e in x[3:] if elem_text(e) is not None) + b"]"
        return ("reply-array-as-command", view(T_ARRAY, ascii_upper(name), key, val))
    return None


def expect(conv, tb, ncmd=None, nrep=None):
    """Expected observation for the conversation when the first ncmd commands and the first nrep
    replies are completely received: (items, classes, server_stops) where items is the list of
    (request view, reply view) the property demands, modulo the recorded finding classes that
    `classes` lists (empty list = the strict expectation)."""
    ncmd = len(conv) if ncmd is None else ncmd
    nrep = len([e for e in conv if e.get("reply") is not None]) if nrep is None else nrep
    items, classes, stops = [], [], False
    for k, ex in enumerate(conv):
        if k >= nrep or ex.get("reply") is None:
            break
        kn = reply_known(ex["reply"], tb)
        if kn is None:
            rv = reply_strict(ex["reply"])
        else:
            if kn[0] not in classes:
                classes.append(kn[0])
            rv = kn[1]
            if rv is None:
                stops = True
                break
        if k < ncmd:
            items.append((cmd_view(ex["cmd"]), rv))
    return items, classes, stops


# ----------------------------------------------------------------------------- running the implementation
def case_json(cch, sch, ct=0, st=0, order="cs"):
    return json.dumps({"c": [c.hex() for c in cch], "ct": ct, "s": [c.hex() for c in sch], "st": st, "ord": order})


def parse_result(line, tb=None):
    d = json.loads(line)
    items = []
    for it in d.get("items") or []:
        def pk(f):
            t = TYPE_NAMES.index(f[0]) if f[0] in TYPE_NAMES else 99
            return (t,) + tuple(bytes.fromhex(x) for x in f[1:5])
        items.append((pk(it[0:5]), pk(it[5:10])))
    d["items"] = items
    return d


def run_cases(ctx, cases, mode="run", timeout=900):
    """cases: list of JSON strings. Returns the parsed results (None for a missing line)."""
    res = []
    if not cases:
        return res
    rc, out = ctx.vh("vh-redis", [mode], inp="\n".join(cases) + "\n", timeout=timeout)
    lines = [l for l in out.split("\n") if l.startswith("{")]
    for i in range(len(cases)):
        if i < len(lines):
            try:
                res.append(parse_result(lines[i]))
                continue
            except Exception:
                pass
        res.append(None)
    if len(lines) < len(cases):
        ctx.log("vh-redis %s: %d results for %d cases (rc=%d): %s" % (mode, len(lines), len(cases), rc, out[-300:]))
    return res


def split_at(data, cuts):
    out, prev = [], 0
    for c in sorted(set(cuts)):
        if prev < c < len(data):
            out.append(data[prev:c])
            prev = c
    if prev < len(data) or not out:
        out.append(data[prev:])
    return [c for c in out if c]


def random_chunking(rng, data, style=None):
    n = len(data)
    if n == 0:
        return []
    style = style or rng.choice(["whole", "whole", "two", "few", "many", "bytes", "4k", "8k", "page"])
    if style == "whole":
        return [data]
    if style == "two":
        return split_at(data, [rng.randint(1, max(1, n - 1))])
    if style == "few":
        return split_at(data, [rng.randint(1, max(1, n - 1)) for _ in range(rng.randint(2, 5))])
    if style == "many":
        return split_at(data, [rng.randint(1, max(1, n - 1)) for _ in range(rng.randint(5, 40))])
    if style == "bytes":
        if n > 600:     # single bytes around a random window, coarse elsewhere
            a = rng.randint(0, n - 300)
            return split_at(data, list(range(a, a + 300)) + list(range(0, n, 1500)))
        return [data[i:i + 1] for i in range(n)]
    if style == "4k":
        return split_at(data, list(range(4096, n, 4096)))
    if style == "8k":
        return split_at(data, list(range(8192, n, 8192)))
    if style == "page":
        k = rng.choice([1448, 4095, 4097, 8191, 8193, 9000])
        return split_at(data, list(range(k, n, k)))
    return [data]


# ----------------------------------------------------------------------------- generators
def hostname(rng):
    return rng.choice([b"127.0.0.1", b"10.1.2.3", b"redis-7.cache.svc.cluster.local", b"[::1]", b"[fe80::1:2]", b"h"])


def mk_err(rng):
    k = rng.choice(["plain", "plain", "plain", "moved", "ask", "clusterdown", "busy", "noscript"])
    if k in ("moved", "ask"):
        return ["e", {"kind": k, "slot": rng.choice([0, 1, 3999, 16383, rng.randint(0, 16383)]), "host": hostname(rng),
                      "port": rng.choice([1, 6379, 6381, 65535, rng.randint(1, 65535)])}]
    text = rng.choice([b"ERR unknown command 'foo'", b"WRONGTYPE Operation against a key holding the wrong kind of value",
                       b"ERR", b"x", b"ERR value is not an integer or out of range", b"LOADING Redis is loading",
                       b"ERR \xe9\xff\x80 caf\xc3\xa9", b"ERR with\ttab and \x00 nul", b"MOVEDx 1 2", b"ASKING",
                       # an error code with nothing behind it, or glued to / separated otherwise from what follows: none of
                       # these starts with a redirection or class prefix (code + blank)
                       b"BUSY", b"NOSCRIPT", b"CLUSTERDOWN", b"MOVED", b"ASK", b"BUSY\tx", b"BUSYX y", b"busy x", b"NOSCRIPTS gone", b"MOVED\t1 h:1",
                       line_bytes(rng, rng.choice([1, 5, 60, 300]))])
    if k == "plain":
        for p in (b"MOVED ", b"ASK ", b"CLUSTERDOWN ", b"BUSY ", b"NOSCRIPT "):
            if text.startswith(p):
                text = b"ERR " + text
    else:
        text = rng.choice([b"The cluster is down", b"Redis is busy running a script.", b"No matching script. Please use EVAL.", b""])
    return ["e", {"kind": k, "text": text}]


def line_bytes(rng, n):
    """n bytes legal in a simple string / error line: anything but CR and LF."""
    alphabet = [b for b in range(256) if b not in (10, 13)]
    return bytes(rng.choice(alphabet) for _ in range(n))


ALL256 = bytes(range(256))


def mk_bytes(rng, big=False):
    r = rng.random()
    if big and r < 0.5:
        n = rng.choice([4090, 4095, 4096, 4097, 4100, 8180, 8186, 8190, 8191, 8192, 8193, 8200, 12288, 16384, 20000])
        n += rng.randint(-3, 3)
        fill = rng.choice([b"a", b"\r\n", b"\r", ALL256, b"xy\n"])
        return (fill * (n // len(fill) + 1))[:n]
    if r < 0.25:
        return rng.choice([b"k", b"key:1", b"user:1000:name", b"0", b"-1", b"3.14", b"hello world", b"mylist", b"*", b"field"])
    if r < 0.35:
        return b""
    if r < 0.55:
        return rng.choice([b"\r", b"\n", b"\r\n", b"a\r\nb", b"\r\n\r\n", b"a\rb", b"x\n", b"\r\n$5\r\nhello\r\n", b"+OK\r\n",
                           b"*2\r\n", b"\r\r\n", b"ends with cr\r", b"a, ", b", ", b"[a, b]"])
    if r < 0.65:
        return ALL256
    if r < 0.75:
        return bytes(rng.randrange(256) for _ in range(rng.randint(1, 40)))
    if r < 0.85:
        return ALL256[::-1] * rng.randint(1, 3)
    return bytes(rng.choice(b"abcxyz019 :_-") for _ in range(rng.randint(1, 24)))


def mk_int(rng):
    return ["i", rng.choice([0, 1, -1, 7, 10, 42, 1000, -1000, 2147483647, 2147483648, -2147483648, 4294967295,
                             INT64_MAX, INT64_MIN + 1, INT64_MIN, 1234567, rng.randint(-10 ** 12, 10 ** 12)])]


def mk_reply(rng, tb, clean=True, big=False, depth=0):
    r = rng.random()
    if clean:
        if r < 0.22:
            return ["s", rng.choice(tb["keywords"])]
        if r < 0.40:
            return mk_err(rng)
        if r < 0.55:
            return mk_int(rng)
        if r < 0.95:
            return ["b", mk_bytes(rng, big)]
        return ["a", []]
    # shapes that are legal RESP2 but fall in a recorded finding class
    if r < 0.15:
        return ["s", rng.choice([b"FOO", b"Background saving started", b"ok", b"pong", b"", b"OK ", b"\xe9"])]
    if r < 0.30:
        return ["b", None]
    if r < 0.40:
        return ["a", None]
    if r < 0.45:
        return ["e", {"kind": "plain", "text": b""}]
    if depth == 0 and r < 0.60:
        # an array the dissector accepts (it starts with a command name) with nested arrays at every position, among
        # them nested arrays that END in an empty or a null array (nothing follows the last element of an inner array)
        def inner(d):
            es = [rng.choice([mk_int(rng), ["b", mk_bytes(rng)], ["b", None]]) for _ in range(rng.randint(0, 2))]
            if d < 2 and rng.random() < 0.5:
                es.insert(rng.randint(0, len(es)), inner(d + 1))
            if rng.random() < 0.6:
                es.append(rng.choice([["a", []], ["a", None]]))
            return ["a", es]
        elems = [["b", rng.choice(tb["commands"])]] + [rng.choice([mk_int(rng), ["b", mk_bytes(rng)], ["s", rng.choice(tb["keywords"])]])
                                                        for _ in range(rng.randint(0, 3))]
        elems.insert(rng.randint(1, len(elems)), inner(1))
        if rng.random() < 0.3:
            # a status line early in the array and an element longer than the reader's buffer behind it (an EXEC reply):
            # the line must still be what it was when the array is complete
            elems.insert(1, ["s", rng.choice(tb["keywords"])])
            elems.append(["b", mk_bytes(rng, True)])
        return ["a", elems]
    n = rng.randint(1, 5)
    elems = []
    for i in range(n):
        q = rng.random()
        if depth < 2 and q < 0.15:
            elems.append(mk_reply(rng, tb, False, False, depth + 1))
        elif q < 0.30:
            elems.append(mk_int(rng))
        elif q < 0.38:
            elems.append(["b", None])
        elif q < 0.44:
            elems.append(["a", []])
        elif q < 0.50:
            elems.append(["s", rng.choice(tb["keywords"])])
        elif q < 0.55:
            elems.append(mk_err(rng))
        elif q < 0.70:
            elems.append(["b", rng.choice(tb["commands"])])
        else:
            elems.append(["b", mk_bytes(rng)])
    return ["a", elems]


def mk_cmd(rng, tb, name=None, nargs=None, big=False):
    name = name if name is not None else rng.choice(tb["commands"])
    r = rng.random()
    if r < 0.15:
        name = name.lower()
    elif r < 0.2:
        name = bytes(c + 32 if 65 <= c <= 90 and rng.random() < 0.5 else c for c in name)
    nargs = nargs if nargs is not None else rng.choice([0, 1, 1, 2, 2, 2, 3, 4, 5, 9])
    return [name] + [mk_bytes(rng, big and i == 1) for i in range(nargs)]


def gen_conv(rng, tb, n=None, clean=True, big=False):
    n = n or rng.randint(1, 8)
    conv = []
    for _ in range(n):
        c = clean or rng.random() < 0.6
        conv.append({"cmd": mk_cmd(rng, tb, big=big and rng.random() < 0.3),
                     "reply": mk_reply(rng, tb, c, big and rng.random() < 0.3)})
    return conv


def table_convs(rng, tb, every_arity):
    """Every command of the table; with every_arity each of 0..4 arguments, else one arity each."""
    exs = []
    kws = list(tb["keywords"])          # every keyword of the table appears as a status reply
    for name in tb["commands"]:
        for k in (range(5) if every_arity else [rng.randint(0, 4)]):
            exs.append({"cmd": mk_cmd(rng, tb, name, k), "reply": ["s", kws.pop()] if kws else mk_reply(rng, tb, True)})
    rng.shuffle(exs)
    out = []
    i = 0
    while i < len(exs):
        k = rng.randint(8, 30)
        out.append(exs[i:i + k])
        i += k
    return out


# ----------------------------------------------------------------------------- JSON forms for replay files
def to_jsonable(x):
    if isinstance(x, bytes):
        return {"hex": x.hex()}
    if isinstance(x, (list, tuple)):
        return [to_jsonable(e) for e in x]
    if isinstance(x, dict):
        return {k: to_jsonable(v) for k, v in x.items()}
    return x


def from_jsonable(x):
    if isinstance(x, dict) and set(x.keys()) == {"hex"}:
        return bytes.fromhex(x["hex"])
    if isinstance(x, list):
        return [from_jsonable(e) for e in x]
    if isinstance(x, dict):
        return {k: from_jsonable(v) for k, v in x.items()}
    return x


def show_items(items):
    return [[[p[0]] + [repr(f)[2:-1] if len(f) < 80 else "%r...(%d bytes)" % (f[:40], len(f)) for f in p[1:]]
             for p in it] for it in items]


# ----------------------------------------------------------------------------- Coq case files (correspondence K)
def coq_bytes(b):
    """Literal for a byte string: short ones as numerals, long ones packed 7 bytes per primitive int."""
    if not b:
        return "[]"
    if len(b) < 21:
        return "(bs [" + ";".join(str(x) for x in b) + "]%N)"
    full = len(b) // 7 * 7
    parts = []
    for a in range(0, full, 7 * 400):       # sub-lists of 400 integers keep the literals shallow
        seg = b[a:min(full, a + 7 * 400)]
        parts.append("pk7 [" + ";".join(str(int.from_bytes(seg[i:i + 7], "little")) for i in range(0, len(seg), 7)) + "]%uint63 []")
    if full < len(b):
        parts.append("(bs [" + ";".join(str(x) for x in b[full:]) + "]%N)")
    return "(" + " ++ ".join(parts) + ")"


def coq_packet(p):
    return "(%d, %s, %s, %s, %s)" % (p[0], coq_bytes(p[1]), coq_bytes(p[2]), coq_bytes(p[3]), coq_bytes(p[4]))


OUTCOME_CODE = {"eof": 0, "error": 1, "panic": 2, "nofuel": 3, "none": 4}

COQ_HEAD = ("Require Import V.Base.Prelude V.Resp.RespBase V.Resp.RespModel V.gen.RedisTables V.Resp.RespRun.\n"
            "From Coq Require Import Uint63.\n")
COQ_TAIL = "].\nDefinition M := Eval vm_compute in failing kcheck cases.\nPrint M.\n"


def coqc_run(ctx, name, text, timeout=900):
    """Like ctx.coq_run, with the stack limit lifted (long list literals)."""
    path = os.path.join(ctx.work, name + ".v")
    with open(path, "w") as f:
        f.write(text)
    cmd = ("ulimit -s unlimited 2>/dev/null || ulimit -s $(ulimit -H -s) 2>/dev/null; "
           "exec coqc -R '%s' V -w -notation-overridden '%s'" % (vlib.COQ, path))
    return vlib.sh(cmd, cwd=ctx.work, timeout=timeout)


def model_check(ctx, name, kcases, what):
    """kcases: list of (cch, ct, sch, st, result). Returns indices where the model disagrees with
    the implementation (None if Coq could not run). Streams are defined once per file and cut
    into reads inside Coq."""
    bad = []
    groups, start, budget, seen = [], 0, 0, set()
    for i, k in enumerate(kcases):     # split by volume
        cb, sb = b"".join(k[0]), b"".join(k[2])
        sz = 150 + sum(len(f) for it in k[4]["items"] for p in it for f in p[1:])
        for d in (cb, sb):
            if d not in seen:
                seen.add(d)
                sz += len(d)
        if (budget + sz > 400000 or i - start >= 1500) and i > start:
            groups.append((start, i))
            start, budget, seen = i, 0, set()
            sz += len(cb) + len(sb)
        budget += sz
    groups.append((start, len(kcases)))
    part = 0
    for a, b in groups:
        if a == b:
            continue
        defs, names, terms = [], {}, []

        def stream(d):
            if d not in names:
                names[d] = "d%d" % len(names)
                defs.append("Definition %s : bytes := %s." % (names[d], coq_bytes(d)))
            return names[d]
        for (cch, ct, sch, st, res) in kcases[a:b]:
            side = lambda ch, t: "(%s, [%s]%%N, %d)" % (stream(b"".join(ch)), ";".join(str(len(c)) for c in ch), t)
            items = "[" + "; ".join("(%s, %s)" % (coq_packet(q), coq_packet(r)) for q, r in res["items"]) + "]"
            terms.append("((%s, %s), (%d, %d, %s, %d))" % (side(cch, ct), side(sch, st), OUTCOME_CODE.get(res["c"], 9),
                                                         OUTCOME_CODE.get(res["s"], 9), items, res["res"]))
        src = COQ_HEAD + "\n".join(defs) + "\nDefinition cases : list kcase := [\n" + ";\n".join(terms) + COQ_TAIL
        rc, out = coqc_run(ctx, "%s_%d" % (name, part), src, timeout=900)
        part += 1
        idx = vlib.parse_coq_list_of_nat(out, "M")
        if rc != 0 or idx is None:
            ctx.broken.append("K_%s: coqc failed on the case file (%s)" % (what, out[-300:].replace("\n", " ")))
            return None
        bad += [a + i for i in idx]
    ctx.cov["traces_validated_against_impl"] = ctx.cov.get("traces_validated_against_impl", 0) + len(kcases)
    return bad


def coq_value(v):
    t, x = v
    if t == "s":
        return "VSimple %s" % coq_bytes(x)
    if t == "i":
        return "VInt (%d)%%Z" % x
    if t == "b":
        return "VNullBulk" if x is None else "VBulk %s" % coq_bytes(x)
    if t == "a":
        return "VNullArray" if x is None else "VArray [" + "; ".join("(%s)" % coq_value(e) for e in x) + "]"
    if t == "e":
        k = x["kind"]
        if k in ("moved", "ask"):
            return "VError (%s %d%%N %s %d%%N)" % ("EMoved" if k == "moved" else "EAsk", x["slot"], coq_bytes(x["host"]), x["port"])
        return "VError (%s %s)" % ({"plain": "EPlain", "clusterdown": "EClusterDown", "busy": "EBusy", "noscript": "ENoScript"}[k],
                                   coq_bytes(x["text"]))
    raise ValueError(t)


def coq_conv(conv):
    return "[" + "; ".join("((%s, [%s]), %s)" % (coq_bytes(ex["cmd"][0]), "; ".join(coq_bytes(a) for a in ex["cmd"][1:]),
                                               coq_value(ex["reply"])) for ex in conv) + "]"


def spec_check(ctx, convs, tb, name="spec_cases"):
    """The Coq specification (RespSpec.v: enc, excl, report) against this file's encoder,
    classifier and expected views, on the same abstract conversations."""
    terms, budget, part, bad, start = [], 0, 0, [], 0

    def flush():
        nonlocal terms, budget, part, start
        if not terms:
            return True
        src = (COQ_HEAD + "Require Import V.Resp.RespSpec.\nDefinition cases : list scase := [\n" + ";\n".join(terms) +
               "].\nDefinition M := Eval vm_compute in failing scheck cases.\nPrint M.\n")
        rc, out = coqc_run(ctx, "%s_%d" % (name, part), src)
        idx = vlib.parse_coq_list_of_nat(out, "M")
        if rc != 0 or idx is None:
            ctx.broken.append("K_resp_spec: coqc failed on the case file (%s)" % out[-300:].replace("\n", " "))
            return False
        bad.extend(start + i for i in idx)
        start += len(terms)
        terms, budget = [], 0
        part += 1
        return True
    for conv in convs:
        cb, sb, _, _ = enc_conv(conv)
        items, classes, stops = expect(conv, tb)
        views = "[]" if classes else "[" + "; ".join("(%s, %s)" % (coq_packet(q), coq_packet(r)) for q, r in items) + "]"
        terms.append("(%s, (%s, %s, %s, %s))" % (coq_conv(conv), coq_bytes(cb), coq_bytes(sb), "true" if classes else "false", views))
        budget += 3 * (len(cb) + len(sb))
        if budget > 300000 or len(terms) >= 800:
            if not flush():
                return None
    if not flush():
        return None
    ctx.cov["spec_cases_checked"] = ctx.cov.get("spec_cases_checked", 0) + len(convs)
    return bad


def model_available(ctx):
    need = {"Base/Prelude.v", "Resp/RespBase.v", "Resp/RespModel.v", "Resp/RespSpec.v", "Resp/RespRun.v", "gen/RedisTables.v"}
    failed = getattr(ctx, "coq_failed", None)
    if failed is None:
        return all(os.path.exists(os.path.join(vlib.COQ, f[:-2] + ".vo")) for f in need)
    return not (need & failed)


# ----------------------------------------------------------------------------- shared oracle pieces
def observed_tuple(res):
    return (res["c"], res["s"], res["items"], res["res"])


def replay_obj(kind, cch, ct, sch, st, order, res, extra=None):
    o = {"kind": kind, "family": "resp", "client_chunks": [c.hex() for c in cch], "client_tail": ct,
         "server_chunks": [c.hex() for c in sch], "server_tail": st, "order": order,
         "observed": None if res is None else {"c": res["c"], "s": res["s"], "residue": res["res"],
                                               "panic": res.get("panic", ""), "items": show_items(res["items"])},
         "how": "echo '<case json>' | work/bin/vh-redis run   (case json = {c,ct,s,st,ord} from the fields above)"}
    if extra:
        o.update(extra)
    return o


def replay_case(ctx, r):
    """Re-run the case stored in a replay file; prints what is observed now."""
    cch = [bytes.fromhex(x) for x in r.get("client_chunks", [])]
    sch = [bytes.fromhex(x) for x in r.get("server_chunks", [])]
    mode = "cost" if r.get("kind", "").startswith("cost") else "run"
    rc, out = ctx.vh("vh-redis", [mode], inp=case_json(cch, sch, r.get("client_tail", 0), r.get("server_tail", 0), r.get("order", "cs")) + "\n")
    print("client stream:", repr(b"".join(cch))[:400])
    print("server stream:", repr(b"".join(sch))[:400])
    print("observed now :", out.strip()[:1500])
    if "expected" in r:
        print("expected     :", json.dumps(r["expected"])[:1500])
    return out


# ----------------------------------------------------------------------------- C08 (Redis share)
def corrupt(rng, data):
    """Single- and multi-byte corruptions biased to protocol tokens."""
    if not data:
        return data
    b = bytearray(data)
    for _ in range(rng.choice([1, 1, 1, 2, 3, 6])):
        i = rng.randrange(len(b))
        r = rng.random()
        if r < 0.35:
            b[i] = rng.choice(b"\r\n$*+-:0123456789 r")
        elif r < 0.5:
            b[i] = rng.randrange(256)
        elif r < 0.65:
            del b[i]
        elif r < 0.8:
            b.insert(i, rng.choice(b"\r\n$*+-:019"))
        elif r < 0.9:
            b[i] ^= 1 << rng.randrange(8)
        else:
            j = rng.randrange(len(b))
            b[i], b[j] = b[j], b[i]
        if not b:
            break
    return bytes(b)


TOKENS = [b"\r\n", b"\r", b"\n", b"$", b"*", b"+", b"-", b":", b"0", b"1", b"-1", b"3", b"10", b"PING", b"GET", b"SET", b"OK",
          b"PONG", b"MOVED ", b"ASK ", b"MOVED 1 ", b"a", b"key", b" ", b":", b"127.0.0.1:6379", b"$-1\r\n", b"*-1\r\n", b"*0\r\n",
          b"$0\r\n\r\n", b"*1\r\n", b"$3\r\nGET\r\n", b"$4\r\nPING\r\n", b"\x00", b"\xff", b"99999999999999999999", b"r", b"rn", b":+5\r\n", b"$+2\r\n", b"*+1\r\n", b"+5", b" 5", b"0x1"]


def token_string(rng, n=None):
    n = n or rng.randint(1, 14)
    return b"".join(rng.choice(TOKENS) if rng.random() < 0.9 else bytes([rng.randrange(256)]) for _ in range(n))


def small_conv(rng, tb, n, clean=True):
    """A conversation of modest size (for exhaustive enumerations over its bytes)."""
    conv = []
    for _ in range(n):
        cmd = mk_cmd(rng, tb, nargs=rng.choice([0, 1, 2, 3]))
        cmd = [cmd[0]] + [a[:20] for a in cmd[1:]]
        rep = mk_reply(rng, tb, clean or rng.random() < 0.5)
        if rep[0] == "b" and rep[1] is not None:
            rep = ["b", rep[1][:24]]
        if rep[0] == "e" and rep[1].get("text") is not None:
            rep[1]["text"] = rep[1]["text"][:30]
            if rep[1]["kind"] == "plain" and not rep[1]["text"]:
                rep[1]["text"] = b"ERR"
        conv.append({"cmd": cmd, "reply": rep})
    return conv


def c08(ctx):
    """Same bytes, different segmentations => identical items and outcome class (implementation),
    and the model agrees per segmentation."""
    tb = tables(ctx)
    rng = ctx.rng
    quick = ctx.tier == "quick"
    streams = []       # (label, client bytes, server bytes)
    nconv = 8 if quick else 60
    for i in range(nconv):
        conv = small_conv(rng, tb, rng.randint(2, 4), clean=(i % 4 != 3))
        cb, sb, _, _ = enc_conv(conv)
        streams.append(("conv", cb, sb))
        if i % 2 == 0:
            streams.append(("corrupt", corrupt(rng, cb), corrupt(rng, sb)))
    # the witnesses of the repaired defects
    streams.append(("corpus", b"*1\r\n$4\r\nPING\r\n" * 2, b"+PONG\r\n+PONG\r\n"))
    streams.append(("corpus", b"*2\r\n$3\r\nGET\r\n$1\r\nk\r\n", b"$13\r\nfoo\rbar\r\nrn\r\r\n\r\n"))
    streams.append(("corpus", b"*2\r\n$3\r\nGET\r\n$1\r\nk\r\n", b"+OK r\r\n"))
    for i in range(4 if quick else 30):
        streams.append(("tokens", token_string(rng), token_string(rng)))
    # lines with carriage returns inside (single, runs of two and three) in front of the line feed, at the top level and
    # inside arrays, both directions: where a line ends must not depend on where a read happened to end
    def cr_line(t):
        body = b"".join(rng.choice([b"a", b"k", b"\r", b"\r\r", b"\r\r\r", b" ", b"7"]) for _ in range(rng.randint(1, 4)))
        return t + body + rng.choice([b"\r\n", b"\r\n", b"\n", b"\r\r\n"])
    for i in range(8 if quick else 60):
        def half():
            out = b""
            for _ in range(rng.randint(1, 3)):
                if rng.random() < 0.6:
                    n = rng.randint(1, 3)
                    out += b"*%d\r\n" % n + b"".join(cr_line(rng.choice([b"+", b"-", b":"])) for _ in range(n))
                else:
                    out += cr_line(rng.choice([b"+", b"-", b":"]))
            return out
        streams.append(("cr-lines", half(), half()))
    streams.append(("cr-lines", b"*2\r\n+k\r\r\n+v\r\n", b"+OK\r\r\n+x\r\n"))
    # long lines (simple strings, errors, and the digits of an integer) around the sizes at which a reader may change
    # its way of collecting a line: whether a line is accepted must not depend on the reads it arrived in
    for n in ((1000, 1024, 1025, 1500, 4096) if quick else (500, 1000, 1023, 1024, 1025, 1026, 1500, 2048, 4095, 4096, 4097, 8000, 8190, 8192, 9000)):
        streams.append(("longline", b"*3\r\n$3\r\nSET\r\n$1\r\nk\r\n+" + b"v" * n + b"\r\n*2\r\n$3\r\nGET\r\n$1\r\nk\r\n", b"+OK\r\n$-1\r\n"))
        streams.append(("longline", b"*2\r\n$3\r\nGET\r\n$1\r\nk\r\n" * 2, b"-" + b"E" * n + b"\r\n+" + b"S" * n + b"\r\n"))
    # number lines written in the ways a general-purpose integer parser accepts or refuses differently from a digit loop
    # (signs, blanks, underscores, radix prefixes, exponents, non-ASCII digits, nothing at all), as integer replies, as
    # bulk lengths and as array counts, both directions: the value must not depend on where a read ended
    def odd_number():
        if rng.random() < 0.5:
            return rng.choice([b"+5", b"+0", b"+", b"-", b"--5", b"+-5", b"-+5", b" 5", b"5 ", b"0x10", b"1_0", b"1e3", b"05", b"-0",
                               b"5.0", b"\xd9\xa3", b"", b"+2", b"+1", b"++1", b"9223372036854775808", b"-9223372036854775809", b"0b1", b"0o7"])
        return b"".join(rng.choice([b"+", b"-", b"1", b"2", b"0", b" ", b"_", b"x", b"e", b"."]) for _ in range(rng.randint(1, 4)))
    for i in range(10 if quick else 80):
        def half(client):
            out = b""
            for _ in range(rng.randint(1, 3)):
                r = rng.random()
                if r < 0.4:
                    out += b":" + odd_number() + b"\r\n"
                elif r < 0.7:
                    out += b"$" + odd_number() + b"\r\nhi\r\n"
                else:
                    out += b"*" + odd_number() + b"\r\n$3\r\nGET\r\n$1\r\nk\r\n"
            return out
        streams.append(("odd-numbers", half(True), half(False)))
    streams.append(("odd-numbers", b"*1\r\n$+4\r\nPING\r\n*+1\r\n$4\r\nPING\r\n", b":+5\r\n$+2\r\nhi\r\n"))
    big = gen_conv(rng, tb, 3, True, big=True)
    cb, sb, _, _ = enc_conv(big)
    kcases = []
    for label, cb_, sb_ in streams + [("big", cb, sb)]:
        cases, meta = [], []

        def add(cch, sch, tail):
            cases.append(case_json(cch, sch, tail, tail))
            meta.append((cch, sch, tail))
        for tail in ((0,) if label in ("big", "longline") else (0, 2)):
            add([cb_] if cb_ else [], [sb_] if sb_ else [], tail)
            if label == "longline":
                for k in sorted(rng.sample(range(1, len(cb_)), min(25, len(cb_) - 1))):
                    add([cb_[:k], cb_[k:]], [sb_] if sb_ else [], tail)
                for k in sorted(rng.sample(range(1, len(sb_)), min(25, len(sb_) - 1))):
                    add([cb_] if cb_ else [], [sb_[:k], sb_[k:]], tail)
            if label not in ("big", "longline"):
                for k in range(1, len(cb_)):
                    add([cb_[:k], cb_[k:]], [sb_] if sb_ else [], tail)
                for k in range(1, len(sb_)):
                    add([cb_] if cb_ else [], [sb_[:k], sb_[k:]], tail)
                add([cb_[i:i + 1] for i in range(len(cb_))], [sb_[i:i + 1] for i in range(len(sb_))], tail)
            nrand = (200 // max(1, len(streams))) + 3 if quick else 60
            for _ in range(nrand if label not in ("big", "longline") else 12):
                add(random_chunking(rng, cb_, rng.choice(["few", "many", "two", "page", "4k", "8k"])),
                    random_chunking(rng, sb_, rng.choice(["few", "many", "two", "page", "4k", "8k", "bytes"])), tail)
        res = run_cases(ctx, cases)
        ref = {}
        for (cch, sch, tail), r in zip(meta, res):
            ctx.count_case(("c08", label, tuple(cch), tuple(sch), tail), len(cch) + len(sch) > 2, "redis-chunking-" + label)
            if r is None or r["c"] == "panic" or r["s"] == "panic":
                ctx.violation(replay_obj("chunking-crash", cch, tail, sch, tail, "cs", r))
                continue
            if tail not in ref:
                ref[tail] = (observed_tuple(r), cch, sch)
            elif observed_tuple(r) != ref[tail][0]:
                ctx.violation(replay_obj("chunking", cch, tail, sch, tail, "cs", r, {
                    "expected": "the same observation as for the unsplit streams",
                    "unsplit_observed": {"c": ref[tail][0][0], "s": ref[tail][0][1], "residue": ref[tail][0][3],
                                         "items": show_items(ref[tail][0][2])}}))
                break
            # the model is compared on a stratified sample of the segmentations (all of them in the
            # thorough tier): unsplit, single bytes, corpus, big, and a random part of the rest
            if label in ("corpus", "big") or len(cch) + len(sch) <= 2 or len(cch) + len(sch) > 40 \
                    or rng.random() < (0.12 if quick else 0.2):
                if len(kcases) < (900 if quick else 8000):
                    kcases.append((cch, tail, sch, tail, r))
    ctx.sample({"kind": "redis-chunking", "streams": len(streams) + 1,
                "example_client": repr(streams[0][1])[:120], "example_server": repr(streams[0][2])[:120]})
    if model_available(ctx):
        bad = model_check(ctx, "c08_cases", kcases, "resp_chunking")
        if bad:
            k = kcases[bad[0]]
            ctx.broken.append("K_resp_chunking: model and implementation differ on client %r server %r tail %d" % (
                [c.hex() for c in k[0]][:6], [c.hex() for c in k[2]][:6], k[1]))
    else:
        ctx.broken.append("K_resp_chunking: the RESP model does not compile")


# ----------------------------------------------------------------------------- C01 (Redis share)
def c01(ctx):
    """Never panics; what was completely received before the bad point is still emitted."""
    tb = tables(ctx)
    rng = ctx.rng
    quick = ctx.tier == "quick"
    kcases = []

    def run_batch(batch, kind):
        """batch: list of (cch, ct, sch, st, order, expected or None, extra)"""
        res = run_cases(ctx, [case_json(b[0], b[2], b[1], b[3], b[4]) for b in batch])
        for b, r in zip(batch, res):
            cch, ct, sch, st, order, exp, extra = b
            ctx.count_case(("c01", kind, tuple(cch), tuple(sch), ct, st, order), True, "redis-" + kind)
            if r is None or "panic" in (r["c"], r["s"]) or "nil" in (r["c"], r["s"]):
                ctx.violation(replay_obj("crash-" + kind, cch, ct, sch, st, order, r, extra))
                continue
            if exp is not None and r["items"] != exp:
                ctx.violation(replay_obj("prefix-" + kind, cch, ct, sch, st, order, r,
                                         dict(extra or {}, expected=show_items(exp))))
            if order == "cs" and (len(kcases) < (700 if quick else 5000)) and rng.random() < (0.5 if quick else 0.3):
                kcases.append((cch, ct, sch, st, r))

    # (a)+(b) well-formed conversations and every prefix of them (server side cut, client side cut)
    nconv = 6 if quick else 40
    for i in range(nconv):
        conv = small_conv(rng, tb, rng.randint(2, 5), clean=True)
        cb, sb, cends, sends = enc_conv(conv)
        batch = []
        for k in range(len(sb) + 1):
            nrep = sum(1 for e in sends if e <= k)
            items, classes, _ = expect(conv, tb, None, nrep)
            tail = rng.choice([0, 0, 1, 2])
            batch.append((random_chunking(rng, cb), 0, random_chunking(rng, sb[:k]), tail, "cs", items if not classes else None,
                          {"conversation": to_jsonable(conv), "cut": ["server", k]}))
        for k in range(len(cb) + 1):
            ncmd = sum(1 for e in cends if e <= k)
            items, classes, _ = expect(conv, tb, ncmd, None)
            tail = rng.choice([0, 0, 1, 2])
            batch.append((random_chunking(rng, cb[:k]), tail, random_chunking(rng, sb), 0, rng.choice(["cs", "sc"]),
                          items if not classes else None, {"conversation": to_jsonable(conv), "cut": ["client", k]}))
        run_batch(batch, "prefix")
        if i == 0:
            ctx.sample({"kind": "redis-prefix", "client": repr(cb)[:160], "server": repr(sb)[:160], "cuts": len(batch)})
        # (c) corruptions: the items before the first corrupted exchange are still emitted
        batch = []
        for _ in range(60 if quick else 400):
            side = rng.choice("cs")
            data = cb if side == "c" else sb
            ends = cends if side == "c" else sends
            bad = corrupt(rng, data)
            first = next((j for j in range(min(len(bad), len(data))) if bad[j] != data[j]), min(len(bad), len(data)))
            nok = sum(1 for e in ends if e <= first)
            items, classes, _ = expect(conv, tb, nok if side == "c" else None, nok if side == "s" else None)
            cbb, sbb = (bad, sb) if side == "c" else (cb, bad)
            batch.append((random_chunking(rng, cbb), rng.choice([0, 1, 2]), random_chunking(rng, sbb), rng.choice([0, 1, 2]), "cs",
                          ("prefix", items) if not classes else None, {"conversation": to_jsonable(conv), "corrupted": side}))
        res = run_cases(ctx, [case_json(b[0], b[2], b[1], b[3], b[4]) for b in batch])
        for b, r in zip(batch, res):
            cch, ct, sch, st, order, exp, extra = b
            ctx.count_case(("c01", "corrupt", tuple(cch), tuple(sch), ct, st), True, "redis-corruption")
            if r is None or "panic" in (r["c"], r["s"]) or "nil" in (r["c"], r["s"]):
                ctx.violation(replay_obj("crash-corruption", cch, ct, sch, st, order, r, extra))
            elif exp is not None and r["items"][:len(exp[1])] != exp[1]:
                ctx.violation(replay_obj("prefix-corruption", cch, ct, sch, st, order, r, dict(extra, expected_prefix=show_items(exp[1]))))
            elif len(kcases) < (900 if quick else 8000) and rng.random() < (0.5 if quick else 0.3):
                kcases.append((cch, ct, sch, st, r))
    # (d) arbitrary strings biased to protocol tokens, both directions
    batch = []
    for _ in range(400 if quick else 20000):
        c, s = token_string(rng), token_string(rng)
        if rng.random() < 0.3:
            c = b"*1\r\n$4\r\nPING\r\n" * rng.randint(1, 3)
        batch.append((random_chunking(rng, c), rng.choice([0, 1, 2]), random_chunking(rng, s), rng.choice([0, 1, 2]), "cs", None, None))
    for w in (b"-MOVED \r\n", b"-ASK 1\r\n", b"-MOVED 1 h\r\n", b"-MOVED  \r\n", b"-ASK \r\n", b"$-5\r\n", b"*-5\r\n", b"$\r\n", b":\r\n",
              b":-\r\n", b"$99999999999999999999\r\nabc", b"*99999999999999999999\r\n", b"-\r\n", b"+\r\n", b"\r\n"):
        batch.append(([b"*1\r\n$4\r\nPING\r\n"], 0, [w], 0, "cs", None, None))
        batch.append(([b"*1\r\n$4\r\nPING\r\n"], 0, [w[:1], w[1:]], 0, "cs", None, None))
        batch.append(([w], 0, [b"+PONG\r\n"], 0, "cs", None, None))
    # cluster redirections whose endpoint is a soup of the characters an address is made of (brackets, colons, digits)
    pieces = [b"[", b"]", b":", b"::", b"1", b"h", b"6381", b"[::1]", b"", b"-1", b"65536", b"[]", b"x:y:z", b"127.0.0.1", b".", b"[:"]
    for _ in range(300 if quick else 6000):
        ep = b"".join(rng.choice(pieces) for _ in range(rng.randint(0, 5)))
        w = b"-" + rng.choice([b"MOVED", b"ASK"]) + b" " + rng.choice([b"3999", b"0", b"x", b""]) + b" " + ep + rng.choice([b"", b"", b" extra"]) + b"\r\n"
        batch.append(([b"*1\r\n$4\r\nPING\r\n" * 2], 0, [b"+PONG\r\n" + w], 0, "cs", None, None))
    batch.append(([b"*1\r\n$4\r\nPING\r\n"], 0, [b"+", b"PONG\r\n"], 0, "cs", [(cmd_view([b"PING"]), view(T_SIMPLE, kw=b"PONG"))], None))
    run_batch(batch, "tokens")
    if model_available(ctx):
        bad = model_check(ctx, "c01_cases", kcases, "resp_dissect")
        if bad:
            k = kcases[bad[0]]
            ctx.broken.append("K_resp_dissect: model and implementation differ on client %r server %r tails %d/%d" % (
                [c.hex() for c in k[0]][:6], [c.hex() for c in k[2]][:6], k[1], k[3]))
    else:
        ctx.broken.append("K_resp_dissect: the RESP model does not compile")


# ----------------------------------------------------------------------------- C02 (Redis share)
BOUNDARY_FIXED = [0, 1, 65535, 65536, REFILL, REFILL + 1, 2147483647, -1, 4294967295]


def boundary_values(remaining):
    return sorted(set(BOUNDARY_FIXED + [remaining - 1, remaining, remaining + 1]))


def budget_ok(r):
    n = r.get("n", 0)
    return r.get("alloc", 0) <= 64 * n + 96 * (1 << 20) and r.get("cpu", 0.0) <= 2e-6 * n + 0.5


def c02(ctx):
    """Cost linear in the bytes seen and termination for every end-of-stream kind: every length /
    count field of well-formed conversations replaced by the boundary values, three tails."""
    tb = tables(ctx)
    rng = ctx.rng
    quick = ctx.tier == "quick"
    cases, meta = [], []

    def add(cb, sb, ct, st, what):
        cases.append(case_json(random_chunking(rng, cb, rng.choice(["whole", "few", "page"])),
                               random_chunking(rng, sb, rng.choice(["whole", "few", "page"])), ct, st))
        meta.append((cb, sb, ct, st, what))
    nconv = 6 if quick else 40
    for i in range(nconv):
        conv = small_conv(rng, tb, rng.randint(2, 3), clean=(i % 3 != 2))
        if i % 3 == 2:      # nested arrays: more count fields
            conv[-1]["reply"] = ["a", [["a", [["b", b"x"], ["i", 5]]], ["b", b"abc"], ["a", []]]]
        fc, fs = [], []
        cb, sb, _, _ = enc_conv(conv, fc, fs)
        for side, data, fields in (("c", cb, fc), ("s", sb, fs)):
            for (off, ln, kind) in fields:
                eol = off + ln + 2
                for v in boundary_values(len(data) - eol):
                    mutated = data[:off] + dec(v) + data[off + ln:]
                    for tail in (0, 1, 2):
                        if side == "c":
                            add(mutated, sb, tail, 0, {"field": kind, "offset": off, "value": v, "side": "client"})
                        else:
                            add(cb, mutated, 0, tail, {"field": kind, "offset": off, "value": v, "side": "server"})
    # shapes whose cost could grow faster than the bytes present
    G = b"*2\r\n$3\r\nGET\r\n$1\r\nk\r\n"
    heavy = [
        ("huge array count, nothing behind", G, b"*20000000\r\n"),
        ("huge array count, nothing behind", G, b"*2147483647\r\n"),
        ("huge array count, nothing behind", G, b"*9223372036854775807\r\n"),
        ("huge bulk length, nothing behind", G, b"$2147483647\r\nabc"),
        ("huge bulk length, nothing behind", G, b"$9223372036854775807\r\nabc"),
        ("long error line", G, b"-" + b"E" * (60000 if quick else 400000) + CRLF),
        ("long simple string", G, b"+" + b"S" * (60000 if quick else 400000) + CRLF),
        ("long error line without end", G, b"-" + b"E" * 60000),
        ("many arguments", b"*%d\r\n$4\r\nSADD\r\n$1\r\nk\r\n" % 60002 + b"$1\r\nx\r\n" * 60000, b":60000\r\n"),
        ("many integer elements", G, b"*60001\r\n$4\r\nSADD\r\n" + b":7\r\n" * 60000),
        ("deep nesting", G, b"*1\r\n" * 40000),
        ("deep nesting", b"*1\r\n" * 40000, b"+OK\r\n"),
        ("many small packets", b"*1\r\n$4\r\nPING\r\n" * 20000, b"+PONG\r\n" * 20000),
        ("many unanswered commands", b"*1\r\n$4\r\nPING\r\n" * 20000, b""),
        ("large bulk", b"*3\r\n$3\r\nSET\r\n$1\r\nk\r\n$1000000\r\n" + b"v" * 1000000 + CRLF, b"+OK\r\n"),
        ("nested huge counts", G, b"*2147483647\r\n" * 2000),
        ("huge array count with a huge bulk length inside", G, b"*2147483647\r\n$268435456\r\nabc"),
        ("huge array count with a huge bulk length inside", G, b"*3\r\n$3\r\nSET\r\n*2147483647\r\n$2147483646\r\nabc"),
        ("huge argument count with a huge argument length", b"*2147483647\r\n$3\r\nSET\r\n$268435456\r\nk", b"+OK\r\n"),
    ]
    for what, cb, sb in heavy:
        for tail in (0, 1, 2):
            add(cb, sb, tail, tail, {"shape": what})
    for tail in (3, 4):          # an error that says "time-out", once / on every further read
        add(G * 3, b"$1\r\nv\r\n" * 3, tail, tail, {"shape": "time-out at the end of the stream"})
        add(G * 3, b"$100\r\nv", tail, tail, {"shape": "time-out inside a bulk string"})
    res = run_cases(ctx, cases, mode="cost", timeout=1500)
    worst = None
    for (cb, sb, ct, st, what), r in zip(meta, res):
        ctx.count_case(("c02", cb, sb, ct, st), True, "redis-cost-" + ("field" if "field" in what else "shape"))
        if r is None:
            ctx.broken.append("resp cost run: no result line for a case (%s)" % json.dumps(what))
            break
        if r.get("killed") or not budget_ok(r) or "panic" in (r["c"], r["s"]):
            ctx.violation(replay_obj("cost", [cb], ct, [sb], st, "cs", None, {
                "what": what, "bytes": r.get("n"), "alloc": r.get("alloc"), "cpu_s": r.get("cpu"), "wall_s": r.get("wall"),
                "killed": r.get("killed", ""), "budget": "alloc <= 64*n + 96 MiB and cpu <= 2us*n + 0.5 s",
                "how": "echo '<case json>' | work/bin/vh-redis cost"}))
        if worst is None or r.get("alloc", 0) - 64 * r.get("n", 0) > worst[0]:
            worst = (r.get("alloc", 0) - 64 * r.get("n", 0), what, r.get("n"), r.get("alloc"), r.get("cpu"))
    if worst:
        ctx.sample({"kind": "redis-cost", "cases": len(cases), "worst_alloc_minus_64n": worst[0], "what": worst[1],
                    "n": worst[2], "alloc": worst[3], "cpu_s": worst[4]})


# ------------------------------------------------------------------------------------ C11 share
def c11(ctx):
    """Redis share of C11: every item emitted for well-formed conversations (every command of the
    table, every reply type, binary values) and for corrupted streams goes through the JSON round
    trips, Analyze, Summarize and Represent."""
    from fam import aggregate as _agg
    tb = tables(ctx)
    rng = ctx.rng
    quick = ctx.tier == "quick"
    convs = table_convs(rng, tb, every_arity=not quick)
    convs = convs[:: (3 if quick else 1)] + [gen_conv(rng, tb, clean=rng.random() < 0.7, big=rng.random() < 0.1) for _ in range(60 if quick else 1500)]
    cases, meta = [], []
    for conv in convs:
        cb, sb = enc_conv(conv)[0:2]
        cases.append(case_json(random_chunking(rng, cb), random_chunking(rng, sb)))
        meta.append("conversation")
    base = [enc_conv(small_conv(rng, tb, rng.randint(1, 4)))[0:2] for _ in range(10 if quick else 60)]
    for _ in range(150 if quick else 3000):
        cb, sb = rng.choice(base)
        cases.append(case_json([corrupt(rng, cb)], [corrupt(rng, sb)]))
        meta.append("corrupted")
    res = []
    rc, out = ctx.vh("vh-redis", ["stage"], inp="\n".join(cases) + "\n", timeout=900, merge_stderr=False)
    lines = [l for l in out.split("\n") if l.startswith("{")]
    if rc != 0 or len(lines) != len(cases):
        ctx.violation({"kind": "redis-c11-crash", "case": json.loads(cases[len(lines)]) if len(lines) < len(cases) else None,
                       "output_tail": out[-600:], "why": "the process died in a later stage"})
        return
    reported, nitems = 0, 0
    for c, kind, l in zip(cases, meta, lines):
        r = json.loads(l)
        for st in r.get("stages") or []:
            nitems += 1
            ctx.count_case(("redis-c11", c, nitems), True, "redis-c11-" + kind)
            _agg.note_c16(ctx, "resp", st, {"family": "resp", "how": "vh-redis stage", "case": json.loads(c)})
            bad = st.get("panic") or st.get("problems")
            if st.get("panic", "").startswith("kfl"):
                bad = None
            if bad and reported < 3:
                reported += 1
                ctx.violation({"kind": "redis-c11", "case": json.loads(c), "observed": bad, "method": st.get("method"), "how": "vh-redis stage"})
    ctx.sample({"kind": "redis-c11", "items": nitems})
