"""Kafka family (pkg/extensions/kafka): generators, the oracle on the implementation, the layout
comparison (the Python twin of coq/Kafka/KafkaCompat.v), the model/implementation correspondence
and the Kafka share of the shared properties (c01, c02, c08, c11).  DESIGN.md 4.3, 5.C06."""
from fam import aggregate as _agg
import json
import os
import time

import vlib
from vlib import coq_z, coq_list, coq_bytes, coq_string

HARNESS = "vh-kafka"
OUTCODE = {"eof": 0, "ueof": 1, "error": 2, "nil": 2, "panic": 3, "timeout": 4, "oom": 4}
CAP = 1000000            # request.go / response.go: a message cannot be bigger than 1 MB


# --------------------------------------------------------------------------- harness access
def gen(ctx):
    """Conversations from the independent encoder (segmentio), seeded."""
    if getattr(ctx, "_kafka_gen", None) is None:
        rc, out = ctx.vh(HARNESS, ["gen", str(ctx.seed), ctx.tier], timeout=300)
        convs = []
        for l in out.split("\n"):
            if l.startswith("{"):
                convs.append(json.loads(l))
        if rc != 0 or not convs:
            ctx.broken.append("kafka: the independent encoder failed: " + out[-400:])
        convs += wide_varint_variants(convs)
        ctx._kafka_gen = convs
    return ctx._kafka_gen


def _zigzag_varint(v):
    u = ((v << 1) ^ (v >> 63)) & (2 ** 64 - 1)
    out = bytearray()
    while True:
        b = u & 0x7f
        u >>= 7
        if u:
            out.append(b | 0x80)
        else:
            out.append(b)
            return bytes(out)


def wide_varint_variants(convs):
    """The independent encoder cannot produce record timestamps far enough apart to need a nine- or
    ten-byte varint; such records are made here from one of its single-record Produce requests by
    re-encoding the timestampDelta and adding the size difference to the enclosing length fields
    (message size, record-set size, batch length, record length).  The dissector does not check the
    batch CRC."""
    out = []
    base = None
    for x in convs:
        ex = x["exch"][0] if x.get("exch") else None
        if not ex or ex["name"] != "Produce" or ex["ver"] < 3 or not ex.get("supported", True):
            continue
        toks = ex["req"]
        recs = [t for t in toks if t["p"].endswith("RecordSet.records") and t["k"] == "n"]
        if len(recs) == 1 and recs[0]["v"] == 1 and sum(1 for t in toks if t["p"].endswith(".RecordSet.size")) == 1:
            ln = [t for t in toks if t["p"].endswith("records[].length")][0]
            if 0 <= ln["v"] <= 50 and ln["w"] == 1:
                base = x
                break
    if base is None:
        return out
    for k, val in enumerate([2 ** 62, -2 ** 62 - 1, 2 ** 63 - 1, -2 ** 63, 2 ** 55, -2 ** 56 - 1]):
        x = json.loads(json.dumps(base))
        ex = x["exch"][0]
        at = x["req_at"][0]
        data = bytearray.fromhex(x["client"])
        toks = ex["req"]
        td = [t for t in toks if t["p"].endswith("records[].timestampDelta")][0]
        new = _zigzag_varint(val)
        delta = len(new) - td["w"]
        pos = at + td["o"]
        data[pos:pos + td["w"]] = new

        def bump_fixed(tok, width):
            o = at + tok["o"]
            v = int.from_bytes(data[o:o + width], "big", signed=True) + delta
            data[o:o + width] = v.to_bytes(width, "big", signed=True)
            tok["v"] = v
        for t in toks:
            if t["p"].endswith(".RecordSet.size") or t["p"].endswith(".RecordSet.batchLength"):
                bump_fixed(t, 4)
            elif t["p"].endswith("records[].length"):
                o = at + t["o"]
                nv = t["v"] + delta
                enc = _zigzag_varint(nv)
                if len(enc) != t["w"]:
                    return out
                data[o:o + t["w"]] = enc
                t["v"] = nv
        size = int.from_bytes(data[at:at + 4], "big") + delta
        data[at:at + 4] = size.to_bytes(4, "big")
        ex["req_size"] = ex.get("req_size", 0) + delta
        td["v"], td["w"] = val, len(new)
        if "l" in td:
            td["l"] = len(new)
        for t in toks:
            if t["o"] > td["o"]:
                t["o"] += delta
        if "req_hex" in ex:
            ex["req_hex"] = bytes(data[at:at + 4 + size]).hex()
        x["req_at"] = [x["req_at"][0]] + [a + delta for a in x["req_at"][1:]]
        x["client"] = bytes(data).hex()
        x["name"] = "%s-widevarint-%d" % (x.get("name", "Produce"), k)
        out.append(x)
    return out


def case(c, s, cc=(), sc=(), tail=0, order="cs"):
    return {"c": c, "s": s, "cc": list(cc), "sc": list(sc), "tail": tail, "order": order}


def conv_case(conv, **kw):
    return case(conv["client"], conv["server"], **kw)


def run(ctx, cases, mode="run", timeout=900, limit_kb=None):
    """Run cases through the real dissector; one result dict per case (None if the harness died on it)."""
    results = [None] * len(cases)
    start = 0
    while start < len(cases):
        inp = "\n".join(json.dumps(c) for c in cases[start:]) + "\n"
        if limit_kb:
            cmd = "ulimit -v %d; exec %s %s" % (limit_kb, os.path.join(vlib.BIN, HARNESS), mode)
            rc, out = vlib.sh(["bash", "-c", cmd], timeout=timeout, env=vlib.env_with_go(), inp=inp.encode(), cwd=ctx.work)
        else:
            rc, out = ctx.vh(HARNESS, [mode], inp=inp, timeout=timeout)
        lines = [l for l in out.split("\n") if l.startswith("{")]
        for i, l in enumerate(lines):
            if start + i < len(cases):
                try:
                    results[start + i] = json.loads(l)
                except ValueError:
                    results[start + i] = None
        done = len(lines)
        if start + done >= len(cases):
            break
        # the child died (fatal error, memory limit, timeout) on case start+done
        if results[start + done - 1] is not None and results[start + done - 1].get("co") in ("timeout", "oom") and done > 0:
            start += done
        else:
            results[start + done] = {"co": "killed", "so": "killed", "items": [], "residue": [], "rc": rc,
                                     "tail_of_output": out[-300:]}
            start += done + 1
    return results


def schemas(ctx):
    if getattr(ctx, "_kafka_schemas", None) is None:
        rc, out = ctx.vh(HARNESS, ["schemas"], timeout=120)
        rows = [json.loads(l) for l in out.split("\n") if l.startswith("{")]
        if rc != 0 or not rows:
            ctx.broken.append("kafka: vh-kafka schemas failed: " + out[-300:])
        ctx._kafka_schemas = {(r["api"], r["ver"], r["dir"]): r for r in rows}
    return ctx._kafka_schemas


# --------------------------------------------------------------------------- layout comparison
def flat_ty(t, path=""):
    """Wire shape: structs dissolve into the sequence of their fields, arrays keep their element shape."""
    k = t["k"]
    if k == "struct":
        out = []
        for n, ft in t["f"]:
            out += flat_ty(ft, (path + "." + n) if path else n)
        return out
    if k in ("arr", "carr"):
        return [(k, path, flat_ty(t["e"], path + "[]"))]
    return [(k, path)]


def divergences(spec, impl):
    """All places where the two wire shapes part.  A difference ends the comparison of the sequence
    it occurs in; a difference inside an array element is confined to that array."""
    out = []

    def go(s, i):
        for idx in range(max(len(s), len(i))):
            if idx >= len(s):
                out.append((i[idx][1] + "(impl)", "none-vs-" + i[idx][0]))
                return False
            if idx >= len(i):
                out.append((s[idx][1], s[idx][0] + "-vs-none"))
                return False
            a, b = s[idx], i[idx]
            if a[0] != b[0]:
                out.append((a[1], "%s-vs-%s" % (a[0], b[0])))
                return False
            if a[0] in ("arr", "carr"):
                go(a[2], b[2])
        return True
    go(flat_ty(spec), flat_ty(impl))
    return out


# field names: the wire carries no names, so that a layout reports a value under the right name is
# checked on the aligned positions of the two shapes: the last path components must agree after
# normalisation, or be one of these reviewed synonym pairs (wire-format name, dissector's json name)
NAME_SYNONYMS = {
    ("acks", "requiredacks"), ("logappendtime", "logappendtimems"), ("maxwaittime", "maxwaitms"),
    ("partition", "index"), ("partition", "partitionindex"), ("partitions", "partitionresponses"),
    ("topic", "name"), ("topicnames", "name"), ("topicnames", "topics"), ("topics", "responses"),
    ("topics", "topicdata"),
}


def _norm_name(path):
    import re
    return re.sub(r"[^a-z0-9]", "", path.split(".")[-1].replace("[]", "").lower())


def name_mismatches(spec, impl):
    """Aligned positions (before any divergence) whose names do not agree."""
    out = []

    def go(s, i):
        for idx in range(min(len(s), len(i))):
            a, b = s[idx], i[idx]
            if a[0] != b[0]:
                return
            na, nb = _norm_name(a[1]), _norm_name(b[1])
            if na != nb and (na, nb) not in NAME_SYNONYMS and not a[1].startswith("_"):
                out.append((a[1], b[1]))
            if a[0] in ("arr", "carr"):
                go(a[2], b[2])
    go(flat_ty(spec), flat_ty(impl))
    return out


def known_entries():
    p = os.path.join(vlib.VERIF, "known", "kafka.json")
    try:
        return json.load(open(p))
    except OSError:
        return {"findings": [], "fixed": []}


def layout_class(name, dirn, path):
    return "layout:%s:%s:%s" % (name, dirn, path)


def known_layout(name, ver, dirn, path):
    """Is a mismatch at this spec field explained by a recorded divergence of (api, version,
    direction)?  The recorded field itself, or an array enclosing it: the dissector keeps only the
    elements it decoded, so a divergence inside an element can cut the enclosing arrays short and
    then shows first at their count.  Returns the finding or None."""
    for f in known_entries().get("findings", []):
        w = f.get("witness", {})
        if f.get("property") != "C06" or not f.get("class", "").startswith("layout:"):
            continue
        if w.get("api") != name or w.get("direction") != dirn or ver not in w.get("versions", []):
            continue
        q = w.get("first_diverging_field", "")
        if q == path or q.startswith(path + "[]"):
            return f
    return None


# --------------------------------------------------------------------------- tokens
def spec_tokens(toks):
    """Tokens of the encoder's message in comparable form (null strings are reported as empty; a null array has count -1)."""
    out = []
    for t in toks:
        k = t["k"]
        if k == "b":
            out.append(("b", t["v"]))
        elif k == "i":
            out.append(("i", t["w"], t["v"]))
        elif k == "v":
            out.append(("i", 0, t["v"]))
        elif k in ("s", "y"):
            out.append(("s", t.get("s", "")))
        elif k == "n":
            out.append(("n", -1 if t["v"] < 0 else t["v"]))
        elif k == "o":
            out.append(("opaque",))
        else:
            out.append(("tags",))
    return out


def impl_tokens(v):
    """Tokens of an emitted payload (a kv tree printed by the harness from the Go value)."""
    out = []

    def go(x):
        if x is True or x is False:
            out.append(("b", 1 if x else 0))
        elif isinstance(x, list):
            out.append(("i", x[0], x[1]))
        elif "s" in x:
            out.append(("s", x["s"]))
        elif "b" in x:
            out.append(("s", x["b"]))
        elif "a" in x:
            out.append(("n", -1 if x.get("null") else len(x["a"])))
            for e in x["a"]:
                go(e)
        else:
            for _, e in x["f"]:
                go(e)
    if v is not None:
        go(v)
    return out


def first_mismatch(spec, impl, soft=None):
    """First position at which the reported tokens part from the encoded ones.  soft(i) may accept a
    mismatch at position i (a recorded divergence on whose domain the two still line up)."""
    for i in range(max(len(spec), len(impl))):
        if i >= len(spec):
            return i, "impl reports more fields"
        if i >= len(impl):
            return i, "impl reports fewer fields"
        if spec[i] != impl[i]:
            if soft is not None and soft(i):
                continue
            return i, "encoded %r, reported %r" % (spec[i], impl[i])
    return None


# --------------------------------------------------------------------------- oracle (C06)
def expected_items(conv):
    return [conv["exch"][i] for i in conv["resp_order"] if conv["exch"][i]["supported"]]


def check_conversation(ctx, conv, res, how):
    """The property evaluated on the implementation for one conversation.  Returns a list of
    failures: dicts with 'class' (None = unexplained) and a replay."""
    fails = []
    exp = expected_items(conv)
    got = res["items"] if res else []
    base = {"kind": "conversation", "name": conv["name"], "client": conv["client"], "server": conv["server"], "how": how}

    def fail(cls, what, **kw):
        r = dict(base)
        r.update({"what": what})
        r.update(kw)
        fails.append({"class": cls, "replay": r})

    if res is None or res.get("co") in ("panic", "killed", "timeout") or res.get("so") in ("panic", "killed", "timeout"):
        fail(None, "dissection did not return normally", observed=res)
        return fails
    by_corr = {}
    for it in got:
        by_corr.setdefault(it["corr"], []).append(it)
    # framing: every exchange after a message must still be reported (sentinels in particular)
    for pos, ex in enumerate(exp):
        its = by_corr.get(ex["corr"], [])
        if len(its) != 1:
            prev = None
            k = conv["exch"].index(ex)
            if k > 0:
                prev = conv["exch"][k - 1]
            fail(None, "exchange %s v%d (correlation id %d) reported %d times%s" % (
                ex["name"], ex["ver"], ex["corr"], len(its),
                (" after a %s v%d message" % (prev["name"], prev["ver"])) if prev else ""),
                 expected_corr=[e["corr"] for e in exp], observed_corr=[i["corr"] for i in got],
                 outcomes=[res["co"], res["so"]])
            continue
        it = its[0]
        # header
        hdr_exp = (ex["api"], ex["name"], ex["ver"], ex["corr"], ex["client"], ex["req_size"], ex["resp_size"], ex["corr"])
        hdr_got = (it["api"], it["name"], it["ver"], it["corr"], it["client"], it["size"], it["rsize"], it["rcorr"])
        if hdr_exp != hdr_got:
            fail(None, "header of %s v%d: encoded %r, reported %r" % (ex["name"], ex["ver"], hdr_exp, hdr_got))
        for dirn, toks, payload in (("request", ex["req"], it["req"]), ("response", ex["resp"], it["resp"])):
            st, im = spec_tokens(toks), impl_tokens(payload)
            softened = []

            def soft(i, toks=toks, st=st, im=im, dirn=dirn):
                # an array decoded as {count, one element}: on the domain "exactly one element" the
                # tokens line up and the comparison goes on
                kf = known_layout(ex["name"], ex["ver"], dirn, toks[i]["p"])
                if kf and kf["witness"].get("single_element_form") and kf["witness"]["first_diverging_field"] == toks[i]["p"] \
                        and st[i] == ("n", 1) and im[i] == ("i", 4, 1):
                    softened.append(kf)
                    return True
                return False
            mm = first_mismatch(st, im, soft)
            for kf in softened[:1]:
                fail(kf["class"], "%s v%d %s: field %s decoded as {count, single element}" % (
                    ex["name"], ex["ver"], dirn, kf["witness"]["first_diverging_field"]), api=ex["name"], ver=ex["ver"], dir=dirn, known=True)
            if mm is None:
                continue
            idx, why = mm
            path = toks[idx]["p"] if idx < len(toks) else "(end)"
            kf = known_layout(ex["name"], ex["ver"], dirn, path)
            fail(kf["class"] if kf else None, "%s v%d %s: field %s: %s" % (ex["name"], ex["ver"], dirn, path, why),
                 api=ex["name"], ver=ex["ver"], dir=dirn, field=path, known=bool(kf))
    if not fails:
        if [i["corr"] for i in got] != [e["corr"] for e in exp]:
            fail(None, "items are not in response order", expected_corr=[e["corr"] for e in exp],
                 observed_corr=[i["corr"] for i in got])
        if res["co"] != "eof" or res["so"] != "eof":
            fail(None, "a well-formed conversation ended with %s/%s" % (res["co"], res["so"]))
        if res["residue"]:
            # only requests whose responses were sent may not remain
            fail(None, "matcher residue after a complete conversation: %r" % res["residue"])
    return fails


# --------------------------------------------------------------------------- observations for Coq
# Observed cases are serialised into one byte blob that coq/Kafka/KafkaCheck.v parses (p_cases):
#   cases  := u32 count, case*
#   case   := blob client, blob server, u8 tail, u8 client outcome, u8 server outcome,
#             u32 n, item*n, u32 n, i32 residue correlation id *n
#   item   := i16 api, i16 version, i32 correlation id, blob client id, i32 size, i32 response size,
#             i32 response correlation id, blob name, kv request payload, kv response payload
#   kv     := 0 false | 1 true | 2 i64 | 3 blob (string) | 4 blob (bytes) | 5 u32 n kv*n (array) | 6 u32 n kv*n (struct) | 7 (null)
#   blob   := u32 length, bytes
import struct


def _blob(b):
    return struct.pack(">I", len(b)) + b


def ser_kv(x, out):
    if x is True:
        out.append(b"\x01")
    elif x is False:
        out.append(b"\x00")
    elif x is None:
        out.append(b"\x07")
    elif isinstance(x, list):
        out.append(b"\x02" + struct.pack(">q", x[1]))
    elif "s" in x:
        out.append(b"\x03" + _blob(bytes.fromhex(x["s"])))
    elif "b" in x:
        out.append(b"\x04" + _blob(bytes.fromhex(x["b"])))
    elif "a" in x:
        out.append(b"\x05" + struct.pack(">I", len(x["a"])))
        for e in x["a"]:
            ser_kv(e, out)
    else:
        out.append(b"\x06" + struct.pack(">I", len(x["f"])))
        for _, e in x["f"]:
            ser_kv(e, out)


def residue_corr(keys):
    return [int(k.rsplit("_", 1)[1]) for k in keys]


def ser_case(c, r):
    out = [_blob(bytes.fromhex(c["c"])), _blob(bytes.fromhex(c["s"])),
           bytes([c.get("tail", 0), OUTCODE.get(r["co"], 5), OUTCODE.get(r["so"], 5)]),
           struct.pack(">I", len(r["items"]))]
    for it in r["items"]:
        out.append(struct.pack(">hhi", it["api"], it["ver"], it["corr"]) + _blob(bytes.fromhex(it["client"])))
        out.append(struct.pack(">iii", it["size"], it["rsize"], it["rcorr"]) + _blob(it["name"].encode()))
        ser_kv(it["req"], out)
        ser_kv(it["resp"], out)
    res = residue_corr(r["residue"])
    out.append(struct.pack(">I", len(res)) + b"".join(struct.pack(">i", k) for k in res))
    return b"".join(out)


def blob_coq(b):
    """(last, words): 7-byte big-endian words as primitive-integer literals."""
    words = [str(int.from_bytes(b[i:i + 7], "big")) for i in range(0, len(b), 7)]
    last = len(b) - 7 * (len(words) - 1) if words else 0
    return last, "[" + ";\n".join(words) + "]%uint63"


K_HEADER = ("Require Import V.Base.Prelude V.Kafka.KafkaTy V.Kafka.KafkaModel V.Kafka.KafkaCheck V.gen.KafkaSchemas.\n"
            "Require Import Coq.Numbers.Cyclic.Int63.Uint63.\n")


def coq_run_big(ctx, name, text, timeout=900):
    """ctx.coq_run with a large stack (long list literals and deep non-tail recursion in vm_compute) and no .glob."""
    path = os.path.join(ctx.work, name + ".v")
    with open(path, "w") as f:
        f.write(text)
    if len(text) > vlib.COQ_CASE_FILE_LIMIT:
        return 97, "[case file of %d bytes exceeds the limit: not evaluated]" % len(text)
    cmd = "ulimit -v %d; ulimit -s 4000000 2>/dev/null || ulimit -s unlimited; exec coqc -noglob -R %s V -w -notation-overridden %s" % (vlib.COQ_RUN_MEM_KB, vlib.COQ, path)
    return vlib.sh(["bash", "-c", cmd], cwd=ctx.work, timeout=timeout)


def correspond(ctx, tag, cases, results, budget_bytes=250000):
    """K: KafkaModel.dissect (over the generated tables) against the real dissector on the same
    inputs.  Returns the indices of the cases on which they differ (None if Coq could not run)."""
    todo = [(i, c, r) for i, (c, r) in enumerate(zip(cases, results))
            if r is not None and r.get("co") in OUTCODE and r.get("co") not in ("timeout", "oom")
            and r.get("so") in OUTCODE and c.get("order", "cs") == "cs"]
    bad = []
    # an observed result out of all proportion to its input (a mutated tree can emit millions of elements for a
    # hundred bytes) is a difference by itself: the model's output is bounded by its input (C02_kafka)
    huge = [i for i, c, r in todo if len(json.dumps(r)) > 2000000 + 400 * (len(c["c"]) + len(c["s"]))]
    if huge:
        bad += huge
        todo = [t for t in todo if t[0] not in set(huge)]
    k = 0
    fileno = 0
    while k < len(todo):
        batch, blobs, size = [], [], 0
        while k < len(todo) and (not batch or (size < budget_bytes and len(batch) < 1500)):
            i, c, r = todo[k]
            b = ser_case(c, r)
            batch.append(i)
            blobs.append(b)
            size += len(b)
            k += 1
        last, words = blob_coq(struct.pack(">I", len(batch)) + b"".join(blobs))
        src = (K_HEADER + "Definition ws : list int := \n" + words + ".\n"
               "Definition M := Eval vm_compute in failing_cases impl_tables %d ws.\nPrint M.\n" % last)
        rc, out = coq_run_big(ctx, "kafka_%s_%d" % (tag, fileno), src, timeout=1200)
        fileno += 1
        idx = vlib.parse_coq_list_of_nat(out, "M")
        if rc != 0 or idx is None or idx == [4999]:
            ctx.broken.append("K_kafka_%s: coqc failed on the case file" % tag)
            ctx.log(out[-800:])
            return None
        bad += [batch[j] for j in idx]
    ctx.cov["traces_validated_against_impl"] = ctx.cov.get("traces_validated_against_impl", 0) + len(todo)
    return bad


# --------------------------------------------------------------------------- mutations
def ensure(ctx):
    if not os.path.exists(os.path.join(vlib.BIN, HARNESS)):
        ctx.build_harness()


def small_convs(ctx, n, kinds=("grid-one", "grid", "mix", "unsupported-first"), max_bytes=700):
    """A seeded choice of short conversations, spread over apis."""
    convs = [c for c in gen(ctx) if c["kind"] in kinds and len(c["client"]) // 2 + len(c["server"]) // 2 <= max_bytes]
    rng = vlib.random.Random(ctx.seed * 7919 + 11)
    rng.shuffle(convs)
    seen, out = set(), []
    for c in convs:
        api = c["exch"][0]["name"]
        if api in seen and len(out) < len(convs) and len(seen) < 7:
            continue
        seen.add(api)
        out.append(c)
        if len(out) >= n:
            break
    for c in convs:
        if len(out) >= n:
            break
        if c not in out:
            out.append(c)
    return out


def raw_replay(c, what, how, **kw):
    r = {"kind": "raw", "c": c["c"], "s": c["s"], "cc": c.get("cc", []), "sc": c.get("sc", []),
         "tail": c.get("tail", 0), "order": c.get("order", "cs"), "what": what, "how": how}
    r.update(kw)
    return r


def abnormal(r):
    return r is None or r.get("co") not in ("eof", "ueof", "error") or r.get("so") not in ("eof", "ueof", "error")


def report_K(ctx, tag, cases, results, sample=None):
    """Correspondence on (a sample of) the cases; a difference is a broken obligation with its input."""
    idx = list(range(len(cases)))
    if sample is not None and len(idx) > sample:
        rng = vlib.random.Random(ctx.seed + len(cases))
        idx = sorted(rng.sample(idx, sample))
    bad = correspond(ctx, tag, [cases[i] for i in idx], [results[i] for i in idx])
    if bad:
        i = idx[bad[0]]
        ctx.broken.append("K_kafka_%s: model and implementation differ on %d of %d cases; first: client=%s server=%s tail=%d" % (
            tag, len(bad), len(idx), cases[i]["c"][:120], cases[i]["s"][:120], cases[i].get("tail", 0)))
        with open(os.path.join(ctx.work, "K_%s_first_difference.json" % tag), "w") as f:
            json.dump({"case": cases[i], "observed": results[i]}, f)
    return bad


BIAS = [0x00, 0x01, 0x7f, 0x80, 0xff, 0xfe, 0x03, 0x12, 0x13, 0x14, 0x0f, 0x10]


def corruptions(rng, conv, n):
    out = []
    cb, sb = bytearray.fromhex(conv["client"]), bytearray.fromhex(conv["server"])
    for _ in range(n):
        c, s = bytearray(cb), bytearray(sb)
        for _ in range(rng.choice([1, 1, 1, 2, 4])):
            side = c if (rng.random() < 0.6 and c) or not s else s
            pos = rng.randrange(len(side))
            side[pos] = rng.choice(BIAS) if rng.random() < 0.6 else rng.randrange(256)
        out.append(case(c.hex(), s.hex(), tail=rng.choice([0, 0, 1, 2])))
    return out


def random_streams(rng, n):
    out = []
    for _ in range(n):
        def one():
            parts = []
            for _ in range(rng.randint(0, 4)):
                size = rng.choice([0, 4, 8, 10, 12, 20, 64, 1000000, 1000001, rng.randint(0, 70)])
                body = bytearray()
                body += struct.pack(">h", rng.choice([0, 1, 2, 3, 18, 19, 20, 12, 49, 50, -1, rng.randint(-3, 60)]))
                body += struct.pack(">h", rng.choice([0, 1, 2, 3, 5, 7, 8, 9, 11, 12, -1, 32767]))
                body += struct.pack(">i", rng.choice([0, 1, 7, -1, rng.randint(0, 1000)]))
                body += struct.pack(">h", rng.choice([0, 0, 1, 3, -1, 32767]))
                while len(body) < min(size, 80):
                    body += bytes([rng.choice(BIAS) if rng.random() < 0.5 else rng.randrange(256)])
                if rng.random() < 0.3:
                    body = body[:rng.randint(0, len(body))]
                parts.append(struct.pack(">I", size) + bytes(body))
            return b"".join(parts)
        out.append(case(one().hex(), one().hex(), tail=rng.choice([0, 0, 1, 2])))
    return out


def _zz(v):
    return _zigzag_varint(v)


def impl_encode(t, n, fill):
    """Bytes of a value of a dissector layout (as `vh-kafka impl-layouts` prints it) in the dissector's own
    (non-compact) encoding: every array with n elements, every scalar taken from `fill`."""
    k = t["k"]
    if k == "bool":
        return b"\x01"
    if k in ("i8", "i16", "i32", "i64"):
        w = {"i8": 1, "i16": 2, "i32": 4, "i64": 8}[k]
        return (fill % (1 << (8 * w))).to_bytes(w, "big")
    if k == "str":
        return struct.pack(">h", 2) + b"ab"
    if k == "bytes":
        return struct.pack(">i", 2) + b"xy"
    if k in ("arr", "carr"):
        return struct.pack(">i", n) + b"".join(impl_encode(t["e"], n, fill) for _ in range(n))
    if k == "struct":
        return b"".join(impl_encode(f[1], n, fill) for f in t["f"])
    if k == "record":
        body = b"\x00" + _zz(0) + _zz(0) + _zz(1) + b"k" + _zz(1) + b"v" + _zz(0)
        return _zz(len(body)) + body
    # a type the translator does not know (no decode function in the model either): one byte, so that whatever the
    # dissector does when it reaches the field has something to read
    return bytes([fill % 256])


def impl_encoded_cases(ctx):
    """Layout-directed inputs: for every api x version 0..15 the layouts the dissector itself selects, filled with one
    and with two elements in every array and sent as a matching request/response pair.  The independent encoder
    cannot reach the inner fields of a layout that diverges from the protocol (a flexible version read with the
    non-compact layout stops at the first array); these inputs reach every field of every layout."""
    if getattr(ctx, "_kafka_impl_layouts", None) is None:
        rc, out = ctx.vh(HARNESS, ["impl-layouts"], timeout=300)
        ctx._kafka_impl_layouts = [json.loads(l) for l in out.split("\n") if l.startswith("{")]
        if rc != 0 or not ctx._kafka_impl_layouts:
            ctx.broken.append("kafka: impl-layouts failed: " + out[-300:])
    cases, seen = [], set()
    for lay in ctx._kafka_impl_layouts:
        key = (lay["api"], json.dumps(lay["req"]), json.dumps(lay["resp"]))
        if key in seen:
            continue        # the same pair of layouts at a neighbouring version
        seen.add(key)
        for n, fill in ((1, 1), (2, 1), (1, -1), (1, 0)):
            corr = 100 + len(cases)
            rq = struct.pack(">hhih", lay["api"], lay["ver"], corr, 2) + b"cl" + (impl_encode(lay["req"], n, fill) if lay["req"] else b"")
            rs = struct.pack(">i", corr) + (impl_encode(lay["resp"], n, fill) if lay["resp"] else b"")
            cases.append(case((struct.pack(">i", len(rq)) + rq).hex(), (struct.pack(">i", len(rs)) + rs).hex()))
    return cases


def padded_variants(convs, sizes=(999999, 1000000)):
    """Conversations whose first request, or first response, is followed inside its frame by zero bytes up to exactly the
    largest message size the dissector takes and one below it (a frame may be longer than the layout that is decoded from
    it; what follows is skipped): both exchanges are still reported, with the size the frame declares."""
    import copy
    out = []
    base = [c for c in convs if c["kind"] == "grid-one" and len(c["exch"]) == 2 and c["exch"][0]["supported"]
            and c["exch"][0]["name"] in ("Metadata", "ApiVersions", "ListOffsets") and c["resp_order"] == [0, 1]]
    for conv in base[:2]:
        for side in ("c", "s"):
            for size in sizes:
                v = copy.deepcopy(conv)
                key, at, szk = ("client", "req_at", "req_size") if side == "c" else ("server", "resp_at", "resp_size")
                data = bytearray.fromhex(v[key])
                old = v["exch"][0][szk]
                pad = size - old
                if pad <= 0:
                    continue
                first_end = v[at][0] + 4 + old
                data[v[at][0]:v[at][0] + 4] = struct.pack(">i", size)
                data[first_end:first_end] = bytes(pad)
                v[key] = data.hex()
                v["exch"][0][szk] = size
                v[at] = [v[at][0]] + [o + pad for o in v[at][1:]]
                v["name"] = "%s+%s-padded-to-%d" % (conv["name"], "request" if side == "c" else "response", size)
                v["kind"] = "padded"
                out.append(v)
    return out


# --------------------------------------------------------------------------- C01 (Kafka share)
def c01(ctx):
    """Never panics; what was completely received before the cut is still emitted."""
    ensure(ctx)
    rng = vlib.random.Random(ctx.seed * 31 + 1)
    quick = ctx.tier == "quick"
    convs = small_convs(ctx, 6 if quick else 40, kinds=("grid-one", "grid", "mix", "unsupported-first"), max_bytes=500 if quick else 1500)
    cases, meta = [], []
    for conv in convs:
        nc, ns = len(conv["client"]) // 2, len(conv["server"]) // 2
        for k in range(nc + 1):
            cases.append(case(conv["client"][:2 * k], conv["server"], tail=rng.choice([0, 0, 1, 2])))
            meta.append(("prefix-client", conv, k))
        for k in range(ns + 1):
            cases.append(case(conv["client"], conv["server"][:2 * k], tail=rng.choice([0, 0, 1, 2])))
            meta.append(("prefix-server", conv, k))
    for conv in convs:
        for c in corruptions(rng, conv, 40 if quick else 400):
            cases.append(c)
            meta.append(("corruption", conv, None))
    for c in random_streams(rng, 300 if quick else 5000):
        cases.append(c)
        meta.append(("random", None, None))
    # every conversation of the independent encoder whole: each api x version of the grid with its arrays filled (a
    # layout that only one version of one api selects, a field that is present only when an inner array is non-empty)
    for conv in gen(ctx):
        cases.append(case(conv["client"], conv["server"]))
        meta.append(("whole", None, None))
    for c in impl_encoded_cases(ctx):
        cases.append(c)
        meta.append(("impl-layout", None, None))
    # two fields of one message at once: every pair of the fixed-width fields of the smallest Produce request and Fetch
    # response that carry a record batch, each set to 0, all ones and a small value (a flag that selects a code path
    # together with a length that the path does not expect)
    withrec = sorted((x for x in gen(ctx) if any(".headers" in t["p"] for e in x["exch"] for t in e["req"] + e["resp"])),
                     key=lambda x: len(x["client"]) + len(x["server"]))
    for want, side in (("Produce", "c"), ("Fetch", "s")):
        conv = next((x for x in withrec if x["exch"][0]["name"] == want), None)
        if conv is None:
            continue
        ex, at = conv["exch"][0], (conv["req_at"][0] if side == "c" else conv["resp_at"][0])
        toks = [t for t in (ex["req"] if side == "c" else ex["resp"]) if t["w"] in (1, 2, 4, 8) and t["k"] in ("i", "s", "y", "n", "b")]
        data0 = bytes.fromhex(conv["client" if side == "c" else "server"])
        pairs = [(a, b) for i, a in enumerate(toks) for b in toks[i + 1:]]
        if quick and len(pairs) > 400:
            pairs = rng.sample(pairs, 400)
        for a, b in pairs:
            for va in (0, -1, 7):
                for vb in (0, -1, 7):
                    d = bytearray(data0)
                    for t, v in ((a, va), (b, vb)):
                        d[at + t["o"]:at + t["o"] + t["w"]] = (v % (1 << (8 * t["w"]))).to_bytes(t["w"], "big")
                    cases.append(case(d.hex(), conv["server"]) if side == "c" else case(conv["client"], d.hex()))
                    meta.append(("field-pair", None, None))
    res = run(ctx, cases)
    nviol = 0
    for c, r, (kind, conv, k) in zip(cases, res, meta):
        ctx.count_case(("kafka-c01", c["c"], c["s"], c["tail"]), kind != "random" or bool(r and r["items"]), "kafka-" + kind)
        if abnormal(r):
            if nviol < 3:
                ctx.violation(raw_replay(c, "kafka Dissect did not return normally (%s/%s)" % ((r or {}).get("co"), (r or {}).get("so")),
                                         "vh-kafka run", observed={k2: v for k2, v in (r or {}).items() if k2 != "items"}))
            nviol += 1
            continue
        if kind.startswith("prefix") and conv["kind"] != "mix-reordered":
            # exchanges whose request and response lie completely inside what was delivered
            exp = []
            for i in conv["resp_order"]:
                ex = conv["exch"][i]
                req_end = conv["req_at"][i] + ex["req_size"] + 4
                resp_end = conv["resp_at"][i] + ex["resp_size"] + 4
                if kind == "prefix-client" and req_end > k:
                    break       # the server half stops at the response whose request was not received
                if kind == "prefix-server" and resp_end > k:
                    break
                if ex["supported"]:
                    exp.append(ex["corr"])
            got = [it["corr"] for it in r["items"]]
            if got[:len(exp)] != exp:
                if nviol < 3:
                    ctx.violation(raw_replay(c, "cut %s at byte %d: the completely received exchanges %r are not all reported (reported %r)" % (
                        kind, k, exp, got), "vh-kafka run", conversation=conv["name"]))
                nviol += 1
    ctx.sample({"kind": "kafka-prefix", "conversation": convs[0]["name"], "cases": sum(1 for m in meta if m[0].startswith("prefix"))})
    nk = [i for i, m in enumerate(meta) if m[0] != "field-pair"] + [i for i, m in enumerate(meta) if m[0] == "field-pair"][::15]
    report_K(ctx, "c01", [cases[i] for i in nk], [res[i] for i in nk], sample=700 if quick else 6000)
    return nviol


# --------------------------------------------------------------------------- C02 (Kafka share)
INT32_MAX = 2 ** 31 - 1


def enc_uvarint(u):
    out = bytearray()
    while u >= 0x80:
        out.append((u & 0x7f) | 0x80)
        u >>= 7
    out.append(u)
    return bytes(out)


def length_fields(conv):
    """(side, absolute offset, width, encoding, remaining bytes of the message after the field, label)"""
    out = []
    for i, ex in enumerate(conv["exch"]):
        for side, at, toks, size in (("c", conv["req_at"][i], ex["req"], ex["req_size"]), ("s", conv["resp_at"][i], ex["resp"], ex["resp_size"])):
            stream_len = len(conv["client" if side == "c" else "server"]) // 2
            out.append((side, at, 4, "fix", stream_len - at - 4, "%s.size" % ex["name"]))
            if side == "c":
                out.append((side, at + 12, 2, "fix", size - 10, "%s.clientIdLen" % ex["name"]))
            for t in toks:
                if t["k"] in ("s", "y", "n") and t["w"] in (2, 4):
                    out.append((side, at + t["o"], t["w"], "fix", size + 4 - t["o"] - t["w"], ex["name"] + "." + t["p"]))
                elif t["k"] == "v" or (t["k"] in ("s", "y", "n") and t["w"] not in (0, 2, 4)):
                    enc = "var" if t["k"] in ("v",) or ".records[]" in t["p"] else "uvar"
                    out.append((side, at + t["o"], t["w"], enc, size + 4 - t["o"] - t["w"], ex["name"] + "." + t["p"]))
    return out


def boundary_values(remaining):
    return [0, 1, remaining - 1, remaining, remaining + 1, 65535, 65536, CAP, CAP + 1, INT32_MAX, -1, 0xFFFFFFFF]


def substitute(conv, field, value):
    side, off, w, enc, _, _ = field
    data = bytearray.fromhex(conv["client" if side == "c" else "server"])
    if enc == "fix":
        new = (value % (1 << (8 * w))).to_bytes(w, "big")
    elif enc == "var":
        v = max(min(value, 2 ** 63 - 1), -2 ** 63)
        new = enc_uvarint(((v << 1) ^ (v >> 63)) & (2 ** 64 - 1))
    else:
        new = enc_uvarint(value & (2 ** 64 - 1))
    data[off:off + w] = new
    return (data.hex(), conv["server"]) if side == "c" else (conv["client"], data.hex())


ALLOC_BUDGET = lambda n: 64 * n + 96 * 1024 * 1024
CPU_BUDGET_US = lambda n: 2 * n + 500000


def c02(ctx):
    """Cost linear in the bytes seen; terminates on every end-of-stream kind; matcher poll bounded."""
    ensure(ctx)
    rng = vlib.random.Random(ctx.seed * 37 + 2)
    quick = ctx.tier == "quick"
    convs = small_convs(ctx, 6 if quick else 40, kinds=("grid-one", "grid", "mix"), max_bytes=900 if quick else 3000)
    # always include conversations with record batches (varint lengths and counts): the smallest
    # Produce request and Fetch response that carry records with headers
    withrec = sorted((x for x in gen(ctx) if x not in convs and any(".headers" in t["p"] for e in x["exch"] for t in e["req"] + e["resp"])),
                     key=lambda x: len(x["client"]) + len(x["server"]))
    for want in ("Produce", "Fetch"):
        for x in withrec:
            if x["exch"][0]["name"] == want:
                convs.append(x)
                break
    cases, meta = [], []
    for conv in convs:
        fields = length_fields(conv)
        if quick and len(fields) > 14:
            varf = [f for f in fields[4:] if f[3] != "fix"]
            fixf = [f for f in fields[4:] if f[3] == "fix"]
            fields = fields[:4] + rng.sample(fixf, min(len(fixf), 8)) + varf[:14]
        for f in fields:
            for v in boundary_values(f[4]):
                c, s = substitute(conv, f, v)
                for tail in (0, 1, 2):
                    cases.append(case(c, s, tail=tail))
                    meta.append((conv["name"], f[5], v, tail))
                # the same over-declared field with the stream ending inside the message (at any offset
                # after the field): what is declared must not drive the cost when the bytes never come
                if v in (65536, CAP, CAP + 1, INT32_MAX, 0xFFFFFFFF):
                    side, off = f[0], f[1]
                    data = c if side == "c" else s
                    newlen = len(data) // 2 - (len(conv["client" if side == "c" else "server"]) // 2 - f[2])
                    cut = min(len(data) // 2, off + newlen + rng.choice([0, 1, 2, 5, 9]))
                    tc, ts = (data[:2 * cut], s) if side == "c" else (c, data[:2 * cut])
                    tail = rng.choice([0, 1, 2])
                    cases.append(case(tc, ts, tail=tail))
                    meta.append((conv["name"], f[5] + " (stream cut after the field)", v, tail))
    # ends of stream by an error that says "time-out" (once, and on every further read)
    for conv in convs:
        for tail in (3, 4):
            cases.append(case(conv["client"], conv["server"], tail=tail))
            meta.append((conv["name"], "timeout-tail", 0, tail))
    # two declared sizes at once (an enclosing and an enclosed one, both far beyond the bytes present): every pair of the
    # 32-bit length / count fields of the conversations that carry record batches
    for conv in convs[-2:]:
        f4 = [f for f in length_fields(conv) if f[3] == "fix" and f[2] == 4]
        prs = [(a, b) for i, a in enumerate(f4) for b in f4[i + 1:] if a[0] == b[0]]
        if len(prs) > (120 if quick else 2000):
            prs = rng.sample(prs, 120 if quick else 2000)
        for a, b in prs:
            if a[1] > b[1]:
                a, b = b, a
            c1, s1 = substitute(conv, a, INT32_MAX)
            conv2 = dict(conv, client=c1, server=s1)
            c2, s2 = substitute(conv2, b, 1 << 28)
            cases.append(case(c2, s2, tail=rng.choice([0, 1, 2])))
            meta.append((conv["name"], a[5] + " + " + b[5], INT32_MAX, 0))
    n_model = len(cases)        # the cases from here on are too large for the model run
    # a large message made of nested over-declared arrays and one of cap size
    big = bytes.fromhex(convs[0]["client"])
    for tail in (0, 1, 2):
        nested = struct.pack(">ihhih", CAP, 3, 1, 9, 0) + (struct.pack(">i", 65535) + struct.pack(">h", 0)) * ((CAP - 10) // 6)
        cases.append(case(nested.hex(), "", tail=tail))
        meta.append(("nested-65535-arrays", "Metadata.topics", 65535, tail))
        cases.append(case((struct.pack(">i", CAP) + big[4:]).hex(), "", tail=tail))
        meta.append(("size-cap-short-stream", "size", CAP, tail))
    # very many small units at two sizes (N and 4N), judged by the ratio (the cost of a unit must not grow with the units
    # before it): pipelined ApiVersions v0 exchanges, a Metadata v0 request naming N topics, N unanswered requests
    def api_versions(k, corr):
        req = struct.pack(">hhih", 18, 0, corr, 2) + b"cl"
        resp = struct.pack(">ihi", corr, 0, 0)
        return struct.pack(">i", len(req)) + req, struct.pack(">i", len(resp)) + resp
    many = []
    for nsmall in ((1500, 6000) if quick else (10000, 40000)):
        pairs = [api_versions(k, k + 1) for k in range(nsmall)]
        many.append(("many-exchanges", nsmall, case(b"".join(p[0] for p in pairs).hex(), b"".join(p[1] for p in pairs).hex())))
        many.append(("many-unanswered-requests", nsmall, case(b"".join(p[0] for p in pairs).hex(), "")))
        body = struct.pack(">hhih", 3, 0, 7, 2) + b"cl" + struct.pack(">i", nsmall) + b"".join(struct.pack(">h", 2) + b"t%d" % (k % 10) for k in range(nsmall))
        rbody = struct.pack(">iii", 7, 0, 0)
        many.append(("many-topics", nsmall, case((struct.pack(">i", len(body)) + body).hex(), (struct.pack(">i", len(rbody)) + rbody).hex())))
    for shape, nsmall, c in many:
        cases.append(c)
        meta.append(("scaling:" + shape, shape, nsmall, 0))
    res = []
    B = 400
    for k in range(0, len(cases), B):
        res += run(ctx, cases[k:k + B], mode="cost", timeout=300, limit_kb=6 * 1024 * 1024)
    nviol, worst = 0, (0, None)
    scaling = {}
    for c, r, m in zip(cases, res, meta):
        n = len(c["c"]) // 2 + len(c["s"]) // 2
        ctx.count_case(("kafka-c02",) + m, True, "kafka-cost-tail%d" % m[3])
        why = None
        if abnormal(r):
            why = "did not return normally (%s/%s)" % ((r or {}).get("co"), (r or {}).get("so"))
        elif str(m[0]).startswith("scaling:"):
            scaling.setdefault(m[1], {})[m[2]] = (r["alloc"], r["cpu_us"], c)
        elif r["alloc"] > ALLOC_BUDGET(n):
            why = "allocated %d bytes for %d bytes of input (budget %d)" % (r["alloc"], n, ALLOC_BUDGET(n))
        elif r["cpu_us"] > CPU_BUDGET_US(n):
            why = "used %d us of CPU for %d bytes of input (budget %d)" % (r["cpu_us"], n, CPU_BUDGET_US(n))
        elif any(not s["ok"] for s in r.get("stages") or []):
            why = "a later stage failed: %r" % [s for s in r["stages"] if not s["ok"]][:1]
        if r and r.get("alloc", 0) > worst[0]:
            worst = (r["alloc"], m)
        if why:
            if nviol < 3:
                ctx.violation(raw_replay(c, "%s = %d, tail %d: %s" % (m[1], m[2], m[3], why), "vh-kafka cost", conversation=m[0]))
            nviol += 1
    ratios = {}
    for shape, by_size in sorted(scaling.items()):
        if len(by_size) != 2:
            continue
        (n1, a), (n2, b) = sorted(by_size.items())
        ratios[shape] = {"units": [n1, n2], "alloc": [a[0], b[0]], "cpu_us": [a[1], b[1]]}
        why = None
        if b[0] > 6 * a[0] + (64 << 20):
            why = "%d units allocate %d bytes, %d units %d bytes: the cost of a unit grows with the units before it" % (n1, a[0], n2, b[0])
        elif b[1] > 8 * a[1] + 1500000:
            why = "%d units take %d us of CPU, %d units %d us: the cost of a unit grows with the units before it" % (n1, a[1], n2, b[1])
        if why:
            ctx.violation(raw_replay(b[2], "%s: %s" % (shape, why), "vh-kafka cost"))
            nviol += 1
    ctx.cov["kafka_c02_scaling"] = ratios
    ctx.sample({"kind": "kafka-cost", "cases": len(cases), "largest_alloc_bytes": worst[0], "at": list(worst[1]) if worst[1] else None})
    # the same inputs through the model (outcome classes and items agree => the model's cost bound speaks about them)
    res_run = run(ctx, cases[:n_model], mode="run")
    report_K(ctx, "c02", cases[:n_model], res_run, sample=500 if quick else 4000)
    return nviol


# --------------------------------------------------------------------------- C08 (Kafka share)
def observable(r):
    return None if r is None else (r["co"], r["so"], json.dumps(r["items"], sort_keys=True), tuple(r["residue"]))


def c08(ctx):
    """Same bytes, different segmentation => identical items and outcome."""
    ensure(ctx)
    rng = vlib.random.Random(ctx.seed * 41 + 3)
    quick = ctx.tier == "quick"
    convs = small_convs(ctx, 8 if quick else 60, kinds=("grid-one", "grid", "mix", "mix-reordered", "unsupported-first"),
                        max_bytes=450 if quick else 1200)
    streams = [(c["name"], c["client"], c["server"], 0) for c in convs]
    for conv in convs[:4 if quick else 20]:
        for cc in corruptions(rng, conv, 2):
            streams.append((conv["name"] + "+corruption", cc["c"], cc["s"], cc["tail"]))
    # layout-directed exchanges (every field of a dissector layout present), the smaller ones
    ie = sorted(impl_encoded_cases(ctx), key=lambda c: len(c["c"]) + len(c["s"]))
    for i, c in enumerate(ie[:len(ie) // 2][::6 if quick else 1]):
        streams.append(("impl-layout-%d" % i, c["c"], c["s"], 0))
    cases, meta = [], []
    for name, c, s, tail in streams:
        nc, ns = len(c) // 2, len(s) // 2
        base = len(cases)
        cases.append(case(c, s, tail=tail))
        meta.append((name, base, "whole"))
        for k in range(1, nc):
            cases.append(case(c, s, cc=[k], tail=tail))
            meta.append((name, base, "two-piece"))
        for k in range(1, ns):
            cases.append(case(c, s, sc=[k], tail=tail))
            meta.append((name, base, "two-piece"))
        cases.append(case(c, s, cc=list(range(1, nc)), sc=list(range(1, ns)), tail=tail))
        meta.append((name, base, "single-bytes"))
        for _ in range(25 if quick else 80):
            cc = sorted(rng.sample(range(1, max(nc, 2)), min(rng.randint(1, 12), max(nc - 1, 0)))) if nc > 1 else []
            sc = sorted(rng.sample(range(1, max(ns, 2)), min(rng.randint(1, 12), max(ns - 1, 0)))) if ns > 1 else []
            cases.append(case(c, s, cc=cc, sc=sc, tail=tail))
            meta.append((name, base, "multi-piece"))
    res = run(ctx, cases)
    nviol = 0
    for c, r, (name, base, kind) in zip(cases, res, meta):
        ctx.count_case(("kafka-c08", c["c"], c["s"], tuple(c["cc"]), tuple(c["sc"])), kind != "whole", "kafka-split-" + kind)
        if observable(r) != observable(res[base]):
            if nviol < 3:
                ctx.violation(raw_replay(c, "segmentation cc=%r sc=%r changes the result of %s" % (c["cc"][:8], c["sc"][:8], name),
                                         "vh-kafka run", whole=raw_replay(cases[base], "", "")))
            nviol += 1
    ctx.sample({"kind": "kafka-split", "streams": len(streams), "cases": len(cases)})
    return nviol


# --------------------------------------------------------------------------- C11 (Kafka share)
def c11(ctx):
    """Every emitted item survives json round trip -> Analyze -> Summarize -> Represent."""
    ensure(ctx)
    rng = vlib.random.Random(ctx.seed * 43 + 4)
    quick = ctx.tier == "quick"
    convs = gen(ctx)
    cases = [conv_case(c) for c in convs]
    for conv in small_convs(ctx, 10 if quick else 60, max_bytes=1500):
        cases += corruptions(rng, conv, 15 if quick else 100)
    # the same requests under every other version the dissector has a layout for (the body is then
    # decoded by another layout: whatever it makes of it must survive the stages)
    seen = set()
    for conv in convs:
        ex = conv["exch"][0]
        if not ex["supported"] or ex["name"] in seen or conv["kind"] != "grid":
            continue
        seen.add(ex["name"])
        for v in range(0, 14):
            c = bytearray.fromhex(conv["client"])
            c[conv["req_at"][0] + 6:conv["req_at"][0] + 8] = struct.pack(">h", v)
            cases.append(case(c.hex(), conv["server"]))
    # every layout of the dissector with its inner arrays filled (items whose every field is present)
    cases += impl_encoded_cases(ctx)
    res = run(ctx, cases, mode="stage")
    nviol, nitems = 0, 0
    for c, r in zip(cases, res):
        if r is None:
            continue
        for s in r.get("stages") or []:
            nitems += 1
            ctx.count_case(("kafka-c11", c["c"], c["s"], nitems), True, "kafka-item-stages")
            _agg.note_c16(ctx, "kafka", s.get("c16"), {"family": "kafka", "how": "vh-kafka stage", "case": c})
            if not s["ok"]:
                if nviol < 3:
                    ctx.violation(raw_replay(c, "an emitted kafka item fails in stage %s: %s" % (s.get("where"), s.get("panic")), "vh-kafka stage"))
                nviol += 1
    ctx.sample({"kind": "kafka-stages", "items": nitems})
    return nviol


def replay_raw(ctx, r):
    """Re-run a raw replay case; prints what is observed now."""
    ensure(ctx)
    mode = r.get("how", "vh-kafka run").split()[-1]
    c = case(r["c"], r["s"], r.get("cc", []), r.get("sc", []), r.get("tail", 0), r.get("order", "cs"))
    res = run(ctx, [c], mode=mode if mode in ("run", "cost", "stage") else "run", limit_kb=6 * 1024 * 1024 if mode == "cost" else None)[0]
    print("what failed:", r.get("what"))
    print("observed now:", json.dumps(res)[:3000])
    return res


# --------------------------------------------------------------------------- C16 (Kafka share)
SUMMARY_FIELDS = {   # api -> (array field of the request payload, name field inside an element or None for plain strings)
    "Metadata": [("topics", "name")], "Produce": [("topicData", "topic")], "Fetch": [("topics", "topic")],
    "ListOffsets": [("topics", "name")], "CreateTopics": [("topics", "name")],
    "DeleteTopics": [("topicNames", None), ("topics", "name")],
}


def expected_summary(item):
    """Summary and click-to-filter query that are true of the item's own (reported) request."""
    if item["name"] == "ApiVersions":
        c = bytes.fromhex(item["client"]).decode("utf-8", "replace")
        return c, 'request.clientID == "%s"' % c
    fields = dict(item["req"]["f"]) if item["req"] else {}
    for arr, name in SUMMARY_FIELDS.get(item["name"], []):
        if arr in fields and "a" in fields[arr]:
            names, clauses = [], []
            for i, e in enumerate(fields[arr]["a"]):
                v = e if name is None else dict(e["f"])[name]
                s = bytes.fromhex(v["s"]).decode("utf-8", "replace")
                names.append(s)
                clauses.append('request.payload.%s[%d]%s == "%s"' % (arr, i, "" if name is None else "." + name, s))
            return ", ".join(names), " and ".join(clauses)
    return "", ""


def c16(ctx):
    """The summary of a Kafka entry lists its topics and its query has one clause per topic that
    names that topic (so that the query is true of the entry it was made from)."""
    ensure(ctx)
    convs = [c for c in gen(ctx) if c["kind"] in ("grid-one", "grid", "mix")]
    cases = [conv_case(c) for c in convs]
    res_run = run(ctx, cases, mode="run")
    res_stage = run(ctx, cases, mode="stage")
    nviol = 0
    for c, rr, rs in zip(cases, res_run, res_stage):
        if not rr or not rs:
            continue
        for it, st in zip(rr["items"], rs.get("stages") or []):
            names_ok = all(32 <= b < 127 and b not in (34, 92) for b in bytes.fromhex(it["client"]))
            exp_s, exp_q = expected_summary(it)
            if not all(32 <= ord(ch) < 127 and ch not in '"\\' for ch in exp_s):
                continue        # interpolated values outside the safe-string domain (D43)
            ctx.count_case(("kafka-c16", c["c"], it["corr"]), bool(exp_s), "kafka-summary")
            if st["ok"] and names_ok and (st["summary"], st["summaryQuery"]) != (exp_s, exp_q):
                if nviol < 3:
                    ctx.violation(raw_replay(c, "summary of the %s v%d entry: expected %r / %r, got %r / %r" % (
                        it["name"], it["ver"], exp_s, exp_q, st["summary"], st["summaryQuery"]), "vh-kafka stage"))
                nviol += 1
    return nviol


# --------------------------------------------------------------------------- spec encoder tie
class _Skip(Exception):
    pass


def spec_value(ty, toks, pos=0):
    """The kv value of a message body according to the spec schema, built from the encoder's tokens."""
    k = ty["k"]
    if k == "struct":
        fs = []
        for n, ft in ty["f"]:
            v, pos = spec_value(ft, toks, pos)
            fs.append([n, v])
        return {"f": fs}, pos
    if k in ("arr", "carr"):
        t = toks[pos]
        pos += 1
        if t["v"] < 0:
            return None, pos
        out = []
        for _ in range(t["v"]):
            v, pos = spec_value(ty["e"], toks, pos)
            out.append(v)
        return {"a": out}, pos
    if k in ("str", "cstr", "bytes", "cbytes"):
        t = toks[pos]
        if t["v"] < 0:
            return None, pos + 1
        return ({"s": t.get("s", "")} if k in ("str", "cstr") else {"b": t.get("s", "")}), pos + 1
    if k == "bool":
        return bool(toks[pos]["v"]), pos + 1
    if k in ("i8", "i16", "i32", "i64"):
        return [toks[pos]["w"], toks[pos]["v"]], pos + 1
    if k == "tags":
        return {"f": []}, pos + 1
    if k == "record":
        iv = lambda i: [0, toks[pos + i]["v"]]
        sv = lambda i: {"s": toks[pos + i].get("s", "")}
        nh = toks[pos + 8]["v"]
        hs = []
        q = pos + 9
        for _ in range(nh):
            hs.append({"f": [["kl", [0, toks[q]["v"]]], ["k", {"s": toks[q + 1].get("s", "")}],
                             ["vl", [0, toks[q + 2]["v"]]], ["v", {"s": toks[q + 3].get("s", "")}]]})
            q += 4
        return {"f": [["len", iv(0)], ["attr", iv(1)], ["ts", iv(2)], ["off", iv(3)], ["kl", iv(4)], ["k", sv(5)],
                      ["vl", iv(6)], ["v", sv(7)], ["hs", {"a": hs}]]}, q
    raise _Skip(k)


def spec_encoder_tie(ctx, convs):
    """KafkaSpecEnc.encode on the generated spec types against the bytes the segmentio encoder wrote."""
    rows = schemas(ctx)
    blobs, meta = [], []
    for c in convs:
        for ex in c["exch"]:
            if not ex["supported"]:
                continue
            for dirn, toks, hexs, body in (("request", ex["req"], ex["req_hex"], ex["req_body"]), ("response", ex["resp"], ex["resp_hex"], ex["resp_body"])):
                row = rows.get((ex["api"], ex["ver"], dirn))
                if row is None:
                    continue
                try:
                    v, pos = spec_value(row["spec"], toks)
                except (_Skip, IndexError, KeyError):
                    continue
                if pos != len(toks):
                    ctx.broken.append("K_kafka_spec: tokens of %s v%d %s do not fit the spec schema" % (ex["name"], ex["ver"], dirn))
                    return
                out = [struct.pack(">hhB", ex["api"], ex["ver"], 1 if dirn == "response" else 0)]
                ser_kv(v, out)
                out.append(_blob(bytes.fromhex(hexs)[body:]))
                blobs.append(b"".join(out))
                meta.append((ex["name"], ex["ver"], dirn))
    bad = []
    k = 0
    fileno = 0
    while k < len(blobs):
        j, size = k, 0
        while j < len(blobs) and (j == k or size < 250000):
            size += len(blobs[j])
            j += 1
        last, words = blob_coq(struct.pack(">I", j - k) + b"".join(blobs[k:j]))
        src = (K_HEADER + "Require Import V.gen.KafkaSpecSchemas.\nDefinition ws : list int := \n" + words + ".\n"
               "Definition M := Eval vm_compute in failing_spec spec_grid %d ws.\nPrint M.\n" % last)
        rc, out = coq_run_big(ctx, "kafka_spec_%d" % fileno, src, timeout=1200)
        fileno += 1
        idx = vlib.parse_coq_list_of_nat(out, "M")
        if rc != 0 or idx is None or idx == [4999]:
            ctx.broken.append("K_kafka_spec: coqc failed on the case file")
            ctx.log(out[-600:])
            return
        bad += [meta[k + i] for i in idx]
        k = j
    ctx.cov["spec_encoder_messages_checked"] = len(blobs)
    if bad:
        ctx.broken.append("K_kafka_spec: KafkaSpecEnc.encode differs from the segmentio encoder on %d messages; first %r" % (len(bad), bad[0]))
