"""Kafka family (pkg/extensions/kafka): generators, the oracle on the implementation, the layout
comparison (the Python twin of coq/Kafka/KafkaCompat.v), the model/implementation correspondence
and the Kafka share of the shared properties (c01, c02, c08, c11).  DESIGN.md 4.3, 5.C06."""
import json
import os
import time

import vlib
from vlib import coq_z, coq_list, coq_bytes, coq_string

HARNESS = "vh-kafka"
OUTCODE = {"eof": 0, "ueof": 1, "error": 2, "nil": 2, "panic": 3, "timeout": 4, "oom": 4}
CAP = 1000000            # request.go / response.go: a message cannot be bigger than 1 MB


# --------------------------------------------------------------------------- harness access
def gen(ctx):
    """Conversations from the independent encoder (segmentio), seeded."""
    if getattr(ctx, "_kafka_gen", None) is None:
        rc, out = ctx.vh(HARNESS, ["gen", str(ctx.seed), ctx.tier], timeout=300)
        convs = []
        for l in out.splitlines():
            if l.startswith("{"):
                convs.append(json.loads(l))
        if rc != 0 or not convs:
            ctx.broken.append("kafka: the independent encoder failed: " + out[-400:])
        ctx._kafka_gen = convs
    return ctx._kafka_gen


def case(c, s, cc=(), sc=(), tail=0, order="cs"):
    return {"c": c, "s": s, "cc": list(cc), "sc": list(sc), "tail": tail, "order": order}


def conv_case(conv, **kw):
    return case(conv["client"], conv["server"], **kw)


def run(ctx, cases, mode="run", timeout=900, limit_kb=None):
    """Run cases through the real dissector; one result dict per case (None if the harness died on it)."""
    results = [None] * len(cases)
    start = 0
    while start < len(cases):
        inp = "\n".join(json.dumps(c) for c in cases[start:]) + "\n"
        if limit_kb:
            cmd = "ulimit -v %d; exec %s %s" % (limit_kb, os.path.join(vlib.BIN, HARNESS), mode)
            rc, out = vlib.sh(["bash", "-c", cmd], timeout=timeout, env=vlib.env_with_go(), inp=inp.encode(), cwd=ctx.work)
        else:
            rc, out = ctx.vh(HARNESS, [mode], inp=inp, timeout=timeout)
        lines = [l for l in out.splitlines() if l.startswith("{")]
        for i, l in enumerate(lines):
            if start + i < len(cases):
                try:
                    results[start + i] = json.loads(l)
                except ValueError:
                    results[start + i] = None
        done = len(lines)
        if start + done >= len(cases):
            break
        # the child died (fatal error, memory limit, timeout) on case start+done
        if results[start + done - 1] is not None and results[start + done - 1].get("co") in ("timeout", "oom") and done > 0:
            start += done
        else:
            results[start + done] = {"co": "killed", "so": "killed", "items": [], "residue": [], "rc": rc,
                                     "tail_of_output": out[-300:]}
            start += done + 1
    return results


def schemas(ctx):
    if getattr(ctx, "_kafka_schemas", None) is None:
        rc, out = ctx.vh(HARNESS, ["schemas"], timeout=120)
        rows = [json.loads(l) for l in out.splitlines() if l.startswith("{")]
        if rc != 0 or not rows:
            ctx.broken.append("kafka: vh-kafka schemas failed: " + out[-300:])
        ctx._kafka_schemas = {(r["api"], r["ver"], r["dir"]): r for r in rows}
    return ctx._kafka_schemas


# --------------------------------------------------------------------------- layout comparison
def flat_ty(t, path=""):
    """Wire shape: structs dissolve into the sequence of their fields, arrays keep their element shape."""
    k = t["k"]
    if k == "struct":
        out = []
        for n, ft in t["f"]:
            out += flat_ty(ft, (path + "." + n) if path else n)
        return out
    if k in ("arr", "carr"):
        return [(k, path, flat_ty(t["e"], path + "[]"))]
    return [(k, path)]


def divergences(spec, impl):
    """All places where the two wire shapes part.  A difference ends the comparison of the sequence
    it occurs in; a difference inside an array element is confined to that array."""
    out = []

    def go(s, i):
        for idx in range(max(len(s), len(i))):
            if idx >= len(s):
                out.append((i[idx][1] + "(impl)", "none-vs-" + i[idx][0]))
                return False
            if idx >= len(i):
                out.append((s[idx][1], s[idx][0] + "-vs-none"))
                return False
            a, b = s[idx], i[idx]
            if a[0] != b[0]:
                out.append((a[1], "%s-vs-%s" % (a[0], b[0])))
                return False
            if a[0] in ("arr", "carr"):
                go(a[2], b[2])
        return True
    go(flat_ty(spec), flat_ty(impl))
    return out


def known_entries():
    p = os.path.join(vlib.VERIF, "known", "kafka.json")
    try:
        return json.load(open(p))
    except OSError:
        return {"findings": [], "fixed": []}


def layout_class(name, dirn, path):
    return "layout:%s:%s:%s" % (name, dirn, path)


def known_layout(name, ver, dirn, path):
    """Is this divergence (api, version, direction, spec field) recorded?  Returns the finding or None."""
    cls = layout_class(name, dirn, path)
    for f in known_entries().get("findings", []):
        if f.get("class") == cls and f.get("property") == "C06":
            w = f.get("witness", {})
            if w.get("versions") and ver in w["versions"]:
                return f
    return None


# --------------------------------------------------------------------------- tokens
def spec_tokens(toks):
    """Tokens of the encoder's message in comparable form (null strings/arrays are reported as empty)."""
    out = []
    for t in toks:
        k = t["k"]
        if k == "b":
            out.append(("b", t["v"]))
        elif k == "i":
            out.append(("i", t["w"], t["v"]))
        elif k == "v":
            out.append(("i", 0, t["v"]))
        elif k in ("s", "y"):
            out.append(("s", t.get("s", "")))
        elif k == "n":
            out.append(("n", max(t["v"], 0)))
        elif k == "o":
            out.append(("opaque",))
        else:
            out.append(("tags",))
    return out


def impl_tokens(v):
    """Tokens of an emitted payload (a kv tree printed by the harness from the Go value)."""
    out = []

    def go(x):
        if x is True or x is False:
            out.append(("b", 1 if x else 0))
        elif isinstance(x, list):
            out.append(("i", x[0], x[1]))
        elif "s" in x:
            out.append(("s", x["s"]))
        elif "b" in x:
            out.append(("s", x["b"]))
        elif "a" in x:
            out.append(("n", len(x["a"])))
            for e in x["a"]:
                go(e)
        else:
            for _, e in x["f"]:
                go(e)
    if v is not None:
        go(v)
    return out


def first_mismatch(spec, impl):
    for i in range(max(len(spec), len(impl))):
        if i >= len(spec):
            return i, "impl reports more fields"
        if i >= len(impl):
            return i, "impl reports fewer fields"
        if spec[i] != impl[i]:
            return i, "encoded %r, reported %r" % (spec[i], impl[i])
    return None


# --------------------------------------------------------------------------- oracle (C06)
def expected_items(conv):
    return [conv["exch"][i] for i in conv["resp_order"] if conv["exch"][i]["supported"]]


def check_conversation(ctx, conv, res, how):
    """The property evaluated on the implementation for one conversation.  Returns a list of
    failures: dicts with 'class' (None = unexplained) and a replay."""
    fails = []
    exp = expected_items(conv)
    got = res["items"] if res else []
    base = {"kind": "conversation", "name": conv["name"], "client": conv["client"], "server": conv["server"], "how": how}

    def fail(cls, what, **kw):
        r = dict(base)
        r.update({"what": what})
        r.update(kw)
        fails.append({"class": cls, "replay": r})

    if res is None or res.get("co") in ("panic", "killed", "timeout") or res.get("so") in ("panic", "killed", "timeout"):
        fail(None, "dissection did not return normally", observed=res)
        return fails
    by_corr = {}
    for it in got:
        by_corr.setdefault(it["corr"], []).append(it)
    # framing: every exchange after a message must still be reported (sentinels in particular)
    for pos, ex in enumerate(exp):
        its = by_corr.get(ex["corr"], [])
        if len(its) != 1:
            prev = None
            k = conv["exch"].index(ex)
            if k > 0:
                prev = conv["exch"][k - 1]
            fail(None, "exchange %s v%d (correlation id %d) reported %d times%s" % (
                ex["name"], ex["ver"], ex["corr"], len(its),
                (" after a %s v%d message" % (prev["name"], prev["ver"])) if prev else ""),
                 expected_corr=[e["corr"] for e in exp], observed_corr=[i["corr"] for i in got],
                 outcomes=[res["co"], res["so"]])
            continue
        it = its[0]
        # header
        hdr_exp = (ex["api"], ex["name"], ex["ver"], ex["corr"], ex["client"], ex["req_size"], ex["resp_size"], ex["corr"])
        hdr_got = (it["api"], it["name"], it["ver"], it["corr"], it["client"], it["size"], it["rsize"], it["rcorr"])
        if hdr_exp != hdr_got:
            fail(None, "header of %s v%d: encoded %r, reported %r" % (ex["name"], ex["ver"], hdr_exp, hdr_got))
        for dirn, toks, payload in (("request", ex["req"], it["req"]), ("response", ex["resp"], it["resp"])):
            st, im = spec_tokens(toks), impl_tokens(payload)
            mm = first_mismatch(st, im)
            if mm is None:
                continue
            idx, why = mm
            path = toks[idx]["p"] if idx < len(toks) else "(end)"
            cls = layout_class(ex["name"], dirn, path)
            kf = known_layout(ex["name"], ex["ver"], dirn, path)
            fail(cls if kf else None, "%s v%d %s: field %s: %s" % (ex["name"], ex["ver"], dirn, path, why),
                 api=ex["name"], ver=ex["ver"], dir=dirn, field=path, known=bool(kf))
    if not fails:
        if [i["corr"] for i in got] != [e["corr"] for e in exp]:
            fail(None, "items are not in response order", expected_corr=[e["corr"] for e in exp],
                 observed_corr=[i["corr"] for i in got])
        if res["co"] != "eof" or res["so"] != "eof":
            fail(None, "a well-formed conversation ended with %s/%s" % (res["co"], res["so"]))
        if res["residue"]:
            # only requests whose responses were sent may not remain
            fail(None, "matcher residue after a complete conversation: %r" % res["residue"])
    return fails


# --------------------------------------------------------------------------- observations for Coq
# Observed cases are serialised into one byte blob that coq/Kafka/KafkaCheck.v parses (p_cases):
#   cases  := u32 count, case*
#   case   := blob client, blob server, u8 tail, u8 client outcome, u8 server outcome,
#             u32 n, item*n, u32 n, i32 residue correlation id *n
#   item   := i16 api, i16 version, i32 correlation id, blob client id, i32 size, i32 response size,
#             i32 response correlation id, blob name, kv request payload, kv response payload
#   kv     := 0 false | 1 true | 2 i64 | 3 blob (string) | 4 blob (bytes) | 5 u32 n kv*n (array) | 6 u32 n kv*n (struct) | 7 (null)
#   blob   := u32 length, bytes
import struct


def _blob(b):
    return struct.pack(">I", len(b)) + b


def ser_kv(x, out):
    if x is True:
        out.append(b"\x01")
    elif x is False:
        out.append(b"\x00")
    elif x is None:
        out.append(b"\x07")
    elif isinstance(x, list):
        out.append(b"\x02" + struct.pack(">q", x[1]))
    elif "s" in x:
        out.append(b"\x03" + _blob(bytes.fromhex(x["s"])))
    elif "b" in x:
        out.append(b"\x04" + _blob(bytes.fromhex(x["b"])))
    elif "a" in x:
        out.append(b"\x05" + struct.pack(">I", len(x["a"])))
        for e in x["a"]:
            ser_kv(e, out)
    else:
        out.append(b"\x06" + struct.pack(">I", len(x["f"])))
        for _, e in x["f"]:
            ser_kv(e, out)


def residue_corr(keys):
    return [int(k.rsplit("_", 1)[1]) for k in keys]


def ser_case(c, r):
    out = [_blob(bytes.fromhex(c["c"])), _blob(bytes.fromhex(c["s"])),
           bytes([c.get("tail", 0), OUTCODE.get(r["co"], 5), OUTCODE.get(r["so"], 5)]),
           struct.pack(">I", len(r["items"]))]
    for it in r["items"]:
        out.append(struct.pack(">hhi", it["api"], it["ver"], it["corr"]) + _blob(bytes.fromhex(it["client"])))
        out.append(struct.pack(">iii", it["size"], it["rsize"], it["rcorr"]) + _blob(it["name"].encode()))
        ser_kv(it["req"], out)
        ser_kv(it["resp"], out)
    res = residue_corr(r["residue"])
    out.append(struct.pack(">I", len(res)) + b"".join(struct.pack(">i", k) for k in res))
    return b"".join(out)


def blob_coq(b):
    """(last, words): 7-byte big-endian words as primitive-integer literals."""
    words = [str(int.from_bytes(b[i:i + 7], "big")) for i in range(0, len(b), 7)]
    last = len(b) - 7 * (len(words) - 1) if words else 0
    return last, "[" + ";\n".join(words) + "]%uint63"


K_HEADER = ("Require Import V.Base.Prelude V.Kafka.KafkaTy V.Kafka.KafkaModel V.Kafka.KafkaCheck V.gen.KafkaSchemas.\n"
            "Require Import Coq.Numbers.Cyclic.Int63.Uint63.\n")


def coq_run_big(ctx, name, text, timeout=900):
    """ctx.coq_run with a large stack (long list literals and deep non-tail recursion in vm_compute) and no .glob."""
    path = os.path.join(ctx.work, name + ".v")
    with open(path, "w") as f:
        f.write(text)
    cmd = "ulimit -s 4000000 2>/dev/null || ulimit -s unlimited; exec coqc -noglob -R %s V -w -notation-overridden %s" % (vlib.COQ, path)
    return vlib.sh(["bash", "-c", cmd], cwd=ctx.work, timeout=timeout)


def correspond(ctx, tag, cases, results, budget_bytes=250000):
    """K: KafkaModel.dissect (over the generated tables) against the real dissector on the same
    inputs.  Returns the indices of the cases on which they differ (None if Coq could not run)."""
    todo = [(i, c, r) for i, (c, r) in enumerate(zip(cases, results))
            if r is not None and r.get("co") in OUTCODE and r.get("co") not in ("timeout", "oom")
            and r.get("so") in OUTCODE and c.get("order", "cs") == "cs"]
    bad = []
    k = 0
    fileno = 0
    while k < len(todo):
        batch, blobs, size = [], [], 0
        while k < len(todo) and (not batch or (size < budget_bytes and len(batch) < 1500)):
            i, c, r = todo[k]
            b = ser_case(c, r)
            batch.append(i)
            blobs.append(b)
            size += len(b)
            k += 1
        last, words = blob_coq(struct.pack(">I", len(batch)) + b"".join(blobs))
        src = (K_HEADER + "Definition ws : list int := \n" + words + ".\n"
               "Definition M := Eval vm_compute in failing_cases impl_tables %d ws.\nPrint M.\n" % last)
        rc, out = coq_run_big(ctx, "kafka_%s_%d" % (tag, fileno), src, timeout=1200)
        fileno += 1
        idx = vlib.parse_coq_list_of_nat(out, "M")
        if rc != 0 or idx is None or idx == [4999]:
            ctx.broken.append("K_kafka_%s: coqc failed on the case file" % tag)
            ctx.log(out[-800:])
            return None
        bad += [batch[j] for j in idx]
    ctx.cov["traces_validated_against_impl"] = ctx.cov.get("traces_validated_against_impl", 0) + len(todo)
    return bad
