#!/usr/bin/env python3
"""Writes MANIFEST.json from the table below (kept here so that the file stays valid)."""
import json
import os

VERIF = os.path.dirname(os.path.dirname(os.path.abspath(__file__)))

import glob
CLAIMED = {}
for f in sorted(glob.glob(os.path.join(VERIF, "tools", "props", "C*.manifest.json"))):
    CLAIMED[os.path.basename(f).split(".")[0]] = json.load(open(f))

PENDING = {}

def main():
    props = [json.loads(l) for l in open(os.path.join(VERIF, "properties.jsonl"))]
    checks, na = [], []
    for p in props:
        pid = p["id"]
        if pid in CLAIMED:
            c = CLAIMED[pid]
            checks.append({
                "property_id": pid,
                "quick_cmd": "python3 tools/check.py %s --tier quick" % pid,
                "thorough_cmd": "python3 tools/check.py %s --tier thorough" % pid,
                "evidence_file": "evidence/%s.json" % pid,
                "replay_cmd_template": "python3 tools/check.py %s --replay {path}" % pid,
                "engine": "coq-model",
                "level_claimed": {"category": c["category"], "text": c["text"], "design_ref": "DESIGN.md " + c["ref"]},
                "level_note": c["note"],
                "technique": c["technique"],
            })
        else:
            na.append({"property_id": pid, "reason": PENDING.get(pid, "not claimed yet: the Coq model, theorems and correspondence check for this property are not built in this revision (no technique switch; see DESIGN.md section 5)")})
    m = {
        "version": 1,
        "setup_cmd": "make -C /verif setup",
        "hooks": {
            "guard": "verif",
            "enable": "go build -tags verif (harness module /verif/harness with replace github.com/kubeshark/base => /repo)",
            "baseline_off_cmd": "cd /repo && GOFLAGS=-mod=mod GOPROXY=off GOSUMDB=off go test -json -vet=off -count=1 -timeout 25m ./...",
            "source_commits": [l.split()[0] for l in open(os.path.join(VERIF, "MANIFEST.hooks")) if l.strip() and not l.startswith("#")],
            "add_only": True,
        },
        "engines": [{"name": "coq-model", "path": "coq/", "serves_properties": sorted(CLAIMED),
                     "kind_free_text": "Coq 8.16.1 models + theorems; Go harness (harness/) for the model/implementation correspondence; tools/check.py orchestrates"}],
        "checks": checks,
        "not_applicable": na,
        "notes": "Every check rebuilds the harness from /repo's working tree with -tags verif, regenerates coq/gen/*.v, runs a full .vo build, "
                 "then runs the correspondence and the property oracle on the implementation. known_findings.json lists recorded findings and fixed: lines.",
    }
    with open(os.path.join(VERIF, "MANIFEST.json"), "w") as f:
        json.dump(m, f, indent=1)
    print("MANIFEST.json: %d checks, %d not claimed" % (len(checks), len(na)))

if __name__ == "__main__":
    main()
