#!/usr/bin/env python3
"""seedtest.py <patch.diff> <Cxx> [<Cyy> ...]: apply a seeded change to /repo, run the quick
checks, undo it.  Prints one line per check: caught / MISSED."""
import subprocess
import sys

patch, props = sys.argv[1], sys.argv[2:]
if subprocess.run(["git", "-C", "/repo", "status", "--porcelain"], capture_output=True, text=True).stdout.strip():
    print("/repo is not clean")
    sys.exit(2)
r = subprocess.run(["git", "-C", "/repo", "apply", patch], capture_output=True, text=True)
if r.returncode != 0:
    print("patch does not apply:", r.stderr)
    sys.exit(2)
try:
    for p in props:
        r = subprocess.run(["python3", "/verif/tools/check.py", p, "--tier", "quick"], capture_output=True, text=True, cwd="/verif")
        v = [l for l in r.stdout.splitlines() if l.startswith("VIOLATION")]
        print("%s: rc=%d %s %s" % (p, r.returncode, "caught" if r.returncode == 1 and v else "MISSED", v[0] if v else ""))
finally:
    subprocess.run(["git", "-C", "/repo", "checkout", "--", "."])
    subprocess.run(["git", "-C", "/repo", "clean", "-fdq"])
