#!/usr/bin/env python3
"""Entry point registered in MANIFEST.json:  check.py Cxx --tier quick|thorough [--replay f]"""
import argparse
import importlib
import os
import sys
import traceback

sys.path.insert(0, os.path.dirname(os.path.abspath(__file__)))
import vlib  # noqa: E402


def main():
    ap = argparse.ArgumentParser()
    ap.add_argument("prop")
    ap.add_argument("--tier", default=None)
    ap.add_argument("--replay", default=None)
    a = ap.parse_args()
    tier = os.environ.get("VERIF_TIER") or a.tier or "quick"
    if tier not in ("quick", "thorough"):
        tier = "quick"
    try:
        seed = int(os.environ.get("VERIF_SEED", "1"))
    except ValueError:
        seed = 1
    os.chdir(vlib.VERIF)
    ctx = vlib.Ctx(a.prop, tier, seed, keep_replays=bool(a.replay))
    mod = importlib.import_module("props." + a.prop)
    try:
        if a.replay:
            rc = mod.replay(ctx, a.replay)
        else:
            rc = mod.run(ctx)
    except Exception:
        traceback.print_exc()
        # an internal failure of the machinery is not a verdict about /repo, but the property is
        # not shown to hold either: report it as an unchecked obligation
        ctx.broken.append("check machinery failed: " + traceback.format_exc(limit=3)[-400:])
        rc = ctx.finish(rule="(run aborted)")
    sys.exit(rc)


if __name__ == "__main__":
    main()
