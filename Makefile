.PHONY: setup clean
setup:
	python3 tools/setup.py
clean:
	rm -rf work replays coq/Makefile.coq coq/Makefile.coq.conf coq/_CoqProject
	find coq -name '*.vo' -o -name '*.vok' -o -name '*.vos' -o -name '*.glob' -o -name '.*.aux' | xargs rm -f
