(* C09 over histories: for every order in which the register calls happen, the items are
   exactly the answered pairs and the map holds exactly the unanswered halves. *)
Require Import V.Base.Prelude V.Match.Matcher.

Lemma ident_eqb_eq a b : ident_eqb a b = true <-> a = b.
Proof.
  destruct a as [a1 a2], b as [b1 b2]. unfold ident_eqb. cbn [fst snd].
  rewrite andb_true_iff, !Nat.eqb_eq. split; [intros [-> ->]; reflexivity | intros H; injection H; auto].
Qed.
Lemma ident_eqb_refl a : ident_eqb a a = true.
Proof. apply ident_eqb_eq. reflexivity. Qed.
Lemma ident_eqb_neq a b : a <> b -> ident_eqb a b = false.
Proof. intros H. destruct (ident_eqb a b) eqn:E; [apply ident_eqb_eq in E; contradiction | reflexivity]. Qed.

Lemma mset_same m k v : mset m k v k = v.
Proof. unfold mset. rewrite ident_eqb_refl. reflexivity. Qed.
Lemma mset_other m k v k' : k <> k' -> mset m k v k' = m k'.
Proof. intros H. unfold mset. rewrite (ident_eqb_neq _ _ H). reflexivity. Qed.

(* each (ident, direction) is registered at most once *)
Definition kd (e : kev) : ident * bool := fst e.
Definition uniq (h : list kev) : Prop := NoDup (map kd h).

Definition InvK (h : list kev) (st : mmap * list item) : Prop :=
  (forall k d p, fst st k = Some (d, p) <-> (In (k, d, p) h /\ forall q, ~ In (k, negb d, q) h))
  /\ (forall cn p q, In (cn, p, q) (snd st) <->
        exists id, In ((cn, id), true, p) h /\ In ((cn, id), false, q) h).

Lemma uniq_app_inv h e : uniq (h ++ [e]) -> uniq h /\ forall p, ~ In (fst (fst e), snd (fst e), p) h.
Proof.
  unfold uniq. rewrite map_app. cbn [map]. intros H. apply NoDup_remove in H as [H1 H2].
  rewrite app_nil_r in *. split; [exact H1|]. intros p Hin. apply H2.
  apply in_map_iff. exists (fst (fst e), snd (fst e), p). split; [|exact Hin].
  unfold kd. cbn [fst]. destruct e as [[k d] p']. reflexivity.
Qed.

Lemma uniq_fun h k d p p' : uniq h -> In (k, d, p) h -> In (k, d, p') h -> p = p'.
Proof.
  unfold uniq. induction h as [|e h IH]; intros Hu H1 H2; [contradiction|].
  cbn [map] in Hu. inversion Hu as [|x l Hnin Hnd]; subst x l.
  destruct H1 as [-> | H1], H2 as [H2 | H2].
  - injection H2 as ->. reflexivity.
  - exfalso. apply Hnin. apply in_map_iff. exists (k, d, p'). split; [reflexivity | exact H2].
  - subst e. exfalso. apply Hnin. apply in_map_iff. exists (k, d, p). split; [reflexivity | exact H1].
  - exact (IH Hnd H1 H2).
Qed.

Lemma negb_eqb_false d d' : Bool.eqb d d' = false -> d = negb d'.
Proof. destruct d, d'; cbn; intros H; try discriminate; reflexivity. Qed.

Lemma kstep_inv h st e : uniq (h ++ [e]) -> InvK h st -> InvK (h ++ [e]) (kstep st e).
Proof.
  intros Hu [I1 I2]. destruct (uniq_app_inv _ _ Hu) as [Hu' Hfresh].
  destruct e as [[k d] p]. cbn [fst snd] in Hfresh.
  destruct st as [m its]. cbn [fst snd] in *. unfold kstep. cbn [fst snd]. unfold register.
  destruct (m k) as [[d' q]|] eqn:Hmk.
  - (* hit *)
    pose proof (proj1 (I1 k d' q) Hmk) as [Hin Hnoopp].
    assert (Hd : Bool.eqb d' d = false).
    { destruct (Bool.eqb d' d) eqn:E; [|reflexivity]. apply Bool.eqb_prop in E. subst d'. exfalso. exact (Hfresh q Hin). }
    rewrite Hd. pose proof (negb_eqb_false _ _ Hd) as Hd'. subst d'.
    split; cbn [fst snd].
    + intros k0 d0 p0. destruct (ident_eqb k k0) eqn:Ek.
      * apply ident_eqb_eq in Ek. subst k0. rewrite mset_same. split; [discriminate|].
        intros [Hin0 Hno]. exfalso. apply in_app_or in Hin0 as [Hin0 | [Hin0 | []]].
        -- destruct (Bool.eqb d0 d) eqn:Ed.
           ++ apply Bool.eqb_prop in Ed. subst d0. exact (Hfresh p0 Hin0).
           ++ apply negb_eqb_false in Ed. subst d0. apply (Hno p). rewrite Bool.negb_involutive.
              apply in_or_app. right. left. reflexivity.
        -- injection Hin0 as <- <-. apply (Hno q). apply in_or_app. left. exact Hin.
      * assert (Hne : k <> k0) by (intros ->; rewrite ident_eqb_refl in Ek; discriminate).
        rewrite (mset_other _ _ _ _ Hne). rewrite I1. split.
        -- intros [Hin0 Hno]. split; [apply in_or_app; left; exact Hin0|].
           intros q0 Hq0. apply in_app_or in Hq0 as [Hq0 | [Hq0 | []]]; [exact (Hno q0 Hq0)|].
           injection Hq0 as Hk _ _. contradiction.
        -- intros [Hin0 Hno]. split.
           ++ apply in_app_or in Hin0 as [Hin0 | [Hin0 | []]]; [exact Hin0|]. injection Hin0 as Hk _ _. contradiction.
           ++ intros q0 Hq0. apply (Hno q0). apply in_or_app. left. exact Hq0.
    + intros cn p0 q0. rewrite in_app_iff, I2. cbn [In]. split.
      * intros [[id [H1 H2]] | [Heq | []]].
        -- exists id. split; apply in_or_app; left; assumption.
        -- destruct k as [kc kid]. cbn [fst] in Heq.
           destruct d; cbn [negb] in *; injection Heq as E1 E2 E3; subst cn p0 q0; exists kid.
           ++ split; apply in_or_app; [right; left; reflexivity | left; exact Hin].
           ++ split; apply in_or_app; [left; exact Hin | right; left; reflexivity].
      * intros [id [H1 H2]].
        apply in_app_or in H1 as [H1 | [H1 | []]]; apply in_app_or in H2 as [H2 | [H2 | []]].
        -- left. exists id. split; assumption.
        -- (* the response is e *) injection H2 as E1 E2 E3. subst k d p. right. left. cbn [fst negb] in *.
           pose proof (uniq_fun _ _ _ _ _ Hu' H1 Hin) as ->. reflexivity.
        -- injection H1 as E1 E2 E3. subst k d p. right. left. cbn [fst negb] in *.
           pose proof (uniq_fun _ _ _ _ _ Hu' H2 Hin) as ->. reflexivity.
        -- injection H1 as E1 E2 E3. subst k d p. discriminate H2.
  - (* miss *)
    assert (Hnoopp : forall q, ~ In (k, negb d, q) h).
    { intros q Hq. assert (Hs : m k = Some (negb d, q)).
      { apply I1. split; [exact Hq|]. rewrite Bool.negb_involutive. intros q' Hq'. exact (Hfresh q' Hq'). }
      rewrite Hmk in Hs. discriminate. }
    split; cbn [fst snd].
    + intros k0 d0 p0. destruct (ident_eqb k k0) eqn:Ek.
      * apply ident_eqb_eq in Ek. subst k0. rewrite mset_same. split.
        -- intros H. injection H as <- <-. split; [apply in_or_app; right; left; reflexivity|].
           intros q0 Hq0. apply in_app_or in Hq0 as [Hq0 | [Hq0 | []]]; [exact (Hnoopp q0 Hq0)|].
           injection Hq0 as Hd _. destruct d; discriminate.
        -- intros [Hin0 Hno]. apply in_app_or in Hin0 as [Hin0 | [Hin0 | []]].
           ++ exfalso. destruct (Bool.eqb d0 d) eqn:Ed.
              ** apply Bool.eqb_prop in Ed. subst d0. exact (Hfresh p0 Hin0).
              ** apply negb_eqb_false in Ed. subst d0. exact (Hnoopp p0 Hin0).
           ++ injection Hin0 as <- <-. reflexivity.
      * assert (Hne : k <> k0) by (intros ->; rewrite ident_eqb_refl in Ek; discriminate).
        rewrite (mset_other _ _ _ _ Hne). rewrite I1. split.
        -- intros [Hin0 Hno]. split; [apply in_or_app; left; exact Hin0|].
           intros q0 Hq0. apply in_app_or in Hq0 as [Hq0 | [Hq0 | []]]; [exact (Hno q0 Hq0)|].
           injection Hq0 as Hk _ _. contradiction.
        -- intros [Hin0 Hno]. split.
           ++ apply in_app_or in Hin0 as [Hin0 | [Hin0 | []]]; [exact Hin0|]. injection Hin0 as Hk _ _. contradiction.
           ++ intros q0 Hq0. apply (Hno q0). apply in_or_app. left. exact Hq0.
    + intros cn p0 q0. rewrite I2. split.
      * intros [id [H1 H2]]. exists id. split; apply in_or_app; left; assumption.
      * intros [id [H1 H2]].
        apply in_app_or in H1 as [H1 | [H1 | []]]; apply in_app_or in H2 as [H2 | [H2 | []]].
        -- exists id. split; assumption.
        -- injection H2 as E1 E2 E3. subst k d p. exfalso. exact (Hnoopp _ H1).
        -- injection H1 as E1 E2 E3. subst k d p. exfalso. exact (Hnoopp _ H2).
        -- injection H1 as E1 E2 E3. subst k d p. discriminate H2.
Qed.

Lemma uniq_prefix h e : uniq (h ++ [e]) -> uniq h.
Proof. intros H. exact (proj1 (uniq_app_inv _ _ H)). Qed.

Lemma krun_snoc h e : krun (h ++ [e]) = kstep (krun h) e.
Proof. unfold krun. rewrite fold_left_app. reflexivity. Qed.

Lemma krun_inv h : uniq h -> InvK h (krun h).
Proof.
  induction h as [|e h IH] using rev_ind; intros Hu.
  - split; cbn; [intros k d p; split; [discriminate | intros [[] _]] | intros cn p q; split; [intros [] | intros [id [[] _]]]].
  - rewrite krun_snoc. apply kstep_inv; [exact Hu | apply IH; exact (uniq_prefix _ _ Hu)].
Qed.

(* items never repeat a message: NoDup of request pids and of response pids when pids are unique *)
Definition pids_unique (h : list kev) : Prop := NoDup (map snd h).

Lemma NoDup_snoc {A} (l : list A) a : NoDup l -> ~ In a l -> NoDup (l ++ [a]).
Proof.
  intros H1 H2. apply (NoDup_Add (a := a) (l := l)).
  - pose proof (Add_app a l []) as H. rewrite app_nil_r in H. exact H.
  - split; assumption.
Qed.

Lemma krun_nodup h : uniq h -> pids_unique h -> NoDup (snd (krun h)).
Proof.
  induction h as [|e h IH] using rev_ind; intros Hu Hp; [constructor|].
  rewrite krun_snoc. pose proof (krun_inv h (uniq_prefix _ _ Hu)) as [I1 I2].
  unfold pids_unique in Hp. rewrite map_app in Hp. cbn [map] in Hp.
  apply NoDup_remove in Hp as [Hp1 Hp2]. rewrite app_nil_r in Hp1, Hp2.
  specialize (IH (uniq_prefix _ _ Hu) Hp1).
  destruct e as [[k d] p]. cbn [snd] in Hp2.
  destruct (krun h) as [m its]. cbn [fst snd] in *. unfold kstep, register. cbn [fst snd].
  destruct (m k) as [[d' q]|]; [|exact IH].
  destruct (Bool.eqb d' d); [exact IH|]. cbn [snd].
  apply NoDup_snoc; [exact IH|]. intros Hin. apply Hp2.
    destruct d; apply I2 in Hin as [id [H1 H2]].
    + apply in_map_iff. exists ((fst k, id), true, p). split; [reflexivity | exact H1].
    + apply in_map_iff. exists ((fst k, id), false, p). split; [reflexivity | exact H2].
Qed.

(* ---- handler level: per-direction counters give the k-th message of a direction ident k *)
Lemma hrun_assign_from h : forall c st,
  fold_left hstep h (c, st) = (fold_left (fun c e => cinc c (fst (fst e)) (snd (fst e))) h c, fold_left kstep (assign_from c h) st).
Proof.
  induction h as [|[[cn d] p] h IH]; intros c st; cbn [fold_left assign_from]; [reflexivity|].
  unfold hstep at 2. cbn [fst snd]. rewrite IH. reflexivity.
Qed.

Lemma hrun_assign h : snd (hrun h) = krun (assign h).
Proof. unfold hrun, krun, assign. rewrite hrun_assign_from. reflexivity. Qed.

Lemma cinc_same c cn d : cinc c cn d cn d = S (c cn d).
Proof. unfold cinc. rewrite Nat.eqb_refl, Bool.eqb_reflx. reflexivity. Qed.
Lemma cinc_other c cn d cn' d' : (cn, d) <> (cn', d') -> cinc c cn d cn' d' = c cn' d'.
Proof.
  intros H. unfold cinc. destruct (Nat.eqb cn cn') eqn:E1; [|reflexivity].
  destruct (Bool.eqb d d') eqn:E2; [|reflexivity].
  apply Nat.eqb_eq in E1. apply Bool.eqb_prop in E2. subst. contradiction.
Qed.

Lemma msgs_cons_same cn d p h : msgs cn d ((cn, d, p) :: h) = p :: msgs cn d h.
Proof. unfold msgs. cbn [filter fst snd]. rewrite Nat.eqb_refl, Bool.eqb_reflx. reflexivity. Qed.
Lemma msgs_cons_other cn d cn' d' p h : (cn', d') <> (cn, d) -> msgs cn d ((cn', d', p) :: h) = msgs cn d h.
Proof.
  intros H. unfold msgs. cbn [filter fst snd].
  destruct (Nat.eqb cn' cn) eqn:E1; [|reflexivity]. destruct (Bool.eqb d' d) eqn:E2; [|reflexivity].
  apply Nat.eqb_eq in E1. apply Bool.eqb_prop in E2. subst. contradiction.
Qed.

Lemma pair_dec (a b : nat * bool) : {a = b} + {a <> b}.
Proof. decide equality; [apply Bool.bool_dec | apply Nat.eq_dec]. Qed.

Lemma assign_in h : forall c cn k d p,
  In ((cn, k), d, p) (assign_from c h) <->
  (c cn d < k /\ nth_error (msgs cn d h) (k - c cn d - 1) = Some p).
Proof.
  induction h as [|[[cn0 d0] p0] h IH]; intros c cn k d p; cbn [assign_from In].
  - split; [intros [] | intros [_ H]; destruct (k - c cn d - 1); discriminate].
  - rewrite IH. destruct (pair_dec (cn0, d0) (cn, d)) as [E | NE].
    + injection E as -> ->. rewrite msgs_cons_same, cinc_same. split.
      * intros [H | [Hlt Hn]].
        -- injection H as <- <-. split; [lia|]. replace (S (c cn d) - c cn d - 1) with O by lia. reflexivity.
        -- split; [lia|]. replace (k - c cn d - 1) with (S (k - S (c cn d) - 1)) by lia. exact Hn.
      * intros [Hlt Hn]. destruct (Nat.eq_dec k (S (c cn d))) as [-> | Hne].
        -- left. replace (S (c cn d) - c cn d - 1) with O in Hn by lia. cbn in Hn. injection Hn as ->. reflexivity.
        -- right. split; [lia|]. replace (k - c cn d - 1) with (S (k - S (c cn d) - 1)) in Hn by lia. exact Hn.
    + rewrite (msgs_cons_other _ _ _ _ _ _ NE), (cinc_other _ _ _ _ _ NE). split.
      * intros [H | H]; [|exact H]. injection H as -> _ -> _. contradiction.
      * intros H. right. exact H.
Qed.

Lemma assign_uniq h : forall c, uniq (assign_from c h).
Proof.
  unfold uniq. induction h as [|[[cn0 d0] p0] h IH]; intros c; cbn [assign_from map]; constructor; [|apply IH].
  intros Hin. apply in_map_iff in Hin as [[[[cn k] d] p] [Hkd Hin]]. unfold kd in Hkd. cbn [fst] in Hkd.
  injection Hkd as -> -> ->. apply assign_in in Hin as [Hlt _]. rewrite cinc_same in Hlt. lia.
Qed.

Lemma hrun_items h cn p q :
  In (cn, p, q) (snd (snd (hrun h))) <->
  exists k, nth_error (msgs cn true h) k = Some p /\ nth_error (msgs cn false h) k = Some q.
Proof.
  rewrite hrun_assign. pose proof (krun_inv (assign h) (assign_uniq h cempty)) as [_ I2].
  rewrite I2. unfold assign. split.
  - intros [id [H1 H2]]. apply assign_in in H1 as [L1 N1]. apply assign_in in H2 as [L2 N2].
    unfold cempty in *; cbv beta in *. exists (id - 0 - 1). split; assumption.
  - intros [k [N1 N2]]. exists (S k). split; apply assign_in; unfold cempty; cbv beta; (split; [lia|]);
      replace (S k - 0 - 1) with k by lia; assumption.
Qed.

Lemma hrun_residue h cn k d p :
  fst (snd (hrun h)) (cn, k) = Some (d, p) <->
  (0 < k /\ nth_error (msgs cn d h) (k - 1) = Some p /\ nth_error (msgs cn (negb d) h) (k - 1) = None).
Proof.
  rewrite hrun_assign. pose proof (krun_inv (assign h) (assign_uniq h cempty)) as [I1 _].
  rewrite I1. unfold assign. rewrite assign_in. unfold cempty; cbv beta. split.
  - intros [[L N] Hno]. split; [exact L|]. split; [replace (k - 1) with (k - 0 - 1) by lia; exact N|].
    destruct (nth_error (msgs cn (negb d) h) (k - 1)) as [q|] eqn:E; [|reflexivity].
    exfalso. apply (Hno q). apply assign_in. unfold cempty; cbv beta. split; [exact L|]. replace (k - 0 - 1) with (k - 1) by lia. exact E.
  - intros [L [N Hno]]. split; [split; [exact L | replace (k - 0 - 1) with (k - 1) by lia; exact N]|].
    intros q Hq. apply assign_in in Hq as [_ Hq]. unfold cempty in Hq; cbv beta in Hq. replace (k - 0 - 1) with (k - 1) in Hq by lia.
    rewrite Hno in Hq. discriminate.
Qed.

(* non-vacuity: a response that arrives before its request, two connections *)
Example hrun_example :
  snd (snd (hrun [(1, false, 10); (2, true, 20); (1, true, 11); (1, true, 12); (2, false, 21)]))
  = [(1, 11, 10); (2, 20, 21)].
Proof. reflexivity. Qed.
