(* C09, tie to the source: the idents under which the two directions of a connection register
   their messages.  gen/IdentSrc.v lists every `_`-joined Sprintf key of the four stream
   dissectors with its arguments (go/ast, regenerated on every run).  A server-side site names the
   connection by the mirror image of the client side (Dst.., Src..); after mirroring, (a) every key
   contains each of the four address components exactly once, (b) all sites of an extension agree
   on their order, (c) every client-side key with a correlation component has a server-side site
   that builds the very same key (counters by name of their role).  Dropping or swapping an address
   component on one side breaks ident_sites_ok. *)
From Coq Require Import List Bool String.
Require Import V.gen.IdentSrc.
Import ListNotations.
Local Open Scope string_scope.

Definition mirror (a : string) : string :=
  if String.eqb a "SrcIP" then "DstIP" else if String.eqb a "DstIP" then "SrcIP"
  else if String.eqb a "SrcPort" then "DstPort" else if String.eqb a "DstPort" then "SrcPort" else a.

Definition norm (a : string) : string :=
  if String.eqb a "requestCounter" || String.eqb a "responseCounter" then "counter" else a.

Definition server_side (args : list string) : bool :=
  match args with a :: _ => prefix "Dst" a | [] => false end.

Definition canon (args : list string) : list string :=
  map (fun a => norm (if server_side args then mirror a else a)) args.

Fixpoint strs_eqb (a b : list string) : bool :=
  match a, b with
  | [], [] => true
  | x :: a', y :: b' => String.eqb x y && strs_eqb a' b'
  | _, _ => false
  end.

Definition mem (x : string) (l : list string) : bool := existsb (String.eqb x) l.

Definition address_ok (args : list string) : bool :=
  let ad := firstn 4 (canon args) in
  Nat.eqb (List.length ad) 4 && mem "SrcIP" ad && mem "DstIP" ad && mem "SrcPort" ad && mem "DstPort" ad.

Definition site := (string * string * string * string * list string)%type.
Definition s_ext (s : site) : string := fst (fst (fst (fst s))).
Definition s_fmt (s : site) : string := snd (fst s).
Definition s_args (s : site) : list string := snd s.

Definition same_order (sites : list site) (s : site) : bool :=
  forallb (fun t => negb (String.eqb (s_ext s) (s_ext t)) || strs_eqb (firstn 4 (canon (s_args s))) (firstn 4 (canon (s_args t)))) sites.

(* a client-side key whose format has a %d component must be built identically by a server-side site *)
Fixpoint has_sub (fuel : nat) (sub s : string) : bool :=
  match fuel with
  | O => false
  | S f => prefix sub s || match s with EmptyString => false | String _ r => has_sub f sub r end
  end.

Definition answered (sites : list site) (s : site) : bool :=
  server_side (s_args s) || negb (has_sub (S (String.length (s_fmt s))) "%d" (s_fmt s))
  || existsb (fun t => String.eqb (s_ext s) (s_ext t) && server_side (s_args t) && String.eqb (s_fmt s) (s_fmt t)
                      && strs_eqb (canon (s_args s)) (canon (s_args t))) sites.

Definition ident_sites_ok (sites : list site) : bool :=
  forallb (fun s => address_ok (s_args s) && same_order sites s && answered sites s) sites
  && forallb (fun e => existsb (fun s => String.eqb (s_ext s) e) sites) ["http"; "redis"; "amqp"; "kafka"].

Lemma ident_src_ok : ident_sites_ok ident_sites = true.
Proof. vm_compute. reflexivity. Qed.
