(* C10: the two directions of every connection are handled by concurrently running threads
   that share the matcher, the counters and the emitter.

   Machine: one thread per (connection, direction), handling its messages in order.  Handling
   a message is the atom sequence
       MCnt   counterPair.Lock; counter++; read; Unlock          (handlers.go)
       MReg   registerLock.Lock; LoadAndDelete; Store | pair; Unlock   (matcher.go, after the repair)
       MEmit  emitter.Emit(item)                                 (only when a pair was completed)
   A schedule is the list of thread indices in the order in which they take their next atom.
   `lockgran`/`uselock` below is the finer machine in which LoadAndDelete and Store are separate
   atoms (executable: used for the correspondence with the real code and for the refutation of
   the unlocked code); the theorems are about the machine in which the critical section of
   registerLock is one atom (mutual exclusion: see the trusted base). *)
Require Import V.Base.Prelude V.Match.Matcher.

Inductive mpc := MCnt | MReg | MStore | MEmit (it : item).

Record mthr := {
  mcn : nat; mdir : bool;
  mdone : list nat;        (* pids whose register call has happened, in order *)
  mtodo : list nat;        (* pids not yet registered; head = the one being handled *)
  mpc_ : mpc;
  mkey : nat               (* counter value read at MCnt *)
}.

Record mst := {
  cnt : counters;
  mm : mmap;
  mlock : bool;                 (* registerLock held (only in the lock-granular machine) *)
  gitems : list item;           (* ghost: items in the order the pairs were completed *)
  hist : list kev;              (* ghost: register calls in the order they took effect *)
  emitted : list item;
  mthrs : list mthr
}.

Definition mupd (ts : list mthr) (i : nat) (t : mthr) : list mthr := firstn i ts ++ t :: skipn (S i) ts.

(* gran = false: registerLock's critical section is one atom.
   gran = true, uselock = true: LoadAndDelete and Store are separate atoms under the lock.
   gran = true, uselock = false: the code before the repair. *)
Definition mstep (gran uselock : bool) (s : mst) (i : nat) : mst :=
  match nth_error (mthrs s) i with
  | None => s
  | Some t =>
    match mpc_ t, mtodo t with
    | MCnt, p :: _ =>
        let c' := cinc (cnt s) (mcn t) (mdir t) in
        {| cnt := c'; mm := mm s; mlock := mlock s; gitems := gitems s; hist := hist s; emitted := emitted s;
           mthrs := mupd (mthrs s) i {| mcn := mcn t; mdir := mdir t; mdone := mdone t; mtodo := mtodo t;
                                        mpc_ := MReg; mkey := c' (mcn t) (mdir t) |} |}
    | MReg, p :: rest =>
        if gran && uselock && mlock s then s else
        let k := (mcn t, mkey t) in
        match mm s k with
        | Some (d, q) =>
            let it := if Bool.eqb d (mdir t) then None
                      else Some (if mdir t then (mcn t, p, q) else (mcn t, q, p)) in
            {| cnt := cnt s; mm := mset (mm s) k None; mlock := mlock s;
               gitems := match it with Some x => gitems s ++ [x] | None => gitems s end;
               hist := hist s ++ [(k, mdir t, p)]; emitted := emitted s;
               mthrs := mupd (mthrs s) i {| mcn := mcn t; mdir := mdir t; mdone := mdone t ++ [p]; mtodo := rest;
                                            mpc_ := match it with Some x => MEmit x | None => MCnt end; mkey := mkey t |} |}
        | None =>
            if gran then
              (* the ghost history records the register call at its linearization point *)
              {| cnt := cnt s; mm := mm s; mlock := uselock; gitems := gitems s; hist := hist s ++ [(k, mdir t, p)]; emitted := emitted s;
                 mthrs := mupd (mthrs s) i {| mcn := mcn t; mdir := mdir t; mdone := mdone t; mtodo := mtodo t;
                                              mpc_ := MStore; mkey := mkey t |} |}
            else
              {| cnt := cnt s; mm := mset (mm s) k (Some (mdir t, p)); mlock := mlock s; gitems := gitems s;
                 hist := hist s ++ [(k, mdir t, p)]; emitted := emitted s;
                 mthrs := mupd (mthrs s) i {| mcn := mcn t; mdir := mdir t; mdone := mdone t ++ [p]; mtodo := rest;
                                              mpc_ := MCnt; mkey := mkey t |} |}
        end
    | MStore, p :: rest =>
        let k := (mcn t, mkey t) in
        {| cnt := cnt s; mm := mset (mm s) k (Some (mdir t, p)); mlock := false; gitems := gitems s;
           hist := hist s; emitted := emitted s;
           mthrs := mupd (mthrs s) i {| mcn := mcn t; mdir := mdir t; mdone := mdone t ++ [p]; mtodo := rest;
                                        mpc_ := MCnt; mkey := mkey t |} |}
    | MEmit it, _ =>
        {| cnt := cnt s; mm := mm s; mlock := mlock s; gitems := gitems s; hist := hist s; emitted := emitted s ++ [it];
           mthrs := mupd (mthrs s) i {| mcn := mcn t; mdir := mdir t; mdone := mdone t; mtodo := mtodo t;
                                        mpc_ := MCnt; mkey := mkey t |} |}
    | _, [] => s
    end
  end.

Definition mexec (gran uselock : bool) (s : mst) (sched : list nat) : mst := fold_left (mstep gran uselock) sched s.

Definition cfg := list (nat * bool * list nat).      (* connection, direction, pids in order *)

Definition minit (c : cfg) : mst :=
  {| cnt := cempty; mm := mempty; mlock := false; gitems := []; hist := []; emitted := [];
     mthrs := map (fun x => {| mcn := fst (fst x); mdir := snd (fst x); mdone := []; mtodo := snd x;
                               mpc_ := MCnt; mkey := O |}) c |}.

Definition mfinished (s : mst) : bool :=
  forallb (fun t => match mtodo t, mpc_ t with [], MCnt => true | _, _ => false end) (mthrs s).

(* ---- exhaustive exploration (finite; for the correspondence and the refutation) *)
Definition menabled (gran uselock : bool) (s : mst) (i : nat) : bool :=
  match nth_error (mthrs s) i with
  | None => false
  | Some t => match mpc_ t, mtodo t with
              | MEmit _, _ => true
              | _, [] => false
              | MReg, _ => negb (gran && uselock && mlock s)
              | _, _ => true
              end
  end.

Fixpoint mall_scheds (gran uselock : bool) (fuel : nat) (s : mst) : list (list nat) :=
  match fuel with
  | O => [[]]
  | S f =>
      match filter (menabled gran uselock s) (seq 0 (length (mthrs s))) with
      | [] => [[]]
      | en => flat_map (fun i => map (cons i) (mall_scheds gran uselock f (mstep gran uselock s i))) en
      end
  end.

Definition item_eqb (a b : item) : bool :=
  Nat.eqb (fst (fst a)) (fst (fst b)) && Nat.eqb (snd (fst a)) (snd (fst b)) && Nat.eqb (snd a) (snd b).

Definition same_items (a b : list item) : bool :=
  Nat.eqb (length a) (length b) && forallb (fun x => existsb (item_eqb x) b) a && forallb (fun x => existsb (item_eqb x) a) b.

Definition nmsgs (c : cfg) : nat := fold_right (fun x n => length (snd x) + n) O c.

(* schedules (complete runs) whose emitted items differ from those of the sequential run *)
Definition mcounterexamples (gran uselock : bool) (c : cfg) : list (list nat) :=
  let seqrun := mexec false true (minit c) (flat_map (fun i => repeat i (4 * nmsgs c)) (seq 0 (length c))) in
  filter (fun sc => let s := mexec gran uselock (minit c) sc in
                    negb (same_items (emitted s) (emitted seqrun)))
         (mall_scheds gran uselock (4 * nmsgs c) (minit c)).

(* ---- following a trace of the real code (correspondence): a trace step names a thread, the
   class of the program point at which the thread stopped next, and whether anything happened *)
Definition pcclass (t : mthr) : nat :=
  match mpc_ t, mtodo t with
  | MCnt, [] => 4 | MCnt, _ => 0 | MReg, _ => 1 | MStore, _ => 2 | MEmit _, _ => 3
  end.
Definition class_of (s : mst) (i : nat) : nat :=
  match nth_error (mthrs s) i with Some t => pcclass t | None => 9 end.
Fixpoint madvance (gran uselock : bool) (fuel : nat) (s : mst) (i tgt : nat) : mst :=
  match fuel with
  | O => s
  | S f => let s' := mstep gran uselock s i in
           if Nat.eqb (class_of s' i) tgt then s' else madvance gran uselock f s' i tgt
  end.
Definition msync (gran uselock : bool) (s : mst) (tr : list (nat * nat * bool)) : mst :=
  fold_left (fun (s : mst) (x : nat * nat * bool) => let '(i, tgt, mv) := x in if mv then madvance gran uselock 4 s i tgt else s) tr s.

Definition residue_list (m : mmap) (cns : list nat) (n : nat) : list (nat * nat * bool * nat) := residue m cns n.

Definition quad_eqb (a b : nat * nat * bool * nat) : bool :=
  let '(a1, a2, a3, a4) := a in let '(b1, b2, b3, b4) := b in
  Nat.eqb a1 b1 && Nat.eqb a2 b2 && Bool.eqb a3 b3 && Nat.eqb a4 b4.
