(* The lock-granular machine (LoadAndDelete and Store are separate atoms; registerLock is taken
   at LoadAndDelete and released after the Store or when the pair is returned) satisfies the
   same theorem as the machine with atomic register: for every schedule, a complete run emits
   exactly the k-th/k-th pairs.  This removes "the critical section is one atom" from the
   assumptions: it is proved from the lock discipline. *)
Require Import V.Base.Prelude V.Match.Matcher V.Match.MatcherSeq V.Match.MatcherConc V.Match.MatcherConcProofs.
From Coq Require Import Permutation.

Definition is_store (t : mthr) : nat := match mpc_ t with MStore => 1 | _ => 0 end.
Definition nstore (ts : list mthr) : nat := fold_right (fun t n => is_store t + n) 0 ts.
Definition pend_kev (t : mthr) : list kev :=
  match mpc_ t, mtodo t with MStore, p :: _ => [((mcn t, mkey t), mdir t, p)] | _, _ => [] end.
Definition regsG (t : mthr) : list kev := regs_of t ++ pend_kev t.

Definition okg (c : counters) (m : mmap) (t : mthr) : Prop :=
  c (mcn t) (mdir t) = started t
  /\ match mpc_ t with
     | MReg => mkey t = started t
     | MStore => mkey t = started t /\ mtodo t <> [] /\ m (mcn t, mkey t) = None
     | _ => True
     end.

Definition meq (a b : mmap) : Prop := forall k, a k = b k.

Record GInv (c : cfg) (s : mst) : Prop := {
  g_m : if mlock s then
          exists t p rest, In t (mthrs s) /\ mpc_ t = MStore /\ mtodo t = p :: rest
                           /\ meq (fst (krun (hist s))) (mset (mm s) (mcn t, mkey t) (Some (mdir t, p)))
        else meq (fst (krun (hist s))) (mm s);
  g_g : snd (krun (hist s)) = gitems s;
  g_e : Permutation (emitted s ++ flat_map pendi (mthrs s)) (gitems s);
  g_h : Permutation (hist s) (flat_map regsG (mthrs s));
  g_t : Forall (okg (cnt s) (mm s)) (mthrs s);
  g_d : NoDup (map cd (mthrs s));
  g_o : map orig (mthrs s) = c;
  g_l : nstore (mthrs s) = if mlock s then 1 else 0
}.

Lemma nstore_app a b : nstore (a ++ b) = nstore a + nstore b.
Proof. induction a as [|t a IH]; [reflexivity|]. cbn [app nstore fold_right]. fold (nstore (a ++ b)). fold (nstore a). rewrite IH. lia. Qed.

Lemma nstore_zero ts : nstore ts = 0 -> forall t, In t ts -> mpc_ t <> MStore.
Proof.
  induction ts as [|x ts IH]; intros H t Hin; [contradiction|].
  cbn [nstore fold_right] in H. fold (nstore ts) in H. destruct Hin as [-> | Hin].
  - intros E. unfold is_store in H. rewrite E in H. lia.
  - apply IH; [lia | exact Hin].
Qed.

Lemma okg_other c m cn d ts : ~ In (cn, d) (map cd ts) -> Forall (okg c m) ts -> Forall (okg (cinc c cn d) m) ts.
Proof.
  intros Hn H. rewrite Forall_forall in *. intros t Ht. destruct (H t Ht) as [H1 H2]. split; [|exact H2].
  rewrite cinc_other; [exact H1|]. intros E. apply Hn. apply in_map_iff. exists t. split; [|exact Ht].
  unfold cd. symmetry. exact E.
Qed.

Lemma okg_newmap c m m' ts : (forall t, In t ts -> mpc_ t <> MStore) -> Forall (okg c m) ts -> Forall (okg c m') ts.
Proof.
  intros Hns H. rewrite Forall_forall in *. intros t Ht. destruct (H t Ht) as [H1 H2]. split; [exact H1|].
  specialize (Hns t Ht). destruct (mpc_ t); try exact H2. contradiction.
Qed.

Lemma meq_mset a b k v : meq a b -> meq (mset a k v) (mset b k v).
Proof. intros H k'. unfold mset. destruct (ident_eqb k k'); [reflexivity | apply H]. Qed.

Lemma regsG_nostore t : mpc_ t <> MStore -> regsG t = regs_of t.
Proof. intros H. unfold regsG, pend_kev. destruct (mpc_ t); try (rewrite app_nil_r; reflexivity). contradiction. Qed.

Lemma flat_regsG_nostore ts : (forall t, In t ts -> mpc_ t <> MStore) -> flat_map regsG ts = flat_map regs_of ts.
Proof.
  induction ts as [|t ts IH]; intros H; [reflexivity|]. cbn [flat_map].
  rewrite regsG_nostore by (apply H; left; reflexivity). rewrite IH; [reflexivity|]. intros x Hx. apply H. right. exact Hx.
Qed.

Lemma in_mid {A} (a b : list A) x y : In y (a ++ x :: b) -> y <> x -> In y (a ++ b).
Proof. intros H Hne. apply in_app_or in H as [H | [H | H]]; [apply in_or_app; left; exact H | congruence | apply in_or_app; right; exact H]. Qed.

Lemma gstep_inv c s i : GInv c s -> GInv c (mstep true true s i).
Proof.
  intros HI. pose proof HI as [Hm Hg He Hh Ht Hd Ho Hl]. unfold mstep.
  destruct (nth_error (mthrs s) i) as [t|] eqn:Hnth; [|exact HI].
  pose proof (nth_error_split _ _ _ Hnth) as Hsplit.
  set (A := firstn i (mthrs s)) in *. set (B := skipn (S i) (mthrs s)) in *.
  rewrite Hsplit in He, Hh, Ht, Hd, Ho, Hl.
  rewrite flat_map_app in He, Hh. cbn [flat_map] in He, Hh.
  apply Forall_app in Ht as [HtA HtB']. inversion HtB' as [|t0 B0 [Hc Hkey] HtB]; subst t0 B0.
  rewrite map_app in Hd, Ho. cbn [map] in Hd, Ho.
  destruct (NoDup_mid _ _ _ Hd) as [HnA [HnB _]].
  rewrite nstore_app in Hl. cbn [nstore fold_right] in Hl. fold (nstore B) in Hl.
  destruct (mpc_ t) eqn:Hpc.
  - (* MCnt *)
    destruct (mtodo t) as [|p rest] eqn:Htodo; [exact HI|].
    assert (Hnew : forall t', In t' (mthrs s) -> mpc_ t' = MStore ->
              In t' (A ++ {| mcn := mcn t; mdir := mdir t; mdone := mdone t; mtodo := p :: rest; mpc_ := MReg;
                             mkey := cinc (cnt s) (mcn t) (mdir t) (mcn t) (mdir t) |} :: B)).
    { intros t' Hin Hst. rewrite Hsplit in Hin. apply in_app_or in Hin as [Hin | [Hin | Hin]].
      - apply in_or_app. left. exact Hin.
      - subst t'. rewrite Hpc in Hst. discriminate.
      - apply in_or_app. right. right. exact Hin. }
    constructor; cbn [cnt mm mlock gitems hist emitted mthrs]; unfold mupd; fold A B;
      rewrite ?flat_map_app, ?map_app, ?nstore_app; cbn [flat_map map nstore fold_right]; fold (nstore B).
    + destruct (mlock s); [|exact Hm]. destruct Hm as [t' [p' [rest' [Hin [Hst [Htd Hmeq]]]]]].
      exists t', p', rest'. repeat split; try assumption. apply Hnew; assumption.
    + exact Hg.
    + unfold pendi at 2. cbn [mpc_]. unfold pendi in He at 2. rewrite Hpc in He. exact He.
    + unfold regsG at 2. unfold pend_kev. cbn [mpc_]. rewrite (regs_same t) by reflexivity.
      unfold regsG in Hh at 2. unfold pend_kev in Hh. rewrite Hpc in Hh. exact Hh.
    + apply Forall_app. split; [apply okg_other; assumption|]. constructor; [|apply okg_other; assumption].
      unfold okg, started in *. cbn [mcn mdir mdone mpc_ mkey]. rewrite cinc_same, Hc, Hpc. split; lia.
    + exact Hd.
    + unfold orig at 2. cbn [mcn mdir mdone mtodo]. unfold orig in Ho at 2. rewrite Htodo in Ho. exact Ho.
    + unfold is_store at 1. cbn [mpc_]. unfold is_store in Hl at 1. rewrite Hpc in Hl. exact Hl.
  - (* MReg *)
    destruct (mtodo t) as [|p rest] eqn:Htodo; [exact HI|]. cbn [andb].
    destruct (mlock s) eqn:Hlock; [exact HI|].
    (* lock free: nobody is between LoadAndDelete and Store *)
    unfold is_store in Hl at 1. rewrite Hpc in Hl.
    assert (HnsA : forall x, In x A -> mpc_ x <> MStore) by (apply nstore_zero; lia).
    assert (HnsB : forall x, In x B -> mpc_ x <> MStore) by (apply nstore_zero; lia).
    assert (Hkeyv : mkey t = S (length (mdone t))) by (unfold started in Hkey; rewrite Hpc in Hkey; lia).
    assert (Hkr : krun (hist s ++ [((mcn t, mkey t), mdir t, p)]) = kstep (krun (hist s)) ((mcn t, mkey t), mdir t, p))
      by apply krun_snoc.
    unfold kstep, register in Hkr. rewrite Hg in Hkr. rewrite (Hm (mcn t, mkey t)) in Hkr.
    rewrite (flat_regsG_nostore A HnsA), (flat_regsG_nostore B HnsB) in Hh.
    unfold regsG in Hh at 1. unfold pend_kev in Hh. rewrite Hpc, app_nil_r in Hh.
    destruct (mm s (mcn t, mkey t)) as [[d q]|] eqn:Hmk.
    + (* hit *)
      destruct (Bool.eqb d (mdir t)) eqn:Hdir.
      * constructor; cbn [cnt mm mlock gitems hist emitted mthrs]; unfold mupd; fold A B;
          rewrite ?flat_map_app, ?map_app, ?nstore_app; cbn [flat_map map nstore fold_right]; fold (nstore B); rewrite ?Hlock.
        -- rewrite Hkr. cbn [fst]. apply meq_mset. exact Hm.
        -- rewrite Hkr. reflexivity.
        -- unfold pendi at 2. cbn [mpc_]. unfold pendi in He at 2. rewrite Hpc in He. exact He.
        -- rewrite (flat_regsG_nostore A HnsA), (flat_regsG_nostore B HnsB). unfold regsG at 1. unfold pend_kev. cbn [mpc_]. rewrite app_nil_r.
           rewrite (regs_snoc t p) by reflexivity. rewrite <- Hkeyv. apply perm_snoc_mid. exact Hh.
        -- apply Forall_app. split; [apply (okg_newmap _ (mm s)); assumption|]. constructor; [|apply (okg_newmap _ (mm s)); assumption].
           unfold okg, started in *. cbn [mcn mdir mdone mpc_ mkey]. rewrite Hc, Hpc, app_length. cbn [length]. split; [lia | exact I].
        -- exact Hd.
        -- unfold orig at 2. cbn [mcn mdir mdone mtodo]. unfold orig in Ho at 2. rewrite Htodo in Ho. rewrite <- app_assoc. exact Ho.
        -- unfold is_store at 1. cbn [mpc_]. lia.
      * constructor; cbn [cnt mm mlock gitems hist emitted mthrs]; unfold mupd; fold A B;
          rewrite ?flat_map_app, ?map_app, ?nstore_app; cbn [flat_map map nstore fold_right]; fold (nstore B); rewrite ?Hlock.
        -- rewrite Hkr. cbn [fst]. apply meq_mset. exact Hm.
        -- rewrite Hkr. reflexivity.
        -- unfold pendi at 2. cbn [mpc_]. unfold pendi in He at 2. rewrite Hpc in He. apply perm_emit_add. exact He.
        -- rewrite (flat_regsG_nostore A HnsA), (flat_regsG_nostore B HnsB). unfold regsG at 1. unfold pend_kev. cbn [mpc_]. rewrite app_nil_r.
           rewrite (regs_snoc t p) by reflexivity. rewrite <- Hkeyv. apply perm_snoc_mid. exact Hh.
        -- apply Forall_app. split; [apply (okg_newmap _ (mm s)); assumption|]. constructor; [|apply (okg_newmap _ (mm s)); assumption].
           unfold okg, started in *. cbn [mcn mdir mdone mpc_ mkey]. rewrite Hc, Hpc, app_length. cbn [length]. split; [lia | exact I].
        -- exact Hd.
        -- unfold orig at 2. cbn [mcn mdir mdone mtodo]. unfold orig in Ho at 2. rewrite Htodo in Ho. rewrite <- app_assoc. exact Ho.
        -- unfold is_store at 1. cbn [mpc_]. lia.
    + (* miss: the lock is kept, the store is pending *)
      constructor; cbn [cnt mm mlock gitems hist emitted mthrs]; unfold mupd; fold A B;
        rewrite ?flat_map_app, ?map_app, ?nstore_app; cbn [flat_map map nstore fold_right]; fold (nstore B).
      * eexists _, p, rest. split; [apply in_or_app; right; left; reflexivity|]. cbn [mpc_ mtodo mcn mkey mdir].
        split; [reflexivity|]. split; [reflexivity|]. rewrite Hkr. cbn [fst]. apply meq_mset. exact Hm.
      * rewrite Hkr. reflexivity.
      * unfold pendi at 2. cbn [mpc_]. unfold pendi in He at 2. rewrite Hpc in He. exact He.
      * rewrite (flat_regsG_nostore A HnsA), (flat_regsG_nostore B HnsB). unfold regsG at 1. unfold pend_kev. cbn [mpc_ mtodo mcn mkey mdir].
        rewrite (regs_same t) by reflexivity. apply perm_snoc_mid. exact Hh.
      * apply Forall_app. split; [exact HtA|]. constructor; [|exact HtB].
        unfold okg, started in *. cbn [mcn mdir mdone mpc_ mkey mtodo]. rewrite Hc, Hpc. split; [reflexivity|].
        split; [lia|]. split; [discriminate | exact Hmk].
      * exact Hd.
      * unfold orig at 2. cbn [mcn mdir mdone mtodo]. unfold orig in Ho at 2. rewrite Htodo in Ho. exact Ho.
      * unfold is_store at 1. cbn [mpc_]. lia.
  - (* MStore: this thread holds the lock *)
    destruct Hkey as [Hkeyv [Hne Hnone]].
    destruct (mtodo t) as [|p rest] eqn:Htodo; [contradiction|].
    unfold is_store in Hl at 1. rewrite Hpc in Hl.
    assert (Hlock : mlock s = true) by (destruct (mlock s); [reflexivity | lia]).
    rewrite Hlock in Hl, Hm.
    assert (HnsA : forall x, In x A -> mpc_ x <> MStore) by (apply nstore_zero; lia).
    assert (HnsB : forall x, In x B -> mpc_ x <> MStore) by (apply nstore_zero; lia).
    destruct Hm as [t' [p' [rest' [Hin [Hst [Htd Hmeq]]]]]].
    assert (Ht' : t' = t).
    { rewrite Hsplit in Hin. apply in_app_or in Hin as [Hin | [Hin | Hin]];
        [exfalso; exact (HnsA _ Hin Hst) | symmetry; exact Hin | exfalso; exact (HnsB _ Hin Hst)]. }
    subst t'. rewrite Htodo in Htd. injection Htd as <- <-.
    assert (Hkeyv' : mkey t = S (length (mdone t))) by (unfold started in Hkeyv; rewrite Hpc in Hkeyv; lia).
    rewrite (flat_regsG_nostore A HnsA), (flat_regsG_nostore B HnsB) in Hh.
    unfold regsG in Hh at 1. unfold pend_kev in Hh. rewrite Hpc, Htodo in Hh.
    constructor; cbn [cnt mm mlock gitems hist emitted mthrs]; unfold mupd; fold A B;
      rewrite ?flat_map_app, ?map_app, ?nstore_app; cbn [flat_map map nstore fold_right]; fold (nstore B).
    + exact Hmeq.
    + exact Hg.
    + unfold pendi at 2. cbn [mpc_]. unfold pendi in He at 2. rewrite Hpc in He. exact He.
    + rewrite (flat_regsG_nostore A HnsA), (flat_regsG_nostore B HnsB). unfold regsG at 1. unfold pend_kev. cbn [mpc_]. rewrite app_nil_r.
      rewrite (regs_snoc t p) by reflexivity. rewrite <- Hkeyv'. exact Hh.
    + apply Forall_app. split; [apply (okg_newmap _ (mm s)); assumption|]. constructor; [|apply (okg_newmap _ (mm s)); assumption].
      unfold okg, started in *. cbn [mcn mdir mdone mpc_ mkey]. rewrite Hc, Hpc, app_length. cbn [length]. split; [lia | exact I].
    + exact Hd.
    + unfold orig at 2. cbn [mcn mdir mdone mtodo]. unfold orig in Ho at 2. rewrite Htodo in Ho. rewrite <- app_assoc. exact Ho.
    + unfold is_store at 1. cbn [mpc_]. lia.
  - (* MEmit *)
    assert (Hnew : forall t', In t' (mthrs s) -> mpc_ t' = MStore ->
              In t' (A ++ {| mcn := mcn t; mdir := mdir t; mdone := mdone t; mtodo := mtodo t; mpc_ := MCnt; mkey := mkey t |} :: B)).
    { intros t' Hin Hst. rewrite Hsplit in Hin. apply in_app_or in Hin as [Hin | [Hin | Hin]].
      - apply in_or_app. left. exact Hin.
      - subst t'. rewrite Hpc in Hst. discriminate.
      - apply in_or_app. right. right. exact Hin. }
    constructor; cbn [cnt mm mlock gitems hist emitted mthrs]; unfold mupd; fold A B;
      rewrite ?flat_map_app, ?map_app, ?nstore_app; cbn [flat_map map nstore fold_right]; fold (nstore B).
    + destruct (mlock s); [|exact Hm]. destruct Hm as [t' [p' [rest' [Hin [Hst [Htd Hmeq]]]]]].
      exists t', p', rest'. repeat split; try assumption. apply Hnew; assumption.
    + exact Hg.
    + unfold pendi at 2. cbn [mpc_]. unfold pendi in He at 2. rewrite Hpc in He. apply perm_emit_move. exact He.
    + unfold regsG at 2. unfold pend_kev. cbn [mpc_]. rewrite (regs_same t) by reflexivity.
      unfold regsG in Hh at 2. unfold pend_kev in Hh. rewrite Hpc in Hh. exact Hh.
    + apply Forall_app. split; [exact HtA|]. constructor; [|exact HtB].
      unfold okg, started in *. cbn [mcn mdir mdone mpc_ mkey]. rewrite Hc, Hpc. split; [lia | exact I].
    + exact Hd.
    + unfold orig at 2. cbn [mcn mdir mdone mtodo]. unfold orig in Ho at 2. exact Ho.
    + unfold is_store at 1. cbn [mpc_]. unfold is_store in Hl at 1. rewrite Hpc in Hl. exact Hl.
Qed.

Lemma gexec_inv c sched : forall s, GInv c s -> GInv c (mexec true true s sched).
Proof.
  induction sched as [|i sched IH]; intros s H; cbn [mexec fold_left]; [exact H|].
  apply IH. apply gstep_inv. exact H.
Qed.

Lemma nstore_init c : nstore (mthrs (minit c)) = 0.
Proof. unfold minit. cbn [mthrs]. induction c as [|x c IH]; [reflexivity|]. cbn. exact IH. Qed.

Lemma ginit_inv c : NoDup (map fst c) -> GInv c (minit c).
Proof.
  intros Hnd. destruct (minit_inv c Hnd) as [Hk He Hh Ht Hd Ho].
  assert (Hns : forall t, In t (mthrs (minit c)) -> mpc_ t <> MStore).
  { intros t Hin. unfold minit in Hin. cbn [mthrs] in Hin. apply in_map_iff in Hin as [x [<- _]]. cbn. discriminate. }
  constructor.
  - cbn [minit mlock hist mm]. intros k. reflexivity.
  - reflexivity.
  - exact He.
  - rewrite (flat_regsG_nostore _ Hns). exact Hh.
  - rewrite Forall_forall in *. intros t Hin. destruct (Ht t Hin) as [H1 H2]. split; [exact H1|].
    specialize (Hns t Hin). destruct (mpc_ t); try exact H2. contradiction.
  - exact Hd.
  - exact Ho.
  - cbn [minit mlock]. apply nstore_init.
Qed.

(* C10 for the lock-granular machine: every schedule, complete run *)
Lemma gran_items c sched :
  NoDup (map fst c) ->
  let s := mexec true true (minit c) sched in
  mfinished s = true ->
  (forall cn p q, In (cn, p, q) (emitted s) <->
     exists k reqs resps, In (cn, true, reqs) c /\ In (cn, false, resps) c
                          /\ nth_error reqs k = Some p /\ nth_error resps k = Some q)
  /\ (forall cn id d p, mm s (cn, id) = Some (d, p) <->
        exists l, In (cn, d, l) c /\ 0 < id /\ nth_error l (id - 1) = Some p
                  /\ forall l' q, In (cn, negb d, l') c -> nth_error l' (id - 1) <> Some q)
  /\ Permutation (emitted s) (gitems s).
Proof.
  intros Hnd s Hfin.
  pose proof (gexec_inv c sched _ (ginit_inv c Hnd)) as [Hm Hg He Hh Ht Hd Ho Hl]. fold s in Hm, Hg, He, Hh, Ht, Hd, Ho, Hl.
  assert (Hns : forall t, In t (mthrs s) -> mpc_ t <> MStore).
  { intros t Hin. destruct (finished_threads s t Hfin Hin) as [_ Hpc]. rewrite Hpc. discriminate. }
  assert (Hlock : mlock s = false).
  { destruct (mlock s); [|reflexivity]. destruct Hm as [t [p [rest [Hin [Hst _]]]]]. exfalso. exact (Hns t Hin Hst). }
  rewrite Hlock in Hm.
  assert (Hpend : flat_map pendi (mthrs s) = []).
  { apply flat_map_nil. intros t Hin. destruct (finished_threads s t Hfin Hin) as [_ Hpc]. unfold pendi. rewrite Hpc. reflexivity. }
  rewrite Hpend, app_nil_r in He. rewrite (flat_regsG_nostore _ Hns) in Hh.
  apply items_from_hist; assumption.
Qed.
