(* lock and map operations of a register function, in source order (deferred calls last) *)
Inductive ratom := RLock | RLad | RStore | RUnlock | ROther.
