(* Model of the request/response matchers (pkg/extensions/{http,redis,amqp}/matcher.go and the
   handlers that build the idents).

   A message is identified by a payload id (pid : nat).  The matcher's sync.Map is a function
   from idents to stored half pairs.  An ident is a pair (connection, id): the handlers build it
   with Sprintf from the connection 4-tuple (client-to-server orientation in both directions)
   and a per-direction counter (HTTP/1, Redis), the HTTP/2 stream id, or the AMQP
   channel/class/method family.  Distinct 4-tuples give distinct connection numbers (the
   `_`-joined format is injective for `_`-free components; exercised by the correspondence
   runs with several connections). *)
Require Import V.Base.Prelude.

Definition ident := (nat * nat)%type.            (* connection, id *)
Definition ident_eqb (a b : ident) : bool := Nat.eqb (fst a) (fst b) && Nat.eqb (snd a) (snd b).

Definition half := (bool * nat)%type.            (* isRequest, pid *)
Definition mmap := ident -> option half.
Definition mempty : mmap := fun _ => None.
Definition mset (m : mmap) (k : ident) (v : option half) : mmap :=
  fun k' => if ident_eqb k k' then v else m k'.

Definition item := (nat * nat * nat)%type.        (* connection, request pid, response pid *)

(* registerRequest / registerResponse: LoadAndDelete; on a hit of the opposite direction the
   pair is prepared, on a hit of the same direction both halves are dropped (return nil after
   the delete); on a miss the half is stored. *)
Definition register (m : mmap) (k : ident) (isreq : bool) (p : nat) : mmap * option item :=
  match m k with
  | Some (d, q) =>
      (mset m k None,
       if Bool.eqb d isreq then None
       else Some (if isreq then (fst k, p, q) else (fst k, q, p)))
  | None => (mset m k (Some (isreq, p)), None)
  end.

(* ---- keyed histories: the order in which register calls happen *)
Definition kev := (ident * bool * nat)%type.     (* ident, isRequest, pid *)

Definition kstep (st : mmap * list item) (e : kev) : mmap * list item :=
  let '(k, d, p) := e in
  let '(m', it) := register (fst st) k d p in
  (m', match it with Some i => snd st ++ [i] | None => snd st end).

Definition krun (h : list kev) : mmap * list item := fold_left kstep h (mempty, []).

(* ---- handler level (HTTP/1, Redis): the ident is the connection and a per-direction counter *)
Definition hev := (nat * bool * nat)%type.       (* connection, isRequest, pid *)
Definition counters := nat -> bool -> nat.
Definition cempty : counters := fun _ _ => O.
Definition cinc (c : counters) (cn : nat) (d : bool) : counters :=
  fun cn' d' => if Nat.eqb cn cn' && Bool.eqb d d' then S (c cn' d') else c cn' d'.

Definition hstep (st : counters * (mmap * list item)) (e : hev) : counters * (mmap * list item) :=
  let '(cn, d, p) := e in
  let c' := cinc (fst st) cn d in
  (c', kstep (snd st) ((cn, c' cn d), d, p)).

Definition hrun (h : list hev) : counters * (mmap * list item) := fold_left hstep h (cempty, (mempty, [])).

(* the keyed history a handler-level history induces *)
Fixpoint assign_from (c : counters) (h : list hev) : list kev :=
  match h with
  | [] => []
  | (cn, d, p) :: h' => let c' := cinc c cn d in ((cn, c' cn d), d, p) :: assign_from c' h'
  end.
Definition assign := assign_from cempty.

(* messages of one direction of one connection, in arrival order *)
Definition msgs (cn : nat) (d : bool) (h : list hev) : list nat :=
  map snd (filter (fun e => Nat.eqb (fst (fst e)) cn && Bool.eqb (snd (fst e)) d) h).

(* residue listing for the correspondence: stored halves for idents (cn, 1..n) *)
Definition residue (m : mmap) (cns : list nat) (n : nat) : list (nat * nat * bool * nat) :=
  flat_map (fun cn => flat_map (fun k => match m (cn, k) with
                                        | Some (d, p) => [(cn, k, d, p)]
                                        | None => [] end) (seq 0 (S n))) cns.
