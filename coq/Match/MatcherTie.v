(* Tie of the concurrent machine's atomicity assumption to the source: in every register
   function of the http, redis and amqp matchers the LoadAndDelete and the Store happen between
   registerLock.Lock() and the (deferred) Unlock, in this order, with no other map access. *)
Require Import V.Base.Prelude V.Match.MatcherSrcTy V.gen.MatcherSrc.

Definition ratom_eqb (a b : ratom) : bool :=
  match a, b with
  | RLock, RLock | RLad, RLad | RStore, RStore | RUnlock, RUnlock | ROther, ROther => true
  | _, _ => false
  end.

Definition critical_section : list ratom := [RLock; RLad; RStore; RUnlock].

Lemma matcher_src_locked :
  length matcher_src = 6%nat /\ forallb (list_eqb ratom_eqb critical_section) matcher_src = true.
Proof. vm_compute. split; reflexivity. Qed.
