Require Import V.Base.Prelude V.Match.Matcher V.Match.MatcherSeq V.Match.MatcherConc.
From Coq Require Import Permutation.

Definition cd (t : mthr) : nat * bool := (mcn t, mdir t).
Definition regs_of (t : mthr) : list kev :=
  map (fun jp => ((mcn t, fst jp), mdir t, snd jp)) (combine (seq 1 (length (mdone t))) (mdone t)).
Definition started (t : mthr) : nat :=
  length (mdone t) + match mpc_ t with MReg | MStore => 1 | _ => 0 end.
Definition pendi (t : mthr) : list item := match mpc_ t with MEmit it => [it] | _ => [] end.
Definition okm (c : counters) (t : mthr) : Prop :=
  c (mcn t) (mdir t) = started t
  /\ match mpc_ t with MReg => mkey t = started t | MStore => False | _ => True end.
Definition orig (t : mthr) : nat * bool * list nat := (mcn t, mdir t, mdone t ++ mtodo t).

Record MInv (c : cfg) (s : mst) : Prop := {
  m_k : (mm s, gitems s) = krun (hist s);
  m_e : Permutation (emitted s ++ flat_map pendi (mthrs s)) (gitems s);
  m_h : Permutation (hist s) (flat_map regs_of (mthrs s));
  m_t : Forall (okm (cnt s)) (mthrs s);
  m_d : NoDup (map cd (mthrs s));
  m_o : map orig (mthrs s) = c
}.

Lemma nth_error_split {A} (l : list A) i x : nth_error l i = Some x ->
  l = firstn i l ++ x :: skipn (S i) l.
Proof.
  revert l; induction i as [|i IH]; intros [|y l] H; cbn in *; try discriminate.
  - injection H as ->. reflexivity.
  - f_equal. apply IH. exact H.
Qed.

Lemma combine_snoc {A B} (l1 : list A) (l2 : list B) a b : length l1 = length l2 ->
  combine (l1 ++ [a]) (l2 ++ [b]) = combine l1 l2 ++ [(a, b)].
Proof.
  revert l2; induction l1 as [|x l1 IH]; intros [|y l2] H; cbn in *; try discriminate; [reflexivity|].
  f_equal. apply IH. lia.
Qed.

Lemma regs_snoc t p t' : mcn t' = mcn t -> mdir t' = mdir t -> mdone t' = mdone t ++ [p] ->
  regs_of t' = regs_of t ++ [((mcn t, S (length (mdone t))), mdir t, p)].
Proof.
  intros H1 H2 H3. unfold regs_of. rewrite H1, H2, H3, app_length. cbn [length].
  rewrite Nat.add_1_r, seq_S, combine_snoc by (rewrite seq_length; reflexivity).
  rewrite map_app. reflexivity.
Qed.

Lemma regs_same t t' : mcn t' = mcn t -> mdir t' = mdir t -> mdone t' = mdone t -> regs_of t' = regs_of t.
Proof. intros H1 H2 H3. unfold regs_of. rewrite H1, H2, H3. reflexivity. Qed.

Lemma okm_other c cn d ts : ~ In (cn, d) (map cd ts) -> Forall (okm c) ts -> Forall (okm (cinc c cn d)) ts.
Proof.
  intros Hn H. rewrite Forall_forall in *. intros t Ht. destruct (H t Ht) as [H1 H2]. split; [|exact H2].
  rewrite cinc_other; [exact H1|]. intros E. apply Hn. apply in_map_iff. exists t. split; [|exact Ht].
  unfold cd. symmetry. exact E.
Qed.

Lemma NoDup_mid {A} (a b : list A) x : NoDup (a ++ x :: b) -> ~ In x a /\ ~ In x b /\ NoDup (a ++ b).
Proof.
  intros H. pose proof (NoDup_remove_1 _ _ _ H) as H1. pose proof (NoDup_remove_2 _ _ _ H) as H2.
  repeat split; [| | exact H1]; intros Hin; apply H2; apply in_or_app; [left | right]; exact Hin.
Qed.

Lemma perm_snoc_mid {A} (h a b c : list A) e : Permutation h (a ++ b ++ c) ->
  Permutation (h ++ [e]) (a ++ (b ++ [e]) ++ c).
Proof.
  intros H. apply Permutation_trans with (l' := e :: h); [apply Permutation_sym, Permutation_cons_append|].
  apply Permutation_trans with (l' := e :: (a ++ b ++ c)); [constructor; exact H|].
  replace (a ++ (b ++ [e]) ++ c) with ((a ++ b) ++ e :: c) by (rewrite <- !app_assoc; reflexivity).
  apply Permutation_cons_app. rewrite <- app_assoc. apply Permutation_refl.
Qed.

Lemma perm_emit_add {A} (em a c g : list A) x : Permutation (em ++ a ++ [] ++ c) g ->
  Permutation (em ++ a ++ [x] ++ c) (g ++ [x]).
Proof.
  intros H. cbn [app] in *.
  apply Permutation_trans with (l' := x :: g); [|apply Permutation_cons_append].
  apply Permutation_sym. replace (em ++ a ++ x :: c) with ((em ++ a) ++ x :: c) by (rewrite <- app_assoc; reflexivity).
  apply Permutation_cons_app. rewrite <- app_assoc. apply Permutation_sym. exact H.
Qed.

Lemma perm_emit_move {A} (em a c g : list A) x : Permutation (em ++ a ++ [x] ++ c) g ->
  Permutation ((em ++ [x]) ++ a ++ [] ++ c) g.
Proof.
  intros H. cbn [app] in *. apply Permutation_trans with (l' := em ++ a ++ x :: c); [|exact H].
  rewrite <- app_assoc. apply Permutation_app_head. cbn [app].
  apply Permutation_cons_app. apply Permutation_refl.
Qed.

Lemma mstep_inv c s i : MInv c s -> MInv c (mstep false true s i).
Proof.
  intros HI. pose proof HI as [Hk He Hh Ht Hd Ho]. unfold mstep.
  destruct (nth_error (mthrs s) i) as [t|] eqn:Hnth; [|exact HI].
  pose proof (nth_error_split _ _ _ Hnth) as Hsplit.
  set (A := firstn i (mthrs s)) in *. set (B := skipn (S i) (mthrs s)) in *.
  rewrite Hsplit in He, Hh, Ht, Hd, Ho.
  rewrite flat_map_app in He, Hh. cbn [flat_map] in He, Hh.
  apply Forall_app in Ht as [HtA HtB']. inversion HtB' as [|t0 B0 [Hc Hkey] HtB]; subst t0 B0.
  rewrite map_app in Hd, Ho. cbn [map] in Hd, Ho.
  destruct (NoDup_mid _ _ _ Hd) as [HnA [HnB _]].
  destruct (mpc_ t) eqn:Hpc.
  - (* MCnt *)
    destruct (mtodo t) as [|p rest] eqn:Htodo; [exact HI|].
    constructor; cbn [cnt mm mlock gitems hist emitted mthrs]; unfold mupd; fold A B;
      rewrite ?flat_map_app, ?map_app; cbn [flat_map map].
    + exact Hk.
    + unfold pendi at 2. cbn [mpc_]. unfold pendi in He at 2. rewrite Hpc in He. exact He.
    + rewrite (regs_same t) by reflexivity. exact Hh.
    + apply Forall_app. split; [apply okm_other; assumption|]. constructor; [|apply okm_other; assumption].
      unfold okm, started in *. cbn [mcn mdir mdone mpc_ mkey]. rewrite cinc_same, Hc, Hpc. split; lia.
    + exact Hd.
    + unfold orig at 2. cbn [mcn mdir mdone mtodo]. unfold orig in Ho at 2. rewrite Htodo in Ho. exact Ho.
  - (* MReg *)
    destruct (mtodo t) as [|p rest] eqn:Htodo; [exact HI|]. cbn [andb].
    assert (Hkeyv : mkey t = S (length (mdone t))) by (unfold started in Hkey; rewrite Hpc in Hkey; lia).
    assert (Hkr : krun (hist s ++ [((mcn t, mkey t), mdir t, p)]) = kstep (mm s, gitems s) ((mcn t, mkey t), mdir t, p))
      by (rewrite krun_snoc, <- Hk; reflexivity).
    unfold kstep, register in Hkr. cbn [fst snd] in Hkr.
    destruct (mm s (mcn t, mkey t)) as [[d q]|] eqn:Hm.
    + destruct (Bool.eqb d (mdir t)) eqn:Hdir.
      * (* same direction: both dropped *)
        constructor; cbn [cnt mm mlock gitems hist emitted mthrs]; unfold mupd; fold A B;
          rewrite ?flat_map_app, ?map_app; cbn [flat_map map].
        -- rewrite Hkr. reflexivity.
        -- unfold pendi at 2. cbn [mpc_]. unfold pendi in He at 2. rewrite Hpc in He. exact He.
        -- rewrite (regs_snoc t p) by reflexivity. rewrite <- Hkeyv. apply perm_snoc_mid. exact Hh.
        -- apply Forall_app. split; [exact HtA|]. constructor; [|exact HtB].
           unfold okm, started in *. cbn [mcn mdir mdone mpc_ mkey]. rewrite Hc, Hpc, app_length. cbn [length]. split; [lia | exact I].
        -- exact Hd.
        -- unfold orig at 2. cbn [mcn mdir mdone mtodo]. unfold orig in Ho at 2. rewrite Htodo in Ho. rewrite <- app_assoc. exact Ho.
      * (* a pair is completed *)
        constructor; cbn [cnt mm mlock gitems hist emitted mthrs]; unfold mupd; fold A B;
          rewrite ?flat_map_app, ?map_app; cbn [flat_map map].
        -- rewrite Hkr. reflexivity.
        -- unfold pendi at 2. cbn [mpc_]. unfold pendi in He at 2. rewrite Hpc in He. apply perm_emit_add. exact He.
        -- rewrite (regs_snoc t p) by reflexivity. rewrite <- Hkeyv. apply perm_snoc_mid. exact Hh.
        -- apply Forall_app. split; [exact HtA|]. constructor; [|exact HtB].
           unfold okm, started in *. cbn [mcn mdir mdone mpc_ mkey]. rewrite Hc, Hpc, app_length. cbn [length]. split; [lia | exact I].
        -- exact Hd.
        -- unfold orig at 2. cbn [mcn mdir mdone mtodo]. unfold orig in Ho at 2. rewrite Htodo in Ho. rewrite <- app_assoc. exact Ho.
    + (* miss: stored *)
      constructor; cbn [cnt mm mlock gitems hist emitted mthrs]; unfold mupd; fold A B;
        rewrite ?flat_map_app, ?map_app; cbn [flat_map map].
      * rewrite Hkr. reflexivity.
      * unfold pendi at 2. cbn [mpc_]. unfold pendi in He at 2. rewrite Hpc in He. exact He.
      * rewrite (regs_snoc t p) by reflexivity. rewrite <- Hkeyv. apply perm_snoc_mid. exact Hh.
      * apply Forall_app. split; [exact HtA|]. constructor; [|exact HtB].
        unfold okm, started in *. cbn [mcn mdir mdone mpc_ mkey]. rewrite Hc, Hpc, app_length. cbn [length]. split; [lia | exact I].
      * exact Hd.
      * unfold orig at 2. cbn [mcn mdir mdone mtodo]. unfold orig in Ho at 2. rewrite Htodo in Ho. rewrite <- app_assoc. exact Ho.
  - (* MStore: unreachable in this machine *) contradiction.
  - (* MEmit *)
    constructor; cbn [cnt mm mlock gitems hist emitted mthrs]; unfold mupd; fold A B;
      rewrite ?flat_map_app, ?map_app; cbn [flat_map map].
    + exact Hk.
    + unfold pendi at 2. cbn [mpc_]. unfold pendi in He at 2. rewrite Hpc in He. apply perm_emit_move. exact He.
    + rewrite (regs_same t) by reflexivity. exact Hh.
    + apply Forall_app. split; [exact HtA|]. constructor; [|exact HtB].
      unfold okm, started in *. cbn [mcn mdir mdone mpc_ mkey]. rewrite Hc, Hpc. split; [lia | exact I].
    + exact Hd.
    + unfold orig at 2. cbn [mcn mdir mdone mtodo]. unfold orig in Ho at 2. exact Ho.
Qed.

Lemma mexec_inv c sched : forall s, MInv c s -> MInv c (mexec false true s sched).
Proof.
  induction sched as [|i sched IH]; intros s H; cbn [mexec fold_left]; [exact H|].
  apply IH. apply mstep_inv. exact H.
Qed.

Definition mk (x : nat * bool * list nat) : mthr :=
  {| mcn := fst (fst x); mdir := snd (fst x); mdone := []; mtodo := snd x; mpc_ := MCnt; mkey := O |}.

Lemma minit_inv c : NoDup (map fst c) -> MInv c (minit c).
Proof.
  intros Hnd. unfold minit. fold mk.
  assert (H1 : flat_map pendi (map mk c) = []) by (induction c as [|x c IH]; [reflexivity | cbn; apply IH; inversion Hnd; assumption]).
  assert (H2 : flat_map regs_of (map mk c) = []) by (clear; induction c as [|x c IH]; [reflexivity | cbn; exact IH]).
  constructor; cbn [cnt mm mlock gitems hist emitted mthrs].
  - reflexivity.
  - rewrite H1. constructor.
  - rewrite H2. constructor.
  - apply Forall_forall. intros t Ht. apply in_map_iff in Ht as [x [<- _]]. split; cbn; [reflexivity | exact I].
  - rewrite map_map. replace (map (fun x : nat * bool * list nat => cd (mk x)) c) with (map fst c); [exact Hnd|].
    apply map_ext. intros [[a b] l]. reflexivity.
  - rewrite map_map. rewrite <- (map_id c) at 2. apply map_ext. intros [[a b] l]. reflexivity.
Qed.

Lemma combine_seq_in (l : list nat) : forall s j p,
  In (j, p) (combine (seq s (length l)) l) <-> (s <= j /\ nth_error l (j - s) = Some p).
Proof.
  induction l as [|x l IH]; intros s j p; cbn [length seq combine In].
  - split; [intros [] | intros [_ H]; destruct (j - s); discriminate].
  - rewrite IH. split.
    + intros [H | [Hle Hn]].
      * injection H as <- <-. split; [lia|]. replace (s - s) with O by lia. reflexivity.
      * split; [lia|]. replace (j - s) with (S (j - S s)) by lia. exact Hn.
    + intros [Hle Hn]. destruct (Nat.eq_dec j s) as [-> | Hne].
      * left. replace (s - s) with O in Hn by lia. cbn in Hn. injection Hn as ->. reflexivity.
      * right. split; [lia|]. replace (j - s) with (S (j - S s)) in Hn by lia. exact Hn.
Qed.

Lemma regs_in t cn id d p :
  In ((cn, id), d, p) (regs_of t) <-> (cn = mcn t /\ d = mdir t /\ 0 < id /\ nth_error (mdone t) (id - 1) = Some p).
Proof.
  unfold regs_of. rewrite in_map_iff. split.
  - intros [[j p'] [Heq Hin]]. cbn [fst snd] in Heq. injection Heq as <- <- <- <-.
    apply combine_seq_in in Hin as [Hle Hn]. repeat split; try lia. exact Hn.
  - intros [-> [-> [Hlt Hn]]]. exists (id, p). split; [reflexivity|]. apply combine_seq_in. split; [lia | exact Hn].
Qed.

Lemma NoDup_app_intro {A} (a b : list A) : NoDup a -> NoDup b -> (forall x, In x a -> ~ In x b) -> NoDup (a ++ b).
Proof.
  induction a as [|x a IH]; intros Ha Hb Hd; cbn [app]; [exact Hb|].
  inversion Ha as [|y l Hnin Ha']; subst y l. constructor.
  - intros Hin. apply in_app_or in Hin as [Hin | Hin]; [exact (Hnin Hin) | exact (Hd x (or_introl eq_refl) Hin)].
  - apply IH; [exact Ha' | exact Hb | intros y Hy; apply Hd; right; exact Hy].
Qed.

Lemma regs_kd_nodup t : NoDup (map kd (regs_of t)).
Proof.
  unfold regs_of. rewrite map_map. unfold kd. cbn [fst].
  set (l := mdone t). set (n := length l).
  assert (H : forall s (l : list nat), NoDup (map (fun x : nat * nat => (mcn t, fst x, mdir t)) (combine (seq s (length l)) l))).
  { clear. intros s l. revert s. induction l as [|x l IH]; intros s; cbn [length seq combine map]; constructor; [|apply IH].
    intros Hin. apply in_map_iff in Hin as [[j p] [Heq Hin]]. cbn [fst] in Heq. injection Heq as ->.
    apply combine_seq_in in Hin as [Hle _]. lia. }
  apply H.
Qed.

Lemma regs_all_nodup ts : NoDup (map cd ts) -> NoDup (map kd (flat_map regs_of ts)).
Proof.
  induction ts as [|t ts IH]; intros Hd; cbn [flat_map map]; [constructor|].
  cbn [map] in Hd. inversion Hd as [|x l Hnin Hd']; subst x l.
  rewrite map_app. apply NoDup_app_intro; [apply regs_kd_nodup | apply IH; exact Hd'|].
  intros [[cn id] d] Hin1 Hin2.
  apply in_map_iff in Hin1 as [[[k1 d1] p1] [Heq1 Hin1]]. unfold kd in Heq1. cbn [fst] in Heq1. injection Heq1 as -> ->.
  apply in_map_iff in Hin2 as [[[k2 d2] p2] [Heq2 Hin2]]. unfold kd in Heq2. cbn [fst] in Heq2. injection Heq2 as -> ->.
  apply regs_in in Hin1 as [-> [-> _]].
  apply in_flat_map in Hin2 as [t' [Ht' Hin2]]. apply regs_in in Hin2 as [E1 [E2 _]].
  apply Hnin. apply in_map_iff. exists t'. split; [|exact Ht']. unfold cd. rewrite <- E1, <- E2. reflexivity.
Qed.

Lemma flat_map_nil {A B} (f : A -> list B) l : (forall x, In x l -> f x = []) -> flat_map f l = [].
Proof.
  induction l as [|x l IH]; intros H; [reflexivity|]. cbn [flat_map]. rewrite (H x (or_introl eq_refl)). apply IH.
  intros y Hy. apply H. right. exact Hy.
Qed.

Lemma finished_threads s t : mfinished s = true -> In t (mthrs s) -> mtodo t = [] /\ mpc_ t = MCnt.
Proof.
  unfold mfinished. rewrite forallb_forall. intros H Ht. specialize (H t Ht).
  destruct (mtodo t); [|discriminate]. destruct (mpc_ t); try discriminate. split; reflexivity.
Qed.

(* From the invariants at the end of a complete run to the schedule-free characterisation. *)
Lemma items_from_hist (c : cfg) (s : mst) :
  (forall k, fst (krun (hist s)) k = mm s k) -> snd (krun (hist s)) = gitems s ->
  Permutation (emitted s) (gitems s) ->
  Permutation (hist s) (flat_map regs_of (mthrs s)) ->
  NoDup (map cd (mthrs s)) -> map orig (mthrs s) = c -> mfinished s = true ->
  (forall cn p q, In (cn, p, q) (emitted s) <->
     exists k reqs resps, In (cn, true, reqs) c /\ In (cn, false, resps) c
                          /\ nth_error reqs k = Some p /\ nth_error resps k = Some q)
  /\ (forall cn id d p, mm s (cn, id) = Some (d, p) <->
        exists l, In (cn, d, l) c /\ 0 < id /\ nth_error l (id - 1) = Some p
                  /\ forall l' q, In (cn, negb d, l') c -> nth_error l' (id - 1) <> Some q)
  /\ Permutation (emitted s) (gitems s).
Proof.
  intros Hm Hg He Hh Hd Ho Hfin.
  assert (Huniq : uniq (hist s)).
  { unfold uniq. apply (Permutation_NoDup (l := map kd (flat_map regs_of (mthrs s)))).
    - apply Permutation_map. apply Permutation_sym. exact Hh.
    - apply regs_all_nodup. exact Hd. }
  pose proof (krun_inv (hist s) Huniq) as [I1 I2]. rewrite Hg in I2.
  assert (I1' : forall k d p, mm s k = Some (d, p) <-> In (k, d, p) (hist s) /\ (forall q, ~ In (k, negb d, q) (hist s)))
    by (intros k d p; rewrite <- Hm; apply I1).
  (* membership in hist in terms of the configuration *)
  assert (Hmem : forall cn id d p, In ((cn, id), d, p) (hist s) <->
            exists l, In (cn, d, l) c /\ 0 < id /\ nth_error l (id - 1) = Some p).
  { intros cn id d p. split.
    - intros Hin. apply (Permutation_in _ Hh) in Hin. apply in_flat_map in Hin as [t [Ht' Hin]].
      apply regs_in in Hin as [-> [-> [Hlt Hn]]]. exists (mdone t). repeat split; try assumption.
      rewrite <- Ho. apply in_map_iff. exists t. split; [|exact Ht'].
      unfold orig. destruct (finished_threads s t Hfin Ht') as [-> _]. rewrite app_nil_r. reflexivity.
    - intros [l [Hin [Hlt Hn]]]. rewrite <- Ho in Hin. apply in_map_iff in Hin as [t [Horig Ht']].
      unfold orig in Horig. destruct (finished_threads s t Hfin Ht') as [Htodo _]. rewrite Htodo, app_nil_r in Horig.
      injection Horig as <- <- <-. apply (Permutation_in _ (Permutation_sym Hh)). apply in_flat_map. exists t. split; [exact Ht'|].
      apply regs_in. repeat split; assumption. }
  split; [|split; [|exact He]].
  - intros cn p q. split.
    + intros Hin. apply (Permutation_in _ He) in Hin. apply I2 in Hin as [id [H1 H2]].
      apply Hmem in H1 as [reqs [Hr [Hlt Hn1]]]. apply Hmem in H2 as [resps [Hs [_ Hn2]]].
      exists (id - 1), reqs, resps. repeat split; assumption.
    + intros [k [reqs [resps [Hr [Hs [Hn1 Hn2]]]]]]. apply (Permutation_in _ (Permutation_sym He)). apply I2.
      exists (S k). split; apply Hmem; [exists reqs | exists resps]; (repeat split; [assumption | lia |]);
        replace (S k - 1) with k by lia; assumption.
  - intros cn id d p. rewrite I1'. split.
    + intros [Hin Hno]. apply Hmem in Hin as [l [Hl [Hlt Hn]]]. exists l. repeat split; try assumption.
      intros l' q Hl' Hq. apply (Hno q). apply Hmem. exists l'. repeat split; assumption.
    + intros [l [Hl [Hlt [Hn Hno]]]]. split; [apply Hmem; exists l; repeat split; assumption|].
      intros q Hq. apply Hmem in Hq as [l' [Hl' [_ Hq]]]. exact (Hno l' q Hl' Hq).
Qed.

(* Every complete run, under every interleaving of the threads' atoms: the emitted items are
   exactly the pairs (k-th request, k-th response) of each connection, each emitted once; the
   matcher holds exactly the unanswered halves.  The right-hand sides do not mention the
   schedule. *)
Lemma conc_items c sched :
  NoDup (map fst c) ->
  let s := mexec false true (minit c) sched in
  mfinished s = true ->
  (forall cn p q, In (cn, p, q) (emitted s) <->
     exists k reqs resps, In (cn, true, reqs) c /\ In (cn, false, resps) c
                          /\ nth_error reqs k = Some p /\ nth_error resps k = Some q)
  /\ (forall cn id d p, mm s (cn, id) = Some (d, p) <->
        exists l, In (cn, d, l) c /\ 0 < id /\ nth_error l (id - 1) = Some p
                  /\ forall l' q, In (cn, negb d, l') c -> nth_error l' (id - 1) <> Some q)
  /\ Permutation (emitted s) (gitems s).
Proof.
  intros Hnd s Hfin.
  pose proof (mexec_inv c sched _ (minit_inv c Hnd)) as [Hk He Hh Ht Hd Ho]. fold s in Hk, He, Hh, Ht, Hd, Ho.
  assert (Hpend : flat_map pendi (mthrs s) = []).
  { apply flat_map_nil. intros t Hin. destruct (finished_threads s t Hfin Hin) as [_ Hpc]. unfold pendi. rewrite Hpc. reflexivity. }
  rewrite Hpend, app_nil_r in He.
  apply items_from_hist; try assumption.
  - intros k. rewrite <- Hk. reflexivity.
  - rewrite <- Hk. reflexivity.
Qed.

(* schedule independence: any two complete runs give the same items (as a multiset when
   the pids are unique) and the same matcher contents *)
Lemma conc_sched_indep c sched1 sched2 :
  NoDup (map fst c) ->
  let s1 := mexec false true (minit c) sched1 in
  let s2 := mexec false true (minit c) sched2 in
  mfinished s1 = true -> mfinished s2 = true ->
  (forall it, In it (emitted s1) <-> In it (emitted s2))
  /\ (forall k, mm s1 k = mm s2 k).
Proof.
  intros Hnd s1 s2 F1 F2.
  destruct (conc_items c sched1 Hnd F1) as [A1 [B1 _]]. destruct (conc_items c sched2 Hnd F2) as [A2 [B2 _]].
  fold s1 in A1, B1. fold s2 in A2, B2. split.
  - intros [[cn p] q]. rewrite A1, A2. reflexivity.
  - intros [cn id]. destruct (mm s1 (cn, id)) as [[d p]|] eqn:E1.
    + symmetry. apply B2. apply B1. exact E1.
    + destruct (mm s2 (cn, id)) as [[d p]|] eqn:E2; [|reflexivity].
      apply B2 in E2. apply B1 in E2. rewrite E1 in E2. discriminate.
Qed.

(* the unlocked code (LoadAndDelete, then a separate Store) loses a pair: both halves miss,
   both store, nothing is emitted *)
Lemma conc_nolock_refuted :
  exists sched, let s := mexec true false (minit [(1, true, [10]); (1, false, [20])]) sched in
                mfinished s = true /\ emitted s = [].
Proof. exists [0; 0; 1; 1; 0; 1]. vm_compute. split; reflexivity. Qed.

(* with the lock, the lock-granular machine agrees with the atomic one on every schedule of
   the two-message and the four-message conversation (finite sweep, bound stated) *)
Lemma conc_lockgran_small :
  mcounterexamples true true [(1, true, [10]); (1, false, [20])] = []
  /\ mcounterexamples true true [(1, true, [10; 11]); (1, false, [20; 21])] = [].
Proof. vm_compute. split; reflexivity. Qed.

Example conc_example :
  let s := mexec false true (minit [(1, true, [10; 11]); (1, false, [20])]) [1; 1; 0; 0; 0; 0; 0] in
  mfinished s = true /\ emitted s = [(1, 10, 20)].
Proof. vm_compute. split; reflexivity. Qed.
