(* AMQP share of C01 (and the fuel half of C02): on every input the model neither reaches a
   panic site nor runs out of the fuel `byte length + 2`; every reader leaves a suffix that is
   no longer than what it was given (strictly shorter when it succeeds on a field). *)
Require Import V.Base.Prelude V.Amqp.AmqpTypes V.Amqp.AmqpModel V.Amqp.AmqpLemmas.
Local Open Scope N_scope.

Definition nofail {A} (r : pres A) : Prop := match r with PPanic _ | PFuel => False | _ => True end.
(* no failure, a success leaves strictly less than n, an error at most n *)
Definition pok_lt {A} (n : nat) (r : pres A) : Prop :=
  match r with POk _ rest => (length rest < n)%nat | PErr _ rest => (length rest <= n)%nat | _ => False end.
Definition pok_le {A} (n : nat) (r : pres A) : Prop :=
  match r with POk _ rest | PErr _ rest => (length rest <= n)%nat | _ => False end.

Lemma ptake_spec n s :
  match ptake n s with
  | POk a rest => (length a = N.to_nat n /\ length rest + N.to_nat n = length s)%nat
  | PErr _ rest => rest = []
  | _ => False
  end.
Proof.
  unfold ptake. destruct (N.leb_spec n (Blen s)) as [H|H]; [|reflexivity].
  unfold Blen in H. rewrite firstn_length, skipn_length. lia.
Qed.

(* chaining: a property that holds of every error at the end of the buffer *)
Section Chain.
  Context {B : Type} (Q : pres B -> Prop).
  Hypothesis Qerr : forall e, Q (PErr e []).

  Lemma ptake_bind n (f : bytes -> bytes -> pres B) s :
    (forall a r1, (length a = N.to_nat n)%nat -> (length r1 + N.to_nat n = length s)%nat -> Q (f a r1)) -> Q (pbind (ptake n s) f).
  Proof.
    intros H. pose proof (ptake_spec n s) as Hs. destruct (ptake n s) as [a rest|e rest| |]; cbn [pbind]; try contradiction.
    - apply H; lia.
    - subst. apply Qerr.
  Qed.

  Lemma pnum_bind w (f : N -> bytes -> pres B) s :
    (forall v r1, (length r1 + N.to_nat w = length s)%nat -> Q (f v r1)) -> Q (pbind (pnum w s) f).
  Proof.
    intros H. unfold pnum. pose proof (ptake_spec w s) as Hs. destruct (ptake w s) as [a rest|e rest| |]; cbn [pbind]; try contradiction.
    - apply H; lia.
    - subst. apply Qerr.
  Qed.

  Lemma shortstr_bind (f : bytes -> bytes -> pres B) s :
    (forall k r1, (length k + length r1 + 1 = length s)%nat -> Q (f k r1)) -> Q (pbind (read_shortstr s) f).
  Proof.
    intros H. unfold read_shortstr. pose proof (ptake_spec 1 s) as Hs. unfold pnum.
    destruct (ptake 1 s) as [a rest|e rest| |]; cbn [pbind]; try contradiction.
    - pose proof (ptake_spec (be a) rest) as Hs2. destruct (ptake (be a) rest) as [k r1|e r1| |]; cbn [pbind]; try contradiction.
      + apply H. change (N.to_nat 1) with 1%nat in Hs. lia.
      + subst. apply Qerr.
    - subst. apply Qerr.
  Qed.

  Lemma longstr_bind (f : bytes -> bytes -> pres B) s :
    (forall str r1, (length str + length r1 + 4 <= length s)%nat -> Q (f str r1)) -> Q (pbind (read_longstr s) f).
  Proof.
    intros H. unfold read_longstr. pose proof (ptake_spec 4 s) as Hs. unfold pnum.
    destruct (ptake 4 s) as [a rest|e rest| |]; cbn [pbind]; try contradiction.
    - change (N.to_nat 4) with 4%nat in Hs. destruct (2147483647 <? be a).
      + cbn [pbind]. apply H. cbn [length]. lia.
      + pose proof (ptake_spec (be a) rest) as Hs2. destruct (ptake (be a) rest) as [k r1|e r1| |]; cbn [pbind]; try contradiction.
        * apply H. lia.
        * subst. apply Qerr.
    - subst. apply Qerr.
  Qed.
End Chain.

Lemma field_total : forall fuel,
  (forall s, (length s < fuel)%nat -> pok_lt (length s) (read_field fuel s) \/ (s = [] /\ read_field fuel s = PErr EEOF [])) /\
  (forall s, (length s < fuel)%nat -> nofail (read_table_entries fuel s)) /\
  (forall s, (length s + 1 < fuel)%nat -> pok_le (length s) (read_array_items fuel s)).
Proof.
  induction fuel as [|f (IHf & IHt & IHa)]; [repeat split; intros; lia|].
  assert (IHf' : forall s, (length s < f)%nat -> pok_le (length s) (read_field f s) /\
                   (forall v r, read_field f s = POk v r -> (length r < length s)%nat)).
  { intros s Hs. destruct (IHf s Hs) as [H|[-> H]].
    - destruct (read_field f s); cbn in *; try contradiction; split; try lia; intros ? ? E; inversion E; subst; lia.
    - rewrite H. cbn. split; [lia|discriminate]. }
  repeat split.
  - (* read_field *)
    intros s Hs. cbn [read_field]. destruct s as [|b r]; [right; split; reflexivity|left].
    rewrite pnum1_cons. cbn [pbind length]. cbn [length] in Hs.
    destruct (ftag_of (b2n b)).
    + apply pnum_bind; [intros; cbn; lia|]. intros v r1 H. cbn. lia.
    + apply pnum_bind; [intros; cbn; lia|]. intros v r1 H. cbn. lia.
    + apply pnum_bind; [intros; cbn; lia|]. intros v r1 H. cbn. lia.
    + apply pnum_bind; [intros; cbn; lia|]. intros v r1 H. cbn. lia.
    + apply pnum_bind; [intros; cbn; lia|]. intros v r1 H. cbn. lia.
    + apply pnum_bind; [intros; cbn; lia|]. intros v r1 H. cbn. lia.
    + apply pnum_bind; [intros; cbn; lia|]. intros v r1 H. cbn. lia.
    + apply pnum_bind; [intros; cbn; lia|]. intros v r1 H.
      apply pnum_bind; [intros; cbn; lia|]. intros v2 r2 H2. cbn. lia.
    + apply longstr_bind; [intros; cbn; lia|]. intros str r1 H. cbn. lia.
    + (* array *)
      apply pnum_bind; [intros; cbn; lia|]. intros size r1 H. change (N.to_nat 4) with 4%nat in H.
      set (k := N.to_nat (N.min size (Blen r1))).
      assert (Hk : (k <= length r1)%nat) by (unfold k, Blen; lia).
      assert (Hv : (length (firstn k r1) = k)%nat) by (rewrite firstn_length; lia).
      assert (Hsk : (length (skipn k r1) = length r1 - k)%nat) by apply skipn_length.
      pose proof (IHa (firstn k r1) ltac:(lia)) as Ha.
      destruct (read_array_items f (firstn k r1)) as [arr v'|e v'| |]; cbn in Ha |- *; try contradiction; rewrite app_length; lia.
    + apply pnum_bind; [intros; cbn; lia|]. intros v r1 H. cbn. lia.
    + (* table *)
      apply longstr_bind; [intros; cbn; lia|]. intros str r1 H.
      pose proof (IHt str ltac:(lia)) as Ht.
      destruct (read_table_entries f str); cbn in Ht |- *; try contradiction; lia.
    + (* bytes *)
      apply pnum_bind; [intros; cbn; lia|]. intros n r1 H. change (N.to_nat 4) with 4%nat in H.
      destruct (signed 32 n <? 0)%Z; [cbn; lia|].
      apply ptake_bind; [intros; cbn; lia|]. intros a r2 Ha H2. cbn. lia.
    + cbn. lia.
    + cbn. lia.
  - (* read_table_entries *)
    intros s Hs. cbn [read_table_entries]. destruct s as [|b r]; [exact I|].
    apply shortstr_bind; [intros; exact I|]. intros k r1 H. cbn [length] in H, Hs.
    destruct (IHf' r1 ltac:(lia)) as [H1 H2].
    destruct (read_field f r1) as [v r2|e r2| |] eqn:E; cbn in H1; try contradiction; cbn [pbind]; [|exact I].
    specialize (H2 v r2 eq_refl).
    pose proof (IHt r2 ltac:(lia)) as Ht.
    destruct (read_table_entries f r2); cbn in Ht |- *; try contradiction; exact I.
  - (* read_array_items *)
    intros s Hs. cbn [read_array_items].
    destruct (IHf' s ltac:(lia)) as [H1 H2].
    destruct (read_field f s) as [v r|e r| |] eqn:E; cbn in H1; try contradiction.
    + specialize (H2 v r eq_refl). pose proof (IHa r ltac:(lia)) as Ha.
      destruct (read_array_items f r); cbn in Ha |- *; try contradiction; lia.
    + destruct e; cbn; lia.
Qed.

Lemma read_field_total fuel s : (length s < fuel)%nat -> pok_le (length s) (read_field fuel s).
Proof.
  intros H. destruct (field_total fuel) as (Hf & _ & _). destruct (Hf s H) as [H1|[-> H1]].
  - destruct (read_field fuel s); cbn in *; try contradiction; lia.
  - rewrite H1. cbn. lia.
Qed.

Lemma read_table_total fuel s : (length s < fuel)%nat -> pok_le (length s) (read_table fuel s).
Proof.
  intros H. unfold read_table. apply longstr_bind; [intros; cbn; lia|]. intros str r1 H1.
  destruct (field_total fuel) as (_ & Ht & _). pose proof (Ht str ltac:(lia)) as H2.
  destruct (read_table_entries fuel str); cbn in H2 |- *; try contradiction; lia.
Qed.

Lemma read_args_total fuel ks : forall bits s, (length s < fuel)%nat -> pok_le (length s) (read_args fuel ks bits s).
Proof.
  induction ks as [|k ks IH]; intros bits s Hs; [cbn; lia|].
  assert (Hrec : forall b r0, (length r0 <= length s)%nat -> forall (a : arg),
             pok_le (length s) (pbind (read_args fuel ks b r0) (fun rest r => POk (a :: rest) r))).
  { intros b r0 H0 a. pose proof (IH b r0 ltac:(lia)) as H. destruct (read_args fuel ks b r0); cbn in H |- *; try contradiction; lia. }
  destruct k; cbn [read_args].
  1-4: (apply pnum_bind; [intros; cbn; lia|]; intros v r1 H; cbn [pbind]; apply Hrec; lia).
  - apply shortstr_bind; [intros; cbn; lia|]. intros v r1 H. cbn [pbind]. apply Hrec. lia.
  - apply longstr_bind; [intros; cbn; lia|]. intros v r1 H. cbn [pbind]. apply Hrec. lia.
  - pose proof (read_table_total fuel s Hs) as Ht.
    destruct (read_table fuel s) as [t r1|e r1| |]; cbn in Ht; try contradiction; cbn [pbind]; [|cbn; lia]. apply Hrec. lia.
  - destruct bits as [[b i]|].
    + apply Hrec. lia.
    + apply pnum_bind; [intros; cbn; lia|]. intros v r1 H. apply Hrec. lia.
  - apply pnum_bind; [intros; cbn; lia|]. intros v r1 H. cbn [pbind]. apply Hrec. lia.
Qed.

Lemma read_props_total fuel ks : forall flags bit s, (length s < fuel)%nat -> pok_le (length s) (read_props fuel ks flags bit s).
Proof.
  induction ks as [|k ks IH]; intros flags bit s Hs; [cbn; lia|].
  cbn [read_props]. destruct (N.testbit flags bit).
  - pose proof (read_args_total fuel [k] None s Hs) as Ha.
    destruct (read_args fuel [k] None s) as [a r0|e r0| |]; cbn in Ha; try contradiction; cbn [pbind]; [|cbn; lia].
    pose proof (IH flags (bit - 1) r0 ltac:(lia)) as H. destruct (read_props fuel ks flags (bit - 1) r0); cbn in H |- *; try contradiction; lia.
  - pose proof (IH flags (bit - 1) s Hs) as H. destruct (read_props fuel ks flags (bit - 1) s); cbn in H |- *; try contradiction; lia.
Qed.

Lemma parse_method_total ch p : nofail (parse_method ch p).
Proof.
  unfold parse_method. apply pnum_bind; [intros; exact I|]. intros cls r H. apply pnum_bind; [intros; exact I|]. intros meth r1 H1.
  destruct (method_sig cls meth) as [sig|]; [|exact I].
  pose proof (read_args_total (payload_fuel p) (map fst sig) None r1 ltac:(unfold payload_fuel; lia)) as Ha.
  destruct (read_args (payload_fuel p) (map fst sig) None r1); cbn in Ha |- *; try contradiction; exact I.
Qed.

Lemma parse_header_total ch p : nofail (parse_header ch p).
Proof.
  unfold parse_header. apply pnum_bind; [intros; exact I|]. intros cls r H. apply pnum_bind; [intros; exact I|]. intros w r1 H1.
  apply pnum_bind; [intros; exact I|]. intros size r2 H2. destruct (512 <? size); [exact I|].
  apply pnum_bind; [intros; exact I|]. intros flags r3 H3.
  pose proof (read_props_total (payload_fuel p) prop_kinds flags 15 r3 ltac:(unfold payload_fuel; lia)) as Ha.
  destruct (read_props (payload_fuel p) prop_kinds flags 15 r3); cbn in Ha |- *; try contradiction; exact I.
Qed.

(* ------------------------------------------------------------------ frames and Dissect *)
Lemma rd_full_spec n st :
  match rd_full n st with
  | (Ok a, st1) => (length a = N.to_nat n /\ length (sdata st1) + N.to_nat n = length (sdata st))%nat /\ stail st1 = stail st
  | (Err e, st1) => sdata st1 = [] /\ e <> EProto
  | _ => False
  end.
Proof.
  unfold rd_full. destruct (N.leb_spec n (Blen (sdata st))) as [H|H].
  - cbn [sdata stail]. unfold Blen in H. rewrite firstn_length, skipn_length. split; [lia|reflexivity].
  - destruct (stail st); [destruct (sdata st)|..]; split; (reflexivity || discriminate).
Qed.

Definition good_res (r : res frame) : Prop := match r with Ok _ | Err _ => True | _ => False end.

(* readFrame never panics and never runs out of fuel; when it returns a frame or a protocol
   error it has consumed at least the 7-byte header *)
Lemma read_frame_total st :
  good_res (fst (read_frame st)) /\
  match fst (read_frame st) with
  | Ok _ | Err EProto => (length (sdata (snd (read_frame st))) + 7 <= length (sdata st))%nat
  | _ => True
  end.
Proof.
  unfold read_frame. pose proof (rd_full_spec 7 st) as H7.
  destruct (rd_full 7 st) as [[h| e| |] st1]; try contradiction; [|cbn [fst snd]; split; [exact I|destruct H7 as [_ H7]; destruct e; try exact I; congruence]].
  destruct H7 as [[Hh H7] _]. change (N.to_nat 7) with 7%nat in *.
  destruct (list_eqb Byte.eqb (firstn 4 h) amqp_magic).
  - pose proof (rd_full_spec 1 st1) as H1. destruct (rd_full 1 st1) as [[a| e| |] st2]; try contradiction; cbn [fst snd].
    + split; [exact I|]. lia.
    + split; [exact I|]. destruct H1 as [_ H1]. destruct e; try exact I. congruence.
  - destruct (max_frame <? be (skipn 3 h)); [cbn [fst snd]; split; [exact I|lia]|].
    destruct (negb _); [cbn [fst snd]; split; [exact I|lia]|].
    set (size := be (skipn 3 h)).
    pose proof (rd_full_spec (size + 1) st1) as H2.
    destruct (rd_full (size + 1) st1) as [[rest| e| |] st2]; try contradiction; cbn [fst snd].
    + destruct H2 as [[Hr H2] _].
      destruct (nth_error rest (N.to_nat size)) as [eo|] eqn:En.
      * destruct (negb (b2n eo =? 206)); [cbn [fst snd]; split; [exact I|lia]|].
        set (p := firstn (N.to_nat size) rest).
        assert (Hp : nofail (if be (firstn 1 h) =? 1 then parse_method (be (firstn 2 (skipn 1 h))) p
                             else if be (firstn 1 h) =? 2 then parse_header (be (firstn 2 (skipn 1 h))) p
                             else if be (firstn 1 h) =? 3 then parse_body (be (firstn 2 (skipn 1 h))) p
                             else parse_heartbeat (be (firstn 2 (skipn 1 h))) p)).
        { destruct (be (firstn 1 h) =? 1); [apply parse_method_total|].
          destruct (be (firstn 1 h) =? 2); [apply parse_header_total|].
          destruct (be (firstn 1 h) =? 3); [exact I|]. unfold parse_heartbeat. destruct p; exact I. }
        destruct (if be (firstn 1 h) =? 1 then _ else _) as [fr rr|e rr| |]; cbn in Hp; try contradiction; cbn [fst snd]; split; try exact I; lia.
      * apply nth_error_None in En. lia.
    + split; [exact I|]. destruct H2 as [_ H2]. destruct e; try exact I. congruence.
Qed.

Definition good_outcome (o : outcome) : Prop := match o with OEof | OError => True | _ => False end.

(* Dissect returns (end of stream or error) on every stream, with fuel = byte length + 2 *)
Lemma dissect_total : forall fuel is_client st d ms, (length (sdata st) < fuel)%nat ->
  good_outcome (fst (dissect fuel is_client st d ms)).
Proof.
  induction fuel as [|fuel IH]; intros is_client st d ms Hf; [lia|].
  cbn [dissect]. destruct (read_frame_total st) as [Hg Hp].
  destruct (read_frame st) as [[f|e| |] st1]; cbn [fst snd] in *; try contradiction.
  - destruct (step is_client f d ms) as [d1 ms1]. apply IH. lia.
  - destruct e; try exact I. apply IH. lia.
Qed.

Theorem amqp_C01_dissect : forall is_client st d ms,
  good_outcome (fst (dissect (dissect_fuel st) is_client st d ms)).
Proof. intros. apply dissect_total. unfold dissect_fuel. lia. Qed.

Theorem amqp_C01_both : forall client_first c s,
  let '(oc, os, _) := dissect_both client_first c s in good_outcome oc /\ good_outcome os.
Proof.
  intros client_first c s. unfold dissect_both. destruct client_first.
  - pose proof (amqp_C01_dissect true c init_dstate init_mstate) as H1.
    destruct (dissect (dissect_fuel c) true c init_dstate init_mstate) as [oc m1].
    pose proof (amqp_C01_dissect false s init_dstate m1) as H2.
    destruct (dissect (dissect_fuel s) false s init_dstate m1) as [os m2]. split; assumption.
  - pose proof (amqp_C01_dissect false s init_dstate init_mstate) as H1.
    destruct (dissect (dissect_fuel s) false s init_dstate init_mstate) as [os m1].
    pose proof (amqp_C01_dissect true c init_dstate m1) as H2.
    destruct (dissect (dissect_fuel c) true c init_dstate m1) as [oc m2]. split; assumption.
Qed.

(* the payload readers as well: any byte string, fuel = length + 1 *)
Theorem amqp_C01_field : forall s, nofail (read_field (length s + 1) s).
Proof. intros s. pose proof (read_field_total (length s + 1) s ltac:(lia)) as H. destruct (read_field (length s + 1) s); cbn in *; try contradiction; exact I. Qed.
