(* AMQP share of C08: the model of the dissector is a function of the concatenation of the
   reads.  (That io.ReadFull / io.CopyN over a bufio.Reader see only the concatenation is
   library behaviour: modelled, not verified; exercised by every correspondence run with
   random chunkings and by the exhaustive two-piece splits of the C08 check.) *)
Require Import V.Base.Prelude V.Amqp.AmqpTypes V.Amqp.AmqpModel.

Record chunked := { chunks : list bytes; ctail : tail }.
Definition flat (i : chunked) : stream := {| sdata := concat (chunks i); stail := ctail i |}.
Definition dissect_chunked (is_client : bool) (i : chunked) (d : dstate) (ms : mstate) : outcome * mstate :=
  dissect (dissect_fuel (flat i)) is_client (flat i) d ms.

Theorem amqp_C08_chunking : forall cs1 cs2 t is_client d ms, concat cs1 = concat cs2 ->
  dissect_chunked is_client {| chunks := cs1; ctail := t |} d ms = dissect_chunked is_client {| chunks := cs2; ctail := t |} d ms.
Proof. intros cs1 cs2 t is_client d ms H. unfold dissect_chunked, flat. cbn [chunks ctail]. rewrite H. reflexivity. Qed.

Theorem amqp_C08_both : forall c1 c2 s1 s2 tc ts client_first, concat c1 = concat c2 -> concat s1 = concat s2 ->
  dissect_both client_first (flat {| chunks := c1; ctail := tc |}) (flat {| chunks := s1; ctail := ts |}) =
  dissect_both client_first (flat {| chunks := c2; ctail := tc |}) (flat {| chunks := s2; ctail := ts |}).
Proof. intros c1 c2 s1 s2 tc ts cf H1 H2. unfold flat. cbn [chunks ctail]. rewrite H1, H2. reflexivity. Qed.
