(* C05, frames and conversations: every well-formed frame is read back as the abstract frame
   it encodes, and Dissect on the encoding of any sequence of well-formed frames is the fold of
   `step` (the dissector's handling of one decoded frame) over the abstract frames: nothing is
   misdecoded, skipped or read twice, whatever the mix of channels, supported and unsupported
   methods, content and heartbeats. *)
Require Import V.Base.Prelude V.Amqp.AmqpTypes V.Amqp.AmqpModel V.Amqp.AmqpSpec V.Amqp.AmqpLemmas V.Amqp.AmqpProofs.
Require Import V.Amqp.AmqpC01 V.Amqp.AmqpArgs V.Amqp.AmqpMethods V.Amqp.AmqpFrames.
Local Open Scope N_scope.

(* ------------------------------------------------------------------ property flags, by enumeration *)
Definition is_some {A} (o : option A) : bool := match o with Some _ => true | None => false end.
Fixpoint flags_of (pv : list bool) (bit : N) : N :=
  match pv with [] => 0 | p :: pv' => (if p then 2 ^ bit else 0) + flags_of pv' (bit - 1) end.

Lemma flags_val_of slots : forall bit, flags_val slots bit = flags_of (map is_some slots) bit.
Proof. induction slots as [|s slots IH]; intros bit; [reflexivity|]. cbn [flags_val map flags_of]. rewrite IH. destruct s; reflexivity. Qed.

Fixpoint all_vectors (n : nat) : list (list bool) :=
  match n with O => [[]] | S n' => flat_map (fun v => [true :: v; false :: v]) (all_vectors n') end.

Lemma all_vectors_complete n : forall v, length v = n -> In v (all_vectors n).
Proof.
  induction n as [|n IH]; intros v Hv.
  - destruct v; [left; reflexivity|discriminate].
  - destruct v as [|b v]; [discriminate|]. cbn [all_vectors]. apply in_flat_map. exists v. split; [apply IH; cbn in Hv; lia|].
    destruct b; [left|right; left]; reflexivity.
Qed.

Definition flags_check (pv : list bool) : bool :=
  (flags_of pv 15 <? 65536) &&
  forallb (fun i => Bool.eqb (N.testbit (flags_of pv 15) (15 - N.of_nat i)) (nth i pv false)) (seq 0 14).

Lemma flags_all : forallb flags_check (all_vectors 14) = true.
Proof. vm_compute. reflexivity. Qed.

Lemma flags_facts slots : length slots = 14%nat ->
  flags_val slots 15 < 65536 /\
  (forall i, (i < 14)%nat -> N.testbit (flags_val slots 15) (15 - N.of_nat i) = is_some (nth i slots None)).
Proof.
  intros Hl. rewrite flags_val_of. set (pv := map is_some slots).
  assert (Hpv : length pv = 14%nat) by (unfold pv; rewrite map_length; exact Hl).
  pose proof flags_all as Ha. rewrite forallb_forall in Ha. specialize (Ha pv (all_vectors_complete 14 pv Hpv)).
  unfold flags_check in Ha. apply andb_prop in Ha. destruct Ha as [H1 H2]. split; [apply N.ltb_lt; exact H1|].
  intros i Hi. rewrite forallb_forall in H2. specialize (H2 i ltac:(apply in_seq; lia)). apply Bool.eqb_prop in H2. rewrite H2.
  unfold pv. change false with (is_some (@None arg)). apply map_nth.
Qed.

(* ------------------------------------------------------------------ content header *)
Definition enc_slot (s : option arg) : bytes := match s with Some a => enc_arg a | None => [] end.
Definition slot_ok (fuel : nat) (k : akind) (s : option arg) : Prop :=
  match s with Some a => kind_of a = Some k /\ k <> KBit /\ wf_arg a /\ arg_fuel_ok fuel a | None => True end.

Lemma read_props_rt fuel F : forall ks slots, Forall2 (slot_ok fuel) ks slots -> forall bit r,
  (forall i, (i < length slots)%nat -> N.testbit F (bit - N.of_nat i) = is_some (nth i slots None)) ->
  N.of_nat (length slots) <= bit + 1 ->
  read_props fuel ks F bit (concat (map enc_slot slots) ++ r) = POk slots r.
Proof.
  induction 1 as [|k s ks slots Hs Hrest IH]; intros bit r Hbits Hlen; [reflexivity|].
  cbn [read_props map concat]. pose proof (Hbits 0%nat ltac:(cbn; lia)) as H0. cbn [nth N.of_nat] in H0. rewrite N.sub_0_r in H0. rewrite H0.
  assert (Hbits' : forall i, (i < length slots)%nat -> N.testbit F (bit - 1 - N.of_nat i) = is_some (nth i slots None)).
  { intros i Hi. pose proof (Hbits (S i) ltac:(cbn; lia)) as Hs'. cbn [nth] in Hs'. rewrite <- Hs'. f_equal. lia. }
  cbn [length] in Hlen.
  destruct s as [a|]; cbn [is_some enc_slot].
  - destruct Hs as (Hk & Hnb & Hwf & Hf). rewrite <- app_assoc. rewrite read_nonbit by assumption. cbn [read_args pbind].
    rewrite (IH (bit - 1) r Hbits' ltac:(lia)). reflexivity.
  - cbn [app]. rewrite (IH (bit - 1) r Hbits' ltac:(lia)). reflexivity.
Qed.

(* ------------------------------------------------------------------ well-formed frames *)
Definition wf_frame (f : frame) : Prop :=
  match f with
  | FrProto => True
  | FrHeartbeat ch => ch < 2 ^ 16
  | FrMethod ch cls meth args => ch < 2 ^ 16 /\ wf_method cls meth args /\ Blen (enc_method_payload cls meth args) <= max_frame
  | FrHeader ch cls weight size flags slots =>
      ch < 2 ^ 16 /\ cls < 2 ^ 16 /\ weight < 2 ^ 16 /\ size <= 512 /\ flags = flags_val slots 15 /\
      Forall2 (fun k s => match s with Some a => kind_of a = Some k /\ wf_arg a | None => True end) prop_kinds slots /\
      Blen (enc_header_payload cls weight size slots) <= max_frame
  | FrBody ch body => ch < 2 ^ 16 /\ Blen body <= max_frame
  end.

Lemma enc_slots_len slots a : In (Some a) slots -> (length (enc_arg a) <= length (concat (map enc_slot slots)))%nat.
Proof.
  induction slots as [|s slots IH]; [contradiction|]. intros [->|Hin]; cbn [map concat enc_slot]; rewrite app_length; [lia|].
  specialize (IH Hin). lia.
Qed.

Theorem parse_header_roundtrip : forall ch cls weight size flags slots, wf_frame (FrHeader ch cls weight size flags slots) ->
  parse_header ch (enc_header_payload cls weight size slots) = POk (FrHeader ch cls weight size flags slots) [].
Proof.
  intros ch cls weight size flags slots (Hch & Hc & Hw & Hs & Hfl & Hsl & _).
  assert (Hlen : length slots = 14%nat).
  { assert (H : forall A B (P : A -> B -> Prop) l1 l2, Forall2 P l1 l2 -> length l1 = length l2) by (induction 1; cbn; congruence).
    apply H in Hsl. cbn in Hsl. lia. }
  destruct (flags_facts slots Hlen) as [Hfb Hft].
  unfold parse_header. unfold enc_header_payload at 1.
  rewrite (pnum_enc 2) by (change (256 ^ N.of_nat 2) with (2 ^ 16); exact Hc). cbn [pbind].
  rewrite (pnum_enc 2) by (change (256 ^ N.of_nat 2) with (2 ^ 16); exact Hw). cbn [pbind].
  rewrite (pnum_enc 8) by (change (256 ^ N.of_nat 8) with 18446744073709551616; lia). cbn [pbind].
  assert (Hcap : (512 <? size) = false) by (apply N.ltb_ge; exact Hs). rewrite Hcap.
  rewrite (pnum_enc 2) by (change (256 ^ N.of_nat 2) with 65536; exact Hfb). cbn [pbind].
  rewrite <- (app_nil_r (concat _)).
  change (fun s : option arg => match s with Some a => enc_arg a | None => [] end) with enc_slot.
  rewrite (read_props_rt (payload_fuel (enc_header_payload cls weight size slots)) (flags_val slots 15) prop_kinds slots).
  - cbn [pbind]. rewrite Hfl. reflexivity.
  - (* every slot is of its kind, not a bit, and the fuel covers its table *)
    clear Hft Hfb Hcap Hfl. unfold payload_fuel, enc_header_payload.
    change (fun s : option arg => match s with Some a => enc_arg a | None => [] end) with enc_slot.
    assert (Hin : forall a, In (Some a) slots -> arg_fuel_ok (length (enc_be 2 cls ++ enc_be 2 weight ++ enc_be 8 size ++ enc_be 2 (flags_val slots 15) ++ concat (map enc_slot slots)) + 2) a).
    { intros a Ha. destruct a; try exact I. cbn [arg_fuel_ok]. pose proof (enc_slots_len slots (ATable t) Ha) as Hl. cbn [enc_arg] in Hl.
      pose proof (tneed_le t). rewrite !app_length. lia. }
    revert Hin. generalize (length (enc_be 2 cls ++ enc_be 2 weight ++ enc_be 8 size ++ enc_be 2 (flags_val slots 15) ++ concat (map enc_slot slots)) + 2)%nat.
    intros fuel Hin. clear Hlen.
    assert (Hnb : Forall (fun k => k <> KBit) prop_kinds) by (repeat constructor; discriminate).
    revert Hnb. induction Hsl as [|k s ks sl Hk Hr IH]; intros Hnb; [constructor|].
    inversion Hnb as [|? ? Hk1 Hk2]; subst.
    constructor.
    + destruct s as [a|]; [|exact I]. destruct Hk as [Hk Hwf]. repeat split; try assumption. apply Hin. left. reflexivity.
    + apply IH; [|exact Hk2]. intros a Ha. apply Hin. right. exact Ha.
  - intros i Hi. rewrite Hlen in Hi. apply Hft. exact Hi.
  - rewrite Hlen. cbn. lia.
Qed.

(* ------------------------------------------------------------------ one frame *)
Definition parse_payload (typ ch : N) (p : bytes) : pres frame :=
  if typ =? 1 then parse_method ch p else if typ =? 2 then parse_header ch p
  else if typ =? 3 then parse_body ch p else parse_heartbeat ch p.

Lemma read_frame_raw : forall typ ch p r tl,
  (typ = 1 \/ typ = 2 \/ typ = 3 \/ typ = 8) -> ch < 2 ^ 16 -> Blen p <= max_frame ->
  read_frame {| sdata := enc_frame_raw typ ch p ++ r; stail := tl |} =
  (match parse_payload typ ch p with
   | POk f _ => Ok f | PErr _ _ => Err EProto | PPanic s => Panic s | PFuel => OutOfFuel
   end, {| sdata := r; stail := tl |}).
Proof.
  intros typ ch p r tl Ht Hch Hp.
  assert (H1 : exists t, enc_be 1 typ = [t] /\ b2n t = typ).
  { exists (b_of_N (typ mod 256)). split; [reflexivity|]. rewrite b2n_b_of_N by (apply N.mod_lt; lia).
    destruct Ht as [ -> | [ -> | [ -> | -> ]]]; reflexivity. }
  destruct H1 as (t & Et & Ht').
  assert (H2 : exists c1 c2, enc_be 2 ch = [c1; c2]) by (eexists; eexists; reflexivity).
  destruct H2 as (c1 & c2 & Ec).
  assert (Hchb : be [c1; c2] = ch) by (rewrite <- Ec; apply be_enc_be; change (256 ^ N.of_nat 2) with (2 ^ 16); exact Hch).
  assert (H4 : exists s1 s2 s3 s4, enc_be 4 (Blen p) = [s1; s2; s3; s4]) by (do 4 eexists; reflexivity).
  destruct H4 as (s1 & s2 & s3 & s4 & Es).
  assert (Hbe : be [s1; s2; s3; s4] = Blen p).
  { rewrite <- Es. apply be_enc_be. unfold max_frame in Hp. change (256 ^ N.of_nat 4) with 4294967296. lia. }
  unfold enc_frame_raw. rewrite Et, Ec, Es. unfold frame_end.
  match goal with |- context [read_frame {| sdata := ?d; stail := _ |}] =>
    replace d with ([t; c1; c2; s1; s2; s3; s4] ++ (p ++ [xce]) ++ r) by (cbn [app]; rewrite <- !app_assoc; reflexivity) end.
  unfold read_frame. rewrite rd_full_app by reflexivity.
  assert (Hmagic : list_eqb Byte.eqb (firstn 4 [t; c1; c2; s1; s2; s3; s4]) amqp_magic = false).
  { cbn [firstn]. unfold amqp_magic, bs. cbn [map list_eqb].
    destruct (Byte.eqb t (b_of_N 65)) eqn:E; [|reflexivity].
    apply Byte.byte_dec_bl in E. subst t. exfalso. change (b2n (b_of_N 65)) with 65 in Ht'. lia. }
  rewrite Hmagic. cbn [firstn skipn]. rewrite Hbe, Hchb.
  assert (Hsz : (max_frame <? Blen p) = false) by (apply N.ltb_ge; exact Hp). rewrite Hsz.
  assert (Htyp : be [t] = typ) by (unfold be; cbn [fold_left]; lia). rewrite Htyp.
  assert (Hknown : negb ((typ =? 1) || (typ =? 2) || (typ =? 3) || (typ =? 8)) = false).
  { destruct Ht as [ -> | [ -> | [ -> | -> ]]]; reflexivity. }
  rewrite Hknown.
  rewrite rd_full_app by (rewrite Blen_app; reflexivity).
  assert (Hnth : nth_error (p ++ [xce]) (N.to_nat (Blen p)) = Some xce).
  { unfold Blen. rewrite Nat2N.id. rewrite nth_error_app2 by lia. rewrite Nat.sub_diag. reflexivity. }
  rewrite Hnth. change (negb (b2n xce =? 206)) with false. cbv iota.
  assert (Hfirst : firstn (N.to_nat (Blen p)) (p ++ [xce]) = p).
  { unfold Blen. rewrite Nat2N.id. rewrite firstn_app, Nat.sub_diag, firstn_all, firstn_O, app_nil_r. reflexivity. }
  rewrite Hfirst. unfold parse_payload. destruct (if typ =? 1 then _ else _); reflexivity.
Qed.

Theorem read_frame_roundtrip : forall f r tl, wf_frame f ->
  read_frame {| sdata := enc_frame f ++ r; stail := tl |} = (Ok f, {| sdata := r; stail := tl |}).
Proof.
  intros f r tl Hwf. destruct f as [|ch|ch cls meth args|ch cls weight size flags slots|ch body]; cbn [enc_frame].
  - apply proto_header_exact.
  - cbn [wf_frame] in Hwf. rewrite read_frame_raw by (tauto || exact Hwf || (unfold Blen, max_frame; cbn; lia)). reflexivity.
  - destruct Hwf as (Hch & Hm & Hlen). rewrite read_frame_raw by (tauto || assumption).
    unfold parse_payload. cbn [N.eqb Pos.eqb]. rewrite (parse_method_roundtrip ch cls meth args Hm). reflexivity.
  - pose proof Hwf as (Hch & _ & _ & _ & _ & _ & Hlen). rewrite read_frame_raw by (tauto || assumption).
    unfold parse_payload. cbn [N.eqb Pos.eqb]. rewrite (parse_header_roundtrip ch cls weight size flags slots Hwf). reflexivity.
  - destruct Hwf as (Hch & Hlen). rewrite read_frame_raw by (tauto || assumption). reflexivity.
Qed.

(* ------------------------------------------------------------------ sequences of frames *)
Definition enc_frames (fs : list frame) : bytes := concat (map enc_frame fs).
Definition run_frames (is_client : bool) (fs : list frame) (acc : dstate * mstate) : dstate * mstate :=
  fold_left (fun acc f => step is_client f (fst acc) (snd acc)) fs acc.
Definition end_outcome (tl : tail) : outcome := match tl with TEof => OEof | _ => OError end.

Theorem dissect_frames : forall fs, Forall wf_frame fs -> forall fuel is_client tl d ms, (length fs < fuel)%nat ->
  dissect fuel is_client {| sdata := enc_frames fs; stail := tl |} d ms =
  (end_outcome tl, snd (run_frames is_client fs (d, ms))).
Proof.
  induction 1 as [|f fs Hf Hfs IH]; intros fuel is_client tl d ms Hfuel.
  - destruct fuel as [|fuel]; [lia|]. destruct tl; reflexivity.
  - destruct fuel as [|fuel]; [lia|]. cbn [length] in Hfuel.
    unfold enc_frames. cbn [map concat]. fold (enc_frames fs). cbn [dissect].
    rewrite (read_frame_roundtrip f (enc_frames fs) tl Hf).
    unfold run_frames. cbn [fold_left fst snd]. destruct (step is_client f d ms) as [d1 ms1] eqn:Es.
    rewrite IH by lia. reflexivity.
Qed.

Lemma enc_frame_nonempty f : (1 <= length (enc_frame f))%nat.
Proof.
  destruct f; cbn [enc_frame]; unfold enc_frame_raw, proto_header; rewrite ?app_length, ?enc_be_length; cbn [length]; lia.
Qed.

Lemma enc_frames_len fs : (length fs <= length (enc_frames fs))%nat.
Proof.
  induction fs as [|f fs IH]; [cbn; lia|]. unfold enc_frames in *. cbn [map concat length]. rewrite app_length.
  pose proof (enc_frame_nonempty f). lia.
Qed.

(* C05, conversations (partial: see the statement in Properties/C05.v): with the client half
   processed first - the order of the suite - what both Dissect calls emit and leave in the
   matcher is the fold of `step` over the abstract frames of the client, then of the server *)
Theorem report_frames : forall cfs sfs ct st_, Forall wf_frame cfs -> Forall wf_frame sfs ->
  dissect_both true {| sdata := enc_frames cfs; stail := ct |} {| sdata := enc_frames sfs; stail := st_ |} =
  (end_outcome ct, end_outcome st_,
   snd (run_frames false sfs (init_dstate, snd (run_frames true cfs (init_dstate, init_mstate))))).
Proof.
  intros cfs sfs ct st_ Hc Hs. unfold dissect_both.
  rewrite (dissect_frames cfs Hc) by (unfold dissect_fuel; cbn [sdata]; pose proof (enc_frames_len cfs); lia).
  rewrite (dissect_frames sfs Hs) by (unfold dissect_fuel; cbn [sdata]; pose proof (enc_frames_len sfs); lia).
  reflexivity.
Qed.

(* ------------------------------------------------------------------ the full statement and what is left of it *)
Definition item_view (it : item) : sitem := (it_req it, it_res it).

(* C05 at full strength on the model: for conversations in normal form (no recorded finding
   class triggered) both halves end cleanly and the items are exactly the specification's
   report.  Not proved here; checked by computation on every generated normal-form conversation
   (AmqpEq.spec_check inside the correspondence run). *)
Definition C05_statement : Prop := forall cfs sfs, Forall wf_frame cfs -> Forall wf_frame sfs -> normal cfs sfs = true ->
  let '(oc, os, ms) := dissect_both true {| sdata := enc_frames cfs; stail := TEof |} {| sdata := enc_frames sfs; stail := TEof |} in
  oc = OEof /\ os = OEof /\ map item_view (items ms) = spec_report cfs sfs.

(* what remains after the decoding theorems: the per-frame handling (`step`, with the matcher)
   folded over the abstract frames yields the specification's report *)
Definition step_report_agree : Prop := forall cfs sfs, Forall wf_frame cfs -> Forall wf_frame sfs -> normal cfs sfs = true ->
  map item_view (items (snd (run_frames false sfs (init_dstate, snd (run_frames true cfs (init_dstate, init_mstate)))))) = spec_report cfs sfs.

Theorem statement_from_step : step_report_agree -> C05_statement.
Proof.
  intros H cfs sfs Hc Hs Hn. rewrite (report_frames cfs sfs TEof TEof Hc Hs). cbn [end_outcome].
  repeat split. exact (H cfs sfs Hc Hs Hn).
Qed.
