(* AMQP share of C02: termination on every end-of-stream kind with fuel linear in the input, and
   the facts behind "memory follows the bytes present": a reader hands out n bytes only when n
   bytes are there, and a frame payload is read only after its size passed the 16 MB cap. *)
Require Import V.Base.Prelude V.Amqp.AmqpTypes V.Amqp.AmqpModel V.Amqp.AmqpLemmas V.Amqp.AmqpC01.
Local Open Scope N_scope.

(* fuel = 1 * |input| + 2, for the clean end, one read error, and a reader that errors forever *)
Theorem amqp_C02_terminates : forall is_client data tl d ms,
  let st := {| sdata := data; stail := tl |} in
  fst (dissect (length data + 2) is_client st d ms) <> ONoTerm /\
  (forall p, fst (dissect (length data + 2) is_client st d ms) <> OPanic p).
Proof.
  intros is_client data tl d ms st.
  pose proof (amqp_C01_dissect is_client st d ms) as H. unfold dissect_fuel in H. cbn [sdata st] in H.
  destruct (fst (dissect (length data + 2) is_client st d ms)); cbn in H; try contradiction; split; try discriminate; intros; discriminate.
Qed.

(* one loop iteration per frame header: at most |input| / 7 + 1 iterations do any work *)
Theorem amqp_C02_progress : forall st,
  match fst (read_frame st) with
  | Ok _ | Err EProto => (length (sdata (snd (read_frame st))) + 7 <= length (sdata st))%nat
  | _ => True
  end.
Proof. intros st. exact (proj2 (read_frame_total st)). Qed.

(* readExactly / io.ReadFull on a buffer: n bytes are handed out only if n bytes are present *)
Theorem amqp_C02_take_bounded : forall n s a r, ptake n s = POk a r -> Blen a = n /\ n <= Blen s.
Proof.
  intros n s a r H. pose proof (ptake_spec n s) as Hs. rewrite H in Hs. unfold Blen. lia.
Qed.

(* on the connection: the payload buffer of a frame is filled only after size <= 16 MB, and what
   is handed out never exceeds what the stream held *)
Theorem amqp_C02_read_bounded : forall n st a st1, rd_full n st = (Ok a, st1) -> Blen a = n /\ n <= Blen (sdata st).
Proof.
  intros n st a st1 H. pose proof (rd_full_spec n st) as Hs. rewrite H in Hs. unfold Blen. lia.
Qed.

Theorem amqp_C02_frame_cap : forall st f, fst (read_frame st) = Ok f ->
  (length (sdata st) - length (sdata (snd (read_frame st))) <= N.to_nat max_frame + 8)%nat.
Proof.
  intros st f. unfold read_frame. pose proof (rd_full_spec 7 st) as H7.
  destruct (rd_full 7 st) as [[h| e| |] st1]; try contradiction; cbn [fst snd]; try discriminate.
  destruct H7 as [[Hh H7] _]. change (N.to_nat 7) with 7%nat in *.
  destruct (list_eqb Byte.eqb (firstn 4 h) amqp_magic).
  - pose proof (rd_full_spec 1 st1) as H1. destruct (rd_full 1 st1) as [[a| e| |] st2]; try contradiction; cbn [fst snd]; try discriminate.
    intros _. destruct H1 as [[_ H1] _]. change (N.to_nat 1) with 1%nat in H1. lia.
  - destruct (N.ltb_spec max_frame (be (skipn 3 h))) as [Hm|Hm]; [cbn [fst]; discriminate|].
    destruct (negb _); [cbn [fst]; discriminate|].
    pose proof (rd_full_spec (be (skipn 3 h) + 1) st1) as H2.
    destruct (rd_full (be (skipn 3 h) + 1) st1) as [[rest| e| |] st2]; try contradiction; cbn [fst snd]; try discriminate.
    destruct H2 as [[_ H2] _]. intros _.
    destruct (nth_error rest (N.to_nat (be (skipn 3 h)))); [|cbn [snd]; lia].
    destruct (negb _); [cbn [snd]; lia|].
    destruct (if be (firstn 1 h) =? 1 then _ else _); cbn [snd]; lia.
Qed.
