(* AMQP 0-9-1 dissector: executable model of pkg/extensions/amqp (read.go, spec091.go, main.go,
   matcher.go, helpers.go getIdent) AFTER the fix commits recorded in known/amqp.json.  Written
   from the Go text function by function; no proofs here (AmqpProofs.v etc.), so that the model
   still runs when a proof breaks.

   Conventions: the connection is a flat byte list plus a tail kind (what io.ReadFull /
   io.CopyN on the bufio.Reader over the mock TcpReader observe); payload-level readers work on
   the payload buffer that readFrame takes off the connection first.  Every Go site that can
   panic is an explicit PPanic/Panic branch carrying the Go line number. *)
Require Import V.Base.Prelude V.Amqp.AmqpTypes.
Local Open Scope N_scope.

(* ------------------------------------------------------------------ payload-level results *)
(* PErr carries what is left unread at the point of failure: readArray swallows io.EOF and goes
   on from there (read.go readArray). *)
Inductive pres (A : Type) :=
| POk (a : A) (rest : bytes)
| PErr (e : errclass) (rest : bytes)
| PPanic (site : nat)
| PFuel.
Arguments POk {A} a rest.
Arguments PErr {A} e rest.
Arguments PPanic {A} site.
Arguments PFuel {A}.

Definition pbind {A B} (r : pres A) (f : A -> bytes -> pres B) : pres B :=
  match r with
  | POk a rest => f a rest
  | PErr e rest => PErr e rest
  | PPanic s => PPanic s
  | PFuel => PFuel
  end.
Notation "'let+' ( x , r ) ':=' e 'in' k" := (pbind e (fun x r => k))
  (at level 200, x name, r name, e at level 100, k at level 200).

Definition be (l : bytes) : N := fold_left (fun acc b => acc * 256 + b2n b) l 0.

(* read.go readTimestamp: time.Unix(sec, 0).UTC(); a year outside 0..9999 gives the zero time.
   0000-01-01T00:00:00Z is -62167219200, 10000-01-01T00:00:00Z is 253402300800; below
   -9223372028715321600 the absolute-seconds view of package time wraps in uint64 to a huge
   positive year, which is replaced as well. *)
Definition zero_time : Z := (-62135596800)%Z.
Definition clamp_time (sec : Z) : Z :=
  if ((sec <? -62167219200) || (253402300800 <=? sec))%Z then zero_time else sec.
Definition signed (w : N) (n : N) : Z :=
  if n <? 2 ^ (w - 1) then Z.of_N n else (Z.of_N n - Z.of_N (2 ^ w))%Z.

(* io.ReadFull / readExactly of n bytes from a finite buffer: io.EOF when nothing is left,
   io.ErrUnexpectedEOF when some but not enough; either way the buffer is drained *)
Definition ptake (n : N) (s : bytes) : pres bytes :=
  if n <=? Blen s then POk (firstn (N.to_nat n) s) (skipn (N.to_nat n) s)
  else PErr (match s with [] => EEOF | _ => EUnexpectedEOF end) [].
Definition pnum (w : N) (s : bytes) : pres N := let+ (b, r) := ptake w s in POk (be b) r.

(* read.go readShortStr *)
Definition read_shortstr (s : bytes) : pres bytes := let+ (n, r) := pnum 1 s in ptake n r.
(* read.go readLongStr: a length above MaxInt32 yields "" and consumes nothing more *)
Definition read_longstr (s : bytes) : pres bytes :=
  let+ (n, r) := pnum 4 s in if 2147483647 <? n then POk [] r else ptake n r.

(* read.go readField / readTable / readArray.  Tables recurse on the extracted long string,
   arrays on the view an io.LimitedReader gives (the first `size` bytes of what is left);
   fuel = byte length + 2 suffices (AmqpC02.v). *)
Inductive ftag := TgBool | TgByte | TgShort | TgInt | TgLong | TgFloat | TgDouble | TgDecimal | TgStr | TgArr
                | TgTime | TgTable | TgBytes | TgVoid | TgBad.
Definition ftag_of (t : N) : ftag :=
  match t with
  | 116 => TgBool | 98 => TgByte | 115 => TgShort | 73 => TgInt | 108 => TgLong | 102 => TgFloat | 100 => TgDouble
  | 68 => TgDecimal | 83 => TgStr | 65 => TgArr | 84 => TgTime | 70 => TgTable | 120 => TgBytes | 86 => TgVoid
  | _ => TgBad
  end.

Fixpoint read_field (fuel : nat) (s : bytes) {struct fuel} : pres fv :=
  match fuel with
  | O => PFuel
  | S fuel' =>
    let+ (t, r) := pnum 1 s in
    match ftag_of t with
    | TgBool (* t *) => let+ (v, r1) := pnum 1 r in POk (FBool (negb (v =? 0))) r1
    | TgByte (* b *) => let+ (v, r1) := pnum 1 r in POk (FByte v) r1
    | TgShort (* s *) => let+ (v, r1) := pnum 2 r in POk (FShort (signed 16 v)) r1
    | TgInt (* I *) => let+ (v, r1) := pnum 4 r in POk (FInt (signed 32 v)) r1
    | TgLong (* l *) => let+ (v, r1) := pnum 8 r in POk (FLong (signed 64 v)) r1
    | TgFloat (* f *) => let+ (v, r1) := pnum 4 r in POk (FFloat v) r1
    | TgDouble (* d *) => let+ (v, r1) := pnum 8 r in POk (FDouble v) r1
    | TgDecimal (* D *) => let+ (sc, r1) := pnum 1 r in let+ (v, r2) := pnum 4 r1 in POk (FDecimal sc (signed 32 v)) r2
    | TgStr (* S *) => let+ (str, r1) := read_longstr r in POk (FStr str) r1
    | TgArr (* A *) =>
        let+ (size, r1) := pnum 4 r in
        let k := N.to_nat (N.min size (Blen r1)) in
        match read_array_items fuel' (firstn k r1) with
        | POk arr view' => POk (FArr arr) (view' ++ skipn k r1)
        | PErr e view' => PErr e (view' ++ skipn k r1)
        | PPanic p => PPanic p
        | PFuel => PFuel
        end
    | TgTime (* T *) => let+ (v, r1) := pnum 8 r in POk (FTime (clamp_time (signed 64 v))) r1
    | TgTable (* F *) =>
        let+ (str, r1) := read_longstr r in
        match read_table_entries fuel' str with
        | POk tbl _ => POk (FTable tbl) r1
        | PErr e _ => PErr e r1
        | PPanic p => PPanic p
        | PFuel => PFuel
        end
    | TgBytes (* x *) =>
        let+ (n, r1) := pnum 4 r in
        if (signed 32 n <? 0)%Z then PErr EProto r1          (* fix D18: was makeslice panic *)
        else let+ (v, r2) := ptake n r1 in POk (FBytes v) r2
    | TgVoid (* V *) => POk FVoid r
    | TgBad => PErr EProto r                                   (* ErrSyntax *)
    end
  end
with read_table_entries (fuel : nat) (s : bytes) {struct fuel} : pres table :=
  match fuel with
  | O => PFuel
  | S fuel' =>
    match s with
    | [] => POk [] []                                          (* for nested.Len() > 0 *)
    | _ =>
      let+ (k, r) := read_shortstr s in
      let+ (v, r1) := read_field fuel' r in
      let+ (rest, r2) := read_table_entries fuel' r1 in
      POk ((k, v) :: rest) r2
    end
  end
with read_array_items (fuel : nat) (s : bytes) {struct fuel} : pres (list fv) :=
  match fuel with
  | O => PFuel
  | S fuel' =>
    match read_field fuel' s with
    | POk v r => let+ (vs, r1) := read_array_items fuel' r in POk (v :: vs) r1
    | PErr EEOF r => POk [] r                                  (* if err == io.EOF { break } *)
    | PErr e r => PErr e r
    | PPanic p => PPanic p
    | PFuel => PFuel
    end
  end.

(* read.go readTable *)
Definition read_table (fuel : nat) (s : bytes) : pres table :=
  let+ (str, r1) := read_longstr s in
  match read_table_entries fuel str with
  | POk tbl _ => POk tbl r1
  | PErr e _ => PErr e r1
  | PPanic p => PPanic p
  | PFuel => PFuel
  end.

(* ------------------------------------------------------------------ method arguments (spec091.go) *)
(* (kind, exported): the Go struct field is exported, i.e. visible in what is reported *)
Definition sig_table : list (N * N * list (akind * bool)) := [
  (10, 10, [(KOctet, true); (KOctet, true); (KTable, true); (KLongStr, true); (KLongStr, true)]);
  (10, 11, [(KTable, true); (KShortStr, true); (KLongStr, true); (KShortStr, true)]);
  (10, 20, [(KLongStr, true)]);
  (10, 21, [(KLongStr, true)]);
  (10, 30, [(KShort, true); (KLong, true); (KShort, true)]);
  (10, 31, [(KShort, true); (KLong, true); (KShort, true)]);
  (10, 40, [(KShortStr, true); (KShortStr, false); (KBit, false)]);
  (10, 41, [(KShortStr, false)]);
  (10, 50, [(KShort, true); (KShortStr, true); (KShort, true); (KShort, true)]);
  (10, 51, []);
  (10, 60, [(KShortStr, true)]);
  (10, 61, []);
  (20, 10, [(KShortStr, false)]);
  (20, 11, [(KLongStr, false)]);
  (20, 20, [(KBit, true)]);
  (20, 21, [(KBit, true)]);
  (20, 40, [(KShort, true); (KShortStr, true); (KShort, true); (KShort, true)]);
  (20, 41, []);
  (40, 10, [(KShort, false); (KShortStr, true); (KShortStr, true); (KBit, true); (KBit, true); (KBit, true); (KBit, true); (KBit, true); (KTable, true)]);
  (40, 11, []);
  (40, 20, [(KShort, false); (KShortStr, true); (KBit, true); (KBit, true)]);
  (40, 21, []);
  (40, 30, [(KShort, false); (KShortStr, true); (KShortStr, true); (KShortStr, true); (KBit, true); (KTable, true)]);
  (40, 31, []);
  (40, 40, [(KShort, false); (KShortStr, true); (KShortStr, true); (KShortStr, true); (KBit, true); (KTable, true)]);
  (40, 51, []);
  (50, 10, [(KShort, false); (KShortStr, true); (KBit, true); (KBit, true); (KBit, true); (KBit, true); (KBit, true); (KTable, true)]);
  (50, 11, [(KShortStr, true); (KLong, true); (KLong, true)]);
  (50, 20, [(KShort, false); (KShortStr, true); (KShortStr, true); (KShortStr, true); (KBit, true); (KTable, true)]);
  (50, 21, []);
  (50, 50, [(KShort, false); (KShortStr, true); (KShortStr, true); (KShortStr, true); (KTable, true)]);
  (50, 51, []);
  (50, 30, [(KShort, false); (KShortStr, true); (KBit, true)]);
  (50, 31, [(KLong, true)]);
  (50, 40, [(KShort, false); (KShortStr, true); (KBit, true); (KBit, true); (KBit, true)]);
  (50, 41, [(KLong, true)]);
  (60, 10, [(KLong, true); (KShort, true); (KBit, true)]);
  (60, 11, []);
  (60, 20, [(KShort, false); (KShortStr, true); (KShortStr, true); (KBit, true); (KBit, true); (KBit, true); (KBit, true); (KTable, true)]);
  (60, 21, [(KShortStr, true)]);
  (60, 30, [(KShortStr, true); (KBit, true)]);
  (60, 31, [(KShortStr, true)]);
  (60, 40, [(KShort, false); (KShortStr, true); (KShortStr, true); (KBit, true); (KBit, true)]);
  (60, 50, [(KShort, true); (KShortStr, true); (KShortStr, true); (KShortStr, true)]);
  (60, 60, [(KShortStr, true); (KLongLong, true); (KBit, true); (KShortStr, true); (KShortStr, true)]);
  (60, 70, [(KShort, false); (KShortStr, true); (KBit, true)]);
  (60, 71, [(KLongLong, true); (KBit, true); (KShortStr, true); (KShortStr, true); (KLong, true)]);
  (60, 72, [(KShortStr, false)]);
  (60, 80, [(KLongLong, true); (KBit, true)]);
  (60, 90, [(KLongLong, true); (KBit, true)]);
  (60, 100, [(KBit, true)]);
  (60, 110, [(KBit, true)]);
  (60, 111, []);
  (60, 120, [(KLongLong, true); (KBit, true); (KBit, true)]);
  (90, 10, []);
  (90, 11, []);
  (90, 20, []);
  (90, 21, []);
  (90, 30, []);
  (90, 31, []);
  (85, 10, [(KBit, true)]);
  (85, 11, [])].

(* parseMethodFrame's switch on class and method id *)
Fixpoint lookup_sig (cls meth : N) (l : list (N * N * list (akind * bool))) : option (list (akind * bool)) :=
  match l with
  | [] => None
  | (c, m, sig) :: l' => if (cls =? c) && (meth =? m) then Some sig else lookup_sig cls meth l'
  end.
Definition method_sig (cls meth : N) : option (list (akind * bool)) := lookup_sig cls meth sig_table.

(* the generated read methods: consecutive bits share one octet read at the first of them *)
Fixpoint read_args (fuel : nat) (ks : list akind) (bits : option (N * N)) (s : bytes) {struct ks} : pres (list arg) :=
  match ks with
  | [] => POk [] s
  | KBit :: ks' =>
      match bits with
      | Some (b, i) => let+ (rest, r) := read_args fuel ks' (Some (b, i + 1)) s in POk (ABit (N.testbit b i) :: rest) r
      | None => let+ (b, r0) := pnum 1 s in
                let+ (rest, r) := read_args fuel ks' (Some (b, 1)) r0 in POk (ABit (N.testbit b 0) :: rest) r
      end
  | k :: ks' =>
      let+ (a, r0) :=
        match k with
        | KOctet => let+ (v, r) := pnum 1 s in POk (AOctet v) r
        | KShort => let+ (v, r) := pnum 2 s in POk (AShort v) r
        | KLong => let+ (v, r) := pnum 4 s in POk (ALong v) r
        | KLongLong => let+ (v, r) := pnum 8 s in POk (ALongLong v) r
        | KShortStr => let+ (v, r) := read_shortstr s in POk (AShortStr v) r
        | KLongStr => let+ (v, r) := read_longstr s in POk (ALongStr v) r
        | KTable => let+ (v, r) := read_table fuel s in POk (ATable v) r
        | KTime => let+ (v, r) := pnum 8 s in POk (ATime (clamp_time (signed 64 v))) r
        | KBit => POk ANull s
        end in
      let+ (rest, r) := read_args fuel ks' None r0 in POk (a :: rest) r
  end.

Definition payload_fuel (p : bytes) : nat := length p + 2.

(* spec091.go parseMethodFrame *)
Definition parse_method (ch : N) (p : bytes) : pres frame :=
  let+ (cls, r) := pnum 2 p in
  let+ (meth, r1) := pnum 2 r in
  match method_sig cls meth with
  | None => PErr EProto r1                                   (* ErrBadMethodFrameUnknownMethod / Class *)
  | Some sig => let+ (args, r2) := read_args (payload_fuel p) (map fst sig) None r1 in
                POk (FrMethod ch cls meth args) r2
  end.

(* read.go parseHeaderFrame: the 14 property flags from 0x8000 down *)
Definition prop_kinds : list akind :=
  [KShortStr; KShortStr; KTable; KOctet; KOctet; KShortStr; KShortStr; KShortStr; KShortStr; KTime;
   KShortStr; KShortStr; KShortStr; KShortStr].

Fixpoint read_props (fuel : nat) (ks : list akind) (flags : N) (bit : N) (s : bytes) {struct ks} : pres (list (option arg)) :=
  match ks with
  | [] => POk [] s
  | k :: ks' =>
      if N.testbit flags bit then
        let+ (a, r0) := read_args fuel [k] None s in
        let+ (rest, r) := read_props fuel ks' flags (bit - 1) r0 in POk (hd_error a :: rest) r
      else
        let+ (rest, r) := read_props fuel ks' flags (bit - 1) s in POk (None :: rest) r
  end.

Definition parse_header (ch : N) (p : bytes) : pres frame :=
  let+ (cls, r) := pnum 2 p in
  let+ (weight, r1) := pnum 2 r in
  let+ (size, r2) := pnum 8 r1 in
  if 512 <? size then PErr EProto r2                          (* ErrMaxHeaderFrameSize *)
  else
    let+ (flags, r3) := pnum 2 r2 in
    let+ (props, r4) := read_props (payload_fuel p) prop_kinds flags 15 r3 in
    POk (FrHeader ch cls weight size flags props) r4.

Definition parse_body (ch : N) (p : bytes) : pres frame := POk (FrBody ch p) [].
Definition parse_heartbeat (ch : N) (p : bytes) : pres frame :=
  match p with [] => POk (FrHeartbeat ch) [] | _ => PErr EProto p end.

(* ------------------------------------------------------------------ the connection *)
Record stream := { sdata : bytes; stail : tail }.

(* io.ReadFull / readExactly of n >= 1 bytes from the bufio.Reader over the TcpReader *)
Definition rd_full (n : N) (st : stream) : res bytes * stream :=
  if n <=? Blen (sdata st) then
    (Ok (firstn (N.to_nat n) (sdata st)), {| sdata := skipn (N.to_nat n) (sdata st); stail := stail st |})
  else
    match stail st with
    | TEof => (Err (match sdata st with [] => EEOF | _ => EUnexpectedEOF end), {| sdata := []; stail := TEof |})
    | TErrOnce => (Err EIO, {| sdata := []; stail := TEof |})
    | TErrForever => (Err EIO, {| sdata := []; stail := TErrForever |})
    end.

Definition amqp_magic : bytes := bs [65; 77; 81; 80].
Definition max_frame : N := 16000000.

(* read.go readFrame *)
Definition read_frame (st : stream) : res frame * stream :=
  match rd_full 7 st with
  | (Ok h, st1) =>
      if list_eqb Byte.eqb (firstn 4 h) amqp_magic then
        match rd_full 1 st1 with
        | (Ok _, st2) => (Ok FrProto, st2)
        | (Err e, st2) => (Err e, st2)
        | (Panic p, st2) => (Panic p, st2)
        | (OutOfFuel, st2) => (OutOfFuel, st2)
        end
      else
        let typ := be (firstn 1 h) in
        let ch := be (firstn 2 (skipn 1 h)) in
        let size := be (skipn 3 h) in
        if max_frame <? size then (Err EProto, st1)            (* ErrMaxSize *)
        else if negb ((typ =? 1) || (typ =? 2) || (typ =? 3) || (typ =? 8)) then (Err EProto, st1)   (* ErrFrame *)
        else
          match rd_full (size + 1) st1 with
          | (Ok rest, st2) =>
              match nth_error rest (N.to_nat size) with
              | None => (Panic 85, st2)                        (* rest[size] *)
              | Some e =>
                  if negb (b2n e =? 206) then (Err EProto, st2)
                  else
                    let p := firstn (N.to_nat size) rest in
                    let r := if typ =? 1 then parse_method ch p
                             else if typ =? 2 then parse_header ch p
                             else if typ =? 3 then parse_body ch p
                             else parse_heartbeat ch p in
                    match r with
                    | POk f _ => (Ok f, st2)
                    | PErr _ _ => (Err EProto, st2)            (* *Error as is, anything else -> ErrSyntax *)
                    | PPanic s => (Panic s, st2)
                    | PFuel => (OutOfFuel, st2)
                    end
              end
          | (Err e, st2) => (Err e, st2)
          | (Panic p, st2) => (Panic p, st2)
          | (OutOfFuel, st2) => (OutOfFuel, st2)
          end
  | (Err e, st1) => (Err e, st1)
  | (Panic p, st1) => (Panic p, st1)
  | (OutOfFuel, st1) => (OutOfFuel, st1)
  end.

(* ------------------------------------------------------------------ Dissect (main.go) and the matcher *)
Definition mview := (N * list arg)%type.           (* method id = class*1000+method (0 = "empty"), reported values *)
Definition ident := (N * N * N)%type.              (* channel, class, method family; the 4-tuple is constant *)
Record item := { it_by_client : bool; it_req : mview; it_res : mview; it_swapped : bool }.
Record mstate := { open_msgs : list (ident * (bool * mview)); items : list item }.

Definition ident_eqb (a b : ident) : bool :=
  let '(a1, a2, a3) := a in let '(b1, b2, b3) := b in (a1 =? b1) && (a2 =? b2) && (a3 =? b3).

Fixpoint lookup_del (k : ident) (l : list (ident * (bool * mview))) : option (bool * mview) * list (ident * (bool * mview)) :=
  match l with
  | [] => (None, [])
  | (k', v) :: l' => if ident_eqb k k' then (Some v, l')
                     else let '(r, l'') := lookup_del k l' in (r, (k', v) :: l'')
  end.

(* matcher.go emitEvent + registerRequest / registerResponse (one lock, LoadAndDelete, Store);
   ConnectionInfo is oriented by the reader's side (fix D6): never swapped *)
Definition emit (by_client is_req : bool) (id : ident) (m : mview) (ms : mstate) : mstate :=
  match lookup_del id (open_msgs ms) with
  | (Some (o_req, o), rest) =>
      if Bool.eqb o_req is_req then {| open_msgs := rest; items := items ms |}
      else {| open_msgs := rest;
              items := items ms ++ [{| it_by_client := by_client;
                                        it_req := if is_req then m else o;
                                        it_res := if is_req then o else m;
                                        it_swapped := false |}] |}
  | (None, _) => {| open_msgs := open_msgs ms ++ [(id, (is_req, m))]; items := items ms |}
  end.

Inductive lastk := LNone | LPublish | LDeliver | LOther.
Record dstate := { last : lastk; cur : ident; pub_args : list arg; pub_props : list arg;
                   del_args : list arg; del_props : list arg }.

(* Properties{} : the 13 reported properties *)
Definition zero_props : list arg :=
  [AShortStr []; AShortStr []; ANull; AOctet 0; AOctet 0; AShortStr []; AShortStr []; AShortStr []; AShortStr [];
   ATime zero_time; AShortStr []; AShortStr []; AShortStr []].
Definition init_dstate : dstate :=
  {| last := LNone; cur := (0, 0, 0);
     pub_args := [AShortStr []; AShortStr []; ABit false; ABit false]; pub_props := zero_props;
     del_args := [AShortStr []; ALongLong 0; ABit false; AShortStr []; AShortStr []]; del_props := zero_props |}.

(* main.go: header.Properties.Timestamp.Year() > 9999 -> zero time (subsumed by readTimestamp) *)
Definition year_gt_9999 (sec : Z) : bool := (253402300800 <=? sec)%Z.

Fixpoint props_of (slots : list (option arg)) (dflt : list arg) : list arg :=
  match slots, dflt with
  | s :: slots', d :: dflt' =>
      (match s with
       | Some (ATime z) => ATime (if year_gt_9999 z then zero_time else z)
       | Some a => a
       | None => d
       end) :: props_of slots' dflt'
  | _, _ => []
  end.

Fixpoint reported (sig : list (akind * bool)) (args : list arg) : list arg :=
  match sig, args with
  | (_, true) :: sig', a :: args' => a :: reported sig' args'
  | (_, false) :: sig', _ :: args' => reported sig' args'
  | _, _ => []
  end.

Definition mid (cls meth : N) : N := cls * 1000 + meth.
Definition empty_view : mview := (0, []).

(* methods whose frames are passed to emitEvent as they are *)
Definition plain_emit (cls meth : N) : bool :=
  match cls, meth with
  | 10, 11 | 10, 31 | 10, 40 | 10, 41 | 10, 50 | 10, 51 | 20, 10 | 20, 11 | 40, 10 | 40, 11
  | 50, 10 | 50, 11 | 50, 20 | 50, 21 | 60, 20 | 60, 21 | 60, 30 | 60, 31 => true
  | _, _ => false
  end.

Definition step (is_client : bool) (f : frame) (d : dstate) (ms : mstate) : dstate * mstate :=
  match f with
  | FrProto | FrHeartbeat _ => (d, ms)
  | FrHeader _ _ _ _ _ slots =>
      let p := props_of slots zero_props in
      match last d with
      | LPublish => ({| last := last d; cur := cur d; pub_args := pub_args d; pub_props := p;
                        del_args := del_args d; del_props := del_props d |}, ms)
      | LDeliver => ({| last := last d; cur := cur d; pub_args := pub_args d; pub_props := pub_props d;
                        del_args := del_args d; del_props := p |}, ms)
      | _ => (d, ms)
      end
  | FrBody _ body =>
      match last d with
      | LPublish =>
          let ms1 := emit is_client is_client (cur d) (mid 60 40, pub_args d ++ pub_props d ++ [ALongStr body]) ms in
          (d, emit is_client (negb is_client) (cur d) empty_view ms1)
      | LDeliver =>
          let ms1 := emit is_client (negb is_client) (cur d) (mid 60 60, del_args d ++ del_props d ++ [ALongStr body]) ms in
          (d, emit is_client is_client (cur d) empty_view ms1)
      | _ => (d, ms)
      end
  | FrMethod ch cls meth args =>
      let id := (ch, cls, meth - meth mod 10) in
      let rep := match method_sig cls meth with Some sig => reported sig args | None => [] end in
      let k := if (cls =? 60) && (meth =? 40) then LPublish else if (cls =? 60) && (meth =? 60) then LDeliver else LOther in
      let d1 := {| last := k; cur := id;
                   pub_args := if (cls =? 60) && (meth =? 40) then rep else pub_args d; pub_props := pub_props d;
                   del_args := if (cls =? 60) && (meth =? 60) then rep else del_args d; del_props := del_props d |} in
      if (cls =? 10) && ((meth =? 10) || (meth =? 30)) then
        let ms1 := emit is_client (negb is_client) id (mid cls meth, rep) ms in
        (d1, emit is_client is_client id empty_view ms1)
      else if plain_emit cls meth then (d1, emit is_client is_client id (mid cls meth, rep) ms)
      else (d1, ms)
  end.

Inductive outcome := OEof | OError | OPanic (site : nat) | ONoTerm.

(* main.go Dissect: leaves on io.EOF and (fix D20) on every error that is not a protocol error *)
Fixpoint dissect (fuel : nat) (is_client : bool) (st : stream) (d : dstate) (ms : mstate) : outcome * mstate :=
  match fuel with
  | O => (ONoTerm, ms)
  | S fuel' =>
      match read_frame st with
      | (Ok f, st1) => let '(d1, ms1) := step is_client f d ms in dissect fuel' is_client st1 d1 ms1
      | (Err EEOF, _) => (OEof, ms)
      | (Err EProto, st1) => dissect fuel' is_client st1 d ms
      | (Err _, _) => (OError, ms)
      | (Panic p, _) => (OPanic p, ms)
      | (OutOfFuel, _) => (ONoTerm, ms)
      end
  end.

Definition dissect_fuel (st : stream) : nat := length (sdata st) + 2.
Definition init_mstate : mstate := {| open_msgs := []; items := [] |}.

(* both halves of a connection, one after the other (client_first = the order of the suite) *)
Definition dissect_both (client_first : bool) (c s : stream) : outcome * outcome * mstate :=
  if client_first then
    let '(oc, m1) := dissect (dissect_fuel c) true c init_dstate init_mstate in
    let '(os, m2) := dissect (dissect_fuel s) false s init_dstate m1 in (oc, os, m2)
  else
    let '(os, m1) := dissect (dissect_fuel s) false s init_dstate init_mstate in
    let '(oc, m2) := dissect (dissect_fuel c) true c init_dstate m1 in (oc, os, m2).

(* ------------------------------------------------------------------ observation (what the harness prints) *)
(* Go maps: a repeated key keeps the last value; the harness prints tables sorted by key *)
Fixpoint bytes_ltb (a b : bytes) : bool :=
  match a, b with
  | [], [] => false
  | [], _ => true
  | _, [] => false
  | x :: a', y :: b' => if b2n x <? b2n y then true else if b2n y <? b2n x then false else bytes_ltb a' b'
  end.
Definition bytes_eqb (a b : bytes) : bool := list_eqb Byte.eqb a b.

Fixpoint insert_kv (k : bytes) (v : fv) (l : table) : table :=
  match l with
  | [] => [(k, v)]
  | (k', v') :: l' => if bytes_eqb k k' then (k, v) :: l'
                      else if bytes_ltb k k' then (k, v) :: l
                      else (k', v') :: insert_kv k v l'
  end.

Fixpoint canon_fv (v : fv) : fv :=
  match v with
  | FArr l => FArr (map canon_fv l)
  | FTable t => FTable (fold_left (fun acc kv => insert_kv (fst kv) (canon_fv (snd kv)) acc) t [])
  | _ => v
  end.
Definition canon_table (t : table) : table :=
  fold_left (fun acc kv => insert_kv (fst kv) (canon_fv (snd kv)) acc) t [].
Definition canon_arg (a : arg) : arg := match a with ATable t => ATable (canon_table t) | _ => a end.
Definition canon_view (m : mview) : mview := (fst m, map canon_arg (snd m)).
Definition canon_item (i : item) : item :=
  {| it_by_client := it_by_client i; it_req := canon_view (it_req i); it_res := canon_view (it_res i); it_swapped := it_swapped i |}.

(* residue: (channel, class, family, is_request, method id), sorted by key *)
Definition residue_entry := (N * N * N * bool * N)%type.
Definition ident_ltb (a b : ident) : bool :=
  let '(a1, a2, a3) := a in let '(b1, b2, b3) := b in
  if a1 <? b1 then true else if b1 <? a1 then false else
  if a2 <? b2 then true else if b2 <? a2 then false else a3 <? b3.
Fixpoint insert_res (e : ident * (bool * mview)) (l : list (ident * (bool * mview))) :=
  match l with
  | [] => [e]
  | e' :: l' => if ident_ltb (fst e) (fst e') then e :: l else e' :: insert_res e l'
  end.
Definition residue (ms : mstate) : list residue_entry :=
  map (fun e => let '((ch, cls, fam), (rq, m)) := e in (ch, cls, fam, rq, fst m))
      (fold_left (fun acc e => insert_res e acc) (open_msgs ms) []).

Definition observe (r : outcome * outcome * mstate) : outcome * outcome * list item * list residue_entry :=
  let '(oc, os, ms) := r in (oc, os, map canon_item (items ms), residue ms).
