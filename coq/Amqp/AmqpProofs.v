(* Round trips: what the specification's encoder writes, the model's readers read back exactly,
   leaving the rest of the stream untouched (DESIGN.md 5.C05). *)
Require Import V.Base.Prelude V.Amqp.AmqpTypes V.Amqp.AmqpModel V.Amqp.AmqpSpec V.Amqp.AmqpLemmas.
Local Open Scope byte_scope.
Local Open Scope N_scope.

(* induction over field values with the nested lists *)
Section FvInd.
  Variable P : fv -> Prop.
  Hypothesis HBool : forall b, P (FBool b).
  Hypothesis HByte : forall n, P (FByte n).
  Hypothesis HShort : forall z, P (FShort z).
  Hypothesis HInt : forall z, P (FInt z).
  Hypothesis HLong : forall z, P (FLong z).
  Hypothesis HFloat : forall n, P (FFloat n).
  Hypothesis HDouble : forall n, P (FDouble n).
  Hypothesis HDecimal : forall s z, P (FDecimal s z).
  Hypothesis HStr : forall s, P (FStr s).
  Hypothesis HArr : forall l, Forall P l -> P (FArr l).
  Hypothesis HTime : forall z, P (FTime z).
  Hypothesis HTable : forall t, Forall (fun kv => P (snd kv)) t -> P (FTable t).
  Hypothesis HBytes : forall s, P (FBytes s).
  Hypothesis HVoid : P FVoid.
  Fixpoint fv_ind' (v : fv) : P v :=
    match v with
    | FBool b => HBool b | FByte n => HByte n | FShort z => HShort z | FInt z => HInt z | FLong z => HLong z
    | FFloat n => HFloat n | FDouble n => HDouble n | FDecimal s z => HDecimal s z | FStr s => HStr s
    | FArr l => HArr l ((fix go (l : list fv) : Forall P l :=
                           match l with [] => Forall_nil _ | x :: l' => Forall_cons x (fv_ind' x) (go l') end) l)
    | FTime z => HTime z
    | FTable t => HTable t ((fix go (t : table) : Forall (fun kv => P (snd kv)) t :=
                               match t with [] => Forall_nil _ | kv :: t' => Forall_cons kv (fv_ind' (snd kv)) (go t') end) t)
    | FBytes s => HBytes s | FVoid => HVoid
    end.
End FvInd.

Lemma wf_arr_split l : wf_fv (FArr l) -> Blen (enc_items l) < 2 ^ 32 /\ wf_items l.
Proof.
  cbn [wf_fv]. intros [H1 H2]. split; [exact H1|].
  unfold wf_items. clear H1. induction l as [|x l IH]; [constructor|]. destruct H2 as [Hx Hl]. constructor; [exact Hx|]. apply IH. exact Hl.
Qed.
Lemma wf_tab_split t : wf_fv (FTable t) -> wf_table t.
Proof.
  cbn [wf_fv]. intros [H1 H2]. split; [exact H1|].
  unfold wf_entries. clear H1. induction t as [|x t IH]; [constructor|]. destruct H2 as [Hx Hl]. constructor; [exact Hx|]. apply IH. exact Hl.
Qed.
Lemma fneed_arr l : fneed (FArr l) = S (aneed l).
Proof. reflexivity. Qed.
Lemma fneed_tab t : fneed (FTable t) = S (tneed t).
Proof. reflexivity. Qed.

Definition field_rt (v : fv) : Prop :=
  wf_fv v -> forall fuel r, (fneed v <= fuel)%nat -> read_field fuel (enc_field v ++ r) = POk v r.

Lemma read_field_step fuel s :
  read_field (S fuel) s = ltac:(let t := eval cbv beta iota delta [read_field] in (read_field (S fuel) s) in
                               let t' := eval cbv beta iota in t in exact t').
Proof. reflexivity. Qed.

Lemma items_rt l : Forall field_rt l -> wf_items l -> forall fuel, (aneed l <= fuel)%nat ->
  read_array_items fuel (enc_items l) = POk l [].
Proof.
  induction 1 as [|v l Hv Hl IH]; intros Hwf fuel Hf.
  - cbn [aneed] in Hf. destruct fuel as [|[|fuel]]; try lia. reflexivity.
  - inversion Hwf as [|? ? Hwv Hwl]; subst. cbn [aneed] in Hf. destruct fuel as [|fuel]; [lia|].
    unfold enc_items. cbn [map concat]. fold (enc_items l).
    cbn [read_array_items]. rewrite (Hv Hwv) by lia. rewrite IH by (assumption || lia). reflexivity.
Qed.

Lemma entries_rt t : Forall (fun kv => field_rt (snd kv)) t -> wf_entries t -> forall fuel, (tneed t <= fuel)%nat ->
  read_table_entries fuel (enc_entries t) = POk t [].
Proof.
  induction 1 as [|[k v] t Hv Ht IH]; intros Hwf fuel Hf.
  - cbn [tneed] in Hf. destruct fuel as [|fuel]; [lia|]. reflexivity.
  - inversion Hwf as [|? ? [Hk Hwv] Hwt]; subst. cbn [tneed snd] in Hf. destruct fuel as [|fuel]; [lia|].
    unfold enc_entries. cbn [map concat fst snd]. fold (enc_entries t). cbn [fst snd] in *.
    cbn [read_table_entries].
    assert (Hne : exists b s', (enc_shortstr k ++ enc_field v) ++ enc_entries t = b :: s').
    { unfold enc_shortstr. cbn [enc_be app]. eexists. eexists. reflexivity. }
    destruct Hne as (b & s' & Hne). rewrite Hne. rewrite <- Hne. clear b s' Hne.
    rewrite <- !app_assoc. rewrite read_shortstr_enc by exact Hk. cbn [pbind].
    rewrite (Hv Hwv) by lia. cbn [pbind]. rewrite IH by (assumption || lia). reflexivity.
Qed.

Lemma field_roundtrip_all : forall v, field_rt v.
Proof.
  induction v using fv_ind'; intros Hwf fuel r Hf; (destruct fuel as [|fuel]; [cbn [fneed] in Hf; lia|]);
    cbn [enc_field]; rewrite <- ?app_comm_cons; cbn [read_field]; rewrite pnum1_cons; cbn [pbind].
  - (* bool *) change (ftag_of (b2n "t")) with (ftag_of 116); cbv beta iota delta [ftag_of]. cbn [app]. rewrite pnum1_cons. cbn [pbind]. destruct b; reflexivity.
  - (* byte *) change (ftag_of (b2n "b")) with (ftag_of 98); cbv beta iota delta [ftag_of]. cbn [wf_fv] in Hwf.
    rewrite (pnum_enc 1) by (change (256 ^ N.of_nat 1) with 256; exact Hwf). reflexivity.
  - (* short *) change (ftag_of (b2n "s")) with (ftag_of 115); cbv beta iota delta [ftag_of]. cbn [wf_fv] in Hwf. exact (pnum_enc_s FShort 2 z r ltac:(lia) Hwf).
  - (* int *) change (ftag_of (b2n "I")) with (ftag_of 73); cbv beta iota delta [ftag_of]. cbn [wf_fv] in Hwf. exact (pnum_enc_s FInt 4 z r ltac:(lia) Hwf).
  - (* long *) change (ftag_of (b2n "l")) with (ftag_of 108); cbv beta iota delta [ftag_of]. cbn [wf_fv] in Hwf. exact (pnum_enc_s FLong 8 z r ltac:(lia) Hwf).
  - (* float *) change (ftag_of (b2n "f")) with (ftag_of 102); cbv beta iota delta [ftag_of]. cbn [wf_fv] in Hwf.
    rewrite (pnum_enc 4) by (change (256 ^ N.of_nat 4) with (2 ^ 32); exact Hwf). reflexivity.
  - (* double *) change (ftag_of (b2n "d")) with (ftag_of 100); cbv beta iota delta [ftag_of]. cbn [wf_fv] in Hwf.
    rewrite (pnum_enc 8) by (change (256 ^ N.of_nat 8) with (2 ^ 64); exact Hwf). reflexivity.
  - (* decimal *) change (ftag_of (b2n "D")) with (ftag_of 68); cbv beta iota delta [ftag_of]. cbn [wf_fv] in Hwf. destruct Hwf as [Hs Hz].
    rewrite <- app_assoc. rewrite (pnum_enc 1) by (change (256 ^ N.of_nat 1) with 256; exact Hs). cbn [pbind].
    exact (pnum_enc_s (FDecimal s) 4 z r ltac:(lia) Hz).
  - (* string *) change (ftag_of (b2n "S")) with (ftag_of 83); cbv beta iota delta [ftag_of]. cbn [wf_fv] in Hwf. rewrite read_longstr_enc by exact Hwf. reflexivity.
  - (* array *) change (ftag_of (b2n "A")) with (ftag_of 65); cbv beta iota delta [ftag_of]. apply wf_arr_split in Hwf. destruct Hwf as [Hlen Hwl].
    rewrite fneed_arr in Hf. fold (enc_items l). unfold enc_longstr. rewrite <- app_assoc.
    rewrite (pnum_enc 4) by (change (256 ^ N.of_nat 4) with (2 ^ 32); exact Hlen). cbn [pbind].
    assert (Hmin : N.to_nat (N.min (Blen (enc_items l)) (Blen (enc_items l ++ r))) = length (enc_items l)).
    { rewrite Blen_app. rewrite N.min_l by lia. unfold Blen. apply Nat2N.id. }
    rewrite Hmin. rewrite firstn_app, Nat.sub_diag, firstn_all, firstn_O, app_nil_r.
    rewrite skipn_app, Nat.sub_diag, skipn_all, skipn_O. cbn [app].
    rewrite (items_rt l H Hwl) by lia. reflexivity.
  - (* time *) change (ftag_of (b2n "T")) with (ftag_of 84); cbv beta iota delta [ftag_of]. cbn [wf_fv] in Hwf.
    assert (Hin : in_s (8 * N.of_nat 8) z) by (unfold in_s, time_ok in *; cbn; lia).
    pose proof (pnum_enc_s (fun v => FTime (clamp_time v)) 8 z r ltac:(lia) Hin) as Hp.
    etransitivity; [exact Hp|]. cbv beta. f_equal. f_equal.
    unfold clamp_time, time_ok in *.
    destruct (Z.ltb_spec z (-62167219200)); destruct (Z.leb_spec 253402300800 z); cbn [orb]; lia.
  - (* table *) change (ftag_of (b2n "F")) with (ftag_of 70); cbv beta iota delta [ftag_of]. apply wf_tab_split in Hwf. destruct Hwf as [Hlen Hwt].
    rewrite fneed_tab in Hf. fold (enc_entries t). rewrite read_longstr_enc by exact Hlen. cbn [pbind].
    rewrite (entries_rt t H Hwt) by lia. reflexivity.
  - (* bytes *) change (ftag_of (b2n "x")) with (ftag_of 120); cbv beta iota delta [ftag_of]. cbn [wf_fv] in Hwf. unfold enc_longstr. rewrite <- app_assoc. unfold max_str in Hwf.
    rewrite (pnum_enc 4) by (change (256 ^ N.of_nat 4) with 4294967296; lia). cbn [pbind].
    assert (Hs : (signed 32 (Blen s) <? 0)%Z = false).
    { unfold signed. change (2 ^ (32 - 1)) with 2147483648. destruct (N.ltb_spec (Blen s) 2147483648); lia. }
    rewrite Hs. rewrite ptake_app by reflexivity. reflexivity.
  - (* void *) change (ftag_of (b2n "V")) with (ftag_of 86); cbv beta iota delta [ftag_of]. reflexivity.
Qed.

(* C05, field values: all 14 types, nested to any depth *)
Theorem amqp_field_roundtrip : forall v r fuel, wf_fv v -> (fneed v <= fuel)%nat ->
  read_field fuel (enc_field v ++ r) = POk v r.
Proof. intros v r fuel Hwf Hf. exact (field_roundtrip_all v Hwf fuel r Hf). Qed.

Theorem amqp_table_roundtrip : forall t r fuel, wf_table t -> (tneed t <= fuel)%nat ->
  read_table fuel (enc_table t ++ r) = POk t r.
Proof.
  intros t r fuel [Hlen Hwt] Hf. unfold read_table, enc_table. rewrite read_longstr_enc by exact Hlen. cbn [pbind].
  rewrite entries_rt; [reflexivity| |exact Hwt|exact Hf].
  clear. induction t as [|kv t IH]; constructor; [apply field_roundtrip_all|exact IH].
Qed.

Example field_roundtrip_satisfiable :
  wf_fv (FTable [([x6b], FArr [FInt (-1)%Z; FTable [([], FVoid)]; FStr [x00]])]) .
Proof. cbn. unfold in_s, max_str, Blen. cbn. lia. Qed.
