(* AMQP share of C01, second clause: when a direction is cut anywhere inside a frame, everything
   completely received before the cut is still decoded and handled, the cut frame adds nothing,
   and Dissect returns with the end-of-stream or an error. *)
Require Import V.Base.Prelude V.Amqp.AmqpTypes V.Amqp.AmqpModel V.Amqp.AmqpSpec V.Amqp.AmqpLemmas V.Amqp.AmqpProofs.
Require Import V.Amqp.AmqpC01 V.Amqp.AmqpArgs V.Amqp.AmqpMethods V.Amqp.AmqpFrames V.Amqp.AmqpReport.
Local Open Scope N_scope.

(* Dissect over complete frames followed by anything *)
Lemma dissect_frames_then : forall fs, Forall wf_frame fs -> forall fuel is_client rest tl d ms,
  dissect (length fs + fuel) is_client {| sdata := enc_frames fs ++ rest; stail := tl |} d ms =
  dissect fuel is_client {| sdata := rest; stail := tl |} (fst (run_frames is_client fs (d, ms))) (snd (run_frames is_client fs (d, ms))).
Proof.
  induction 1 as [|f fs Hf Hfs IH]; intros fuel is_client rest tl d ms; [reflexivity|].
  unfold enc_frames. cbn [map concat length Nat.add]. fold (enc_frames fs). rewrite <- app_assoc. cbn [dissect].
  rewrite (read_frame_roundtrip f (enc_frames fs ++ rest) tl Hf).
  assert (Hc : run_frames is_client (f :: fs) (d, ms) = run_frames is_client fs (step is_client f d ms)).
  { unfold run_frames. cbn [fold_left fst snd]. destruct (step is_client f d ms). reflexivity. }
  rewrite Hc. destruct (step is_client f d ms) as [d1 ms1]. apply IH.
Qed.

(* a strict prefix of a well-formed frame cannot be read: the reader reports the end of the
   stream (clean or unexpected), never a protocol error, a panic or a frame *)
Lemma rd_full_short n p : Blen p < n ->
  fst (rd_full n {| sdata := p; stail := TEof |}) = Err (match p with [] => EEOF | _ => EUnexpectedEOF end).
Proof.
  intros H. unfold rd_full. cbn [sdata stail]. destruct (N.leb_spec n (Blen p)); [lia|reflexivity].
Qed.

Definition eof_error (r : res frame) : Prop := r = Err EEOF \/ r = Err EUnexpectedEOF.

Lemma read_frame_short_hdr p : Blen p < 7 -> eof_error (fst (read_frame {| sdata := p; stail := TEof |})).
Proof.
  intros H. unfold read_frame. pose proof (rd_full_short 7 p H) as Hr.
  destruct (rd_full 7 {| sdata := p; stail := TEof |}) as [r st1]. cbn [fst] in Hr. subst r.
  destruct p; [left|right]; reflexivity.
Qed.

Lemma read_frame_raw_prefix : forall typ ch pl p q,
  (typ = 1 \/ typ = 2 \/ typ = 3 \/ typ = 8) -> ch < 2 ^ 16 -> Blen pl <= max_frame ->
  enc_frame_raw typ ch pl = p ++ q -> q <> [] ->
  eof_error (fst (read_frame {| sdata := p; stail := TEof |})).
Proof.
  intros typ ch pl p q Ht Hch Hp Hsplit Hq.
  destruct (N.ltb_spec (Blen p) 7) as [Hshort|Hlong]; [apply read_frame_short_hdr; exact Hshort|].
  assert (H1 : exists t, enc_be 1 typ = [t] /\ b2n t = typ).
  { exists (b_of_N (typ mod 256)). split; [reflexivity|]. rewrite b2n_b_of_N by (apply N.mod_lt; lia).
    destruct Ht as [ -> | [ -> | [ -> | -> ]]]; reflexivity. }
  destruct H1 as (t & Et & Ht').
  assert (H2 : exists c1 c2, enc_be 2 ch = [c1; c2]) by (eexists; eexists; reflexivity).
  destruct H2 as (c1 & c2 & Ec).
  assert (H4 : exists s1 s2 s3 s4, enc_be 4 (Blen pl) = [s1; s2; s3; s4]) by (do 4 eexists; reflexivity).
  destruct H4 as (s1 & s2 & s3 & s4 & Es).
  assert (Hbe : be [s1; s2; s3; s4] = Blen pl).
  { rewrite <- Es. apply be_enc_be. unfold max_frame in Hp. change (256 ^ N.of_nat 4) with 4294967296. lia. }
  unfold enc_frame_raw in Hsplit. rewrite Et, Ec, Es in Hsplit. cbn [app] in Hsplit.
  (* p starts with the seven header octets *)
  unfold Blen in Hlong.
  destruct p as [|p1 [|p2 [|p3 [|p4 [|p5 [|p6 [|p7 p']]]]]]]; cbn [length] in Hlong; try lia.
  cbn [app] in Hsplit. inversion Hsplit as [[E1 E2 E3 E4 E5 E6 E7 Erest]]. subst p1 p2 p3 p4 p5 p6 p7.
  assert (Hlen' : Blen p' < Blen pl + 1).
  { assert (Hl : length (pl ++ [frame_end]) = (length p' + length q)%nat) by (rewrite Erest, app_length; reflexivity).
    rewrite app_length in Hl. cbn [length] in Hl. unfold Blen. destruct q; [contradiction|]. cbn [length] in Hl. lia. }
  unfold read_frame.
  change ([t; c1; c2; s1; s2; s3; s4] ++ p') with ([t; c1; c2; s1; s2; s3; s4] ++ p') in *.
  replace (t :: c1 :: c2 :: s1 :: s2 :: s3 :: s4 :: p') with ([t; c1; c2; s1; s2; s3; s4] ++ p') by reflexivity.
  rewrite rd_full_app by reflexivity.
  assert (Hmagic : list_eqb Byte.eqb (firstn 4 [t; c1; c2; s1; s2; s3; s4]) amqp_magic = false).
  { cbn [firstn]. unfold amqp_magic, bs. cbn [map list_eqb].
    destruct (Byte.eqb t (b_of_N 65)) eqn:E; [|reflexivity].
    apply Byte.byte_dec_bl in E. subst t. exfalso. change (b2n (b_of_N 65)) with 65 in Ht'. lia. }
  rewrite Hmagic. cbn [firstn skipn]. rewrite Hbe.
  assert (Hsz : (max_frame <? Blen pl) = false) by (apply N.ltb_ge; exact Hp). rewrite Hsz.
  assert (Htyp : be [t] = typ) by (unfold be; cbn [fold_left]; lia). rewrite Htyp.
  assert (Hknown : negb ((typ =? 1) || (typ =? 2) || (typ =? 3) || (typ =? 8)) = false).
  { destruct Ht as [ -> | [ -> | [ -> | -> ]]]; reflexivity. }
  rewrite Hknown.
  pose proof (rd_full_short (Blen pl + 1) p' Hlen') as Hr.
  destruct (rd_full (Blen pl + 1) {| sdata := p'; stail := TEof |}) as [r st2]. cbn [fst] in Hr. subst r. cbn [fst].
  destruct p'; [left|right]; reflexivity.
Qed.

Lemma read_frame_prefix : forall f p q, wf_frame f -> enc_frame f = p ++ q -> q <> [] ->
  eof_error (fst (read_frame {| sdata := p; stail := TEof |})).
Proof.
  intros f p q Hwf Hsplit Hq. destruct f as [|ch|ch cls meth args|ch cls weight size flags slots|ch body]; cbn [enc_frame] in Hsplit.
  - (* protocol header: at most 7 of its 8 octets *)
    destruct (N.ltb_spec (Blen p) 7) as [Hshort|Hlong]; [apply read_frame_short_hdr; exact Hshort|].
    assert (Hl : length proto_header = (length p + length q)%nat) by (rewrite Hsplit, app_length; reflexivity).
    cbn [proto_header length] in Hl. unfold Blen in Hlong. destruct q as [|q1 q]; [contradiction|]. cbn [length] in Hl.
    assert (Hp7 : length p = 7%nat) by lia.
    unfold proto_header in Hsplit.
    destruct p as [|p1 [|p2 [|p3 [|p4 [|p5 [|p6 [|p7 [|p8 p']]]]]]]]; cbn [length] in Hp7; try lia.
    cbn [app] in Hsplit. inversion Hsplit; subst. left. reflexivity.
  - cbn [wf_frame] in Hwf. apply (read_frame_raw_prefix 8 ch [] p q); try assumption; [tauto|unfold Blen, max_frame; cbn; lia].
  - destruct Hwf as (Hch & _ & Hlen). apply (read_frame_raw_prefix 1 ch (enc_method_payload cls meth args) p q); try assumption. tauto.
  - destruct Hwf as (Hch & _ & _ & _ & _ & _ & Hlen). apply (read_frame_raw_prefix 2 ch (enc_header_payload cls weight size slots) p q); try assumption. tauto.
  - destruct Hwf as (Hch & Hlen). apply (read_frame_raw_prefix 3 ch body p q); try assumption. tauto.
Qed.

(* C01: a direction cut inside frame f after the complete frames fs *)
Theorem amqp_C01_prefix : forall fs f p q is_client d ms, Forall wf_frame fs -> wf_frame f ->
  enc_frame f = p ++ q -> q <> [] ->
  let st := {| sdata := enc_frames fs ++ p; stail := TEof |} in
  good_outcome (fst (dissect (dissect_fuel st) is_client st d ms)) /\
  snd (dissect (dissect_fuel st) is_client st d ms) = snd (run_frames is_client fs (d, ms)).
Proof.
  intros fs f p q is_client d ms Hfs Hf Hsplit Hq st. split; [apply amqp_C01_dissect|].
  unfold st, dissect_fuel. cbn [sdata]. rewrite app_length.
  pose proof (enc_frames_len fs) as Hl.
  replace (length (enc_frames fs) + length p + 2)%nat with (length fs + (length (enc_frames fs) - length fs + length p + 2))%nat by lia.
  rewrite (dissect_frames_then fs Hfs).
  replace (length (enc_frames fs) - length fs + length p + 2)%nat with (S (length (enc_frames fs) - length fs + length p + 1))%nat by lia.
  cbn [dissect].
  destruct (read_frame_prefix f p q Hf Hsplit Hq) as [He|He];
    destruct (read_frame {| sdata := p; stail := TEof |}) as [r st1]; cbn [fst] in He; subst r; reflexivity.
Qed.
