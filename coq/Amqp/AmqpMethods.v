(* C05, methods: for every entry of the signature table, the argument list written by the
   specification's encoder is read back exactly (amqp_method_roundtrip), with the fuel that
   parseMethodFrame's model provides (payload length + 2). *)
Require Import V.Base.Prelude V.Amqp.AmqpTypes V.Amqp.AmqpModel V.Amqp.AmqpSpec V.Amqp.AmqpLemmas V.Amqp.AmqpProofs V.Amqp.AmqpArgs.
Local Open Scope N_scope.

Lemma lookup_sig_in cls meth l sig : lookup_sig cls meth l = Some sig -> In (cls, meth, sig) l.
Proof.
  induction l as [|[[c m] s] l IH]; cbn [lookup_sig]; [discriminate|].
  destruct ((cls =? c) && (meth =? m)) eqn:E.
  - intros H. inversion H; subst. apply andb_prop in E. destruct E as [E1 E2]. apply N.eqb_eq in E1, E2. subst. left. reflexivity.
  - intros H. right. apply IH. exact H.
Qed.

(* bit runs of a kind list fit one octet *)
Fixpoint kruns_okb (ks : list akind) (cur : nat) : bool :=
  match ks with
  | [] => true
  | KBit :: ks' => Nat.ltb cur 8 && kruns_okb ks' (S cur)
  | _ :: ks' => kruns_okb ks' 0
  end.

Lemma kruns_runs ks args : kinds_match ks args -> forall cur, kruns_okb ks cur = true -> runs_ok args cur.
Proof.
  induction 1 as [|k a ks args Hk Hrest IH]; intros cur H; [exact I|].
  destruct a; cbn [kind_of] in Hk; inversion Hk; subst k; cbn [kruns_okb runs_ok] in *; try (apply IH; exact H).
  apply andb_prop in H. destruct H as [H1 H2]. apply Nat.ltb_lt in H1. split; [exact H1|apply IH; exact H2].
Qed.

Lemma sig_table_runs : forallb (fun e => kruns_okb (map fst (snd e)) 0) sig_table = true.
Proof. vm_compute. reflexivity. Qed.

Lemma sig_runs cls meth sig : method_sig cls meth = Some sig -> kruns_okb (map fst sig) 0 = true.
Proof.
  intros H. apply lookup_sig_in in H. pose proof sig_table_runs as Ht. rewrite forallb_forall in Ht. exact (Ht _ H).
Qed.

(* C05: any method of the table, any argument values of the right kinds *)
Theorem amqp_method_roundtrip : forall cls meth sig args r fuel,
  method_sig cls meth = Some sig -> kinds_match (map fst sig) args -> Forall wf_arg args ->
  Forall (arg_fuel_ok fuel) args ->
  read_args fuel (map fst sig) None (enc_args args [] ++ r) = POk args r.
Proof.
  intros cls meth sig args r fuel Hs Hk Hwf Hf. apply args_roundtrip; try assumption.
  apply (kruns_runs _ _ Hk). apply (sig_runs cls meth). exact Hs.
Qed.

(* ------------------------------------------------------------------ the fuel is there *)
Lemma enc_field_nonempty v : (1 <= length (enc_field v))%nat.
Proof. destruct v; cbn [enc_field length]; lia. Qed.

Definition fneed_le (v : fv) : Prop := (fneed v <= length (enc_field v) + 1)%nat.

Lemma aneed_le l : Forall fneed_le l -> (aneed l <= length (enc_items l) + 2)%nat.
Proof.
  induction 1 as [|x l Hx Hl IH]; [cbn; lia|].
  unfold enc_items in *. cbn [aneed map concat]. rewrite app_length. unfold fneed_le in Hx. pose proof (enc_field_nonempty x) as Hne. pose proof (Nat.max_spec (fneed x) (aneed l)). cbv delta [bytes byte] in *. clear Hl. lia.
Qed.

Lemma tneed_le_aux t : Forall (fun kv => fneed_le (snd kv)) t -> (tneed t <= length (enc_entries t) + 1)%nat.
Proof.
  induction 1 as [|[k v] t Hx Hl IH]; [cbn; lia|].
  unfold enc_entries in *. cbn [tneed map concat fst snd] in *. rewrite !app_length. unfold fneed_le in Hx.
  unfold enc_shortstr in *. rewrite app_length, enc_be_length. pose proof (enc_field_nonempty v) as Hne. pose proof (Nat.max_spec (fneed v) (tneed t)). cbv delta [bytes byte] in *. clear Hl. lia.
Qed.

Lemma fneed_le_all : forall v, fneed_le v.
Proof.
  induction v using fv_ind'; unfold fneed_le; try (cbn [fneed enc_field length]; lia).
  - rewrite fneed_arr. pose proof (aneed_le l H) as Ha. cbn [enc_field]. fold (enc_items l). unfold enc_longstr.
    cbn [length]. rewrite app_length, enc_be_length. lia.
  - rewrite fneed_tab. pose proof (tneed_le_aux t H) as Ha. cbn [enc_field]. fold (enc_entries t). unfold enc_longstr.
    cbn [length]. rewrite app_length, enc_be_length. lia.
Qed.

Lemma tneed_le t : (tneed t <= length (enc_table t))%nat.
Proof.
  assert (H : Forall (fun kv => fneed_le (snd kv)) t) by (induction t; constructor; [apply fneed_le_all|assumption]).
  pose proof (tneed_le_aux t H). unfold enc_table, enc_longstr. rewrite app_length, enc_be_length. lia.
Qed.

Lemma enc_args_len args : forall pend a, In a args -> (length (enc_arg a) <= length (enc_args args pend))%nat.
Proof.
  induction args as [|a0 args IH]; intros pend a Hin; [contradiction|].
  destruct Hin as [->|Hin].
  - destruct a; cbn [enc_args enc_arg]; rewrite ?app_length; cbn [length]; lia.
  - destruct a0; cbn [enc_args]; rewrite ?app_length; try (pose proof (IH [] a Hin); lia). apply IH. exact Hin.
Qed.

Lemma args_fuel_payload args pre : Forall (arg_fuel_ok (length (pre ++ enc_args args []) + 2)) args.
Proof.
  apply Forall_forall. intros a Hin. destruct a; try exact I. cbn [arg_fuel_ok].
  pose proof (enc_args_len args [] (ATable t) Hin) as Hl. cbn [enc_arg] in Hl. pose proof (tneed_le t). rewrite app_length. lia.
Qed.

(* spec091.go parseMethodFrame on what the encoder wrote *)
Definition wf_method (cls meth : N) (args : list arg) : Prop :=
  cls < 2 ^ 16 /\ meth < 2 ^ 16 /\
  exists sig, method_sig cls meth = Some sig /\ kinds_match (map fst sig) args /\ Forall wf_arg args.

Theorem parse_method_roundtrip : forall ch cls meth args, wf_method cls meth args ->
  parse_method ch (enc_method_payload cls meth args) = POk (FrMethod ch cls meth args) [].
Proof.
  intros ch cls meth args (Hc & Hm & sig & Hs & Hk & Hwf).
  unfold parse_method. unfold enc_method_payload at 1.
  rewrite (pnum_enc 2) by (change (256 ^ N.of_nat 2) with (2 ^ 16); exact Hc). cbn [pbind].
  rewrite (pnum_enc 2) by (change (256 ^ N.of_nat 2) with (2 ^ 16); exact Hm). cbn [pbind].
  rewrite Hs.
  rewrite <- (app_nil_r (enc_args args [])) at 1.
  rewrite (amqp_method_roundtrip cls meth sig args [] _ Hs Hk Hwf).
  - reflexivity.
  - unfold payload_fuel, enc_method_payload. rewrite app_assoc. apply args_fuel_payload.
Qed.
