(* AMQP 0-9-1 wire format: an encoder written from the protocol specification, independent of
   the dissector model (this file imports only the shared data types).  Also the
   well-formedness conditions under which a value has an encoding at all. *)
Require Import V.Base.Prelude V.Amqp.AmqpTypes.
Local Open Scope N_scope.

(* big-endian, w octets *)
Fixpoint enc_be (w : nat) (n : N) : bytes :=
  match w with
  | O => []
  | S w' => enc_be w' (n / 256) ++ [b_of_N (n mod 256)]
  end.
(* two's complement, w octets *)
Definition enc_s (w : nat) (z : Z) : bytes := enc_be w (Z.to_N (z mod Z.of_N (256 ^ N.of_nat w))).

Definition enc_shortstr (s : bytes) : bytes := enc_be 1 (Blen s) ++ s.
Definition enc_longstr (s : bytes) : bytes := enc_be 4 (Blen s) ++ s.

Fixpoint enc_field (v : fv) : bytes :=
  match v with
  | FBool b => "t"%byte :: [if b then x01 else x00]
  | FByte n => "b"%byte :: enc_be 1 n
  | FShort z => "s"%byte :: enc_s 2 z
  | FInt z => "I"%byte :: enc_s 4 z
  | FLong z => "l"%byte :: enc_s 8 z
  | FFloat n => "f"%byte :: enc_be 4 n
  | FDouble n => "d"%byte :: enc_be 8 n
  | FDecimal sc z => "D"%byte :: enc_be 1 sc ++ enc_s 4 z
  | FStr s => "S"%byte :: enc_longstr s
  | FArr l => "A"%byte :: enc_longstr (concat (map enc_field l))
  | FTime z => "T"%byte :: enc_s 8 z
  | FTable t => "F"%byte :: enc_longstr (concat (map (fun kv => enc_shortstr (fst kv) ++ enc_field (snd kv)) t))
  | FBytes s => "x"%byte :: enc_longstr s
  | FVoid => ["V"%byte]
  end.

Definition enc_entries (t : table) : bytes := concat (map (fun kv => enc_shortstr (fst kv) ++ enc_field (snd kv)) t).
Definition enc_items (l : list fv) : bytes := concat (map enc_field l).
Definition enc_table (t : table) : bytes := enc_longstr (enc_entries t).

(* what can be encoded: every number fits its width, every string its length prefix; a
   timestamp is within the years 0..9999 (others are replaced by design, finding AMQP-F7) *)
Definition in_s (w : N) (z : Z) : Prop := (- Z.of_N (2 ^ (w - 1)) <= z < Z.of_N (2 ^ (w - 1)))%Z.
Definition time_ok (z : Z) : Prop := (-62167219200 <= z < 253402300800)%Z.
Definition max_str : N := 2147483647.

Fixpoint wf_fv (v : fv) : Prop :=
  match v with
  | FBool _ | FVoid => True
  | FByte n => n < 256
  | FShort z => in_s 16 z
  | FInt z => in_s 32 z
  | FLong z => in_s 64 z
  | FFloat n => n < 2 ^ 32
  | FDouble n => n < 2 ^ 64
  | FDecimal sc z => sc < 256 /\ in_s 32 z
  | FStr s | FBytes s => Blen s <= max_str
  | FTime z => time_ok z
  | FArr l => Blen (concat (map enc_field l)) < 2 ^ 32 /\
              (fix all (l : list fv) : Prop := match l with [] => True | x :: l' => wf_fv x /\ all l' end) l
  | FTable t => Blen (concat (map (fun kv => enc_shortstr (fst kv) ++ enc_field (snd kv)) t)) <= max_str /\
                (fix all (t : table) : Prop := match t with [] => True | kv :: t' => (Blen (fst kv) < 256 /\ wf_fv (snd kv)) /\ all t' end) t
  end.
Definition wf_items (l : list fv) : Prop := Forall wf_fv l.
Definition wf_entries (t : table) : Prop := Forall (fun kv => Blen (fst kv) < 256 /\ wf_fv (snd kv)) t.
Definition wf_table (t : table) : Prop := Blen (enc_entries t) <= max_str /\ wf_entries t.

(* fuel a decoder that recurses once per nesting level and once per element needs *)
Fixpoint fneed (v : fv) : nat :=
  match v with
  | FArr l => S ((fix go (l : list fv) : nat := match l with [] => 2%nat | x :: l' => S (Nat.max (fneed x) (go l')) end) l)
  | FTable t => S ((fix go (t : table) : nat := match t with [] => 1%nat | kv :: t' => S (Nat.max (fneed (snd kv)) (go t')) end) t)
  | _ => 1%nat
  end.
Fixpoint aneed (l : list fv) : nat := match l with [] => 2%nat | x :: l' => S (Nat.max (fneed x) (aneed l')) end.
Fixpoint tneed (t : table) : nat := match t with [] => 1%nat | kv :: t' => S (Nat.max (fneed (snd kv)) (tneed t')) end.

(* ------------------------------------------------------------------ method arguments *)
Fixpoint bits_val (l : list bool) : N :=
  match l with [] => 0 | b :: l' => N.b2n b + 2 * bits_val l' end.
Definition flush_bits (pend : list bool) : bytes :=
  match pend with [] => [] | _ => [b_of_N (bits_val pend)] end.

Definition enc_arg (a : arg) : bytes :=
  match a with
  | AOctet n => enc_be 1 n
  | AShort n => enc_be 2 n
  | ALong n => enc_be 4 n
  | ALongLong n => enc_be 8 n
  | AShortStr s => enc_shortstr s
  | ALongStr s => enc_longstr s
  | ATable t => enc_table t
  | ATime z => enc_s 8 z
  | ABit _ | ANull => []
  end.

(* consecutive bits are packed into one octet, first bit in the lowest position *)
Fixpoint enc_args (args : list arg) (pend : list bool) : bytes :=
  match args with
  | [] => flush_bits pend
  | ABit b :: rest => enc_args rest (pend ++ [b])
  | a :: rest => flush_bits pend ++ enc_arg a ++ enc_args rest []
  end.

Definition kind_of (a : arg) : option akind :=
  match a with
  | AOctet _ => Some KOctet | AShort _ => Some KShort | ALong _ => Some KLong | ALongLong _ => Some KLongLong
  | AShortStr _ => Some KShortStr | ALongStr _ => Some KLongStr | ATable _ => Some KTable | ABit _ => Some KBit
  | ATime _ => Some KTime | ANull => None
  end.
Definition wf_arg (a : arg) : Prop :=
  match a with
  | AOctet n => n < 256 | AShort n => n < 2 ^ 16 | ALong n => n < 2 ^ 32 | ALongLong n => n < 2 ^ 64
  | AShortStr s => Blen s < 256 | ALongStr s => Blen s <= max_str | ATable t => wf_table t
  | ATime z => time_ok z | ABit _ => True | ANull => False
  end.

(* ------------------------------------------------------------------ frames *)
Definition frame_end : byte := xce.
Definition enc_frame_raw (typ ch : N) (payload : bytes) : bytes :=
  enc_be 1 typ ++ enc_be 2 ch ++ enc_be 4 (Blen payload) ++ payload ++ [frame_end].
Definition proto_header : bytes := ["A"; "M"; "Q"; "P"; x00; x00; x09; x01]%byte.

Definition enc_method_payload (cls meth : N) (args : list arg) : bytes :=
  enc_be 2 cls ++ enc_be 2 meth ++ enc_args args [].

(* content header: flag i (from 0x8000 down) set iff slot i holds a value *)
Fixpoint flags_val (slots : list (option arg)) (bit : N) : N :=
  match slots with
  | [] => 0
  | s :: slots' => (match s with Some _ => 2 ^ bit | None => 0 end) + flags_val slots' (bit - 1)
  end.
Definition enc_header_payload (cls weight size : N) (slots : list (option arg)) : bytes :=
  enc_be 2 cls ++ enc_be 2 weight ++ enc_be 8 size ++ enc_be 2 (flags_val slots 15) ++
  concat (map (fun s => match s with Some a => enc_arg a | None => [] end) slots).

Definition enc_frame (f : frame) : bytes :=
  match f with
  | FrProto => proto_header
  | FrHeartbeat ch => enc_frame_raw 8 ch []
  | FrMethod ch cls meth args => enc_frame_raw 1 ch (enc_method_payload cls meth args)
  | FrHeader ch cls weight size _ slots => enc_frame_raw 2 ch (enc_header_payload cls weight size slots)
  | FrBody ch body => enc_frame_raw 3 ch body
  end.

(* ------------------------------------------------------------------ what must be reported *)
(* The exact report of a conversation given as the frames of its two directions, for
   conversations in normal form (no recorded finding class is triggered, `normal` below):
   one item per content message of the client (basic.publish) and of the server
   (basic.deliver) - method arguments without the reserved ones, the 13 content properties
   (absent ones at their zero value), the body - with an empty response; one item per reply of
   the server, paired with the client's request of the same channel.  Written from the
   property, not from the dissector. *)
Definition sview := (N * list arg)%type.                      (* class*1000+method (0 = empty), values *)
Definition sitem := (sview * sview)%type.

Definition spec_reported (cls meth : N) (args : list arg) : list arg :=
  if (cls =? 10) && (meth =? 40) then firstn 1 args
  else if ((cls =? 10) && (meth =? 41)) || ((cls =? 20) && ((meth =? 10) || (meth =? 11))) then []
  else if ((cls =? 40) && (meth =? 10)) || ((cls =? 50) && ((meth =? 10) || (meth =? 20)))
          || ((cls =? 60) && ((meth =? 20) || (meth =? 40))) then tl args
  else args.

Definition spec_zero_props : list arg :=
  [AShortStr []; AShortStr []; ANull; AOctet 0; AOctet 0; AShortStr []; AShortStr []; AShortStr []; AShortStr [];
   ATime (-62135596800)%Z; AShortStr []; AShortStr []; AShortStr []].
Fixpoint spec_props (slots : list (option arg)) (dflt : list arg) : list arg :=
  match slots, dflt with
  | s :: slots', d :: dflt' => (match s with Some a => a | None => d end) :: spec_props slots' dflt'
  | _, _ => []
  end.

(* requests a client sends and the server answers with method id + 1 *)
Definition spec_request (cls meth : N) : bool :=
  ((cls =? 10) && ((meth =? 40) || (meth =? 50))) || ((cls =? 20) && (meth =? 10)) || ((cls =? 40) && (meth =? 10))
  || ((cls =? 50) && ((meth =? 10) || (meth =? 20))) || ((cls =? 60) && ((meth =? 20) || (meth =? 30))).
Definition spec_content (cls meth : N) : bool := (cls =? 60) && ((meth =? 40) || (meth =? 50) || (meth =? 60) || (meth =? 71)).

(* content messages of one direction whose method is `want` (40 publish, 60 deliver) *)
Fixpoint spec_messages (want : N) (fs : list frame) (cur : option (N * N * list arg)) (props : option (list arg)) : list sitem :=
  match fs with
  | [] => []
  | FrMethod ch cls meth args :: rest =>
      spec_messages want rest (if spec_content cls meth then Some (ch, meth, spec_reported cls meth args) else None) None
  | FrHeader ch _ _ _ _ slots :: rest =>
      match cur with
      | Some (ch', _, _) => if ch =? ch' then spec_messages want rest cur (Some (spec_props slots spec_zero_props)) else spec_messages want rest cur props
      | None => spec_messages want rest cur props
      end
  | FrBody ch body :: rest =>
      match cur, props with
      | Some (ch', meth, a), Some p =>
          if (ch =? ch') && (meth =? want) then ((60000 + meth, a ++ p ++ [ALongStr body]), (0, [])) :: spec_messages want rest None None
          else spec_messages want rest None None
      | _, _ => spec_messages want rest cur props
      end
  | _ :: rest => spec_messages want rest cur props
  end.

Fixpoint find_request (ch cls meth : N) (cfs : list frame) : option (list arg) :=
  match cfs with
  | [] => None
  | FrMethod ch' cls' meth' args :: rest => if (ch =? ch') && (cls =? cls') && (meth =? meth') then Some args else find_request ch cls meth rest
  | _ :: rest => find_request ch cls meth rest
  end.

(* server direction, in order: replies paired with their requests, and deliveries *)
Fixpoint spec_server (sfs cfs : list frame) (cur : option (N * N * list arg)) (props : option (list arg)) : list sitem :=
  match sfs with
  | [] => []
  | FrMethod ch cls meth args :: rest =>
      let next := spec_server rest cfs (if spec_content cls meth then Some (ch, meth, spec_reported cls meth args) else None) None in
      if (1 <=? meth) && spec_request cls (meth - 1) then
        match find_request ch cls (meth - 1) cfs with
        | Some rq => ((cls * 1000 + (meth - 1), spec_reported cls (meth - 1) rq), (cls * 1000 + meth, spec_reported cls meth args)) :: next
        | None => next
        end
      else next
  | FrHeader ch _ _ _ _ slots :: rest =>
      match cur with
      | Some (ch', _, _) => if ch =? ch' then spec_server rest cfs cur (Some (spec_props slots spec_zero_props)) else spec_server rest cfs cur props
      | None => spec_server rest cfs cur props
      end
  | FrBody ch body :: rest =>
      match cur, props with
      | Some (ch', meth, a), Some p =>
          if (ch =? ch') && (meth =? 60) then ((60060, a ++ p ++ [ALongStr body]), (0, [])) :: spec_server rest cfs None None
          else spec_server rest cfs None None
      | _, _ => spec_server rest cfs cur props
      end
  | _ :: rest => spec_server rest cfs cur props
  end.

Definition spec_report (cfs sfs : list frame) : list sitem := spec_messages 40 cfs None None ++ spec_server sfs cfs None None.

(* normal form: what a direction may contain so that no recorded finding class is triggered.
   Content: a content method is followed on its direction - heartbeats apart - by its header
   (same channel, body size 1..512) and exactly one body frame of that size; no other header
   or body frames.  Methods: the client sends no reply and no handshake method, the server no
   request and no handshake method; a pairing key (channel, class, method family) is used by at
   most one reported method per direction. *)
Inductive cstate := CIdle | CWantHeader (ch : N) | CWantBody (ch size : N).
Fixpoint content_ok (fs : list frame) (st : cstate) : bool :=
  match fs with
  | [] => match st with CIdle => true | _ => false end
  | FrProto :: rest | FrHeartbeat _ :: rest => content_ok rest st
  | FrMethod ch cls meth _ :: rest =>
      match st with
      | CIdle => content_ok rest (if spec_content cls meth then CWantHeader ch else CIdle)
      | _ => false
      end
  | FrHeader ch _ _ size _ _ :: rest =>
      match st with
      | CWantHeader ch' => (ch =? ch') && (1 <=? size) && (size <=? 512) && content_ok rest (CWantBody ch size)
      | _ => false
      end
  | FrBody ch body :: rest =>
      match st with
      | CWantBody ch' size => (ch =? ch') && (Blen body =? size) && content_ok rest CIdle
      | _ => false
      end
  end.

Definition spec_handshake (cls meth : N) : bool := (cls =? 10) && ((meth =? 10) || (meth =? 11) || (meth =? 30) || (meth =? 31)).
Definition spec_reply (cls meth : N) : bool := (1 <=? meth) && spec_request cls (meth - 1).

Fixpoint keys (pick : N -> N -> bool) (fs : list frame) : list (N * N * N) :=
  match fs with
  | [] => []
  | FrMethod ch cls meth _ :: rest => if pick cls meth then (ch, cls, meth - meth mod 10) :: keys pick rest else keys pick rest
  | _ :: rest => keys pick rest
  end.
Definition key_eqb (a b : N * N * N) : bool :=
  let '(a1, a2, a3) := a in let '(b1, b2, b3) := b in (a1 =? b1) && (a2 =? b2) && (a3 =? b3).
Fixpoint distinct (l : list (N * N * N)) : bool :=
  match l with [] => true | k :: l' => negb (existsb (key_eqb k) l') && distinct l' end.
Definition methods_ok (allowed : N -> N -> bool) (fs : list frame) : bool :=
  forallb (fun f => match f with FrMethod _ cls meth _ => negb (spec_handshake cls meth) && allowed cls meth | _ => true end) fs.

Definition normal (cfs sfs : list frame) : bool :=
  content_ok cfs CIdle && content_ok sfs CIdle
  && methods_ok (fun c m => negb (spec_reply c m) && negb ((c =? 60) && (m =? 60))) cfs
  && methods_ok (fun c m => negb (spec_request c m) && negb ((c =? 60) && (m =? 40))) sfs
  && distinct (keys spec_request cfs) && distinct (keys spec_reply sfs).

(* ------------------------------------------------------------------ the same report, server half read first *)
(* The property is about the conversation; the ORDER of the items depends on which half the
   tap happens to read first.  When the server half is read first, deliveries (the server's
   content messages) are reported while it is read; a reply has nothing to be paired with yet
   and waits; then, in the order of the client direction: every request whose reply waits is
   reported with it (request = the client's method, response = the server's, as before), and
   every publish is reported with an empty response.  Written from the property as well;
   `find_request` is used to find the server's method (ch, cls, meth + 1) among its frames. *)
Fixpoint spec_client (cfs sfs : list frame) (cur : option (N * N * list arg)) (props : option (list arg)) : list sitem :=
  match cfs with
  | [] => []
  | FrMethod ch cls meth args :: rest =>
      let next := spec_client rest sfs (if spec_content cls meth then Some (ch, meth, spec_reported cls meth args) else None) None in
      if spec_request cls meth then
        match find_request ch cls (meth + 1) sfs with
        | Some rp => ((cls * 1000 + meth, spec_reported cls meth args), (cls * 1000 + (meth + 1), spec_reported cls (meth + 1) rp)) :: next
        | None => next
        end
      else next
  | FrHeader ch _ _ _ _ slots :: rest =>
      match cur with
      | Some (ch', _, _) => if ch =? ch' then spec_client rest sfs cur (Some (spec_props slots spec_zero_props)) else spec_client rest sfs cur props
      | None => spec_client rest sfs cur props
      end
  | FrBody ch body :: rest =>
      match cur, props with
      | Some (ch', meth, a), Some p =>
          if (ch =? ch') && (meth =? 40) then ((60040, a ++ p ++ [ALongStr body]), (0, [])) :: spec_client rest sfs None None
          else spec_client rest sfs None None
      | _, _ => spec_client rest sfs cur props
      end
  | _ :: rest => spec_client rest sfs cur props
  end.

Definition spec_report_server_first (cfs sfs : list frame) : list sitem :=
  spec_messages 60 sfs None None ++ spec_client cfs sfs None None.
