(* AMQP 0-9-1 wire format: an encoder written from the protocol specification, independent of
   the dissector model (this file imports only the shared data types).  Also the
   well-formedness conditions under which a value has an encoding at all. *)
Require Import V.Base.Prelude V.Amqp.AmqpTypes.
Local Open Scope N_scope.

(* big-endian, w octets *)
Fixpoint enc_be (w : nat) (n : N) : bytes :=
  match w with
  | O => []
  | S w' => enc_be w' (n / 256) ++ [b_of_N (n mod 256)]
  end.
(* two's complement, w octets *)
Definition enc_s (w : nat) (z : Z) : bytes := enc_be w (Z.to_N (z mod Z.of_N (256 ^ N.of_nat w))).

Definition enc_shortstr (s : bytes) : bytes := enc_be 1 (Blen s) ++ s.
Definition enc_longstr (s : bytes) : bytes := enc_be 4 (Blen s) ++ s.

Fixpoint enc_field (v : fv) : bytes :=
  match v with
  | FBool b => "t"%byte :: [if b then x01 else x00]
  | FByte n => "b"%byte :: enc_be 1 n
  | FShort z => "s"%byte :: enc_s 2 z
  | FInt z => "I"%byte :: enc_s 4 z
  | FLong z => "l"%byte :: enc_s 8 z
  | FFloat n => "f"%byte :: enc_be 4 n
  | FDouble n => "d"%byte :: enc_be 8 n
  | FDecimal sc z => "D"%byte :: enc_be 1 sc ++ enc_s 4 z
  | FStr s => "S"%byte :: enc_longstr s
  | FArr l => "A"%byte :: enc_longstr (concat (map enc_field l))
  | FTime z => "T"%byte :: enc_s 8 z
  | FTable t => "F"%byte :: enc_longstr (concat (map (fun kv => enc_shortstr (fst kv) ++ enc_field (snd kv)) t))
  | FBytes s => "x"%byte :: enc_longstr s
  | FVoid => ["V"%byte]
  end.

Definition enc_entries (t : table) : bytes := concat (map (fun kv => enc_shortstr (fst kv) ++ enc_field (snd kv)) t).
Definition enc_items (l : list fv) : bytes := concat (map enc_field l).
Definition enc_table (t : table) : bytes := enc_longstr (enc_entries t).

(* what can be encoded: every number fits its width, every string its length prefix; a
   timestamp is within the years 0..9999 (others are replaced by design, finding AMQP-F7) *)
Definition in_s (w : N) (z : Z) : Prop := (- Z.of_N (2 ^ (w - 1)) <= z < Z.of_N (2 ^ (w - 1)))%Z.
Definition time_ok (z : Z) : Prop := (-62167219200 <= z < 253402300800)%Z.
Definition max_str : N := 2147483647.

Fixpoint wf_fv (v : fv) : Prop :=
  match v with
  | FBool _ | FVoid => True
  | FByte n => n < 256
  | FShort z => in_s 16 z
  | FInt z => in_s 32 z
  | FLong z => in_s 64 z
  | FFloat n => n < 2 ^ 32
  | FDouble n => n < 2 ^ 64
  | FDecimal sc z => sc < 256 /\ in_s 32 z
  | FStr s | FBytes s => Blen s <= max_str
  | FTime z => time_ok z
  | FArr l => Blen (concat (map enc_field l)) < 2 ^ 32 /\
              (fix all (l : list fv) : Prop := match l with [] => True | x :: l' => wf_fv x /\ all l' end) l
  | FTable t => Blen (concat (map (fun kv => enc_shortstr (fst kv) ++ enc_field (snd kv)) t)) <= max_str /\
                (fix all (t : table) : Prop := match t with [] => True | kv :: t' => (Blen (fst kv) < 256 /\ wf_fv (snd kv)) /\ all t' end) t
  end.
Definition wf_items (l : list fv) : Prop := Forall wf_fv l.
Definition wf_entries (t : table) : Prop := Forall (fun kv => Blen (fst kv) < 256 /\ wf_fv (snd kv)) t.
Definition wf_table (t : table) : Prop := Blen (enc_entries t) <= max_str /\ wf_entries t.

(* fuel a decoder that recurses once per nesting level and once per element needs *)
Fixpoint fneed (v : fv) : nat :=
  match v with
  | FArr l => S ((fix go (l : list fv) : nat := match l with [] => 2%nat | x :: l' => S (Nat.max (fneed x) (go l')) end) l)
  | FTable t => S ((fix go (t : table) : nat := match t with [] => 1%nat | kv :: t' => S (Nat.max (fneed (snd kv)) (go t')) end) t)
  | _ => 1%nat
  end.
Fixpoint aneed (l : list fv) : nat := match l with [] => 2%nat | x :: l' => S (Nat.max (fneed x) (aneed l')) end.
Fixpoint tneed (t : table) : nat := match t with [] => 1%nat | kv :: t' => S (Nat.max (fneed (snd kv)) (tneed t')) end.

(* ------------------------------------------------------------------ method arguments *)
Fixpoint bits_val (l : list bool) : N :=
  match l with [] => 0 | b :: l' => N.b2n b + 2 * bits_val l' end.
Definition flush_bits (pend : list bool) : bytes :=
  match pend with [] => [] | _ => [b_of_N (bits_val pend)] end.

Definition enc_arg (a : arg) : bytes :=
  match a with
  | AOctet n => enc_be 1 n
  | AShort n => enc_be 2 n
  | ALong n => enc_be 4 n
  | ALongLong n => enc_be 8 n
  | AShortStr s => enc_shortstr s
  | ALongStr s => enc_longstr s
  | ATable t => enc_table t
  | ATime z => enc_s 8 z
  | ABit _ | ANull => []
  end.

(* consecutive bits are packed into one octet, first bit in the lowest position *)
Fixpoint enc_args (args : list arg) (pend : list bool) : bytes :=
  match args with
  | [] => flush_bits pend
  | ABit b :: rest => enc_args rest (pend ++ [b])
  | a :: rest => flush_bits pend ++ enc_arg a ++ enc_args rest []
  end.

Definition kind_of (a : arg) : option akind :=
  match a with
  | AOctet _ => Some KOctet | AShort _ => Some KShort | ALong _ => Some KLong | ALongLong _ => Some KLongLong
  | AShortStr _ => Some KShortStr | ALongStr _ => Some KLongStr | ATable _ => Some KTable | ABit _ => Some KBit
  | ATime _ => Some KTime | ANull => None
  end.
Definition wf_arg (a : arg) : Prop :=
  match a with
  | AOctet n => n < 256 | AShort n => n < 2 ^ 16 | ALong n => n < 2 ^ 32 | ALongLong n => n < 2 ^ 64
  | AShortStr s => Blen s < 256 | ALongStr s => Blen s <= max_str | ATable t => wf_table t
  | ATime z => time_ok z | ABit _ => True | ANull => False
  end.

(* ------------------------------------------------------------------ frames *)
Definition frame_end : byte := xce.
Definition enc_frame_raw (typ ch : N) (payload : bytes) : bytes :=
  enc_be 1 typ ++ enc_be 2 ch ++ enc_be 4 (Blen payload) ++ payload ++ [frame_end].
Definition proto_header : bytes := ["A"; "M"; "Q"; "P"; x00; x00; x09; x01]%byte.

Definition enc_method_payload (cls meth : N) (args : list arg) : bytes :=
  enc_be 2 cls ++ enc_be 2 meth ++ enc_args args [].

(* content header: flag i (from 0x8000 down) set iff slot i holds a value *)
Fixpoint flags_val (slots : list (option arg)) (bit : N) : N :=
  match slots with
  | [] => 0
  | s :: slots' => (match s with Some _ => 2 ^ bit | None => 0 end) + flags_val slots' (bit - 1)
  end.
Definition enc_header_payload (cls weight size : N) (slots : list (option arg)) : bytes :=
  enc_be 2 cls ++ enc_be 2 weight ++ enc_be 8 size ++ enc_be 2 (flags_val slots 15) ++
  concat (map (fun s => match s with Some a => enc_arg a | None => [] end) slots).

Definition enc_frame (f : frame) : bytes :=
  match f with
  | FrProto => proto_header
  | FrHeartbeat ch => enc_frame_raw 8 ch []
  | FrMethod ch cls meth args => enc_frame_raw 1 ch (enc_method_payload cls meth args)
  | FrHeader ch cls weight size _ slots => enc_frame_raw 2 ch (enc_header_payload cls weight size slots)
  | FrBody ch body => enc_frame_raw 3 ch body
  end.
