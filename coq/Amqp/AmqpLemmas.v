(* Basic facts linking the specification's encoders (AmqpSpec.v) to the model's primitive
   readers (AmqpModel.v): big-endian numbers, two's complement, taking a prefix. *)
Require Import V.Base.Prelude V.Amqp.AmqpTypes V.Amqp.AmqpModel V.Amqp.AmqpSpec.
Local Open Scope N_scope.

Lemma b2n_b_of_N n : n < 256 -> b2n (b_of_N n) = n.
Proof.
  intros Hn. unfold b2n, b_of_N. destruct (Byte.of_N n) as [b|] eqn:E.
  - apply Byte.to_of_N. exact E.
  - apply Byte.of_N_None_iff in E. lia.
Qed.

Lemma b2n_lt b : b2n b < 256.
Proof. unfold b2n. pose proof (Byte.to_N_bounded b). lia. Qed.

Lemma be_app a b : be (a ++ [b]) = be a * 256 + b2n b.
Proof. unfold be. rewrite fold_left_app. reflexivity. Qed.

Lemma enc_be_length w n : length (enc_be w n) = w.
Proof. revert n. induction w as [|w IH]; intros n; cbn [enc_be]; [reflexivity|]. rewrite app_length, IH. cbn [length]. lia. Qed.

Lemma Blen_app (a b : bytes) : Blen (a ++ b) = Blen a + Blen b.
Proof. unfold Blen. rewrite app_length. lia. Qed.

Lemma Blen_enc_be w n : Blen (enc_be w n) = N.of_nat w.
Proof. unfold Blen. rewrite enc_be_length. reflexivity. Qed.

Lemma be_enc_be w n : n < 256 ^ N.of_nat w -> be (enc_be w n) = n.
Proof.
  revert n. induction w as [|w IH]; intros n Hn.
  - cbn [enc_be]. change (256 ^ N.of_nat 0) with 1 in Hn. unfold be. cbn [fold_left]. lia.
  - cbn [enc_be]. rewrite be_app.
    assert (Hp : 256 ^ N.of_nat (S w) = 256 * 256 ^ N.of_nat w).
    { rewrite Nat2N.inj_succ. rewrite N.pow_succ_r by lia. reflexivity. }
    rewrite Hp in Hn.
    rewrite IH.
    + rewrite b2n_b_of_N by (apply N.mod_lt; lia).
      pose proof (N.div_mod n 256). lia.
    + apply N.div_lt_upper_bound; lia.
Qed.

Lemma ptake_app n a r : n = Blen a -> ptake n (a ++ r) = POk a r.
Proof.
  intros ->. unfold ptake. rewrite Blen_app.
  assert (H : (Blen a <=? Blen a + Blen r) = true) by (apply N.leb_le; lia).
  rewrite H. unfold Blen. rewrite Nat2N.id.
  rewrite firstn_app, Nat.sub_diag, firstn_all, firstn_O, app_nil_r.
  rewrite skipn_app, Nat.sub_diag, skipn_all, skipn_O. reflexivity.
Qed.

Lemma pnum_enc w n r : n < 256 ^ N.of_nat w -> pnum (N.of_nat w) (enc_be w n ++ r) = POk n r.
Proof.
  intros Hn. unfold pnum. rewrite ptake_app by (rewrite Blen_enc_be; reflexivity).
  cbn [pbind]. rewrite be_enc_be by exact Hn. reflexivity.
Qed.

(* two's complement *)
Lemma enc_s_be w z : in_s (8 * N.of_nat w) z -> (0 < w)%nat ->
  be (enc_s w z) = Z.to_N (z mod Z.of_N (256 ^ N.of_nat w)).
Proof.
  intros _ _. unfold enc_s. apply be_enc_be.
  assert (H : (0 < Z.of_N (256 ^ N.of_nat w))%Z) by (assert (256 ^ N.of_nat w <> 0) by (apply N.pow_nonzero; lia); lia).
  pose proof (Z.mod_pos_bound z _ H). lia.
Qed.

Lemma signed_mod (w : N) z : 0 < w -> in_s w z ->
  signed w (Z.to_N (z mod Z.of_N (2 ^ w))) = z.
Proof.
  intros Hw [Hlo Hhi]. unfold signed.
  assert (Hp : 2 ^ w = 2 * 2 ^ (w - 1)).
  { rewrite <- N.pow_succ_r by lia. f_equal. lia. }
  assert (Hpos : 0 < 2 ^ (w - 1)) by (assert (2 ^ (w - 1) <> 0) by (apply N.pow_nonzero; lia); lia).
  set (h := 2 ^ (w - 1)) in *. rewrite Hp.
  destruct (Z.ltb_spec z 0) as [Hneg|Hnn].
  - assert (Hm : (z mod Z.of_N (2 * h) = z + Z.of_N (2 * h))%Z).
    { symmetry. apply Z.mod_unique with (q := (-1)%Z); lia. }
    rewrite Hm.
    destruct (N.ltb_spec (Z.to_N (z + Z.of_N (2 * h))) h) as [H1|H1]; lia.
  - assert (Hm : (z mod Z.of_N (2 * h) = z)%Z) by (apply Z.mod_small; lia).
    rewrite Hm.
    destruct (N.ltb_spec (Z.to_N z) h) as [H1|H1]; lia.
Qed.

Lemma pow256 w : 256 ^ N.of_nat w = 2 ^ (8 * N.of_nat w).
Proof. change 256 with (2 ^ 8). rewrite <- N.pow_mul_r. reflexivity. Qed.

Lemma pnum_enc_s {A} (f : Z -> A) w z r : (0 < w)%nat -> in_s (8 * N.of_nat w) z ->
  pbind (pnum (N.of_nat w) (enc_s w z ++ r)) (fun v r1 => POk (f (signed (8 * N.of_nat w) v)) r1) = POk (f z) r.
Proof.
  intros Hw Hz. unfold enc_s. rewrite pnum_enc.
  - cbn [pbind]. rewrite pow256. rewrite signed_mod by (exact Hz || lia). reflexivity.
  - assert (H : (0 < Z.of_N (256 ^ N.of_nat w))%Z) by (assert (256 ^ N.of_nat w <> 0) by (apply N.pow_nonzero; lia); lia).
    pose proof (Z.mod_pos_bound z _ H). lia.
Qed.

Lemma pnum1_cons b s : pnum 1 (b :: s) = POk (b2n b) s.
Proof.
  unfold pnum, ptake.
  assert (H : (1 <=? Blen (b :: s)) = true) by (apply N.leb_le; unfold Blen; cbn [length]; lia).
  rewrite H. change (N.to_nat 1) with 1%nat. cbn [firstn skipn pbind]. unfold be. cbn [fold_left]. f_equal.
Qed.

Lemma read_shortstr_enc s r : Blen s < 256 -> read_shortstr (enc_shortstr s ++ r) = POk s r.
Proof.
  intros Hs. unfold read_shortstr, enc_shortstr. rewrite <- app_assoc.
  rewrite (pnum_enc 1) by (change (256 ^ N.of_nat 1) with 256; exact Hs).
  cbn [pbind]. apply ptake_app. reflexivity.
Qed.

Lemma read_longstr_enc s r : Blen s <= max_str -> read_longstr (enc_longstr s ++ r) = POk s r.
Proof.
  intros Hs. unfold read_longstr, enc_longstr. rewrite <- app_assoc. unfold max_str in Hs.
  rewrite (pnum_enc 4) by (change (256 ^ N.of_nat 4) with 4294967296; lia).
  cbn [pbind].
  assert (H : (2147483647 <? Blen s) = false) by (apply N.ltb_ge; exact Hs).
  rewrite H. apply ptake_app. reflexivity.
Qed.
