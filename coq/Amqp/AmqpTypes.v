(* AMQP 0-9-1: the data types shared by the model (AmqpModel.v, written from the Go code) and
   the specification (AmqpSpec.v, written from the protocol).  No functions on the wire format
   live here. *)
Require Import V.Base.Prelude.

(* field values: the 14 cases of readField (read.go) *)
Inductive fv :=
| FBool (b : bool)                       (* 't' *)
| FByte (n : N)                          (* 'b' *)
| FShort (z : Z)                         (* 's' int16 *)
| FInt (z : Z)                           (* 'I' int32 *)
| FLong (z : Z)                          (* 'l' int64 *)
| FFloat (bits : N)                      (* 'f' float32 by bit pattern *)
| FDouble (bits : N)                     (* 'd' float64 by bit pattern *)
| FDecimal (scale : N) (v : Z)           (* 'D' *)
| FStr (s : bytes)                       (* 'S' *)
| FArr (l : list fv)                     (* 'A' *)
| FTime (z : Z)                          (* 'T' Unix seconds *)
| FTable (t : list (bytes * fv))         (* 'F' in wire order *)
| FBytes (s : bytes)                     (* 'x' *)
| FVoid.                                 (* 'V' *)

Definition table := list (bytes * fv).

(* method arguments and content properties *)
Inductive akind := KOctet | KShort | KLong | KLongLong | KShortStr | KLongStr | KTable | KBit | KTime.
Inductive arg :=
| AOctet (n : N) | AShort (n : N) | ALong (n : N) | ALongLong (n : N)
| AShortStr (s : bytes) | ALongStr (s : bytes) | ATable (t : table) | ABit (b : bool)
| ATime (z : Z) | ANull.

Inductive frame :=
| FrProto                                               (* the 8-octet protocol header *)
| FrHeartbeat (ch : N)
| FrMethod (ch cls meth : N) (args : list arg)          (* every argument, reserved ones included *)
| FrHeader (ch cls weight size : N) (flags : N) (props : list (option arg))   (* 14 slots, None = flag clear *)
| FrBody (ch : N) (body : bytes).

Inductive tail := TEof | TErrOnce | TErrForever.

Definition Blen (s : bytes) : N := N.of_nat (length s).
