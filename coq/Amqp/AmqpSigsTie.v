(* The method signature table of the model (AmqpModel.method_sig, written by hand) against the
   one regenerated from spec091.go on every run (gen/AmqpSigs.v): equal entry by entry, and the
   model knows no method the source does not dispatch to.  Checked by computation; a change of
   spec091.go that alters a signature breaks this file. *)
Require Import V.Base.Prelude V.Amqp.AmqpTypes V.Amqp.AmqpModel V.gen.AmqpSigs.
Local Open Scope N_scope.

Definition akind_eqb (a b : akind) : bool :=
  match a, b with
  | KOctet, KOctet | KShort, KShort | KLong, KLong | KLongLong, KLongLong | KShortStr, KShortStr
  | KLongStr, KLongStr | KTable, KTable | KBit, KBit | KTime, KTime => true
  | _, _ => false
  end.
Definition sig_eqb (a b : list (akind * bool)) : bool :=
  list_eqb (fun x y => akind_eqb (fst x) (fst y) && Bool.eqb (snd x) (snd y)) a b.

(* an entry the translator could not read (None) is left to the correspondence check *)
Definition entry_agrees (e : N * N * option (list (akind * bool))) : bool :=
  let '(c, m, s) := e in
  match s, method_sig c m with
  | Some gs, Some ms => sig_eqb gs ms
  | None, Some _ => true
  | _, None => false
  end.

Definition dispatched (c m : N) : bool := existsb (fun e => let '(c', m', _) := e in (c =? c') && (m =? m')) gen_sigs.
Definition candidates : list (N * N) :=
  flat_map (fun c => map (fun m => (c, N.of_nat m)) (seq 0 256)) [0; 10; 20; 30; 40; 50; 60; 70; 80; 85; 90; 100; 110; 120].
Definition no_extra (cm : N * N) : bool :=
  match method_sig (fst cm) (snd cm) with Some _ => dispatched (fst cm) (snd cm) | None => true end.

Example sigs_agree : forallb entry_agrees gen_sigs = true.
Proof. vm_compute. reflexivity. Qed.
Example sigs_complete : forallb no_extra candidates = true.
Proof. vm_compute. reflexivity. Qed.
Example sigs_all_read : gen_sigs_unknown = 0%nat.
Proof. reflexivity. Qed.
