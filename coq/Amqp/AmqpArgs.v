(* C05, method arguments: the argument list the specification's encoder writes for a method
   (consecutive bits packed into one octet) is read back exactly by the model's generated
   readers, for every kind list whose bit runs fit one octet - in particular for every entry of
   the signature table. *)
Require Import V.Base.Prelude V.Amqp.AmqpTypes V.Amqp.AmqpModel V.Amqp.AmqpSpec V.Amqp.AmqpLemmas V.Amqp.AmqpProofs.
Local Open Scope N_scope.

(* ------------------------------------------------------------------ bits *)
Lemma bits_val_testbit : forall run j, N.testbit (bits_val run) (N.of_nat j) = nth j run false.
Proof.
  induction run as [|b run IH]; intros j.
  - cbn [bits_val]. destruct j; reflexivity.
  - cbn [bits_val]. destruct j as [|j].
    + apply N.add_b2n_double_bit0.
    + rewrite Nat2N.inj_succ. rewrite (N.add_comm (N.b2n b)). rewrite N.testbit_succ_r. cbn [nth]. apply IH.
Qed.

Lemma bits_val_lt : forall run, bits_val run < 2 ^ N.of_nat (length run).
Proof.
  induction run as [|b run IH]; [cbn; lia|].
  cbn [bits_val length]. rewrite Nat2N.inj_succ, N.pow_succ_r by lia. destruct b; cbn [N.b2n]; lia.
Qed.

Fixpoint bit_run (args : list arg) : list bool * list arg :=
  match args with
  | ABit b :: rest => let (run, r) := bit_run rest in (b :: run, r)
  | _ => ([], args)
  end.
Definition starts_with_bit (args : list arg) : bool := match args with ABit _ :: _ => true | _ => false end.
Definition enc_tail (rest : list arg) : bytes :=
  match rest with [] => [] | a :: rest' => enc_arg a ++ enc_args rest' [] end.

Lemma bit_run_spec args : args = map ABit (fst (bit_run args)) ++ snd (bit_run args) /\ starts_with_bit (snd (bit_run args)) = false.
Proof.
  induction args as [|a args IH]; [split; reflexivity|].
  destruct a; try (split; reflexivity).
  cbn [bit_run]. destruct (bit_run args) as [run r]. cbn [fst snd map app] in *. destruct IH as [IH1 IH2]. split; [f_equal; exact IH1|exact IH2].
Qed.

Lemma enc_tail_nobit rest : starts_with_bit rest = false -> enc_tail rest = enc_args rest [].
Proof. destruct rest as [|a rest]; [reflexivity|]. destruct a; cbn; try reflexivity; discriminate. Qed.

Lemma enc_args_run args : forall pend,
  enc_args args pend = flush_bits (pend ++ fst (bit_run args)) ++ enc_tail (snd (bit_run args)).
Proof.
  induction args as [|a args IH]; intros pend.
  - cbn. rewrite !app_nil_r. reflexivity.
  - destruct a; try (cbn [enc_args bit_run fst snd enc_tail]; rewrite app_nil_r; reflexivity).
    cbn [enc_args bit_run]. rewrite IH. destruct (bit_run args) as [run r]. cbn [fst snd]. rewrite <- app_assoc. reflexivity.
Qed.

(* ------------------------------------------------------------------ the reader on a run of bits *)
Lemma read_args_reset fuel ks st s : match ks with KBit :: _ => False | _ => True end ->
  read_args fuel ks st s = read_args fuel ks None s.
Proof. destruct ks as [|k ks]; [reflexivity|]. destruct k; intros H; try reflexivity. contradiction. Qed.

Lemma read_bits fuel run : forall ks i B s,
  (forall j, (j < length run)%nat -> N.testbit B (i + N.of_nat j) = nth j run false) ->
  read_args fuel (repeat KBit (length run) ++ ks) (Some (B, i)) s =
  pbind (read_args fuel ks (Some (B, i + N.of_nat (length run))) s) (fun rest r => POk (map ABit run ++ rest) r).
Proof.
  induction run as [|b run IH]; intros ks i B s H.
  - cbn [length repeat app map]. rewrite N.add_0_r. destruct (read_args fuel ks (Some (B, i)) s); reflexivity.
  - cbn [length repeat app read_args].
    rewrite (IH ks (i + 1) B s).
    + replace (i + 1 + N.of_nat (length run)) with (i + N.of_nat (S (length run))) by lia.
      pose proof (H 0%nat ltac:(cbn; lia)) as H0. cbn [nth] in H0. rewrite N.add_0_r in H0. rewrite H0.
      destruct (read_args fuel ks _ s); reflexivity.
    + intros j Hj. pose proof (H (S j) ltac:(cbn; lia)) as Hs. cbn [nth] in Hs. rewrite <- Hs. f_equal. lia.
Qed.

(* ------------------------------------------------------------------ one non-bit argument *)
Definition arg_fuel_ok (fuel : nat) (a : arg) : Prop := match a with ATable t => (tneed t <= fuel)%nat | _ => True end.

Lemma read_nonbit fuel a k ks s : kind_of a = Some k -> k <> KBit -> wf_arg a -> arg_fuel_ok fuel a ->
  read_args fuel (k :: ks) None (enc_arg a ++ s) = pbind (read_args fuel ks None s) (fun rs r => POk (a :: rs) r).
Proof.
  intros Hk Hnb Hwf Hfuel. destruct a; cbn [kind_of] in Hk; inversion Hk; subst k; cbn [wf_arg arg_fuel_ok enc_arg] in *; try congruence; cbn [read_args].
  - rewrite (pnum_enc 1) by (change (256 ^ N.of_nat 1) with 256; exact Hwf). reflexivity.
  - rewrite (pnum_enc 2) by (change (256 ^ N.of_nat 2) with (2 ^ 16); exact Hwf). reflexivity.
  - rewrite (pnum_enc 4) by (change (256 ^ N.of_nat 4) with (2 ^ 32); exact Hwf). reflexivity.
  - rewrite (pnum_enc 8) by (change (256 ^ N.of_nat 8) with (2 ^ 64); exact Hwf). reflexivity.
  - rewrite read_shortstr_enc by exact Hwf. reflexivity.
  - rewrite read_longstr_enc by exact Hwf. reflexivity.
  - rewrite amqp_table_roundtrip by assumption. reflexivity.
  - assert (Hin : in_s (8 * N.of_nat 8) z) by (unfold in_s, time_ok in *; cbn; lia).
    pose proof (pnum_enc_s (fun v => ATime (clamp_time v)) 8 z s ltac:(lia) Hin) as Hp. cbv beta in Hp.
    assert (Hc : clamp_time z = z).
    { unfold clamp_time, time_ok in *. destruct (Z.ltb_spec z (-62167219200)); destruct (Z.leb_spec 253402300800 z); cbn [orb]; lia. }
    rewrite Hc in Hp.
    change (pnum 8 (enc_s 8 z ++ s)) with (pnum (N.of_nat 8) (enc_s 8 z ++ s)).
    destruct (pnum (N.of_nat 8) (enc_s 8 z ++ s)) as [v r1|e r1| |]; cbn [pbind] in Hp |- *; try discriminate.
    change (8 * N.of_nat 8) with 64 in Hp. inversion Hp; subst. reflexivity.
Qed.

(* ------------------------------------------------------------------ whole argument lists *)
Definition kinds_match (ks : list akind) (args : list arg) : Prop := Forall2 (fun k a => kind_of a = Some k) ks args.

(* every run of consecutive bits fits one octet *)
Fixpoint runs_ok (args : list arg) (cur : nat) : Prop :=
  match args with
  | [] => True
  | ABit _ :: rest => (cur < 8)%nat /\ runs_ok rest (S cur)
  | _ :: rest => runs_ok rest 0
  end.

Lemma runs_ok_run args : forall cur, (cur <= 8)%nat -> runs_ok args cur ->
  (cur + length (fst (bit_run args)) <= 8)%nat /\ runs_ok (snd (bit_run args)) 0.
Proof.
  induction args as [|a args IH]; intros cur Hc8 H; [cbn; split; [lia|exact I]|].
  destruct a; try (cbn [bit_run fst snd length]; split; [lia|]; cbn [runs_ok] in H |- *; exact H).
  cbn [runs_ok] in H. destruct H as [Hc H]. specialize (IH (S cur) ltac:(lia) H). cbn [bit_run]. destruct (bit_run args) as [run r]. cbn [fst snd length] in *.
  split; [lia|]. destruct IH as [_ IH]. exact IH.
Qed.

Lemma kinds_match_app ks args1 args2 : kinds_match ks (args1 ++ args2) ->
  exists ks1 ks2, ks = ks1 ++ ks2 /\ kinds_match ks1 args1 /\ kinds_match ks2 args2.
Proof.
  revert ks. induction args1 as [|a args1 IH]; intros ks H.
  - exists [], ks. repeat split; [constructor|exact H].
  - inversion H as [|k a' ks' l' Hk Hrest]; subst. destruct (IH ks' Hrest) as (ks1 & ks2 & -> & H1 & H2).
    exists (k :: ks1), ks2. repeat split; [constructor; assumption|exact H2].
Qed.

Lemma kinds_bits run ks : kinds_match ks (map ABit run) -> ks = repeat KBit (length run).
Proof.
  revert ks. induction run as [|b run IH]; intros ks H; inversion H as [|k a ks' l Hk Hrest]; subst; [reflexivity|].
  cbn [kind_of] in Hk. inversion Hk. cbn [length repeat]. f_equal. apply IH. exact Hrest.
Qed.

Lemma args_roundtrip_n fuel : forall n args, (length args <= n)%nat -> forall ks r,
  kinds_match ks args -> Forall wf_arg args -> Forall (arg_fuel_ok fuel) args -> runs_ok args 0 ->
  read_args fuel ks None (enc_args args [] ++ r) = POk args r.
Proof.
  induction n as [|n IH]; intros args Hn ks r Hk Hwf Hf Hr.
  - destruct args; [|cbn in Hn; lia]. inversion Hk. reflexivity.
  - destruct args as [|a rest]; [inversion Hk; reflexivity|].
    destruct (starts_with_bit (a :: rest)) eqn:Hsb.
    + (* a run of bits *)
      destruct (bit_run_spec (a :: rest)) as [Hsplit Hnb].
      destruct (runs_ok_run (a :: rest) 0 ltac:(lia) Hr) as [Hlen Hr'].
      rewrite enc_args_run. cbn [app].
      destruct (bit_run (a :: rest)) as [run rest'] eqn:Erun. cbn [fst snd] in *.
      destruct run as [|b run]; [destruct a; cbn in Hsb, Erun; try discriminate; destruct (bit_run rest); inversion Erun|].
      rewrite Hsplit in Hk. destruct (kinds_match_app _ _ _ Hk) as (ks1 & ks2 & -> & Hk1 & Hk2).
      apply kinds_bits in Hk1. subst ks1.
      cbn [flush_bits]. cbn [length repeat app read_args].
      assert (Hlt : bits_val (b :: run) < 256).
      { pose proof (bits_val_lt (b :: run)) as Hb. assert (2 ^ N.of_nat (length (b :: run)) <= 2 ^ 8) by (apply N.pow_le_mono_r; lia). change (2 ^ 8) with 256 in *. lia. }
      rewrite pnum1_cons. rewrite b2n_b_of_N by exact Hlt. cbn [pbind].
      rewrite (read_bits fuel run ks2 1 (bits_val (b :: run))).
      2:{ intros j Hj. replace (1 + N.of_nat j) with (N.of_nat (S j)) by lia. rewrite bits_val_testbit. reflexivity. }
      rewrite read_args_reset.
      2:{ destruct rest' as [|a' rest']; inversion Hk2 as [|k a'' ks' l Hka Hrest]; subst; [exact I|].
          destruct a'; cbn in Hnb, Hka; try discriminate; inversion Hka; exact I. }
      rewrite enc_tail_nobit by exact Hnb.
      assert (Hlen' : (length rest' <= n)%nat).
      { rewrite Hsplit in Hn. rewrite app_length, map_length in Hn. cbn [length] in Hn. lia. }
      assert (Hwf' : Forall wf_arg rest') by (rewrite Hsplit in Hwf; apply Forall_app in Hwf; tauto).
      assert (Hf' : Forall (arg_fuel_ok fuel) rest') by (rewrite Hsplit in Hf; apply Forall_app in Hf; tauto).
      rewrite (IH rest' Hlen' ks2 r Hk2 Hwf' Hf' Hr'). cbn [pbind].
      pose proof (bits_val_testbit (b :: run) 0) as H0. cbn [nth N.of_nat] in H0. rewrite H0.
      rewrite Hsplit. reflexivity.
    + (* an ordinary argument *)
      inversion Hk as [|k a' ks' l Hka Hrest]; subst. inversion Hwf as [|? ? Hwa Hwr]; subst. inversion Hf as [|? ? Hfa Hfr]; subst.
      assert (Hnb : k <> KBit) by (destruct a; cbn in Hsb, Hka; try discriminate; inversion Hka; discriminate).
      assert (Henc : enc_args (a :: rest) [] = enc_arg a ++ enc_args rest []).
      { destruct a; cbn in Hsb |- *; try reflexivity; discriminate. }
      rewrite Henc, <- app_assoc. rewrite read_nonbit by assumption.
      assert (Hr' : runs_ok rest 0) by (destruct a; cbn in Hsb, Hr |- *; try exact Hr; discriminate).
      rewrite (IH rest ltac:(cbn in Hn; lia) ks' r Hrest Hwr Hfr Hr'). reflexivity.
Qed.

Theorem args_roundtrip : forall fuel ks args r,
  kinds_match ks args -> Forall wf_arg args -> Forall (arg_fuel_ok fuel) args -> runs_ok args 0 ->
  read_args fuel ks None (enc_args args [] ++ r) = POk args r.
Proof. intros fuel ks args r. apply (args_roundtrip_n fuel (length args)). lia. Qed.
