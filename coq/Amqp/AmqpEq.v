(* Boolean equality on the observable values (used by the correspondence check files that the
   harness output is turned into, and by nothing else). *)
Require Import V.Base.Prelude V.Amqp.AmqpTypes V.Amqp.AmqpModel V.Amqp.AmqpSpec.
Local Open Scope N_scope.

Fixpoint fv_eqb (a b : fv) {struct a} : bool :=
  match a, b with
  | FBool x, FBool y => Bool.eqb x y
  | FByte x, FByte y => x =? y
  | FShort x, FShort y => (x =? y)%Z
  | FInt x, FInt y => (x =? y)%Z
  | FLong x, FLong y => (x =? y)%Z
  | FFloat x, FFloat y => x =? y
  | FDouble x, FDouble y => x =? y
  | FDecimal s x, FDecimal t y => (s =? t) && (x =? y)%Z
  | FStr x, FStr y => bytes_eqb x y
  | FArr x, FArr y => list_eqb fv_eqb x y
  | FTime x, FTime y => (x =? y)%Z
  | FTable x, FTable y =>
      list_eqb (fun p q => match p, q with (k1, v1), (k2, v2) => bytes_eqb k1 k2 && fv_eqb v1 v2 end) x y
  | FBytes x, FBytes y => bytes_eqb x y
  | FVoid, FVoid => true
  | _, _ => false
  end.

Definition table_eqb (x y : table) : bool := fv_eqb (FTable x) (FTable y).

Definition arg_eqb (a b : arg) : bool :=
  match a, b with
  | AOctet x, AOctet y | AShort x, AShort y | ALong x, ALong y | ALongLong x, ALongLong y => x =? y
  | AShortStr x, AShortStr y | ALongStr x, ALongStr y => bytes_eqb x y
  | ATable x, ATable y => table_eqb x y
  | ABit x, ABit y => Bool.eqb x y
  | ATime x, ATime y => (x =? y)%Z
  | ANull, ANull => true
  | _, _ => false
  end.

Definition mview_eqb (a b : mview) : bool := (fst a =? fst b) && list_eqb arg_eqb (snd a) (snd b).
Definition item_eqb (a b : item) : bool :=
  Bool.eqb (it_by_client a) (it_by_client b) && mview_eqb (it_req a) (it_req b) && mview_eqb (it_res a) (it_res b)
  && Bool.eqb (it_swapped a) (it_swapped b).

(* outcome class only: the Go line of a panic is not an observable *)
Definition outcome_eqb (a b : outcome) : bool :=
  match a, b with
  | OEof, OEof | OError, OError | ONoTerm, ONoTerm => true
  | OPanic _, OPanic _ => true
  | _, _ => false
  end.

Definition residue_eqb (a b : residue_entry) : bool :=
  let '(a1, a2, a3, a4, a5) := a in let '(b1, b2, b3, b4, b5) := b in
  (a1 =? b1) && (a2 =? b2) && (a3 =? b3) && Bool.eqb a4 b4 && (a5 =? b5).

Definition obs := (outcome * outcome * list item * list residue_entry)%type.
Definition obs_eqb (a b : obs) : bool :=
  let '(a1, a2, a3, a4) := a in let '(b1, b2, b3, b4) := b in
  outcome_eqb a1 b1 && outcome_eqb a2 b2 && list_eqb item_eqb a3 b3 && list_eqb residue_eqb a4 b4.

(* the frames of a direction as the model decodes them (protocol errors skipped) *)
Fixpoint frames_of (fuel : nat) (st : stream) : list frame :=
  match fuel with
  | O => []
  | S fuel' =>
      match read_frame st with
      | (Ok f, st1) => f :: frames_of fuel' st1
      | (Err EProto, st1) => frames_of fuel' st1
      | _ => []
      end
  end.

Fixpoint items_match (its : list item) (sis : list sitem) : bool :=
  match its, sis with
  | [], [] => true
  | it :: its', si :: sis' => mview_eqb (it_req it) (fst si) && mview_eqb (it_res it) (snd si) && items_match its' sis'
  | _, _ => false
  end.

(* specification test, run on conversations the generator built in normal form: the Coq `normal`
   predicate accepts them and the model's items are exactly the specification's report *)
Definition spec_check (c s : bytes) : bool :=
  let cst := {| sdata := c; stail := TEof |} in
  let sst := {| sdata := s; stail := TEof |} in
  let cfs := frames_of (dissect_fuel cst) cst in
  let sfs := frames_of (dissect_fuel sst) sst in
  let '(_, _, ms) := dissect_both true cst sst in
  normal cfs sfs && items_match (items ms) (spec_report cfs sfs).

(* one correspondence case: processing order, both halves, what the implementation did *)
Record kcase := { k_client_first : bool; k_c : bytes; k_ct : tail; k_s : bytes; k_st : tail; k_obs : obs; k_normal : bool }.
Definition kcheck_obs (k : kcase) : bool :=
  obs_eqb (observe (dissect_both (k_client_first k) {| sdata := k_c k; stail := k_ct k |} {| sdata := k_s k; stail := k_st k |}))
          (k_obs k).
Definition kcheck_spec (k : kcase) : bool := if k_normal k then spec_check (k_c k) (k_s k) else true.
Definition mk_item (by_client : bool) (rq rs : mview) (swapped : bool) : item :=
  {| it_by_client := by_client; it_req := rq; it_res := rs; it_swapped := swapped |}.
