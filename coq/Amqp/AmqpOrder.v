(* C05, the order of the two halves.  AmqpStepReport.v proves the report for the client half
   dissected first (the order of the suite).  Here: the SERVER half first.  While the server
   half runs against the empty matcher every reply is stored (there is nothing to pair it with)
   and every delivery is emitted; while the client half then runs, every request finds the
   stored reply of its key and the pair is emitted - by the client-side reader, request = the
   client's method, response = the server's - and every publish is emitted.  The items are
   `AmqpSpec.spec_report_server_first`; as a multiset they are the items of `spec_report`. *)
Require Import V.Base.Prelude V.Amqp.AmqpTypes V.Amqp.AmqpModel V.Amqp.AmqpSpec V.Amqp.AmqpLemmas V.Amqp.AmqpProofs.
Require Import V.Amqp.AmqpArgs V.Amqp.AmqpMethods V.Amqp.AmqpReport V.Amqp.AmqpStepReport.
From Coq Require Import Permutation.
Local Open Scope N_scope.

(* ------------------------------------------------------------------ Dissect in either order *)
Definition run_both (client_first : bool) (cfs sfs : list frame) : mstate :=
  if client_first then snd (run_frames false sfs (init_dstate, snd (run_frames true cfs (init_dstate, init_mstate))))
  else snd (run_frames true cfs (init_dstate, snd (run_frames false sfs (init_dstate, init_mstate)))).

(* AmqpReport.report_frames for both orders: the proof does not depend on the order *)
Theorem report_frames_any : forall b cfs sfs ct st_, Forall wf_frame cfs -> Forall wf_frame sfs ->
  dissect_both b {| sdata := enc_frames cfs; stail := ct |} {| sdata := enc_frames sfs; stail := st_ |} =
  (end_outcome ct, end_outcome st_, run_both b cfs sfs).
Proof.
  intros b cfs sfs ct st_ Hc Hs. unfold dissect_both, run_both. destruct b.
  - rewrite (dissect_frames cfs Hc) by (unfold dissect_fuel; cbn [sdata]; pose proof (enc_frames_len cfs); lia).
    rewrite (dissect_frames sfs Hs) by (unfold dissect_fuel; cbn [sdata]; pose proof (enc_frames_len sfs); lia).
    reflexivity.
  - rewrite (dissect_frames sfs Hs) by (unfold dissect_fuel; cbn [sdata]; pose proof (enc_frames_len sfs); lia).
    rewrite (dissect_frames cfs Hc) by (unfold dissect_fuel; cbn [sdata]; pose proof (enc_frames_len cfs); lia).
    reflexivity.
Qed.

(* ------------------------------------------------------------------ the matcher: a request that finds a stored reply *)
Lemma emit_request_found by_c id m ms rp : assoc id (open_msgs ms) = Some (false, rp) ->
  exists l', emit by_c true id m ms =
    {| open_msgs := l'; items := items ms ++ [{| it_by_client := by_c; it_req := m; it_res := rp; it_swapped := false |}] |}
    /\ forall k', k' <> id -> assoc k' l' = assoc k' (open_msgs ms).
Proof.
  intros H. destruct (lookup_del_some _ _ _ H) as (l' & Hl & Ha). exists l'. split; [|exact Ha].
  unfold emit. rewrite Hl. reflexivity.
Qed.

(* the replies of a list of server frames as a finite map: what the matcher holds after them *)
Fixpoint rep_assoc (k : ident) (fs : list frame) : option (bool * mview) :=
  match fs with
  | [] => None
  | FrMethod ch cls meth args :: rest =>
      if spec_reply cls meth && ident_eqb k (key_of ch cls meth) then Some (false, req_view cls meth args) else rep_assoc k rest
  | _ :: rest => rep_assoc k rest
  end.

Lemma rep_assoc_app k l1 l2 : rep_assoc k (l1 ++ l2) = match rep_assoc k l1 with Some x => Some x | None => rep_assoc k l2 end.
Proof.
  induction l1 as [|f l1 IH]; [reflexivity|]. destruct f; cbn [rep_assoc app]; try exact IH.
  destruct (spec_reply cls meth && ident_eqb k (key_of ch cls meth)); [reflexivity|exact IH].
Qed.

Lemma rep_assoc_key k fs x : rep_assoc k fs = Some x -> existsb (key_eqb k) (keys spec_reply fs) = true.
Proof.
  induction fs as [|f fs IH]; [discriminate|]. destruct f; cbn [rep_assoc keys]; try exact IH.
  destruct (spec_reply cls meth) eqn:Er; cbn [andb].
  - destruct (ident_eqb k (key_of ch cls meth)) eqn:Ek.
    + intros _. cbn [existsb]. rewrite key_eqb_ident. unfold key_of in Ek. rewrite Ek. reflexivity.
    + intros H. cbn [existsb]. rewrite (IH H). apply orb_true_r.
  - exact IH.
Qed.

Lemma rep_assoc_none_msg fs ch w : (w = 40 \/ w = 60) -> rep_assoc (ch, 60, w) fs = None.
Proof.
  intros Hw. induction fs as [|f fs IH]; [reflexivity|]. destruct f; cbn [rep_assoc]; try exact IH.
  destruct (spec_reply cls meth) eqn:Er; cbn [andb]; [|exact IH].
  rewrite ident_eqb_neq; [exact IH|]. intros E. symmetry in E. revert E. unfold key_of. apply reply_key_not_msg; assumption.
Qed.

Lemma reply_ge1 cls meth : spec_reply cls meth = true -> 1 <= meth.
Proof. unfold spec_reply. intros H. apply andb_prop in H. destruct H as [H _]. apply N.leb_le in H. exact H. Qed.

Lemma reply_of_request cls m0 : spec_request cls m0 = true -> spec_reply cls (m0 + 1) = true.
Proof.
  intros H. unfold spec_reply. rewrite N.add_sub, H. replace (1 <=? m0 + 1) with true; [reflexivity|].
  symmetry. apply N.leb_le. lia.
Qed.

(* the stored reply of a request's key is the server's method (ch, cls, meth + 1) *)
Lemma rep_assoc_find ch cls m0 sfs : spec_request cls m0 = true ->
  rep_assoc (ch, cls, m0) sfs = option_map (fun rp => (false, req_view cls (m0 + 1) rp)) (find_request ch cls (m0 + 1) sfs).
Proof.
  intros Hr. induction sfs as [|f sfs IH]; [reflexivity|]. destruct f; cbn [rep_assoc find_request]; try exact IH.
  destruct (spec_reply cls0 meth) eqn:Er0; cbn [andb].
  - destruct (reply_facts cls0 meth Er0) as (_ & _ & Hfam & _). pose proof (reply_ge1 cls0 meth Er0) as H1.
    unfold key_of. rewrite Hfam. cbn [ident_eqb].
    assert (Hm : (m0 =? meth - 1) = (m0 + 1 =? meth)).
    { destruct (N.eqb_spec m0 (meth - 1)), (N.eqb_spec (m0 + 1) meth); try reflexivity; lia. }
    rewrite Hm.
    destruct ((ch =? ch0) && (cls =? cls0) && (m0 + 1 =? meth)) eqn:E; [|exact IH].
    apply andb_prop in E. destruct E as [E E3]. apply andb_prop in E. destruct E as [E1 E2].
    apply N.eqb_eq in E1, E2, E3. subst. reflexivity.
  - destruct ((ch =? ch0) && (cls =? cls0) && (m0 + 1 =? meth)) eqn:E; [|exact IH].
    apply andb_prop in E. destruct E as [E E3]. apply andb_prop in E. destruct E as [E1 E2].
    apply N.eqb_eq in E1, E2, E3. subst. rewrite (reply_of_request _ _ Hr) in Er0. discriminate.
Qed.

(* ------------------------------------------------------------------ the server half, run first *)
Lemma server_first_sim : forall fs pre cst cu pr d ms,
  Forall wf_frame fs -> content_ok fs cst = true -> methods_ok server_allowed fs = true ->
  distinct (keys spec_reply pre ++ keys spec_reply fs) = true ->
  sinv cst cu pr d -> (forall k, assoc k (open_msgs ms) = rep_assoc k pre) ->
  map item_view (items (snd (run_frames false fs (d, ms)))) = map item_view (items ms) ++ spec_messages 60 fs cu pr /\
  (forall k, assoc k (open_msgs (snd (run_frames false fs (d, ms)))) = rep_assoc k (pre ++ fs)).
Proof.
  induction fs as [|f fs IH]; intros pre cst cu pr d ms Hwf Hcont Hmeth Hdist Hinv Hopen.
  - cbn. rewrite !app_nil_r. split; [reflexivity|exact Hopen].
  - inversion Hwf as [|? ? Hwf1 Hwfs]; subst. rewrite run_frames_cons.
    unfold methods_ok in Hmeth. cbn [forallb] in Hmeth. apply andb_prop in Hmeth. destruct Hmeth as [Hm1 Hms]. fold (methods_ok server_allowed fs) in Hms.
    destruct f as [|hch|ch cls meth args|ch cls weight size flags slots|ch body].
    + (* protocol header *)
      cbn [step content_ok] in *. destruct (IH pre cst cu pr d ms Hwfs Hcont Hms Hdist Hinv Hopen) as [I1 I2].
      split; [exact I1|]. intros k. rewrite I2, !rep_assoc_app. reflexivity.
    + (* heartbeat *)
      cbn [step content_ok] in *. destruct (IH pre cst cu pr d ms Hwfs Hcont Hms Hdist Hinv Hopen) as [I1 I2].
      split; [exact I1|]. intros k. rewrite I2, !rep_assoc_app. reflexivity.
    + (* method *)
      destruct Hwf1 as (Hch & (Hc & Hm & sig & Hsig & Hk & Hwfa) & Hlen).
      cbn [content_ok] in Hcont. destruct cst; try discriminate. destruct Hinv as [-> ->].
      apply andb_prop in Hm1. destruct Hm1 as [Hh Hal]. apply negb_true_iff in Hh.
      unfold server_allowed in Hal. apply andb_prop in Hal. destruct Hal as [Hr Hd]. apply negb_true_iff in Hr, Hd.
      destruct (handshake_false cls meth Hh) as [Hh1 Hh2].
      rewrite (step_method false ch cls meth args d ms sig Hsig Hh1).
      pose proof (emit_class cls meth sig Hsig) as Hpe. rewrite Hr, Hh2, orb_false_r in Hpe. cbn [orb] in Hpe.
      cbn [spec_messages]. cbn [keys] in Hdist.
      destruct (spec_reply cls meth) eqn:Erep.
      * (* a reply: stored, there is nothing to pair it with *)
        rewrite Hpe. destruct (reply_facts cls meth Erep) as (Hnc & _ & _ & _). rewrite Hnc in *.
        assert (Hrepd : reported sig args = spec_reported cls meth args).
        { apply (reported_spec cls meth sig args Hsig Hk). unfold is_reported. rewrite Hpe. reflexivity. }
        rewrite Hrepd.
        destruct (distinct_mid _ _ _ Hdist) as [Hnot Hdist'].
        assert (Hnone : assoc (ch, cls, meth - meth mod 10) (open_msgs ms) = None).
        { rewrite Hopen. destruct (rep_assoc (ch, cls, meth - meth mod 10) pre) eqn:E; [|reflexivity].
          apply rep_assoc_key in E. rewrite E in Hnot. discriminate. }
        rewrite (emit_store false false _ _ ms Hnone).
        match goal with |- context [run_frames false fs (?d1, ?m1)] =>
          destruct (IH (pre ++ [FrMethod ch cls meth args]) CIdle None None d1 m1 Hwfs Hcont Hms) as [I1 I2] end.
        { rewrite keys_app. cbn [keys]. rewrite Erep. rewrite <- app_assoc. exact Hdist'. }
        { split; reflexivity. }
        { intros k. cbn [open_msgs]. rewrite assoc_app, rep_assoc_app, Hopen. destruct (rep_assoc k pre); [reflexivity|].
          cbn [assoc rep_assoc]. rewrite Erep. cbn [andb]. unfold key_of. destruct (ident_eqb k (ch, cls, meth - meth mod 10)); reflexivity. }
        cbn [items] in I1. split; [exact I1|]. intros k. rewrite I2. rewrite <- app_assoc. reflexivity.
      * (* not a reply: nothing emitted *)
        rewrite Hpe.
        match goal with |- context [run_frames false fs (?d1, ms)] => set (d1' := d1) end.
        assert (Hinv' : sinv (if spec_content cls meth then CWantHeader ch else CIdle)
                             (if spec_content cls meth then Some (ch, meth, spec_reported cls meth args) else None) None d1').
        { destruct (spec_content cls meth) eqn:Ec; [|split; reflexivity].
          destruct (content_cases cls meth Ec) as [-> Hcases]. exists meth, (spec_reported 60 meth args). repeat split.
          destruct Hcases as [ -> | [ -> | [ -> | -> ]]]; try discriminate Hd; unfold dmatch_s, d1'; cbn; [reflexivity| |reflexivity].
          repeat split. apply (reported_spec 60 60 sig args Hsig Hk). reflexivity. }
        destruct (IH pre _ _ None d1' ms Hwfs Hcont Hms Hdist Hinv' Hopen) as [I1 I2].
        split; [exact I1|]. intros k. rewrite I2, !rep_assoc_app. cbn [rep_assoc]. rewrite Erep. reflexivity.
    + (* content header *)
      cbn [content_ok] in Hcont. destruct cst as [|ch'|]; try discriminate.
      apply andb_prop in Hcont. destruct Hcont as [Hc1 Hcont]. apply andb_prop in Hc1. destruct Hc1 as [Hc1 Hsz2]. apply andb_prop in Hc1. destruct Hc1 as [Hce Hsz1].
      apply N.eqb_eq in Hce. subst ch'.
      destruct Hinv as (m & a & -> & -> & Hdm).
      cbn [spec_messages]. rewrite N.eqb_refl.
      cbn [step]. rewrite (header_props _ _ _ _ _ _ Hwf1).
      unfold dmatch_s in Hdm. destruct (m =? 60) eqn:Em.
      * destruct Hdm as (Hl & Hcur & Hpa). rewrite Hl.
        match goal with |- context [run_frames false fs (?d1, ms)] => set (d1' := d1) end.
        assert (Hinv' : sinv (CWantBody ch size) (Some (ch, m, a)) (Some (spec_props slots spec_zero_props)) d1').
        { exists m, a, (spec_props slots spec_zero_props). repeat split. unfold dmatch_s. rewrite Em. repeat split; assumption. }
        destruct (IH pre _ _ _ d1' ms Hwfs Hcont Hms Hdist Hinv' Hopen) as [I1 I2].
        split; [exact I1|]. intros k. rewrite I2, !rep_assoc_app. reflexivity.
      * rewrite Hdm.
        assert (Hinv' : sinv (CWantBody ch size) (Some (ch, m, a)) (Some (spec_props slots spec_zero_props)) d).
        { exists m, a, (spec_props slots spec_zero_props). repeat split; [unfold dmatch_s; rewrite Em; exact Hdm|]. intros ->. discriminate. }
        destruct (IH pre _ _ _ d ms Hwfs Hcont Hms Hdist Hinv' Hopen) as [I1 I2].
        split; [exact I1|]. intros k. rewrite I2, !rep_assoc_app. reflexivity.
    + (* body *)
      cbn [content_ok] in Hcont. destruct cst as [| |ch' size]; try discriminate.
      apply andb_prop in Hcont. destruct Hcont as [Hc1 Hcont]. apply andb_prop in Hc1. destruct Hc1 as [Hce Hsz].
      apply N.eqb_eq in Hce. subst ch'.
      destruct Hinv as (m & a & p & -> & -> & Hdm & Hpp).
      cbn [spec_messages]. rewrite N.eqb_refl. cbn [andb].
      unfold dmatch_s in Hdm. cbn [step]. destruct (m =? 60) eqn:Em.
      * (* a delivery: emitted at once *)
        apply N.eqb_eq in Em. subst m. destruct Hdm as (Hl & Hcur & Hpa). rewrite Hl, Hcur, Hpa, (Hpp eq_refl).
        cbn [negb].
        assert (Hnone : assoc (ch, 60, 60) (open_msgs ms) = None) by (rewrite Hopen; apply rep_assoc_none_msg; right; reflexivity).
        rewrite (emit_self_pair false (ch, 60, 60) _ ms Hnone).
        match goal with |- context [run_frames false fs (d, ?m1)] =>
          destruct (IH pre CIdle None None d m1 Hwfs Hcont Hms Hdist (conj eq_refl eq_refl)) as [I1 I2] end.
        { intros k. cbn [open_msgs]. apply Hopen. }
        cbn [items] in I1. rewrite map_app in I1. cbn [map] in I1. rewrite <- app_assoc in I1.
        split; [exact I1|]. intros k. rewrite I2, !rep_assoc_app. reflexivity.
      * rewrite Hdm.
        destruct (IH pre CIdle None None d ms Hwfs Hcont Hms Hdist (conj eq_refl eq_refl) Hopen) as [I1 I2].
        split; [exact I1|]. intros k. rewrite I2, !rep_assoc_app. reflexivity.
Qed.

(* ------------------------------------------------------------------ the client half, run second *)
Lemma client_second_sim sfs : forall fs done cst cu pr d ms,
  Forall wf_frame fs -> content_ok fs cst = true -> methods_ok client_allowed fs = true ->
  distinct (done ++ keys spec_request fs) = true ->
  cinv cst cu pr d ->
  (forall k, existsb (key_eqb k) done = false -> assoc k (open_msgs ms) = rep_assoc k sfs) ->
  (forall ch, assoc (ch, 60, 40) (open_msgs ms) = None) ->
  map item_view (items (snd (run_frames true fs (d, ms)))) = map item_view (items ms) ++ spec_client fs sfs cu pr.
Proof.
  induction fs as [|f fs IH]; intros done cst cu pr d ms Hwf Hcont Hmeth Hdist Hinv Hopen Hmsg.
  - cbn. rewrite app_nil_r. reflexivity.
  - inversion Hwf as [|? ? Hwf1 Hwfs]; subst. rewrite run_frames_cons.
    unfold methods_ok in Hmeth. cbn [forallb] in Hmeth. apply andb_prop in Hmeth. destruct Hmeth as [Hm1 Hms]. fold (methods_ok client_allowed fs) in Hms.
    destruct f as [|hch|ch cls meth args|ch cls weight size flags slots|ch body].
    + cbn [step content_ok spec_client keys] in *. exact (IH done cst cu pr d ms Hwfs Hcont Hms Hdist Hinv Hopen Hmsg).
    + cbn [step content_ok spec_client keys] in *. exact (IH done cst cu pr d ms Hwfs Hcont Hms Hdist Hinv Hopen Hmsg).
    + (* method *)
      destruct Hwf1 as (Hch & (Hc & Hm & sig & Hsig & Hk & Hwfa) & Hlen).
      cbn [content_ok] in Hcont. destruct cst; try discriminate. destruct Hinv as [-> ->].
      apply andb_prop in Hm1. destruct Hm1 as [Hh Hal]. apply negb_true_iff in Hh.
      unfold client_allowed in Hal. apply andb_prop in Hal. destruct Hal as [Hr Hd]. apply negb_true_iff in Hr, Hd.
      destruct (handshake_false cls meth Hh) as [Hh1 Hh2].
      rewrite (step_method true ch cls meth args d ms sig Hsig Hh1).
      pose proof (emit_class cls meth sig Hsig) as Hpe. rewrite Hr, Hh2, !orb_false_r in Hpe.
      cbn [spec_client]. cbn [keys] in Hdist.
      destruct (spec_request cls meth) eqn:Ereq.
      * (* a request *)
        rewrite Hpe. destruct (request_not_content cls meth Ereq) as (Hnc & _ & _). rewrite Hnc in *.
        pose proof (request_mod cls meth Ereq) as Hmod. rewrite Hmod, N.sub_0_r in *.
        assert (Hrepd : reported sig args = spec_reported cls meth args).
        { apply (reported_spec cls meth sig args Hsig Hk). unfold is_reported. rewrite Hpe. reflexivity. }
        rewrite Hrepd.
        destruct (distinct_mid _ _ _ Hdist) as [Hnot Hdist'].
        pose proof (Hopen _ Hnot) as Hlook. rewrite (rep_assoc_find ch cls meth sfs Ereq) in Hlook.
        assert (Hnm : forall ch', (ch', 60, 40) <> (ch, cls, meth)).
        { intros ch' E. symmetry in E. revert E.
          pose proof (request_key_not_msg ch cls meth ch' 40 Ereq (or_introl eq_refl)) as Hx. rewrite Hmod, N.sub_0_r in Hx. exact Hx. }
        destruct (find_request ch cls (meth + 1) sfs) as [rp|] eqn:Efind; cbn [option_map] in Hlook.
        -- (* its reply waits in the matcher: the pair is emitted *)
           destruct (emit_request_found true (ch, cls, meth) (mid cls meth, spec_reported cls meth args) ms _ Hlook) as (l' & He & Hl').
           rewrite He.
           match goal with |- context [run_frames true fs (?d1, ?m1)] =>
             pose proof (IH (done ++ [(ch, cls, meth)]) CIdle None None d1 m1 Hwfs Hcont Hms) as I1 end.
           rewrite <- app_assoc in I1. specialize (I1 Hdist' (conj eq_refl eq_refl)).
           rewrite I1.
           ++ cbn [items]. rewrite map_app. cbn [map]. rewrite <- app_assoc. reflexivity.
           ++ intros k Hk'. cbn [open_msgs]. rewrite existsb_app in Hk'. apply orb_false_iff in Hk'. destruct Hk' as [Hk1 Hk2].
              cbn [existsb] in Hk2. rewrite orb_false_r, key_eqb_ident in Hk2.
              rewrite Hl'; [apply Hopen; exact Hk1|]. intros ->. rewrite ident_eqb_refl in Hk2. discriminate.
           ++ intros ch'. cbn [open_msgs]. rewrite Hl'; [apply Hmsg|apply Hnm].
        -- (* no reply: the request stays in the matcher *)
           rewrite (emit_store true true _ _ ms Hlook).
           match goal with |- context [run_frames true fs (?d1, ?m1)] =>
             pose proof (IH (done ++ [(ch, cls, meth)]) CIdle None None d1 m1 Hwfs Hcont Hms) as I1 end.
           rewrite <- app_assoc in I1. specialize (I1 Hdist' (conj eq_refl eq_refl)).
           rewrite I1; [reflexivity| |].
           ++ intros k Hk'. cbn [open_msgs]. rewrite existsb_app in Hk'. apply orb_false_iff in Hk'. destruct Hk' as [Hk1 Hk2].
              cbn [existsb] in Hk2. rewrite orb_false_r, key_eqb_ident in Hk2.
              rewrite assoc_app, (Hopen k Hk1). destruct (rep_assoc k sfs); [reflexivity|]. cbn [assoc]. rewrite Hk2. reflexivity.
           ++ intros ch'. cbn [open_msgs]. rewrite assoc_app, Hmsg. cbn [assoc]. rewrite ident_eqb_neq by apply Hnm. reflexivity.
      * (* not a request: nothing emitted *)
        rewrite Hpe.
        match goal with |- context [run_frames true fs (?d1, ms)] => set (d1' := d1) end.
        assert (Hinv' : cinv (if spec_content cls meth then CWantHeader ch else CIdle)
                             (if spec_content cls meth then Some (ch, meth, spec_reported cls meth args) else None) None d1').
        { destruct (spec_content cls meth) eqn:Ec; [|split; reflexivity].
          destruct (content_cases cls meth Ec) as [-> Hcases]. exists meth, (spec_reported 60 meth args). repeat split.
          destruct Hcases as [ -> | [ -> | [ -> | -> ]]]; try discriminate Hd; unfold dmatch_c, d1'; cbn; [|reflexivity|reflexivity].
          repeat split. apply (reported_spec 60 40 sig args Hsig Hk). reflexivity. }
        exact (IH done _ _ None d1' ms Hwfs Hcont Hms Hdist Hinv' Hopen Hmsg).
    + (* content header *)
      cbn [content_ok] in Hcont. destruct cst as [|ch'|]; try discriminate.
      apply andb_prop in Hcont. destruct Hcont as [Hc1 Hcont]. apply andb_prop in Hc1. destruct Hc1 as [Hc1 Hsz2]. apply andb_prop in Hc1. destruct Hc1 as [Hce Hsz1].
      apply N.eqb_eq in Hce. subst ch'.
      destruct Hinv as (m & a & -> & -> & Hdm).
      cbn [spec_client keys] in *. rewrite N.eqb_refl.
      cbn [step]. rewrite (header_props _ _ _ _ _ _ Hwf1).
      unfold dmatch_c in Hdm. destruct (m =? 40) eqn:Em.
      * destruct Hdm as (Hl & Hcur & Hpa). rewrite Hl.
        match goal with |- context [run_frames true fs (?d1, ms)] => set (d1' := d1) end.
        assert (Hinv' : cinv (CWantBody ch size) (Some (ch, m, a)) (Some (spec_props slots spec_zero_props)) d1').
        { exists m, a, (spec_props slots spec_zero_props). repeat split. unfold dmatch_c. rewrite Em. repeat split; assumption. }
        exact (IH done _ _ _ d1' ms Hwfs Hcont Hms Hdist Hinv' Hopen Hmsg).
      * rewrite Hdm.
        assert (Hinv' : cinv (CWantBody ch size) (Some (ch, m, a)) (Some (spec_props slots spec_zero_props)) d).
        { exists m, a, (spec_props slots spec_zero_props). repeat split; [unfold dmatch_c; rewrite Em; exact Hdm|]. intros ->. discriminate. }
        exact (IH done _ _ _ d ms Hwfs Hcont Hms Hdist Hinv' Hopen Hmsg).
    + (* body *)
      cbn [content_ok] in Hcont. destruct cst as [| |ch' size]; try discriminate.
      apply andb_prop in Hcont. destruct Hcont as [Hc1 Hcont]. apply andb_prop in Hc1. destruct Hc1 as [Hce Hsz].
      apply N.eqb_eq in Hce. subst ch'.
      destruct Hinv as (m & a & p & -> & -> & Hdm & Hpp).
      cbn [spec_client keys] in *. rewrite N.eqb_refl. cbn [andb].
      unfold dmatch_c in Hdm. cbn [step]. destruct (m =? 40) eqn:Em.
      * (* a publish: emitted at once *)
        apply N.eqb_eq in Em. subst m. destruct Hdm as (Hl & Hcur & Hpa). rewrite Hl, Hcur, Hpa, (Hpp eq_refl).
        cbn [negb]. rewrite (emit_self_pair true (ch, 60, 40) _ ms (Hmsg ch)).
        match goal with |- context [run_frames true fs (d, ?m1)] =>
          pose proof (IH done CIdle None None d m1 Hwfs Hcont Hms Hdist (conj eq_refl eq_refl)) as I1 end.
        rewrite I1; [|exact Hopen|exact Hmsg].
        cbn [items]. rewrite map_app. cbn [map]. rewrite <- app_assoc. reflexivity.
      * rewrite Hdm. exact (IH done CIdle None None d ms Hwfs Hcont Hms Hdist (conj eq_refl eq_refl) Hopen Hmsg).
Qed.

(* ------------------------------------------------------------------ both halves, server first *)
Theorem step_report_server_first : forall cfs sfs, Forall wf_frame cfs -> Forall wf_frame sfs -> normal cfs sfs = true ->
  map item_view (items (run_both false cfs sfs)) = spec_report_server_first cfs sfs.
Proof.
  intros cfs sfs Hc Hs Hn. unfold normal in Hn.
  apply andb_prop in Hn. destruct Hn as [Hn Hds]. apply andb_prop in Hn. destruct Hn as [Hn Hdc].
  apply andb_prop in Hn. destruct Hn as [Hn Hms]. apply andb_prop in Hn. destruct Hn as [Hn Hmc].
  apply andb_prop in Hn. destruct Hn as [Hcc Hcs].
  destruct (server_first_sim sfs [] CIdle None None init_dstate init_mstate Hs Hcs Hms Hds (conj eq_refl eq_refl) (fun k => eq_refl)) as [I1 I2].
  cbn [app] in I2. cbn [init_mstate items map app] in I1.
  unfold run_both, spec_report_server_first.
  set (ms1 := snd (run_frames false sfs (init_dstate, init_mstate))) in *.
  rewrite (client_second_sim sfs cfs [] CIdle None None init_dstate ms1 Hc Hcc Hmc Hdc (conj eq_refl eq_refl)).
  - rewrite I1. reflexivity.
  - intros k _. apply I2.
  - intros ch. rewrite I2. apply rep_assoc_none_msg. left. reflexivity.
Qed.

(* ------------------------------------------------------------------ the two reports hold the same items *)
(* the item of a request frame c of the client and a frame s of the server that answers it *)
Definition mk_pair (cls m : N) (rq rp : list arg) : sitem :=
  ((cls * 1000 + m, spec_reported cls m rq), (cls * 1000 + (m + 1), spec_reported cls (m + 1) rp)).
Definition mpair (c s : frame) : list sitem :=
  match c, s with
  | FrMethod ch cls meth rq, FrMethod ch' cls' meth' rp =>
      if spec_request cls meth && ((ch =? ch') && (cls =? cls') && (meth + 1 =? meth')) then [mk_pair cls meth rq rp] else []
  | _, _ => []
  end.

Lemma flat_map_nil {A B} (f : A -> list B) l : (forall x, In x l -> f x = []) -> flat_map f l = [].
Proof.
  induction l as [|x l IH]; intros H; [reflexivity|]. cbn [flat_map]. rewrite (H x (or_introl eq_refl)), IH; [reflexivity|].
  intros y Hy. apply H. right. exact Hy.
Qed.

Lemma flat_map_app_perm {B C} (f g : B -> list C) l :
  Permutation (flat_map (fun b => f b ++ g b) l) (flat_map f l ++ flat_map g l).
Proof.
  induction l as [|b l IH]; [constructor|]. cbn [flat_map].
  apply Permutation_trans with ((f b ++ g b) ++ flat_map f l ++ flat_map g l); [apply Permutation_app_head; exact IH|].
  rewrite <- !app_assoc. apply Permutation_app_head. rewrite !app_assoc. apply Permutation_app_tail. apply Permutation_app_comm.
Qed.

Lemma flat_map_swap {A B C} (F : A -> B -> list C) la lb :
  Permutation (flat_map (fun a => flat_map (F a) lb) la) (flat_map (fun b => flat_map (fun a => F a b) la) lb).
Proof.
  induction la as [|a la IH].
  - cbn [flat_map]. rewrite flat_map_nil; [constructor|]. intros; reflexivity.
  - cbn [flat_map]. apply Permutation_trans with (flat_map (F a) lb ++ flat_map (fun b => flat_map (fun a0 => F a0 b) la) lb).
    + apply Permutation_app_head. exact IH.
    + apply Permutation_sym. apply (flat_map_app_perm (F a) (fun b => flat_map (fun a0 => F a0 b) la)).
Qed.

Lemma keys_tail pick f fs : distinct (keys pick (f :: fs)) = true -> distinct (keys pick fs) = true.
Proof.
  destruct f; cbn [keys]; try (intros H; exact H). destruct (pick cls meth); [|intros H; exact H].
  cbn [distinct]. intros H. apply andb_prop in H. destruct H as [_ H]. exact H.
Qed.

Lemma keys_tail_notin pick k f fs : existsb (key_eqb k) (keys pick (f :: fs)) = false -> existsb (key_eqb k) (keys pick fs) = false.
Proof.
  destruct f; cbn [keys]; try (intros H; exact H). destruct (pick cls meth); [|intros H; exact H].
  cbn [existsb]. intros H. apply orb_false_iff in H. destruct H as [_ H]. exact H.
Qed.

Lemma key_eqb_refl k : key_eqb k k = true.
Proof. rewrite key_eqb_ident. apply ident_eqb_refl. Qed.

(* a request whose key no reply of sfs has pairs with no frame of sfs *)
Lemma no_reply_no_pair ch cls meth rq sfs : spec_request cls meth = true ->
  existsb (key_eqb (ch, cls, meth)) (keys spec_reply sfs) = false -> flat_map (mpair (FrMethod ch cls meth rq)) sfs = [].
Proof.
  intros Hr. induction sfs as [|f sfs IH]; intros Hn; [reflexivity|]. cbn [flat_map].
  rewrite (IH (keys_tail_notin _ _ _ _ Hn)), app_nil_r.
  destruct f; try reflexivity. cbn [mpair]. rewrite Hr. cbn [andb].
  destruct ((ch =? ch0) && (cls =? cls0) && (meth + 1 =? meth0)) eqn:E; [|reflexivity].
  apply andb_prop in E. destruct E as [E E3]. apply andb_prop in E. destruct E as [E1 E2].
  apply N.eqb_eq in E1, E2, E3. subst. exfalso.
  pose proof (reply_of_request _ _ Hr) as Hrep. destruct (reply_facts _ _ Hrep) as (_ & _ & Hfam & _).
  cbn [keys] in Hn. rewrite Hrep, Hfam, N.add_sub in Hn. cbn [existsb] in Hn. rewrite key_eqb_refl in Hn. discriminate.
Qed.

(* a reply whose key no request of cfs has pairs with no frame of cfs *)
Lemma no_request_no_pair ch cls meth rp cfs : spec_reply cls meth = true ->
  existsb (key_eqb (ch, cls, meth - 1)) (keys spec_request cfs) = false -> flat_map (fun c => mpair c (FrMethod ch cls meth rp)) cfs = [].
Proof.
  intros Hr. induction cfs as [|f cfs IH]; intros Hn; [reflexivity|]. cbn [flat_map].
  rewrite (IH (keys_tail_notin _ _ _ _ Hn)), app_nil_r.
  destruct f; try reflexivity. cbn [mpair].
  destruct (spec_request cls0 meth0 && ((ch0 =? ch) && (cls0 =? cls) && (meth0 + 1 =? meth))) eqn:E; [|reflexivity].
  apply andb_prop in E. destruct E as [Er0 E]. apply andb_prop in E. destruct E as [E E3]. apply andb_prop in E. destruct E as [E1 E2].
  apply N.eqb_eq in E1, E2, E3. subst. exfalso.
  cbn [keys] in Hn. rewrite Er0, (request_mod _ _ Er0), N.sub_0_r, N.add_sub in Hn. cbn [existsb] in Hn. rewrite key_eqb_refl in Hn. discriminate.
Qed.

Lemma pairs_of_request ch cls meth rq sfs : spec_request cls meth = true -> distinct (keys spec_reply sfs) = true ->
  flat_map (mpair (FrMethod ch cls meth rq)) sfs =
  match find_request ch cls (meth + 1) sfs with Some rp => [mk_pair cls meth rq rp] | None => [] end.
Proof.
  intros Hr. induction sfs as [|f sfs IH]; intros Hd; [reflexivity|]. cbn [flat_map].
  pose proof (IH (keys_tail _ _ _ Hd)) as IH'.
  destruct f; cbn [find_request]; try exact IH'. cbn [mpair]. rewrite Hr. cbn [andb].
  destruct ((ch =? ch0) && (cls =? cls0) && (meth + 1 =? meth0)) eqn:E; [|exact IH'].
  apply andb_prop in E. destruct E as [E E3]. apply andb_prop in E. destruct E as [E1 E2].
  apply N.eqb_eq in E1, E2, E3. subst.
  rewrite no_reply_no_pair; [reflexivity|exact Hr|].
  pose proof (reply_of_request _ _ Hr) as Hrep. destruct (reply_facts _ _ Hrep) as (_ & _ & Hfam & _).
  cbn [keys] in Hd. rewrite Hrep, Hfam, N.add_sub in Hd. cbn [distinct] in Hd. apply andb_prop in Hd. destruct Hd as [Hd _].
  apply negb_true_iff in Hd. exact Hd.
Qed.

Lemma pairs_of_reply ch cls meth rp cfs : spec_reply cls meth = true -> distinct (keys spec_request cfs) = true ->
  flat_map (fun c => mpair c (FrMethod ch cls meth rp)) cfs =
  match find_request ch cls (meth - 1) cfs with Some rq => [mk_pair cls (meth - 1) rq rp] | None => [] end.
Proof.
  intros Hr. pose proof (reply_ge1 _ _ Hr) as H1. destruct (reply_facts _ _ Hr) as (_ & Hrq & _ & _).
  induction cfs as [|f cfs IH]; intros Hd; [reflexivity|]. cbn [flat_map].
  pose proof (IH (keys_tail _ _ _ Hd)) as IH'.
  destruct f; cbn [find_request]; try exact IH'. cbn [mpair].
  destruct ((ch =? ch0) && (cls =? cls0) && (meth - 1 =? meth0)) eqn:E.
  - apply andb_prop in E. destruct E as [E E3]. apply andb_prop in E. destruct E as [E1 E2].
    apply N.eqb_eq in E1, E2, E3. subst. rewrite Hrq, !N.eqb_refl. cbn [andb].
    replace (meth - 1 + 1 =? meth) with true by (symmetry; apply N.eqb_eq; lia).
    rewrite no_request_no_pair; [reflexivity|exact Hr|].
    cbn [keys] in Hd. rewrite Hrq, (request_mod _ _ Hrq), N.sub_0_r in Hd. cbn [distinct] in Hd. apply andb_prop in Hd. destruct Hd as [Hd _].
    apply negb_true_iff in Hd. exact Hd.
  - destruct (spec_request cls0 meth0 && ((ch0 =? ch) && (cls0 =? cls) && (meth0 + 1 =? meth))) eqn:E'; [|exact IH'].
    exfalso. apply andb_prop in E'. destruct E' as [_ E']. apply andb_prop in E'. destruct E' as [E' E3]. apply andb_prop in E'. destruct E' as [E1 E2].
    apply N.eqb_eq in E1, E2, E3. subst. rewrite !N.eqb_refl, N.add_sub, N.eqb_refl in E. discriminate.
Qed.

Lemma mpair_not_request c sfs : match c with FrMethod _ cls meth _ => spec_request cls meth = false | _ => True end ->
  flat_map (mpair c) sfs = [].
Proof.
  intros H. apply flat_map_nil. intros s _. destruct c; try reflexivity. cbn [mpair]. destruct s; try reflexivity. rewrite H. reflexivity.
Qed.

Lemma mpair_not_reply s cfs : match s with FrMethod _ cls meth _ => spec_reply cls meth = false | _ => True end ->
  flat_map (fun c => mpair c s) cfs = [].
Proof.
  intros H. apply flat_map_nil. intros c _. destruct c; try reflexivity. cbn [mpair]. destruct s; try reflexivity.
  destruct (spec_request cls meth && ((ch =? ch0) && (cls =? cls0) && (meth + 1 =? meth0))) eqn:E; [|reflexivity].
  exfalso. apply andb_prop in E. destruct E as [Er E]. apply andb_prop in E. destruct E as [E E3]. apply andb_prop in E. destruct E as [E1 E2].
  apply N.eqb_eq in E1, E2, E3. subst. rewrite (reply_of_request _ _ Er) in H. discriminate.
Qed.

(* the report of the client direction = its pairs + its publishes *)
Lemma spec_client_split sfs : distinct (keys spec_reply sfs) = true -> forall cfs cu pr,
  Permutation (spec_client cfs sfs cu pr) (flat_map (fun c => flat_map (mpair c) sfs) cfs ++ spec_messages 40 cfs cu pr).
Proof.
  intros Hd. induction cfs as [|f cfs IH]; intros cu pr; [constructor|]. cbn [flat_map].
  destruct f as [|hch|ch cls meth args|ch cls weight size flags slots|ch body].
  - rewrite mpair_not_request by exact I. cbn [spec_client spec_messages app]. apply IH.
  - rewrite mpair_not_request by exact I. cbn [spec_client spec_messages app]. apply IH.
  - cbn [spec_client spec_messages]. destruct (spec_request cls meth) eqn:Er.
    + rewrite (pairs_of_request ch cls meth args sfs Er Hd).
      destruct (find_request ch cls (meth + 1) sfs) as [rp|]; cbn [app]; [apply perm_skip|]; apply IH.
    + rewrite mpair_not_request by exact Er. cbn [app]. apply IH.
  - rewrite mpair_not_request by exact I. cbn [spec_client spec_messages app].
    destruct cu as [[[ch' m] a]|]; [destruct (ch =? ch')|]; apply IH.
  - rewrite mpair_not_request by exact I. cbn [spec_client spec_messages app].
    destruct cu as [[[ch' m] a]|]; [|apply IH]. destruct pr as [p|]; [|apply IH].
    destruct ((ch =? ch') && (m =? 40)) eqn:E; [|apply IH].
    apply andb_prop in E. destruct E as [_ E]. apply N.eqb_eq in E. subst m.
    apply Permutation_cons_app. apply IH.
Qed.

(* the report of the server direction = its pairs + its deliveries *)
Lemma spec_server_split cfs : distinct (keys spec_request cfs) = true -> forall sfs cu pr,
  Permutation (spec_server sfs cfs cu pr) (flat_map (fun s => flat_map (fun c => mpair c s) cfs) sfs ++ spec_messages 60 sfs cu pr).
Proof.
  intros Hd. induction sfs as [|f sfs IH]; intros cu pr; [constructor|]. cbn [flat_map].
  destruct f as [|hch|ch cls meth args|ch cls weight size flags slots|ch body].
  - rewrite mpair_not_reply by exact I. cbn [spec_server spec_messages app]. apply IH.
  - rewrite mpair_not_reply by exact I. cbn [spec_server spec_messages app]. apply IH.
  - cbn [spec_server spec_messages]. fold (spec_reply cls meth). destruct (spec_reply cls meth) eqn:Er.
    + rewrite (pairs_of_reply ch cls meth args cfs Er Hd). pose proof (reply_ge1 _ _ Er) as H1.
      destruct (find_request ch cls (meth - 1) cfs) as [rq|]; cbn [app]; [|apply IH].
      unfold mk_pair. rewrite (N.sub_add 1 meth H1). apply perm_skip. apply IH.
    + rewrite mpair_not_reply by exact Er. cbn [app]. apply IH.
  - rewrite mpair_not_reply by exact I. cbn [spec_server spec_messages app].
    destruct cu as [[[ch' m] a]|]; [destruct (ch =? ch')|]; apply IH.
  - rewrite mpair_not_reply by exact I. cbn [spec_server spec_messages app].
    destruct cu as [[[ch' m] a]|]; [|apply IH]. destruct pr as [p|]; [|apply IH].
    destruct ((ch =? ch') && (m =? 60)) eqn:E; [|apply IH].
    apply andb_prop in E. destruct E as [_ E]. apply N.eqb_eq in E. subst m.
    apply Permutation_cons_app. apply IH.
Qed.

(* purely about the two specifications: in normal form they list the same items *)
Theorem spec_report_orders : forall cfs sfs, normal cfs sfs = true ->
  Permutation (spec_report_server_first cfs sfs) (spec_report cfs sfs).
Proof.
  intros cfs sfs Hn. unfold normal in Hn.
  apply andb_prop in Hn. destruct Hn as [Hn Hds]. apply andb_prop in Hn. destruct Hn as [_ Hdc].
  unfold spec_report_server_first, spec_report.
  set (M40 := spec_messages 40 cfs None None). set (M60 := spec_messages 60 sfs None None).
  set (PC := flat_map (fun c => flat_map (mpair c) sfs) cfs).
  set (PS := flat_map (fun s => flat_map (fun c => mpair c s) cfs) sfs).
  apply Permutation_trans with (M60 ++ PC ++ M40); [apply Permutation_app_head; apply (spec_client_split sfs Hds)|].
  apply Permutation_trans with (M40 ++ PS ++ M60); [|apply Permutation_app_head; apply Permutation_sym; apply (spec_server_split cfs Hdc)].
  apply Permutation_trans with ((PC ++ M40) ++ M60); [apply Permutation_app_comm|].
  rewrite <- app_assoc.
  apply Permutation_trans with (PS ++ M40 ++ M60); [apply Permutation_app_tail; apply flat_map_swap|].
  apply Permutation_app_swap_app.
Qed.

(* ------------------------------------------------------------------ ConnectionInfo: never swapped, whatever the order *)
Definition unswapped (ms : mstate) : Prop := Forall (fun it => it_swapped it = false) (items ms).

Lemma emit_unswapped by_c rq id m ms : unswapped ms -> unswapped (emit by_c rq id m ms).
Proof.
  unfold unswapped, emit. intros H. destruct (lookup_del id (open_msgs ms)) as [[[o_req o]|] rest]; [|exact H].
  destruct (Bool.eqb o_req rq); [exact H|]. cbn [items]. apply Forall_app. split; [exact H|]. repeat constructor.
Qed.

Lemma step_unswapped c f d ms : unswapped ms -> unswapped (snd (step c f d ms)).
Proof.
  intros H. destruct f; cbn [step].
  - exact H.
  - exact H.
  - destruct ((cls =? 10) && ((meth =? 10) || (meth =? 30))); [cbn [snd]; repeat apply emit_unswapped; exact H|].
    destruct (plain_emit cls meth); cbn [snd]; [apply emit_unswapped|]; exact H.
  - destruct (last d); exact H.
  - destruct (last d); cbn [snd]; try exact H; repeat apply emit_unswapped; exact H.
Qed.

Lemma dissect_unswapped : forall fuel c st d ms, unswapped ms -> unswapped (snd (dissect fuel c st d ms)).
Proof.
  induction fuel as [|fuel IH]; intros c st d ms H; [exact H|]. cbn [dissect].
  destruct (read_frame st) as [[f|e|p|] st1].
  - pose proof (step_unswapped c f d ms H) as Hs. destruct (step c f d ms) as [d1 ms1]. apply IH. exact Hs.
  - destruct e; try exact H. apply IH. exact H.
  - exact H.
  - exact H.
Qed.

Theorem both_unswapped : forall b c s, unswapped (snd (dissect_both b c s)).
Proof.
  intros b c s. unfold dissect_both. destruct b.
  - pose proof (dissect_unswapped (dissect_fuel c) true c init_dstate init_mstate (Forall_nil _)) as H1.
    destruct (dissect (dissect_fuel c) true c init_dstate init_mstate) as [oc m1].
    pose proof (dissect_unswapped (dissect_fuel s) false s init_dstate m1 H1) as H2.
    destruct (dissect (dissect_fuel s) false s init_dstate m1) as [os m2]. exact H2.
  - pose proof (dissect_unswapped (dissect_fuel s) false s init_dstate init_mstate (Forall_nil _)) as H1.
    destruct (dissect (dissect_fuel s) false s init_dstate init_mstate) as [os m1].
    pose proof (dissect_unswapped (dissect_fuel c) true c init_dstate m1 H1) as H2.
    destruct (dissect (dissect_fuel c) true c init_dstate m1) as [oc m2]. exact H2.
Qed.

(* ------------------------------------------------------------------ the statements *)
(* server half first: clean ends, the items as a multiset are those of spec_report, and in
   order they are spec_report_server_first *)
Theorem C05_server_first_holds : forall cfs sfs, Forall wf_frame cfs -> Forall wf_frame sfs -> normal cfs sfs = true ->
  let '(oc, os, ms) := dissect_both false {| sdata := enc_frames cfs; stail := TEof |} {| sdata := enc_frames sfs; stail := TEof |} in
  oc = OEof /\ os = OEof /\ Permutation (map item_view (items ms)) (spec_report cfs sfs)
  /\ map item_view (items ms) = spec_report_server_first cfs sfs.
Proof.
  intros cfs sfs Hc Hs Hn. rewrite (report_frames_any false cfs sfs TEof TEof Hc Hs). cbn [end_outcome].
  rewrite (step_report_server_first cfs sfs Hc Hs Hn). repeat split. apply spec_report_orders. exact Hn.
Qed.

(* either order: clean ends and the same items *)
Theorem C05_any_order_holds : forall b cfs sfs, Forall wf_frame cfs -> Forall wf_frame sfs -> normal cfs sfs = true ->
  let '(oc, os, ms) := dissect_both b {| sdata := enc_frames cfs; stail := TEof |} {| sdata := enc_frames sfs; stail := TEof |} in
  oc = OEof /\ os = OEof /\ Permutation (map item_view (items ms)) (spec_report cfs sfs).
Proof.
  intros b cfs sfs Hc Hs Hn. destruct b.
  - pose proof (C05_statement_holds cfs sfs Hc Hs Hn) as H.
    destruct (dissect_both true _ _) as [[oc os] ms]. destruct H as (H1 & H2 & H3). rewrite H3. repeat split; try assumption. apply Permutation_refl.
  - pose proof (C05_server_first_holds cfs sfs Hc Hs Hn) as H.
    destruct (dissect_both false _ _) as [[oc os] ms]. destruct H as (H1 & H2 & H3 & _). repeat split; assumption.
Qed.
